(* C01: mount brings a layer stack to exactly its configured mounts, only as needed. *)
From LC Require Import Lib.Bytes Lib.Lex Lib.Fields Lib.PathM Gen.Consts
  Model.MountInfo Model.FsTree Model.Kernel Model.Layers Cases.Verdict Cases.LC.
Open Scope N_scope.
Import LC LCS.

Module C01.
Definition case := LC.case.

(* after a successful mount: every configured mountpoint of every layer of the chain carries
   exactly one mount (or as many as somebody had stacked there by hand before: [tab0] is the
   table before the command), and the top one is of the right kind and source *)
Definition mount_post (c : cfgT) (f : fsT) (m : lmap) (ch : list layer) (tab0 tab : list kline) : bool :=
  forallb (fun x =>
    forallb (fun em =>
      (count_at tab (em_target em) =? Nat.max 1 (count_at tab0 (em_target em)))%nat
      && match top_at tab (em_target em) with
         | Some k => if em_overlay em then is_right_overlay c m x k
                     else shows_source tab k (em_source em) (em_fstype em)
         | None => false
         end) (expected_mounts c ch x)) ch.

(* recursive binds of /dev, /sys, /run are followed at once by the recursive-slave call; no
   other propagation call exists *)
Fixpoint propagation_ok (failed_last : bool) (calls : list op) : bool :=
  match calls with
  | [] => true
  | OMount s t ty fl d :: r =>
    if has_flag fl MS_SLAVE then false       (* a slave call not consumed by the clause below *)
    else if memb s propagation_sources then
      match r with
      | OMount s2 t2 _ fl2 _ :: r' =>
        if has_flag fl2 MS_SLAVE
        then beq s2 [] && beq t2 t && (fl2 =? MS_SLAVE + MS_REC) && propagation_ok failed_last r'
        else negb (has_flag fl MS_BIND && has_flag fl MS_REC) && propagation_ok failed_last r
      | [] => failed_last                    (* the mount itself failed and ended the command *)
      | _ => negb (has_flag fl MS_BIND && has_flag fl MS_REC) && propagation_ok failed_last r
      end
    else propagation_ok failed_last r
  | _ :: r => propagation_ok failed_last r
  end.

Definition step_spec (c : cfgT) (w : wobs) (v : sview) : bool :=
  match v_cmd v with
  | CMount n =>
    if negb (plain_env (v_env v)) then true else
    let f := wo_fs w in let w' := v_after v in
    let m := layers_on_disk c f in
    let ch := chain c f n in
    let exp := expected_chain_mounts c ch in
    let calls := syscalls (v_log v) in
    (* whatever the outcome: ordering, propagation, nothing stacked, nothing outside *)
    subseq (mount_targets calls) (map em_target exp)
    && propagation_ok (rclass_beq (v_res v) RFail) calls
    && replay_calls (wo_fs w') (wo_ks w) calls (fun ks o =>
         match o with
         | OMount _ t _ fl _ =>
           if has_flag fl MS_SLAVE then true
           else negb (mounted_at (ks_tab ks) t)
                && existsb (fun x => at_or_under (build_path c x) t) ch
         | OUmount _ _ => false
         | _ => true
         end)
    && match v_res v with
       | ROk => mount_post c f m ch (ks_tab (wo_ks w)) (ks_tab (wo_ks w'))
       | _ => true
       end
  | _ => true
  end.

Definition spec (c : case) : bool := along_views (step_spec (c_cfg c)) (w0 c) (c_steps c).
Definition wf := LC.wf.
(* known finding 1: a recursive-bind import whose mountpoint lies ABOVE the mountpoint of
   another import of the same layer (earlier or later in the configuration): the kernel copies
   the submounts of the host source -- stacked ones included -- onto that other mountpoint, on
   top of the earlier import or in place of the later one *)
Definition rbind_over_other (x : layer) : bool :=
  existsb (fun nm => beq (nm_fstype nm) (bs "rbind")
                     && existsb (fun other => under (nm_mount nm) (nm_mount other)) (l_mounts x))
          (l_mounts x).
Definition kf (c : case) : N :=
  if existsb rbind_over_other (layers_on_disk (c_cfg c) (c_fs0 c)) then 1 else 0.
Definition verdict (c : case) : N := mkverdict (wf c) (LC.corr c) (spec c) (kf c).
End C01.
