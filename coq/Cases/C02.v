(* C02: the layer hierarchy stays a well-formed forest and every command terminates. *)
From LC Require Import Lib.Bytes Lib.Lex Lib.Fields Lib.PathM Gen.Consts
  Model.MountInfo Model.FsTree Model.Kernel Model.Layers Cases.Verdict Cases.LC.
Open Scope N_scope.
Import LC LCS.

Module C02.
Definition case := LC.case.

(* the forest as a fresh FindLayers reads it from disk *)
Definition forest_ok (c : cfgT) (f : fsT) : bool :=
  let m := read_layer_files c f in
  check_inheritance m && match normalize_order m with Some _ => true | None => false end.

Definition layers_of (c : cfgT) (f : fsT) : lmap := read_layer_files c f.
Definition exists_layer (m : lmap) (n : bytes) : bool := match lm_get m n with Some _ => true | None => false end.
Definition usable_name (n : bytes) : bool := negb (beq n []) && legal_name n.

(* requests the property says must be refused *)
Definition breaking (c : cfgT) (f : fsT) (cmd : command) : bool :=
  let m := layers_of c f in
  match cmd with
  | CAdd n b0 _ => negb (usable_name n) || exists_layer m n
                   || (negb (beq b0 []) && (negb (usable_name b0) || negb (exists_layer m b0) || beq b0 n))
  | CRename a n => negb (usable_name a) || negb (exists_layer m a) || negb (usable_name n) || exists_layer m n
  | CRebase a b0 => negb (usable_name a) || negb (exists_layer m a)
                    || (negb (beq b0 []) && (negb (usable_name b0) || negb (exists_layer m b0)
                                              || descends (S (length m)) m a b0))
  | CRemove a _ => negb (usable_name a) || negb (exists_layer m a) || has_child m a
  | _ => false
  end.

Definition delta_empty (d : delta) : bool :=
  match d_removed d, d_upsert d with [], [] => true | _, _ => false end.

Definition lf_beq (a b : lfile) : bool :=
  beq (lf_base a) (lf_base b) && list_beq nmount_beq (lf_mounts a) (lf_mounts b)
  && list_beq nmount_beq (lf_exports a) (lf_exports b).
Definition lfile_at (f : fsT) (p : bytes) : option lfile :=
  match read_file f p with Some x => Some (read_layerfile x) | None => None end.
Definition with_base (lf : lfile) (b0 : bytes) : lfile := MkLF b0 (lf_mounts lf) (lf_exports lf) (lf_errors lf).

(* successful rename: content kept under the new name, exactly the children retargeted,
   nothing else in the layers directory changed *)
(* a temporary file of a layerconfig left by an interrupted earlier run (consumed by a rewrite) *)
Definition is_lc_tmp (p : bytes) : bool := beq (pathbase p) (D_LayerconfigFile ++ tmp_suffix).

Definition rename_exact (c : cfgT) (f f' : fsT) (a n : bytes) : bool :=
  let pa := layer_path c a in let pn := layer_path c n in
  let cfa := pathjoin [pa; D_LayerconfigFile] in let cfn := pathjoin [pn; D_LayerconfigFile] in
  let m := layers_of c f in
  (* nothing is left under the old name *)
  negb (existsb (fun e => at_or_under pa (fst e)) f')
  (* every entry of the old tree other than its layerconfig is identical under the new name *)
  && forallb (fun e => if at_or_under pa (fst e) && negb (beq (fst e) cfa) && negb (is_lc_tmp (fst e))
                       then opt_beq node_beq (fs_get f' (pn ++ rel_suffix pa (fst e))) (Some (snd e))
                       else true) f
  (* nothing new appeared under the new name *)
  && forallb (fun e => if at_or_under pn (fst e) && negb (beq (fst e) cfn)
                       then opt_beq node_beq (fs_get f (pa ++ rel_suffix pn (fst e))) (Some (snd e))
                       else true) f'
  (* the renamed layer's own definition is unchanged *)
  && opt_beq lf_beq (lfile_at f' cfn) (lfile_at f cfa)
  (* every other layer: same definition, base retargeted iff it was a child *)
  && forallb (fun l =>
       if beq (l_name l) a then true else
       let cf := layerconfig_path l in
       match lfile_at f cf, lfile_at f' cf with
       | Some o, Some o' => lf_beq o' (if beq (lf_base o) a then with_base o n else o)
       | _, _ => false
       end) m
  (* everything else under the layers directory is untouched *)
  && forallb (fun e =>
       if at_or_under (c_layers c) (fst e) && negb (at_or_under pa (fst e))
          && negb (existsb (fun l => beq (fst e) (layerconfig_path l)) m) && negb (is_lc_tmp (fst e))
       then opt_beq node_beq (fs_get f' (fst e)) (Some (snd e)) else true) f
  && forallb (fun e =>
       if at_or_under (c_layers c) (fst e) && negb (at_or_under pn (fst e))
       then exists_ f (fst e) else true) f'.

(* successful rebase: exactly that layer's parent changed *)
Definition rebase_exact (c : cfgT) (f f' : fsT) (a b0 : bytes) : bool :=
  let cfa := pathjoin [layer_path c a; D_LayerconfigFile] in
  (* a temporary file left by an interrupted earlier run is consumed by the rewrite *)
  forallb (fun e => if beq (fst e) cfa || beq (fst e) (cfa ++ tmp_suffix) then true
                    else opt_beq node_beq (fs_get f' (fst e)) (Some (snd e))) f
  && forallb (fun e => exists_ f (fst e)) f'
  && match lfile_at f cfa, lfile_at f' cfa with
     | Some o, Some o' => lf_beq o' (with_base o b0)
     | _, _ => false
     end.

Definition step_spec (c : cfgT) (w : wobs) (v : sview) : bool :=
  let f := wo_fs w in let w' := v_after v in let f' := wo_fs w' in
  let plain := negb (e_pretend (v_env v)) && match e_fault (v_env v) with NoFault => true | _ => false end in
  (* every command returns *)
  match v_res v with RDiverge | RPanic => false | _ => true end
  (* the forest stays a forest *)
  && (negb (forest_ok c f) || forest_ok c f')
  (* breaking requests are refused and change nothing *)
  && (negb (forest_ok c f && base_set_up c f && breaking c f (v_cmd v))
      || (rclass_beq (v_res v) RFail && unchanged w v))
  (* exact effect of successful rename / rebase *)
  && (negb plain ||
      match v_cmd v, v_res v with
      | CRename a n, ROk => rename_exact c f f' a n
      | CRebase a b0, ROk => rebase_exact c f f' a b0
      | _, _ => true
      end)
  (* the installation can always be listed: a plain listing command (CProbe: what `layercake list`
     and `status` run, FindLayers + ProbeAllLayerstate) succeeds.  Preconditions, each because the
     code refuses otherwise: base_set_up -- every command starts with CheckBaseSetUp (base, layers,
     exports directories and the skeleton file); forest_ok -- FindLayers ends with checkInheritance
     and fails on a layer whose base chain is broken or cyclic.  Nothing is asked of the kernel
     table: ProbeMounts parses every table the kernel renders (C02_probe_total).  Names outside the
     modelled bytes are excluded by LC.wf for the whole case, not here. *)
  && (negb (plain && forest_ok c f && base_set_up c f)
      || match v_cmd v with CProbe => rclass_beq (v_res v) ROk | _ => true end).

Definition spec (c : case) (steps : list step) : bool := along_views (step_spec (c_cfg c)) (w0 c) steps.
Definition wf := LC.wf.
Definition kf (c : case) : N := 0.
Definition model (c : case) : bool := LC.corr c.      (* the model reproduces every step *)
Definition verdict (c : case) : N := mkverdict (wf c) (LC.corr c) (spec c (c_steps c)) (kf c).
End C02.
