(* C03: unmount removes all of a layer's mounts, deepest first, and nothing else. *)
From LC Require Import Lib.Bytes Lib.Lex Lib.Fields Lib.PathM Gen.Consts
  Model.MountInfo Model.FsTree Model.Kernel Model.Layers Cases.Verdict Cases.LC.
Open Scope N_scope.
Import LC LCS.

Module C03.
Definition case := LC.case.

Definition busy_for_umount (c : cfgT) (tab : list kline) (um : users_map) (x : layer) : bool :=
  existsb (in_mount_dirs c) (users_of um (l_name x)) || overlain_by_mount c tab x.

(* every unmount call hits a current mountpoint inside one of the allowed build roots that has
   nothing mounted beneath it at that moment *)
Definition calls_legal (f : fsT) (ks : kstate) (calls : list op) (roots : list bytes) : bool :=
  replay_calls f ks calls (fun ks o =>
    match o with
    | OUmount t _ =>
      mounted_at (ks_tab ks) t
      && existsb (fun d => at_or_under d t) roots
      && negb (existsb (fun k => under t (k_mp k)) (ks_tab ks))
    | OMount _ _ _ _ _ => false
    | _ => true
    end).

(* host mounts and other layers' mounts are untouched *)
Definition frame (roots : list bytes) (before after_ : list kline) : bool :=
  let outside := fun k => negb (existsb (fun d => at_or_under d (k_mp k)) roots) in
  ktab_beq (filter outside before) (filter outside after_).

(* which layer's build root contains the mountpoint *)
Definition owner (c : cfgT) (m : lmap) (t : bytes) : bytes :=
  match filter (fun x => at_or_under (build_path c x) t) m with x :: _ => l_name x | [] => [] end.
Fixpoint dedup_adj (l : list bytes) : list bytes :=
  match l with
  | [] => []
  | x :: r => match r with
              | y :: _ => if beq x y then dedup_adj r else x :: dedup_adj r
              | [] => [x]
              end
  end.
(* in the sequence of owners no layer appears twice and none comes after one of its ancestors *)
Fixpoint descendants_first (m : lmap) (owners : list bytes) : bool :=
  match owners with
  | [] => true
  | x :: r =>
    negb (memb x r)
    && forallb (fun y => negb (negb (beq x y) && descends (S (length m)) m x y)) r
    && descendants_first m r
  end.

Definition step_spec (c : cfgT) (w : wobs) (v : sview) : bool :=
  match v_cmd v with
  | CUmount n all =>
    if negb (plain_env (v_env v)) then true else
    let f := wo_fs w in let w' := v_after v in
    let m := layers_on_disk c f in
    if negb (base_set_up c f && check_inheritance m) then unchanged w v else
    let tab := ks_tab (wo_ks w) in let tab' := ks_tab (wo_ks w') in
    let calls := syscalls (v_log v) in
    match n, all with
    | [], false =>
      (* names neither a layer nor -all: fails, changes nothing *)
      rclass_beq (v_res v) RFail && unchanged w v && match calls with [] => true | _ => false end
    | _ :: _, false =>
      match lm_get m n with
      | None => true
      | Some x =>
        let bld := build_path c x in
        calls_legal f (wo_ks w) calls [bld]
        && frame [bld] tab tab'
        && match v_res v with
           | ROk => negb (any_at_or_under tab' bld)
           | _ => true
           end
      end
    | [], true =>
      let roots := map (build_path c) m in
      calls_legal f (wo_ks w) calls roots
      && frame roots tab tab'
      && descendants_first m (dedup_adj (map (owner c m) (umount_targets calls)))
      (* a layer that a mounted derived layer still sits on at the end was not touched *)
      && forallb (fun x => negb (overlain_by_mount c tab' x)
                           || negb (existsb (fun t => at_or_under (build_path c x) t) (umount_targets calls))) m
      && match v_res v with
         | ROk =>
           (* success: no layer was busy and every layer ends unmounted *)
           forallb (fun x => negb (existsb (in_mount_dirs c) (users_of (v_users v) (l_name x)) && has_mounts c tab x)
                             && negb (any_at_or_under tab' (build_path c x))) m
         | RFail =>
           (* busy layers are skipped and reported; every layer still mounted at the end is busy *)
           forallb (fun x => negb (any_at_or_under tab' (build_path c x))
                             || busy_for_umount c tab' (v_users v) x) m
         | _ => true
         end
    | _, _ => true
    end
  | _ => true
  end.

Definition spec (c : case) : bool := along_views (step_spec (c_cfg c)) (w0 c) (c_steps c).
Definition wf := LC.wf.

(* known finding 1: umount -all (plain environment) fails in a world where a mount at or below
   some layer's build root is covered by a LATER mount on one of its ancestor directories
   (Model/Kernel.v: hidden_at, nocov): layercake unmounts a layer's mounts in descending path
   order, so it calls umount(2) on the covered (deeper) mountpoint first, the call fails (the path
   resolves through the cover), and the command stops with an idle layer still mounted --
   although unmounting the cover first would have worked. *)
Definition covered_below (c : cfgT) (m : lmap) (tab : list kline) : bool :=
  negb (nocov (fun k => existsb (fun d => at_or_under d (k_mp k)) (map (build_path c) m)) tab).
Definition step_kf (c : cfgT) (w : wobs) (v : sview) : N :=
  match v_cmd v with
  | CUmount [] true =>
    if plain_env (v_env v) && rclass_beq (v_res v) RFail
       && covered_below c (layers_on_disk c (wo_fs w)) (ks_tab (wo_ks w))
    then 1 else 0
  | _ => 0
  end.
Fixpoint kf_along (c : cfgT) (w : wobs) (ss : list step) : N :=
  match ss with
  | [] => 0
  | s :: r => N.max (step_kf c w (view_of_obs w s)) (kf_along c (after w s) r)
  end.
Definition kf (c : case) : N := kf_along (c_cfg c) (w0 c) (c_steps c).
Definition verdict (c : case) : N := mkverdict (wf c) (LC.corr c) (spec c) (kf c).
End C03.
