(* C04: layers that are mounted, in use or overlain are protected from change. *)
From LC Require Import Lib.Bytes Lib.Lex Lib.Fields Lib.PathM Gen.Consts
  Model.MountInfo Model.FsTree Model.Kernel Model.Layers Cases.Verdict Cases.LC.
Open Scope N_scope.
Import LC LCS.

Module C04.
Definition case := LC.case.

(* any mount at or below the build root, any process using the layer, or lower layer of a
   mounted overlay *)
Definition protected (c : cfgT) (tab : list kline) (um : users_map) (x : layer) : bool :=
  has_mounts c tab x
  || (match users_of um (l_name x) with [] => false | _ => true end)
  || overlain_by_mount c tab x.

Definition refused_unchanged (w : wobs) (v : sview) : bool :=
  rclass_beq (v_res v) RFail && unchanged w v
  && match v_log v with [] => true | _ => false end.

Definition step_spec (c : cfgT) (w : wobs) (v : sview) : bool :=
  if negb (plain_env (v_env v)) then true else
  let f := wo_fs w in
  let m := layers_on_disk c f in
  (* no installation to speak of (base directories or skeleton missing, layers unreadable):
     every command fails before it looks at any layer *)
  if negb (base_set_up c f && check_inheritance m) then true else
  let tab := ks_tab (wo_ks w) in
  let um := v_users v in
  let target_or_child_protected (n : bytes) (with_children : bool) :=
    match lm_get m n with
    | None => false
    | Some x => protected c tab um x
                || (with_children && existsb (fun k => beq (l_base k) n && protected c tab um k) m)
    end in
  match v_cmd v with
  | CRemove n _ => negb (target_or_child_protected n false) || refused_unchanged w v
  | CRename n _ => negb (target_or_child_protected n true) || refused_unchanged w v
  | CRebase n _ => negb (target_or_child_protected n true) || refused_unchanged w v
  | CUmount n false =>
    match lm_get m n with
    | None => true
    | Some x =>
      let blocked := existsb (in_mount_dirs c) (users_of um n) || overlain_by_mount c tab x in
      if blocked then refused_unchanged w v
      else
        (* users elsewhere in the layer directory do not block: a mounted layer gets unmounted *)
        negb (has_mounts c tab x) || negb (rclass_beq (v_res v) RFail)
             || negb (match syscalls (v_log v) with [] => true | _ => false end)
    end
  | CUmount [] true =>
    (* no blocked layer is touched *)
    forallb (fun x =>
      let blocked := existsb (in_mount_dirs c) (users_of um (l_name x)) || overlain_by_mount c tab x in
      negb blocked
      || negb (existsb (fun t => at_or_under (build_path c x) t) (umount_targets (v_log v)))
      || (* a parent freed by the unmount of its child in the same run may be unmounted: it has
            no user in its mount directories and no overlay sits on it any more at the end *)
         (negb (existsb (in_mount_dirs c) (users_of um (l_name x)))
          && negb (overlain_by_mount c (ks_tab (wo_ks (v_after v))) x))) m
  | _ => true
  end.

Definition spec (c : case) : bool := along_views (step_spec (c_cfg c)) (w0 c) (c_steps c).
Definition wf := LC.wf.
Definition kf (c : case) : N := 0.
Definition verdict (c : case) : N := mkverdict (wf c) (LC.corr c) (spec c) (kf c).
End C04.
