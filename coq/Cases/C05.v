(* C05: case type, model observation, specification predicate, verdict. *)
From LC Require Import Lib.Bytes Lib.Lex Lib.Fields Lib.PathM Model.Resolve Model.Profile Cases.Verdict.
From LC Require Model.AtomMatch Model.PMSGrammar.   (* qualified use only: slot_comparable, is_pms_version *)

Module C05.
(* what the implementation did: in process (profile.ReadSystemSet + Add of the user atoms;
   vdb.StartSolution/ResolveUserDeps + SortedAtoms) and at process level
   (stagemaker -list system / -list stage: exit status and stdout lines) *)
Record obs := MkObs {
  o_sys : res (list bytes); o_stage : res (list bytes);
  o_bin_sys : res (list bytes); o_bin_stage : res (list bytes);
  o_bin_stage2 : res (list bytes);      (* the same tree built again in the reverse directory-creation order on another file system *)
  (* what the implementation's own reading of the database directory produced (round 5b): *)
  o_listed : list bytes;                (* fs.Readdirnames of var/db/pkg and of every category below it: the entries
                                           as category/entry, sorted *)
  o_loaded : list (bytes * (bytes * bytes)) }.
                                        (* vdb.GetInstalledPackageList: (String(), PackageName(), GetSlot()) of every
                                           member of the AtomSet it returned, sorted *)
Record case := MkCase {
  c_root : bytes;                 (* the build root (absolute) *)
  c_fs : pfs;                     (* the profile tree *)
  c_profile : bytes;              (* the profile directory handed to ReadSystemSet *)
  c_dict : dict;                  (* oracle: atom string -> depend.NewDependencyAtom + installed matches *)
  c_atoms : list bytes;           (* -atoms *)
  c_vdb : list pkg;               (* the installed-package database AS THE GENERATOR WROTE IT, sorted by
                                     category/name-version: directory names, the package name (PF without its PMS
                                     version) and the slot key (SLOT text before "/") are derived by the harness
                                     from its own input -- tied to PF and to the SLOT text by db_tied below --,
                                     not by the loader under test (whose reading is the observation o_loaded) *)
  c_enum : list N;                (* oracle: the ORDER in which the directories were enumerated (a permutation of
                                     the harness's own directory listing; membership is the observation o_listed) *)
  c_bdeps : bool;                 (* not -nobdeps *)
  c_complete : bool;              (* no two directories of the generated database have one name and slot, none is
                                     written twice (the harness's own collision check) *)
  c_texts : list (list (option bytes));
                                  (* per package of c_vdb: the texts of BDEPEND, DEPEND, RDEPEND, PDEPEND as they are
                                     on disk -- Some for a file that is a PMS dependency string (its tree in c_vdb
                                     is then the PMS reading of that text, checked by texts_ok below), None for an
                                     absent file or a text outside the grammar *)
  c_slots : list bytes;           (* per package of c_vdb: the content of its SLOT file as written *)
  c_obs : obs }.

Definition lres_beq (a b : res (list bytes)) : bool :=
  match a, b with
  | ROk x, ROk y => list_beq beq x y
  | RFailed, RFailed | RPanic, RPanic | RDiverge, RDiverge => true
  | _, _ => false
  end.
Definition triple_beq (x y : bytes * (bytes * bytes)) : bool :=
  beq (fst x) (fst y) && beq (fst (snd x)) (fst (snd y)) && beq (snd (snd x)) (snd (snd y)).
Definition obs_beq (a b : obs) : bool :=
  lres_beq (o_sys a) (o_sys b) && lres_beq (o_stage a) (o_stage b)
  && lres_beq (o_bin_sys a) (o_bin_sys b) && lres_beq (o_bin_stage a) (o_bin_stage b)
  && lres_beq (o_bin_stage2 a) (o_bin_stage2 b)
  && list_beq beq (o_listed a) (o_listed b) && list_beq triple_beq (o_loaded a) (o_loaded b).

(* ------------------------------------------------------------------ the model *)
(* the loader's result seen from outside: for every directory of the database (in database order) that the
   AtomSet built by GetInstalledPackageList holds, its String() and the name and grouping key it is held under *)
Definition aset_entries (s : aset) : list (N * (bytes * bytes)) :=
  flat_map (fun x => map (fun e => (snd e, (fst x, fst e))) (snd x)) s.
Definition loaded_view (vdb : list pkg) (s : aset) : list (bytes * (bytes * bytes)) :=
  flat_map (fun i => match pkg_at vdb i, find (fun t => N.eqb (fst t) i) (aset_entries s) with
                     | Some p, Some t => [(pkg_str p, snd t)]
                     | _, _ => []
                     end) (map N.of_nat (seq 0 (length vdb))).
Definition model_sys (c : case) : res ued := system_set (c_fs c) (c_dict c) (c_profile c) (c_atoms c).
Definition model (c : case) : obs :=
  let sys := match model_sys c with
             | ROk u => ROk (map fst u)
             | RFailed => RFailed | RPanic => RPanic | RDiverge => RDiverge
             end in
  let stage := match model_sys c with
               | ROk u => stage_set (c_vdb c) (c_enum c) (c_bdeps c) (map snd u)
               | RFailed => RFailed | RPanic => RPanic | RDiverge => RDiverge
               end in
  MkObs sys stage sys stage stage
        (listing (c_vdb c) (filter (fun i => memN i (c_enum c)) (map N.of_nat (seq 0 (length (c_vdb c))))))
        (loaded_view (c_vdb c) (installed (c_vdb c) (c_enum c))).

(* ------------------------------------------------------------------ the specification
   Written from the property text and the stagemaker manual, not from the code. *)
Section Spec.
Variable vdb : list pkg.
Variable bdeps : bool.

Definition ids : list N := map N.of_nat (seq 0 (length vdb)).
(* "installed packages matching atom a": same category/name, accepted by the matcher *)
Definition amatch (a : atomr) : list N :=
  filter (fun i => match pkg_at vdb i with
                   | Some p => beq (p_pn p) (a_pn a) && memN i (a_match a)
                   | None => false
                   end) ids.
(* "that package's own USE flags": the words of its USE file *)
Definition spec_use (p : pkg) (f : bytes) : bool :=
  match p_use p with Some s => memb f (fields (trim s)) | None => false end.
(* RDEPEND and PDEPEND, and DEPEND/BDEPEND unless -nobdeps *)
Definition rel_files (p : pkg) : list dfile :=
  if bdeps then [p_bdep p; p_dep p; p_rdep p; p_pdep p] else [p_rdep p; p_pdep p].
Definition top_deps (p : pkg) : list dep :=
  flat_map (fun f => match f with FDeps l => l | _ => [] end) (rel_files p).
Definition files_ok (p : pkg) : bool :=
  forallb (fun f => match f with FBad | FPanic => false | _ => true end) (rel_files p).

(* the atoms of an expression that are active under the owner's USE flags (inside groups too) *)
Fixpoint active (use : bytes -> bool) (d : dep) : list atomr :=
  match d with
  | DAtom a => [a]
  | DGrp k l =>
    match k with
    | GUse f => if use f then flat_map (active use) l else []
    | GNuse f => if use f then [] else flat_map (active use) l
    | _ => flat_map (active use) l
    end
  end.
Definition active_of (p : pkg) : list atomr := flat_map (active (spec_use p)) (top_deps p).

Section Sel.
Variable X : list N.                     (* a candidate selection *)
Definition sel (a : atomr) : bool := existsb (fun q => memN q X) (amatch a).
Definition all_sel (a : atomr) : bool := negb (isnil (amatch a)) && forallb (fun q => memN q X) (amatch a).

(* an alternative of an any-of / exactly-one-of group is satisfied when every active requirement
   in it has a selected match and it names at least one selected package *)
Fixpoint provides (use : bytes -> bool) (d : dep) : bool :=
  match d with
  | DAtom a => negb (a_blk a) && sel a
  | DGrp k l =>
    match k with
    | GUse f => use f && existsb (provides use) l
    | GNuse f => negb (use f) && existsb (provides use) l
    | _ => existsb (provides use) l
    end
  end.
Fixpoint ok_in (use : bytes -> bool) (d : dep) : bool :=
  match d with
  | DAtom a => if a_blk a then negb (sel a) else sel a
  | DGrp k l =>
    match k with
    | GAll => forallb (ok_in use) l
    | GUse f => if use f then forallb (ok_in use) l else true
    | GNuse f => if use f then true else forallb (ok_in use) l
    | GAny | GOne => existsb (fun c => ok_in use c && provides use c) l
    | GMost => true
    end
  end.
Definition sat_alt (use : bytes -> bool) (d : dep) : bool := ok_in use d && provides use d.
(* a dependency in mandatory position: every installed match of an active atom is selected (and
   there is one); an any-of / exactly-one-of group has a satisfied alternative *)
Fixpoint sat_mand (use : bytes -> bool) (d : dep) : bool :=
  match d with
  | DAtom a => if a_blk a then negb (sel a) else all_sel a
  | DGrp k l =>
    match k with
    | GAll => forallb (sat_mand use) l
    | GUse f => if use f then forallb (sat_mand use) l else true
    | GNuse f => if use f then true else forallb (sat_mand use) l
    | GAny | GOne => existsb (sat_alt use) l
    | GMost => true
    end
  end.
End Sel.

(* successors for "transitively": matches of the active non-blocker atoms of a package *)
Definition succs (i : N) : list N :=
  match pkg_at vdb i with
  | Some p => flat_map amatch (filter (fun a => negb (a_blk a)) (active_of p))
  | None => []
  end.
Fixpoint nodupN (l : list N) : list N :=
  match l with [] => [] | x :: r => if memN x r then nodupN r else x :: nodupN r end.
Fixpoint grow (fuel : nat) (inS : N -> bool) (R : list N) : list N :=
  match fuel with
  | O => R
  | S f => match nodupN (filter (fun q => inS q && negb (memN q R)) (flat_map succs R)) with
           | [] => R
           | new => grow f inS (R ++ new)
           end
  end.
Definition root_matches (rq : list atomr) : list N :=
  flat_map amatch (filter (fun a => negb (a_blk a)) rq).
(* everything reachable from the root matches through active non-blocker atoms, staying inside [inS] *)
Definition closure (inS : N -> bool) (rq : list atomr) : list N :=
  grow (length vdb) inS (nodupN (filter inS (root_matches rq))).
Definition reach (rq : list atomr) (X : list N) : list N := closure (fun q => memN q X) rq.
(* the largest set any selection can be drawn from *)
Definition maxclosure (rq : list atomr) : list N := closure (fun _ => true) rq.

(* ValidSelection: Roots, Closed, Justified, Unblocked *)
Definition v_roots (rq : list atomr) (X : list N) : bool :=
  forallb (fun a => a_blk a || all_sel X a) rq.
Definition v_closed (X : list N) : bool :=
  forallb (fun i => match pkg_at vdb i with
                    | Some p => files_ok p && forallb (sat_mand X (spec_use p)) (top_deps p)
                    | None => false
                    end) X.
Definition v_justified (rq : list atomr) (X : list N) : bool :=
  forallb (fun i => memN i (reach rq X)) X.
Definition v_unblocked (rq : list atomr) (X : list N) : bool :=
  forallb (fun a => negb (a_blk a) || negb (sel X a)) rq
  && forallb (fun i => match pkg_at vdb i with
                       | Some p => forallb (fun a => negb (a_blk a) || negb (sel X a)) (active_of p)
                       | None => false
                       end) X.
Definition valid (rq : list atomr) (X : list N) : bool :=
  v_roots rq X && v_closed X && v_justified rq X && v_unblocked rq X.

(* the printed listing: installed packages, none twice, in (category/name, slot) order *)
Definition id_of (s : bytes) : option N :=
  match find (fun i => match pkg_at vdb i with Some p => beq (pkg_str p) s | None => false end) ids with
  | Some i => Some i | None => None end.
Fixpoint ids_of (L : list bytes) : option (list N) :=
  match L with
  | [] => Some []
  | s :: r => match id_of s, ids_of r with Some i, Some l => Some (i :: l) | _, _ => None end
  end.
Definition key_lt (i j : N) : bool :=
  match pkg_at vdb i, pkg_at vdb j with
  | Some p, Some q => ltb (p_pn p) (p_pn q) || (beq (p_pn p) (p_pn q) && ltb (p_slot p) (p_slot q))
  | _, _ => false
  end.
Fixpoint sorted_by (lt : N -> N -> bool) (l : list N) : bool :=
  match l with
  | x :: ((y :: _) as r) => lt x y && sorted_by lt r
  | _ => true
  end.

(* requested atoms: a bare name stands for the one category that has an installed package of that name *)
Definition base_name (p : pkg) : bytes := skipn (S (length (p_cat p))) (p_pn p).
Definition cats_of (nm : bytes) : list bytes :=
  dedup (map p_cat (filter (fun p => beq (base_name p) nm) vdb)) [].
Fixpoint requested (us : list uatom) : option (list atomr) :=
  match us with
  | [] => Some []
  | u :: r =>
    match requested r with
    | None => None
    | Some rq =>
      if isnil (u_nm u) then None
      else if isnil (u_cat u) then
        match cats_of (u_nm u) with
        | [c] => Some (mk_atom c u :: rq)
        | [] => if u_blk u then Some rq else None       (* nothing installed to block *)
        | _ => None                                      (* ambiguous *)
        end
      else Some (mk_atom (u_cat u) u :: rq)
    end
  end.

Definition spec_stage (rq : option (list atomr)) (o : res (list bytes)) : bool :=
  match o with
  | ROk L =>
    match rq, ids_of L with
    | Some rq, Some X => valid rq X && sorted_by key_lt X
    | _, _ => false
    end
  | RFailed =>        (* allowed only for a stated reason: the request cannot be resolved, or the full
                         closure has an unmatched mandatory atom / unsatisfied group / blocker hit / bad file *)
    match rq with
    | Some rq => negb (valid rq (maxclosure rq))
    | None => true
    end
  | _ => false
  end.
End Spec.

(* ---- the @system set: reference semantics of a stacked profile (parents first, then the
        profile's own packages file; "*atom" adds, "-*atom" removes an inherited atom) *)
Section SysSpec.
Variable fs : pfs.
Fixpoint prof_lines (fuel : nat) (dir : bytes) : option (list bytes) :=
  match fuel with
  | O => None
  | S f =>
    if negb (is_dir fs dir) then None
    else
      let own := match packages_of fs dir with Some ls => ls | None => [] end in
      match parent_of fs dir with
      | None => Some own
      | Some ps =>
        match realpath fs dir with          (* parent paths are relative to the real directory *)
        | None => None
        | Some q =>
          match (fix go (ps : list bytes) : option (list bytes) :=
                   match ps with
                   | [] => Some []
                   | l :: r => if isnil l then go r
                               else match prof_lines f (pathjoin2 q l), go r with
                                    | Some a, Some b => Some (a ++ b)
                                    | _, _ => None
                                    end
                   end) ps with
          | Some inherited => Some (inherited ++ own)
          | None => None
          end
        end
      end
  end.
Definition stack_line (acc : list bytes) (l : bytes) : list bytes :=
  match l with
  | c :: a =>
    if Ascii.eqb c (nb 42) then (if memb a acc then acc else acc ++ [a])
    else if Ascii.eqb c (nb 45) then
      match a with
      | c2 :: a2 => if Ascii.eqb c2 (nb 42) then filter (fun x => negb (beq x a2)) acc else acc
      | [] => acc
      end
    else acc
  | [] => acc
  end.
Definition sys_atoms (profile : bytes) : option (list bytes) :=
  match prof_lines (S (length fs)) profile with
  | Some ls => Some (fold_left stack_line ls [])
  | None => None
  end.
End SysSpec.

Definition add_new (acc : list bytes) (a : bytes) : list bytes := if memb a acc then acc else acc ++ [a].
(* the requested strings: @system plus the user's atoms, an atom listed twice being harmless *)
Definition req_strings (c : case) : option (list bytes) :=
  match sys_atoms (c_fs c) (c_profile c) with
  | Some s => Some (fold_left add_new (c_atoms c) s)
  | None => None
  end.
Fixpoint parse_all (d : dict) (ss : list bytes) : option (list uatom) :=
  match ss with
  | [] => Some []
  | s :: r => match dict_get d s, parse_all d r with
              | Some (Some u), Some us => Some (u :: us)
              | _, _ => None
              end
  end.
Definition subset (a b : list bytes) : bool := forallb (fun x => memb x b) a.
Fixpoint nodupb (l : list bytes) : bool :=
  match l with [] => true | x :: r => negb (memb x r) && nodupb r end.

(* every "*atom" line of the chain and every user atom has to be an atom *)
Definition star_atoms (ls : list bytes) : list bytes :=
  flat_map (fun l => match l with c :: a => if Ascii.eqb c (nb 42) then [a] else [] | [] => [] end) ls.
Definition entered (c : case) : option (list bytes) :=
  match prof_lines (c_fs c) (S (length (c_fs c))) (c_profile c) with
  | Some ls => Some (star_atoms ls ++ c_atoms c)
  | None => None
  end.
Definition all_parse (c : case) : bool :=
  match entered c with
  | Some ss => match parse_all (c_dict c) ss with Some _ => true | None => false end
  | None => false
  end.

Definition spec_sys (c : case) (o : res (list bytes)) : bool :=
  match o with
  | ROk L =>
    match req_strings c with
    | Some R => subset L R && subset R L && nodupb L && all_parse c
    | None => false
    end
  | RFailed => negb (all_parse c)        (* a profile directory is missing, or something is not an atom *)
  | _ => false
  end.

Definition spec_request (c : case) : option (list atomr) :=
  if all_parse c then
    match req_strings c with
    | Some R => match parse_all (c_dict c) R with
                | Some us => requested (c_vdb c) us
                | None => None
                end
    | None => None
    end
  else None.

(* "the installed packages": the loader returns exactly the packages of the database -- none lost, none
   invented -- each under its PMS name (PF without the version) and its slot (SLOT without the sub-slot);
   and the directory enumeration it starts from lists exactly the directories of the database.  Stated
   against the database the generator wrote, not against anything the loader said. *)
Definition db_view (vdb : list pkg) : list (bytes * (bytes * bytes)) :=
  map (fun p => (pkg_str p, (p_pn p, p_slot p))) vdb.
Definition spec_loader (c : case) (o : obs) : bool :=
  list_beq beq (o_listed o) (map pkg_str (c_vdb c))
  && list_beq triple_beq (o_loaded o) (db_view (c_vdb c)).

(* the property on one case *)
Definition spec (c : case) (o : obs) : bool :=
  spec_sys c (o_sys o) && spec_sys c (o_bin_sys o)
  && spec_stage (c_vdb c) (c_bdeps c) (spec_request c) (o_stage o)
  && spec_stage (c_vdb c) (c_bdeps c) (spec_request c) (o_bin_stage o)
  && lres_beq (o_stage o) (o_bin_stage o)
  (* the result does not depend on the directory-enumeration order *)
  && lres_beq (o_stage o) (o_bin_stage2 o)
  (* the stage set is drawn from the installed packages: the loader's view of the database is the database *)
  && spec_loader c o.

(* ------------------------------------------------------------------ well-formedness *)
Definition is_perm_ids (n : nat) (l : list N) : bool :=
  Nat.eqb (length l) n && forallb (fun i => memN (N.of_nat i) l) (seq 0 n).
Fixpoint dep_atoms (d : dep) : list atomr :=
  match d with DAtom a => [a] | DGrp _ l => flat_map dep_atoms l end.
Definition file_atoms (f : dfile) : list atomr :=
  match f with FDeps l => flat_map dep_atoms l | _ => [] end.
Definition pkg_atoms (p : pkg) : list atomr :=
  file_atoms (p_bdep p) ++ file_atoms (p_dep p) ++ file_atoms (p_rdep p) ++ file_atoms (p_pdep p).
Definition ids_ok (n : nat) (l : list N) : bool := forallb (fun i => N.ltb i (N.of_nat n)) l.
Definition opt_exact (o : option bytes) : bool := match o with Some s => fields_exact s | None => true end.
Definition has_sign (w : bytes) : bool :=
  match w with c :: _ => Ascii.eqb c (nb 43) || Ascii.eqb c (nb 45) | [] => false end.
Definition wf_pkg (n : nat) (p : pkg) : bool :=
  (* name = category "/" base name *)
  prefixb (p_cat p ++ [c_sl]) (p_pn p) && negb (isnil (base_name p))
  && nosepb c_sl (p_cat p) && nosepb c_sl (base_name p) && negb (isnil (p_cat p))
  && forallb (fun a => ids_ok n (a_match a)) (pkg_atoms p)
  && forallb (fun f => match f with FPanic => false | _ => true end) [p_bdep p; p_dep p; p_rdep p; p_pdep p]
  (* the USE file lists declared flags, without signs; ASCII white space only *)
  && opt_exact (p_iuse_eff p) && opt_exact (p_iuse p) && opt_exact (p_use p)
  && forallb (fun w => negb (has_sign w) && memb w (iuse_names p))
             (match p_use p with Some s => fields (trim s) | None => [] end).
Fixpoint nodup_keys (l : list (bytes * bytes)) : bool :=
  match l with
  | [] => true
  | (a, b) :: r => negb (existsb (fun y => beq (fst y) a && beq (snd y) b) r) && nodup_keys r
  end.
(* profile lines: a system line has an atom of at least two characters; no white space in lines *)
Definition wf_line (l : bytes) : bool :=
  match l with
  | c :: _ => if Ascii.eqb c (nb 42) then forallb (fun c => negb (is_sp c)) l && Nat.ltb 2 (length l)
              else if Ascii.eqb c (nb 45) then forallb (fun c => negb (is_sp c)) l
                   && match l with _ :: c2 :: _ => negb (Ascii.eqb c2 (nb 42)) || Nat.ltb 3 (length l) | _ => true end
              else true
  | [] => true
  end.
Definition wf_node (x : bytes * pnode) : bool :=
  match snd x with
  | PDir pk pa =>
    forallb wf_line (match pk with Some l => l | None => [] end)
    && forallb (fun l => forallb (fun c => negb (is_sp c)) l
                         && match l with c :: _ => negb (Ascii.eqb c (nb 35)) | [] => true end)
               (match pa with Some l => l | None => [] end)
  | PLink t => negb (isnil t)
  end.
Definition line_atoms (l : bytes) : list bytes :=
  match l with
  | c :: a => if Ascii.eqb c (nb 42) then [a]
              else match a with c2 :: a2 => if Ascii.eqb c (nb 45) && Ascii.eqb c2 (nb 42) then [a2] else [] | [] => [] end
  | [] => []
  end.
Definition fs_atoms (fs : pfs) : list bytes :=
  flat_map (fun x => match snd x with
                     | PDir (Some l) _ => flat_map line_atoms l
                     | _ => []
                     end) fs.
Definition wf_dict (n : nat) (vdb : list pkg) (x : bytes * option uatom) : bool :=
  match snd x with
  | Some u => ids_ok n (u_match u)
              && forallb (fun i => match pkg_at vdb i with
                                   | Some p => beq (base_name p) (u_nm u) && (isnil (u_cat u) || beq (p_cat p) (u_cat u))
                                   | None => false end) (u_match u)
  | None => true
  end.

(* ---- the trees of the case are the PMS readings of the dependency files (PMS 8.2)
        items := item*
        item  := atom | ( items ) | || ( items ) | ^^ ( items ) | ?? ( items ) | flag? ( items ) | !flag? ( items )
   tokens separated by white space.  A group may be empty; an operator or a condition owns exactly the
   parenthesised group that follows it.  The tie is stated with the PRINTER of the grammar: the token
   sequence of the tree (atoms abstracted to "an atom word", with its blocker mark) equals the classified
   token sequence of the text.  Proofs/C05T.v proves that this determines the tree (tie_unique).  The
   atoms themselves -- name, installed matches -- stay an oracle (C13/C14). *)
Inductive ptok := PAtom (blk : bool) | PTok (t : bytes).
Definition ptok_beq (a b : ptok) : bool :=
  match a, b with
  | PAtom x, PAtom y => Bool.eqb x y
  | PTok x, PTok y => beq x y
  | _, _ => false
  end.
Definition is_c (n : N) (c : ascii) : bool := Ascii.eqb c (nb n).
Definition alnum_c (c : ascii) : bool :=
  let n := N_of_ascii c in
  ((48 <=? n) && (n <=? 57) || (97 <=? n) && (n <=? 122) || (65 <=? n) && (n <=? 90))%N.
(* PMS 3.1.4: [A-Za-z0-9+_@-]+, beginning with an alphanumeric character *)
Definition flag_ok (f : bytes) : bool :=
  match f with c :: _ => alnum_c c | [] => false end
  && forallb (fun c => alnum_c c || is_c 43 c || is_c 95 c || is_c 64 c || is_c 45 c) f.
Definition t_open : bytes := [nb 40].
Definition t_close : bytes := [nb 41].
Definition t_any : bytes := [nb 124; nb 124].
Definition t_one : bytes := [nb 94; nb 94].
Definition t_most : bytes := [nb 63; nb 63].
Definition t_use (f : bytes) : bytes := f ++ [nb 63].
Definition t_nuse (f : bytes) : bytes := nb 33 :: f ++ [nb 63].
Definition intro_toks (k : gkind) : list ptok :=
  match k with
  | GAll => []
  | GAny => [PTok t_any] | GOne => [PTok t_one] | GMost => [PTok t_most]
  | GUse f => [PTok (t_use f)] | GNuse f => [PTok (t_nuse f)]
  end.
Fixpoint dep_ptoks (d : dep) : list ptok :=
  match d with
  | DAtom a => [PAtom (a_blk a)]
  | DGrp k l => intro_toks k ++ PTok t_open :: flat_map dep_ptoks l ++ [PTok t_close]
  end.
Definition kind_ok (k : gkind) : bool :=
  match k with GUse f | GNuse f => flag_ok f | _ => true end.
Fixpoint flags_ok (d : dep) : bool :=
  match d with
  | DAtom _ => true
  | DGrp k l => kind_ok k && forallb flags_ok l
  end.
(* a token of the text: one of the five fixed tokens, a condition "flag?" / "!flag?", else an atom word *)
Definition is_cond (t : bytes) : bool :=
  match rev t with
  | c :: r => is_c 63 c && flag_ok (match rev r with c0 :: f => if is_c 33 c0 then f else rev r | [] => [] end)
  | [] => false
  end.
Definition structural (t : bytes) : bool :=
  beq t t_open || beq t t_close || beq t t_any || beq t t_one || beq t t_most || is_cond t.
Definition classify_tok (t : bytes) : ptok :=
  if structural t then PTok t else PAtom (match t with c :: _ => is_c 33 c | [] => false end).
Definition tie (text : bytes) (l : list dep) : bool :=
  forallb flags_ok l
  && list_beq ptok_beq (map classify_tok (fields text)) (flat_map dep_ptoks l).
Definition file_tied (f : dfile) (t : option bytes) : bool :=
  match t with
  | None => true
  | Some text => match f with FDeps l => tie text l | _ => false end
  end.
Definition pkg_tied (p : pkg) (ts : list (option bytes)) : bool :=
  match ts with
  | [b; d; r; pd] => file_tied (p_bdep p) b && file_tied (p_dep p) d && file_tied (p_rdep p) r && file_tied (p_pdep p) pd
  | _ => false
  end.
Fixpoint all_tied (vdb : list pkg) (ts : list (list (option bytes))) : bool :=
  match vdb, ts with
  | [], [] => true
  | p :: r, t :: r' => pkg_tied p t && all_tied r r'
  | _, _ => false
  end.
Definition texts_ok (c : case) : bool := all_tied (c_vdb c) (c_texts c).

(* ---- the name and the slot key of every package are the PMS readings of what is on disk (round 5b)
        PF = name "-" version with version matching the PMS 3.2 version syntax (Proofs/C05L.v: pf_split_unique,
        that determines the name); slot key = the comparable form of the SLOT text (white space trimmed) before
        the first "/" (PMS 7.2/8.3.3: SLOT = slot[/sub-slot]).  The harness computes both from its own input;
        a harness that splits differently puts the case outside wf instead of moving model and predicate. *)
Definition c_hy : ascii := nb 45.
Definition name_tied (p : pkg) : bool :=
  let nm := base_name p in
  prefixb (nm ++ [c_hy]) (p_pf p) && PMSGrammar.is_pms_version (skipn (S (length nm)) (p_pf p)).
Definition slot_key (text : bytes) : bytes := AtomMatch.slot_comparable (fst (split2 c_sl (trim text))).
Fixpoint all_slots_tied (vdb : list pkg) (ss : list bytes) : bool :=
  match vdb, ss with
  | [], [] => true
  | p :: r, s :: r' => beq (p_slot p) (slot_key s) && fields_exact s && all_slots_tied r r'
  | _, _ => false
  end.
Definition db_tied (c : case) : bool := forallb name_tied (c_vdb c) && all_slots_tied (c_vdb c) (c_slots c).

Definition wf_base (c : case) : bool :=
  let n := length (c_vdb c) in
  c_complete c
  && is_perm_ids n (c_enum c)
  && forallb (wf_pkg n) (c_vdb c)
  && nodup_keys (map (fun p => (p_pn p, p_slot p)) (c_vdb c))
  && nodup_keys (map (fun p => (p_cat p, p_pf p)) (c_vdb c))
  && forallb wf_node (c_fs c)
  && nodupb (map fst (c_fs c))
  && forallb (fun s => match dict_get (c_dict c) s with Some _ => true | None => false end)
             (fs_atoms (c_fs c) ++ c_atoms c)
  && forallb (wf_dict n (c_vdb c)) (c_dict c)
  (* the parent chain is finite (no cycle) as far as it can be followed *)
  && match model_sys c with RDiverge => false | _ => true end.
Definition wf (c : case) : bool := texts_ok c && db_tied c && wf_base c.

(* known-finding classes (see KNOWN_FINDINGS).
   1: a package that can be selected has, active under its USE flags, an any-of / exactly-one-of /
      at-most-one-of group one of whose alternatives is itself a group (parenthesised all-of,
      USE-conditional or nested group).  ResolveSomeOf flattens such alternatives: it counts
      packages instead of satisfied alternatives and lets a failing nested group abort the run. *)
Definition is_grp (d : dep) : bool := match d with DGrp _ _ => true | DAtom _ => false end.
Fixpoint compound_alt (use : bytes -> bool) (d : dep) : bool :=
  match d with
  | DAtom _ => false
  | DGrp k l =>
    match k with
    | GUse f => use f && existsb (compound_alt use) l
    | GNuse f => negb (use f) && existsb (compound_alt use) l
    | GAll => existsb (compound_alt use) l
    | GAny | GOne | GMost => existsb is_grp l
    end
  end.
Definition kf (c : case) : N :=
  match spec_request c with
  | Some rq =>
    if existsb (fun i => match pkg_at (c_vdb c) i with
                         | Some p => existsb (compound_alt (spec_use p)) (top_deps (c_bdeps c) p)
                         | None => false
                         end) (maxclosure (c_vdb c) (c_bdeps c) rq)
    then 1%N else 0%N
  | None => 0%N
  end.

Definition verdict (c : case) : N :=
  mkverdict (wf c) (obs_beq (model c) (c_obs c)) (spec c (c_obs c)) (kf c).
End C05.
