(* C06: case type, model observation, specification predicate, verdict.
   "The stage tarball contains exactly the right paths, in an extractable order."
   [spec] is written from the property text and doc/stagemaker_manpage.adoc; it is evaluated
   on what the stagemaker binary wrote (member list of the archive, `-list stage -files`). *)
From LC Require Import Lib.Bytes Lib.Lex Lib.Fields Lib.PathM Gen.Consts Model.StageList Cases.Verdict.
Open Scope N_scope.
Open Scope list_scope.

Module C06.
(* what is observed: the lines of `stagemaker -list stage -files` and the members of the
   archive written by `stagemaker -generate` (name, type flag, link name of hard links) *)
Record obs := MkObs { o_list : res (list bytes); o_tar : res (list member);
                      o_extract : bool }.   (* thorough tier: GNU tar extracted the archive into an empty
                                               directory and every member is there (true when not run) *)
Record case := MkCase {
  c_in : input;
  c_nobdeps : bool;       (* passed to the binary; the selection is an input here (C05) *)
  c_selok : bool;         (* `-list stage` succeeded and named only installed packages *)
  c_obs : obs }.

(* ---------------------------------------------------------------- equality of observations *)
Definition mkind_beq (a b : mkind) : bool :=
  match a, b with
  | KDir, KDir | KReg, KReg | KSym, KSym | KLink, KLink | KDevice, KDevice | KOther, KOther => true
  | _, _ => false
  end.
Definition member_beq (a b : member) : bool :=
  feq (m_name a) (m_name b) && mkind_beq (m_kind a) (m_kind b) && feq (m_link a) (m_link b).
Definition res_beq {A} (eq : A -> A -> bool) (a b : res A) : bool :=
  match a, b with
  | Ok x, Ok y => eq x y
  | Failed, Failed => true
  | Panic, Panic => true
  | _, _ => false
  end.
Definition obs_beq (a b : obs) : bool :=
  res_beq (list_beq feq) (o_list a) (o_list b) && res_beq (list_beq member_beq) (o_tar a) (o_tar b)
  && Bool.eqb (o_extract a) (o_extract b).

Definition map_res {A B} (f : A -> B) (r : res A) : res B :=
  match r with Ok a => Ok (f a) | Failed => Failed | Panic => Panic end.
Definition model (c : case) : obs :=
  let r := stage_list (c_in c) in
  MkObs (map_res (map m_name) r) (map_res (map tar_member) r) true.

(* ---------------------------------------------------------------- well-formed inputs *)
Fixpoint nodupb (l : list bytes) : bool :=
  match l with [] => true | x :: r => if memb x r then false else nodupb r end.
(* implication written out as a conditional: lazy under vm_compute (a function call would
   evaluate both sides) *)
Notation imp a b := (if a then b else true) (only parsing).
Definition has_byte (n : N) (s : bytes) : bool := existsb (fun c => bn c =? n) s.
Definition no_meta (s : bytes) : bool :=       (* no glob metacharacter other than '*' *)
  negb (has_byte 63 s) && negb (has_byte 91 s) && negb (has_byte 92 s).
Definition no_star (s : bytes) : bool := negb (has_byte 42 s).
(* an omit pattern may also escape an asterisk: every backslash is followed by one *)
Fixpoint esc_ok (s : bytes) : bool :=
  match s with
  | [] => true
  | c :: r => if bn c =? 92 then match r with d :: r' => (bn d =? 42) && esc_ok r' | [] => false end
              else negb (bn c =? 63) && negb (bn c =? 91) && esc_ok r
  end.

Definition wf_tree (t : tree) : bool :=
  match assoc root_path t with Some NDir => true | _ => false end
  && nodupb (keys t)
  && forallb (fun kv =>
       let k := fst kv in
       (feq k root_path ||
        (abs_cleanb k && negb (has_byte 10 k)
         && forallb (fun p => match assoc p t with Some NDir => true | _ => false end) (nrparents k)))
       && match snd kv with
          | NLink tg => negb (feq tg []) && (negb (is_absb tg) || feq tg root_path || abs_cleanb tg)
          | _ => true
          end) t.

(* no proper ancestor of the (cleaned) path is a symbolic link: lstat then agrees with the
   flat lookup (paths through symlinked directories are outside the modelled domain) *)
Definition no_link_above (t : tree) (p : bytes) : bool :=
  forallb (fun d => negb (is_link t d)) (nrparents (clean p)).
(* every name ultimateSymlinkTarget looks at, for one link *)
Fixpoint chain_targets (t : tree) (fuel : nat) (rel : bytes) : list bytes :=
  match fuel with
  | O => []
  | S f =>
    match lstat t rel with
    | Some (NLink tg) => let target := link_target rel tg in target :: chain_targets t f target
    | _ => []
    end
  end.

Definition under_eq (d k : bytes) : bool := if feq d k then true else under d k.
Definition vdb_prefix : bytes := bs "/var/db/pkg/".
Definition dev_prefix : bytes := bs "/dev/".
Definition contents_ok (p : pkg) : bool :=
  match parse_contents (p_contents p) with Ok _ => true | _ => false end.
Definition contents_names (p : pkg) : list bytes :=
  match parse_contents (p_contents p) with Ok ns => ns | _ => [] end.
Definition wf_pkgs (t : tree) (ps : list pkg) : bool :=
  nodupb (map p_dir ps)
  && forallb (fun p => forallb (fun q => feq (p_dir p) (p_dir q) || negb (under (p_dir p) (p_dir q))) ps) ps
  && (N.of_nat (length (filter (fun p => negb (contents_ok p)) ps)) <=? 1)
  && forallb (fun p =>
       let d := p_dir p in
       abs_cleanb d && fprefix vdb_prefix d && (N.of_nat (length (psplit d)) =? 6)
       && no_meta d && no_star d
       && match assoc d t with Some NDir => true | _ => false end
       && match assoc (d ++ bs "/CONTENTS") t with Some (NFile _) => true | _ => false end
       && forallb (fun n => abs_cleanb n && negb (fprefix vdb_prefix n) && negb (fprefix dev_prefix n)
                            && no_link_above t n) (contents_names p)) ps.

Definition op_name (o : op) : bytes :=
  match o with OAdd li => li_name li | OOmit n _ => n | _ => [] end.
Definition op_wild (o : op) : bool :=
  match o with OAdd li => li_wild li | OOmit _ w => w | _ => false end.
Definition wf_line (t : tree) (l : bytes) : bool :=
  negb (has_byte 10 l) && negb (has_byte 13 l) && negb (has_byte 0 l) && fields_exact l
  && (is_comment (trim l) ||
      match parse_line (trim l) with
      | OOod => false
      | OErr => true
      | o => let n := op_name o in
             feq (clean n) n && no_link_above t n
             && (negb (op_wild o) || no_meta n || match o with OOmit _ _ => esc_ok n | _ => false end)
             && (op_wild o || abs_cleanb n)
      end).

(* src= lines (type file): the source is written as a clean absolute path -- below "$$stageroot"
   (then not through a symlinked directory of the build root) or of the host -- and is a regular
   file, a device node (src=/dev/null) or absent; a directory, symlink, fifo or socket as the source
   of a `file` entry is outside the modelled domain *)
Definition src_ok (t : tree) (o : op) : bool :=
  match o with
  | OAdd li =>
    match li_src li with
    | Some s =>
      match s with
      | SRoot p => abs_cleanb p && no_link_above t p
      | SAbs p _ => abs_cleanb p
      end
      && match src_lstat t s with None | Some (NFile _) | Some NDev => true | Some _ => false end
    | None => true
    end
  | _ => true
  end.

Definition wf (c : case) : bool :=
  let i := c_in c in
  let t := i_tree i in
  c_selok c && wf_tree t && wf_pkgs t (i_pkgs i)
  && forallb (wf_line t) (i_script i)
  && forallb (src_ok t) (user_script i)
  && forallb (fun kv => match snd kv with
                        | NLink _ => forallb (no_link_above t) (chain_targets t chain_fuel (fst kv))
                        | _ => true
                        end) t.

(* ---------------------------------------------------------------- the property on one run *)
Definition user_ops (i : input) : list op := user_script i.
Definition key (x : member) : bytes := tl (m_name x).          (* "./usr/bin" |-> "/usr/bin" *)
Definition has (ms : list member) (k : bytes) : bool := existsb (fun x => feq (m_name x) (dot :: k)) ms.

(* what a line of an add-files script names *)
Definition targets (t : tree) (li : lineinfo) : list bytes :=
  if li_wild li then targets_wild t li else [li_name li].
(* a pattern selects directory entries; the root of the archive ("./") is not one *)
Definition omit_matches (nm : bytes) (w : bool) (k : bytes) : bool :=
  if w then (if feq k root_path then false else pmatch_esc nm k) else feq nm k.
Definition omits (ops : list op) (k : bytes) : bool :=
  existsb (fun o => match o with OOmit nm w => omit_matches nm w k | _ => false end) ops.
Definition adds (t : tree) (ops : list op) (k : bytes) : bool :=
  existsb (fun o => match o with OAdd li => memb k (targets t li) | _ => false end) ops.
(* all directories that are a (non-root) parent of some member *)
Definition member_parents (ms : list member) : list bytes := flat_map (fun x => nrparents (key x)) ms.

(* 1. every member name is relative under ./ : "./" followed by a clean path (no empty, "." or ".."
      component), or "./" itself *)
Definition s_relative (ms : list member) : bool :=
  forallb (fun x => if fprefix (bs "./") (m_name x)
                    then (if feq (key x) root_path then true else abs_cleanb (key x)) else false) ms.
(* 2. ... appears once *)
Definition s_unique (ms : list member) : bool := nodupb (map m_name ms).
(* 3. ... is preceded in the archive by all of its parent directories *)
Fixpoint s_parents (seen : list bytes) (ks : list bytes) : bool :=
  match ks with
  | [] => true
  | k :: r => if forallb (fun p => memb p seen) (nrparents k) then s_parents (k :: seen) r else false
  end.
(* 4. every hard-link member refers to an earlier regular-file member of the same inode *)
Definition same_inode (t : tree) (a b : bytes) : bool :=
  match lstat t a, lstat t b with
  | Some (NFile (Some g)), Some (NFile (Some h)) => g =? h
  | _, _ => false
  end.
Fixpoint s_hardlinks (t : tree) (seen : list member) (ms : list member) : bool :=
  match ms with
  | [] => true
  | x :: r =>
    if match m_kind x with
       | KLink => existsb (fun y => if feq (m_name y) (m_link x)
                                    then mkind_beq (m_kind y) KReg && same_inode t (key x) (key y)
                                    else false) seen
       | KOther => false
       | _ => true
       end
    then s_hardlinks t (x :: seen) r else false
  end.
(* 4b. an entry whose contents come from a src= file is a regular-file member of its own name: it
       is not a hard link and no hard link refers to it -- what the archive calls "the same inode"
       is the inode that *path* has in the build root (clause 4), not the inode some other path's
       contents were read from.  The one exception the text leaves open: the src= file is the very
       inode the entry's own path has in the build root (src= names another link of it); then
       clause 4 alone decides.  A later line naming the path again (add or omit) supersedes the
       src= line. *)
Definition src_same (t : tree) (s : srcref) (n : bytes) : bool :=
  match src_lstat t s, lstat t n with
  | Some (NFile (Some g)), Some (NFile (Some h)) => g =? h
  | _, _ => false
  end.
Definition src_member_ok (n : bytes) (ms : list member) : bool :=
  forallb (fun x => (if feq (key x) n then mkind_beq (m_kind x) KReg else true)
                    && (if mkind_beq (m_kind x) KLink then negb (feq (m_link x) (dot :: n)) else true)) ms.
Fixpoint s_src (t : tree) (ms : list member) (ops : list op) : bool :=
  match ops with
  | [] => true
  | o :: r =>
    match o with
    | OAdd li =>
      match li_src li with
      | Some s => let n := li_name li in
                  if omits r n then true else if adds t r n then true
                  else if src_same t s n then true else src_member_ok n ms
      | None => true
      end
    | _ => true
    end && s_src t ms r
  end.
(* 5. every existing file, directory and symlink recorded for a selected package, unless the
      user omitted it *)
Definition is_fdl (t : tree) (n : bytes) : bool :=
  match lstat t n with Some NDir | Some (NFile _) | Some (NLink _) => true | _ => false end.
Definition s_pkgfiles (i : input) (uops : list op) (ms : list member) : bool :=
  forallb (fun p => forallb (fun n => imp (is_fdl (i_tree i) n) (imp (negb (omits uops n)) (has ms n)))
                            (contents_names p)) (selected (i_pkgs i)).
(* 6. the installed-package database entries of the selected packages (6a) and of no other
      package, none at all with -novdb (6b; what the user adds and the parents of members excepted) *)
Definition s_vdb_in (i : input) (uops : list op) (ms : list member) : bool :=
  forallb (fun p =>
    if p_sel p && negb (i_novdb i) then
      forallb (fun k => imp (under_eq (p_dir p) k) (imp (negb (omits uops k)) (has ms k))) (keys (i_tree i))
    else true) (i_pkgs i).
Definition s_vdb_out (i : input) (uops : list op) (pars : list bytes) (ms : list member) : bool :=
  forallb (fun p =>
    if p_sel p && negb (i_novdb i) then true
    else
      forallb (fun x => imp (under_eq (p_dir p) (key x))
                            (if adds (i_tree i) uops (key x) then true else memb (key x) pars)) ms) (i_pkgs i).
(* 7. the standard stage directories (7a); the static /dev nodes (7b), none of them with
      -emptydev (7c) *)
Definition std_dirs : list bytes :=
  flat_map (fun o => match o with OAdd (MkLI TDir n false _ _ _ _) => [n] | _ => [] end) stddir_ops.
Definition op_names (ops : list op) : list bytes :=
  flat_map (fun o => match o with OAdd li => [li_name li] | _ => [] end) ops.
Definition static_names : list bytes :=
  op_names (script_ops (text_lines D_DevDirSetup))
  ++ flat_map (fun l => match ext_line l with XExt _ ns => ns | _ => [] end) (text_lines D_DevDirExtend).
Definition s_std_dirs (uops : list op) (ms : list member) : bool :=
  forallb (fun n => imp (negb (omits uops n)) (has ms n)) std_dirs.
Definition s_static_in (i : input) (uops : list op) (ms : list member) : bool :=
  if i_emptydev i then true
  else forallb (fun n => imp (negb (omits uops n)) (has ms n)) static_names.
Definition s_static_out (i : input) (uops : list op) (pars : list bytes) (ms : list member) : bool :=
  if i_emptydev i
  then forallb (fun n => imp (has ms n) (if adds (i_tree i) uops n then true else memb n pars)) static_names
  else true.
(* 8. the user's add-files entries (unless a later line omits them again) *)
Definition absent (t : tree) (n : bytes) : bool := match lstat t n with None => true | Some _ => false end.
Fixpoint s_user (t : tree) (ms : list member) (ops : list op) : bool :=
  match ops with
  | [] => true
  | o :: r =>
    match o with
    | OAdd li => forallb (fun n => imp (negb (li_skip li && absent t n)) (imp (negb (omits r n)) (has ms n)))
                         (targets t li)
    | _ => true
    end && s_user t ms r
  end.
(* 9. no file or symlink that is recorded only for installed packages outside the selection
      (unless the user asked for it, or the standard stage entries name it) *)
Definition recorded (ps : list pkg) (k : bytes) : bool := existsb (fun p => memb k (contents_names p)) ps.
Definition std_named (k : bytes) : bool := memb k (op_names stddir_ops).
Definition s_unselected (i : input) (uops : list op) (ms : list member) : bool :=
  let sel := flat_map contents_names (selected (i_pkgs i)) in
  let unsel := flat_map contents_names (filter (fun p => negb (p_sel p)) (i_pkgs i)) in
  forallb (fun x =>
    match m_kind x with
    | KReg | KSym | KLink =>
      let k := key x in
      imp (memb k unsel) (imp (negb (memb k sel)) (if adds (i_tree i) uops k then true else std_named k))
    | _ => true
    end) ms.
(* 10. omit lines, with or without a wildcard, remove the matching members (a later line may add
       a name again; a directory that is still the parent of a member has to stay) *)
Fixpoint s_omit (t : tree) (pars : list bytes) (ms : list member) (ops : list op) : bool :=
  match ops with
  | [] => true
  | o :: r =>
    match o with
    | OOmit nm w => forallb (fun x => imp (omit_matches nm w (key x))
                                          (if adds t r (key x) then true else memb (key x) pars)) ms
    | _ => true
    end && s_omit t pars ms r
  end.

(* 11. "exactly": every member has a source -- it is recorded for a selected package, a symlink of
       the tree the tool looks at, a VDB entry of a selected package, a static /dev name, named by a
       built-in or user line, the parent of such a name, or the root of the archive *)
Definition op_all_targets (t : tree) (o : op) : list bytes :=
  match o with OAdd li => targets t li | _ => [] end.
Definition sources_gen (mops sops : list op) (statn : list bytes) (i : input) (uops : list op) : list bytes :=
  let t := i_tree i in
  flat_map contents_names (selected (i_pkgs i))
  ++ link_candidates t
  ++ (if i_novdb i then [] else flat_map (fun p => targets t (li_vdb (p_dir p))) (selected (i_pkgs i)))
  ++ (if i_emptydev i then [] else statn)
  ++ flat_map (op_all_targets t) mops ++ flat_map (op_all_targets t) sops ++ flat_map (op_all_targets t) uops.
Definition sources := sources_gen magic_ops stddir_ops static_names.
Definition s_sourced_gen (src : list bytes) (ms : list member) : bool :=
  let srcp := flat_map nrparents src in
  forallb (fun x => let k := key x in
                    if memb k src then true else if feq k root_path then true else memb k srcp) ms.
Definition s_sourced (i : input) (uops : list op) (ms : list member) : bool := s_sourced_gen (sources i uops) ms.

Definition spec_ok (i : input) (ls : list bytes) (ms : list member) : bool :=
  let uops := user_ops i in
  let pars := member_parents ms in
  s_relative ms && s_unique ms && s_parents [] (map key ms) && s_hardlinks (i_tree i) [] ms
  && s_src (i_tree i) ms uops
  && list_beq feq ls (map key ms)
  && s_pkgfiles i uops ms && s_vdb_in i uops ms && s_std_dirs uops ms && s_static_in i uops ms
  && s_user (i_tree i) ms uops && s_unselected i uops ms && s_omit (i_tree i) pars ms uops
  && s_vdb_out i uops pars ms && s_static_out i uops pars ms && s_sourced i uops ms.

(* a run ends with an archive or with a refusal (exit status 1, nothing written); it never crashes *)
Definition spec (c : case) (o : obs) : bool :=
  match o_list o, o_tar o with
  | Ok ls, Ok ms => if o_extract o then spec_ok (c_in c) ls ms else false
  | Failed, Failed => true
  | _, _ => false
  end.

Definition kf (c : case) : N := 0%N.

Definition verdict (c : case) : N :=
  mkverdict (wf c) (obs_beq (model c) (c_obs c)) (spec c (c_obs c)) (kf c).
End C06.
