(* C07: case type, model observation, specification predicate, verdict.
   A case is one run of `stagemaker -generate` on a generated build root: the members under
   test (parsed add-files line or package-owned entry, and the state of the source object as
   the harness measured it with its own lstat/readlink/llistxattr/lgetxattr/read), and what
   an archive/tar reader found in the produced tarball. *)
From LC Require Import Lib.Bytes Lib.Lex Lib.Fields Gen.Consts Model.TarMeta Model.OutFile Cases.Verdict.
From Coq Require Import ZArith.
Open Scope N_scope.

Module C07.

(* structured form of a mod= value (the harness renders the text from it):
   who 0 = none, 1 u, 2 g, 3 o, 4 a;  add or remove;  perm 0 r, 1 w, 2 x, 3 s, 4 t *)
Inductive modspec := MNone | MOctal (digits : bytes) | MSym (cs : list (N * bool * N)).

Record mcase := MkM { mc_member : member; mc_mod : modspec }.

(* one further run of the same command line on the same build root whose -o path was NOT fresh:
   it held a file already (random bytes, zeros, the stage of an earlier run on a bigger tree or
   through another compressor; shorter than, as long as, longer than the output to come).
   What a reader of the output file sees afterwards, in full: *)
Record outobs := MkOut {
  oo_method : N;          (* 0 none, 1 gzip, 2 bzip2, 3 xz *)
  oo_prior : option N;    (* length of the file the path held before the run; None = no such file *)
  oo_fresh : N;           (* length of the output of the same run written to a path that did not exist *)
  oo_len : N;             (* length of the file after the run *)
  oo_whole : bool;        (* the whole file is one archive: uncompressed -- an archive/tar reader reaches
                             the end-of-archive marker and only zero bytes follow it; compressed -- the
                             decompressor (Go reader and the program's -t) consumes the file to its last
                             byte without complaint (no trailing garbage) *)
  oo_same : bool }.       (* read that way, it is the archive the fresh path got *)

Record case := MkCase {
  c_members : list mcase;        (* in name order *)
  c_t0 : Z; c_t1 : Z;            (* wall clock (seconds) before and after the run *)
  c_comp : list (N * bool);      (* per compression method tried: does the output decompress
                                    to exactly the uncompressed archive? *)
  c_ext : list bool;             (* referee, per member written (empty when not run): does the
                                    object GNU tar extracts as root (-p --xattrs --numeric-owner)
                                    carry exactly what the header read back says? *)
  c_out : list outobs;           (* runs whose -o path existed beforehand *)
  c_obs : runres }.              (* exit status <> 0: RFailed; else the headers read back *)

Definition obs := (runres * list (N * bool) * list bool * list outobs)%type.
Definition o_run (o : obs) : runres := fst (fst (fst o)).
Definition o_comp (o : obs) : list (N * bool) := snd (fst (fst o)).
Definition o_ext (o : obs) : list bool := snd (fst o).
Definition o_out (o : obs) : list outobs := snd o.

(* ---------------------------------------------------------------- equality of observations *)
Definition xattr_beq (a b : xattr) : bool := beq (fst a) (fst b) && beq (snd a) (snd b).
Definition header_beq (a b : header) : bool :=
  beq (h_name a) (h_name b) && (h_type a =? h_type b) && (h_mode a =? h_mode b)
  && (h_uid a =? h_uid b) && (h_gid a =? h_gid b) && Z.eqb (h_mtime a) (h_mtime b)
  && (h_size a =? h_size b) && beq (h_link a) (h_link b) && (h_major a =? h_major b)
  && (h_minor a =? h_minor b) && list_beq xattr_beq (h_xattrs a) (h_xattrs b)
  && beq (h_data a) (h_data b).
Definition runres_beq (a b : runres) : bool :=
  match a, b with
  | RFailed, RFailed | RTruncated, RTruncated | RDiverged, RDiverged => true
  | ROutput x, ROutput y => list_beq (opt_beq header_beq) x y
  | _, _ => false
  end.
Definition comp_beq (a b : list (N * bool)) : bool :=
  list_beq (fun x y => (fst x =? fst y) && Bool.eqb (snd x) (snd y)) a b.
Definition optN_beq := opt_beq N.eqb.
(* the part of an [outobs] that is input (what was arranged and the reference length) *)
Definition out_key_beq (a b : outobs) : bool :=
  (oo_method a =? oo_method b) && optN_beq (oo_prior a) (oo_prior b) && (oo_fresh a =? oo_fresh b).
Definition outobs_beq (a b : outobs) : bool :=
  out_key_beq a b && (oo_len a =? oo_len b) && Bool.eqb (oo_whole a) (oo_whole b)
  && Bool.eqb (oo_same a) (oo_same b).
Definition obs_beq (a b : obs) : bool :=
  runres_beq (o_run a) (o_run b) && comp_beq (o_comp a) (o_comp b)
  && list_beq Bool.eqb (o_ext a) (o_ext b) && list_beq outobs_beq (o_out a) (o_out b).

(* ---------------------------------------------------------------- model *)
(* compressors and GNU tar are outside the model: their laws (decompress . compress = id,
   extraction reproduces the header) make every such flag true *)
(* the -o path (Model/OutFile.v): os.Create, then [oo_fresh] bytes are written from offset 0.
   The file is as long as the model of the open-and-write says; a reader consumes it whole and
   finds the archive exactly when nothing but the written bytes is in it *)
Definition model_out (o : outobs) : outobs :=
  let n := out_len (oo_prior o) (oo_fresh o) in
  MkOut (oo_method o) (oo_prior o) (oo_fresh o) n (n =? oo_fresh o) (n =? oo_fresh o).
Definition model (c : case) : obs :=
  (run (map mc_member (c_members c)), map (fun x => (fst x, true)) (c_comp c), map (fun _ => true) (c_ext c),
   map model_out (c_out c)).

(* ---------------------------------------------------------------- reference semantics used by spec *)
(* chmod(1), GNU reading (DESIGN Appendix D) *)
Definition who_mask (w : N) : N :=
  match w with 1 => 2496 (* 04700 *) | 2 => 1080 (* 02070 *) | 3 => 519 (* 01007 *) | _ => 4095 end.
Definition perm_mask (p : N) : N :=
  match p with 0 => 292 | 1 => 146 | 2 => 73 | 3 => 3072 | _ => 512 end.
Definition clause_mask (cl : N * bool * N) : N :=
  let '(w, _, p) := cl in N.land (perm_mask p) (who_mask w).
Definition chmod_ref (cs : list (N * bool * N)) (p : N) : N :=
  fold_left (fun (p : N) (cl : N * bool * N) => if snd (fst cl) then N.lor p (clause_mask cl) else N.ldiff p (clause_mask cl)) cs p.
Definition touched (cs : list (N * bool * N)) : N :=
  fold_left (fun (a : N) (cl : N * bool * N) => N.lor a (clause_mask cl)) cs 0.

Definition octal_ref (s : bytes) : N := fold_left (fun a c => 8 * a + (bn c - 48)) s 0.

(* what a mod= value does to permission bits [p] *)
Definition apply_mod (ms : modspec) (p : N) : N :=
  match ms with MNone => p | MOctal d => octal_ref d | MSym cs => chmod_ref cs p end.
Definition mod_touched (ms : modspec) : N :=
  match ms with MNone => 0 | MOctal _ => 4095 | MSym cs => touched cs end.

(* rendering of the mod= text *)
Definition who_char (w : N) : bytes :=
  match w with 1 => [nb 117] | 2 => [nb 103] | 3 => [nb 111] | 4 => [nb 97] | _ => [] end.
Definition perm_char (p : N) : ascii :=
  match p with 0 => nb 114 | 1 => nb 119 | 2 => nb 120 | 3 => nb 115 | _ => nb 116 end.
Definition render_clause (cl : N * bool * N) : bytes :=
  let '(w, a, p) := cl in who_char w ++ [if a then nb 43 else nb 45; perm_char p].
Definition render_mod (ms : modspec) : option bytes :=
  match ms with
  | MNone => None
  | MOctal d => Some d
  | MSym cs => Some (join (nb 44) (map render_clause cs))
  end.

(* Linux dev_t decoding, arithmetic form (glibc gnu_dev_major / gnu_dev_minor) *)
Definition ref_major (d : N) : N := (d / 256) mod 4096 + ((d / 17592186044416) mod 1048576) * 4096.
Definition ref_minor (d : N) : N := d mod 256 + ((d / 1048576) mod 16777216) * 256.

(* tar type flag of a file-system object *)
Definition obj_type (mode : N) : N :=
  let t := mode / 4096 in
  match t mod 16 with
  | 8 => TypeReg | 4 => TypeDir | 10 => TypeSymlink | 2 => TypeChar | 6 => TypeBlock | _ => 0
  end.

(* "usable default permissions": the owner can use the object, nothing the tool's declared
   umask forbids and no special bit is set -- on the bits a symbolic mod= did not touch *)
Definition required_bits (ty : N) : N :=
  if ty =? TypeDir then 448 (* 0700 *) else if ty =? TypeSymlink then 0 else 384 (* 0600 *).
(* a symbolic link's permission bits mean nothing on Linux (lrwxrwxrwx is what lstat shows and
   what tar records for every link), so the umask is not held against them *)
Definition forbidden_bits (ty : N) : N :=
  if ty =? TypeSymlink then 3584 else N.lor 3584 D_Umask.       (* 07000 | umask *)
Definition usable_outside (tch ty perms : N) : bool :=
  (N.land (N.ldiff (required_bits ty) tch) perms =? N.ldiff (required_bits ty) tch)
  && (N.land (N.ldiff (forbidden_bits ty) tch) perms =? 0).

Definition optN (o : option N) (d : N) : N := match o with Some x => x | None => d end.

(* ---------------------------------------------------------------- the property on one member *)
(* the type the member must have when its source object exists *)
Definition expected_type (p : opts) (mode : N) : N :=
  match p_dev p with
  | Some (isc, _, _) => if isc then TypeChar else TypeBlock            (* dev= override *)
  | None => if is_nil (p_target p) then obj_type mode else TypeSymlink  (* targ= override *)
  end.

(* fields every kind of member has *)
Definition common_fields_ok (m : mcase) (o : object) (h : header) : bool :=
  let p := m_opts (mc_member m) in
  let st := o_st o in
  (N.land (h_mode h) 4095 =? apply_mod (mc_mod m) (N.land (st_mode st) 4095))
  && (h_uid h =? optN (p_uid p) (st_uid st))
  && (h_gid h =? optN (p_gid p) (st_gid st))
  && Z.eqb (h_mtime h) (st_mtime st)
  && list_beq xattr_beq (h_xattrs h) (o_xattrs o).
(* [prev]: the members before this one with their headers (hard links point backwards).
   A hard link extracts as another name of the member it points to: what this name then shows
   is the metadata and content recorded in THAT member's header, so those must be the ones
   this name's source calls for *)
Definition linked_ok (prev : list (mcase * header)) (m : mcase) (o : object) (link : bytes) : bool :=
  existsb (fun mh : mcase * header =>
    let '(m', h') := mh in
    beq link (h_name h') && (h_type h' =? TypeReg)
    && match m_src (mc_member m') with
       | SPresent o' => (st_id (o_st o') =? st_id (o_st o)) && negb (p_hassrc (m_opts (mc_member m')))
       | _ => false
       end
    && common_fields_ok m o h'
    && (h_size h' =? st_size (o_st o)) && beq (h_data h') (o_data o)) prev.

(* same type -- or a hard link to an earlier member that is the same inode *)
Definition type_ok (prev : list (mcase * header)) (m : mcase) (o : object) (h : header) : bool :=
  let ty := expected_type (m_opts (mc_member m)) (st_mode (o_st o)) in
  (h_type h =? ty)
  || ((ty =? TypeReg) && (h_type h =? TypeLink) && (1 <? st_nlink (o_st o))
      && linked_ok prev m o (h_link h)).

(* size and bytes, link target, device numbers *)
Definition kind_fields_ok (p : opts) (o : object) (h : header) : bool :=
  let st := o_st o in
  (if h_type h =? TypeReg then (h_size h =? st_size st) && beq (h_data h) (o_data o)
   else if h_type h =? TypeLink then true
   else (h_size h =? 0) && is_nil (h_data h))
  && (if h_type h =? TypeSymlink
      then beq (h_link h) (if is_nil (p_target p) then o_link o else p_target p) else true)
  && (if (h_type h =? TypeChar) || (h_type h =? TypeBlock)
      then match p_dev p with
           | Some (_, ma, mi) => (h_major h =? ma) && (h_minor h =? mi)
           | None => (h_major h =? ref_major (st_rdev st)) && (h_minor h =? ref_minor (st_rdev st))
           end
      else true).
Definition present_fields_ok (m : mcase) (o : object) (h : header) : bool :=
  common_fields_ok m o h && kind_fields_ok (m_opts (mc_member m)) o h.

(* a member synthesised for an absent path *)
Definition absent_type (p : opts) : N :=
  match p_ltype p, p_dev p with
  | LDir, _ => TypeDir
  | LSym, _ => TypeSymlink
  | LDev, Some (isc, _, _) => if isc then TypeChar else TypeBlock
  | _, _ => 255                        (* nothing else can be synthesised *)
  end.
Definition absent_ok (c : case) (m : mcase) (h : header) : bool :=
  let p := m_opts (mc_member m) in
  let ty := absent_type p in
  (h_type h =? ty)
  && (h_uid h =? optN (p_uid p) 0) && (h_gid h =? optN (p_gid p) 0)       (* root ownership *)
  && (N.land (N.land (h_mode h) 4095) (mod_touched (mc_mod m))
      =? N.land (apply_mod (mc_mod m) 0) (mod_touched (mc_mod m)))
  && usable_outside (mod_touched (mc_mod m)) ty (N.land (h_mode h) 4095)
  && Z.leb (c_t0 c) (h_mtime h) && Z.leb (h_mtime h) (c_t1 c)
  && is_nil (h_xattrs h) && (h_size h =? 0) && is_nil (h_data h)
  && (if ty =? TypeSymlink then beq (h_link h) (p_target p) else true)
  && match p_dev p with
     | Some (_, ma, mi) => if (ty =? TypeChar) || (ty =? TypeBlock)
                           then (h_major h =? ma) && (h_minor h =? mi) else true
     | None => true
     end.

Definition member_ok (c : case) (prev : list (mcase * header)) (m : mcase) (h : header) : bool :=
  let p := m_opts (mc_member m) in
  beq (h_name h) (dot :: p_name p)
  &&
  match m_src (mc_member m) with
  | SPresent o => type_ok prev m o h && present_fields_ok m o h
  | SAbsent => absent_ok c m h
  | SLstatErr => false
  end.

(* an entry may be left out only when its source is absent and absence is excusable *)
Definition may_skip (m : mcase) : bool :=
  p_skip (m_opts (mc_member m)) && match m_src (mc_member m) with SAbsent => true | _ => false end.

Fixpoint members_ok (c : case) (prev : list (mcase * header)) (ms : list mcase) (hs : list (option header)) : bool :=
  match ms, hs with
  | [], [] => true
  | m :: mr, Some h :: hr => negb (may_skip m) && member_ok c prev m h && members_ok c (prev ++ [(m, h)]) mr hr
  | m :: mr, None :: hr => may_skip m && members_ok c prev mr hr
  | _, _ => false
  end.

(* an entry the manual allows and whose source is there (or need not be): the run must not
   be refused because of it *)
Definition acceptable (m : mcase) : bool :=
  let p := m_opts (mc_member m) in
  match p_uid p with Some u => u <? 2147483648 | None => true end
  && match p_gid p with Some g => g <? 2147483648 | None => true end
  && match p_dev p with Some (_, ma, mi) => (ma <? 4096) && (mi <? 1048576) | None => true end
  && match m_src (mc_member m) with
     | SPresent o => negb (obj_type (st_mode (o_st o)) =? 0)
     | SAbsent => p_skip p
                  || match p_ltype p with
                     | LDir => true
                     | LSym => negb (is_nil (p_target p))
                     | LDev => has (p_dev p)
                     | _ => false
                     end
     | SLstatErr => false
     end.

(* "a generated tarball": the file named by -o IS the archive -- all of it and nothing else,
   whatever the path held before the run.  Uncompressed output has the length the archive has
   (the tar format allows zero padding after the end-of-archive marker, stagemaker writes none:
   the reference is the same run to a fresh path); compressed output is consumed by its
   decompressor to the last byte and gives the same archive *)
Definition out_ok (o : outobs) : bool :=
  oo_whole o && oo_same o && (if oo_method o =? 0 then oo_len o =? oo_fresh o else true).

Definition spec (c : case) (o : obs) : bool :=
  match o_run o with
  | ROutput hs => members_ok c [] (c_members c) hs
  | RFailed => negb (forallb acceptable (c_members c))
  | _ => false
  end
  && forallb (fun x : N * bool => snd x) (o_comp o)
  && list_beq N.eqb (map fst (o_comp o)) (map fst (c_comp c))
  && forallb (fun b : bool => b) (o_ext o) && (length (o_ext o) =? length (c_ext c))%nat
  && forallb out_ok (o_out o) && list_beq out_key_beq (o_out o) (c_out c).

(* ---------------------------------------------------------------- domain *)
Definition no_nul (b : bytes) : bool := nosepb NUL b.
Fixpoint sorted_names (l : list bytes) : bool :=
  match l with
  | a :: ((b :: _) as r) => ltb a b && sorted_names r
  | _ => true
  end.

Fixpoint nodupb (l : list bytes) : bool :=
  match l with [] => true | a :: r => negb (existsb (beq a) r) && nodupb r end.
Definition starts_with_slash (b : bytes) : bool :=
  match b with c :: _ => Ascii.eqb c slash | [] => false end.

Definition clause_ok (cl : N * bool * N) : bool :=
  let '(w, _, p) := cl in (w <=? 4) && (p <=? 4) && negb ((w =? 3) && (p =? 4)).
Definition modspec_ok (ms : modspec) : bool :=
  match ms with
  | MNone => true
  | MOctal d => negb (is_nil d) && forallb is_octal_digit d && (octal_ref d <=? 4095)
                && (N.of_nat (length d) <=? 10)
  | MSym cs => negb (is_nil cs) && forallb clause_ok cs
  end.

Definition opt_bytes_beq := opt_beq beq.

Definition object_ok (o : object) : bool :=
  let st := o_st o in
  (st_mode st <? 65536) && (st_uid st <? 4294967296) && (st_gid st <? 4294967296)
  && (st_rdev st <? 18446744073709551616)
  && sorted_names (map fst (o_xattrs o)) && nodupb (map fst (o_xattrs o))
  && forallb (fun x => negb (is_nil (fst x)) && no_nul (fst x)) (o_xattrs o)
  && (if obj_type (st_mode st) =? TypeReg then o_dlen o =? st_size st else true)
  && (if st_size st =? 0 then is_nil (o_data o) else true)
  && (if obj_type (st_mode st) =? TypeSymlink then negb (is_nil (o_link o)) else true).

Definition member_wf (m : mcase) : bool :=
  let p := m_opts (mc_member m) in
  modspec_ok (mc_mod m) && opt_bytes_beq (render_mod (mc_mod m)) (p_mod p)
  && no_nul (p_name p) && starts_with_slash (p_name p) && no_nul (p_target p)
  (* options the manual allows for the entry type *)
  && match p_ltype p with
     | LFile | LDir => negb (has (p_dev p)) && is_nil (p_target p)
     | LDev => is_nil (p_target p) && negb (has (p_dev p) && p_hassrc p)
     | LSym => negb (has (p_mod p)) && negb (has (p_uid p)) && negb (has (p_gid p))
               && negb (p_hassrc p) && negb (has (p_dev p))
     | LNone => negb (has (p_mod p)) && negb (has (p_uid p)) && negb (has (p_gid p))
                && negb (p_hassrc p) && negb (has (p_dev p)) && is_nil (p_target p)
     | LHard => false
     end
  (* device numbers either refused by the parser or representable in the header *)
  && match p_dev p with
     | Some (_, ma, mi) => ((ma <? 2097152) && (mi <? 2097152)) || (4294967296 <=? ma) || (4294967296 <=? mi)
     | None => true
     end
  && match m_src (mc_member m) with
     | SPresent o =>
       object_ok o
       (* the entry type does not contradict the object it is taken from *)
       && match p_ltype p with
          | LNone => true
          | LFile => obj_type (st_mode (o_st o)) =? TypeReg
          | LDir => obj_type (st_mode (o_st o)) =? TypeDir
          | LSym => obj_type (st_mode (o_st o)) =? TypeSymlink
          | LDev => (obj_type (st_mode (o_st o)) =? TypeChar) || (obj_type (st_mode (o_st o)) =? TypeBlock)
          | LHard => false
          end
     | _ => true
     end.

(* names of one inode show one object *)
Definition stat_beq (a b : stat) : bool :=
  (st_mode a =? st_mode b) && (st_uid a =? st_uid b) && (st_gid a =? st_gid b)
  && Z.eqb (st_mtime a) (st_mtime b) && (st_size a =? st_size b) && (st_rdev a =? st_rdev b)
  && (st_nlink a =? st_nlink b) && (st_id a =? st_id b).
Definition same_inode (a b : mcase) : bool :=
  match m_src (mc_member a), m_src (mc_member b) with
  | SPresent o1, SPresent o2 => st_id (o_st o1) =? st_id (o_st o2)
  | _, _ => false
  end.
Definition inode_consistent (a b : mcase) : bool :=
  match m_src (mc_member a), m_src (mc_member b) with
  | SPresent o1, SPresent o2 =>
    negb (st_id (o_st o1) =? st_id (o_st o2))
    || (stat_beq (o_st o1) (o_st o2) && list_beq xattr_beq (o_xattrs o1) (o_xattrs o2)
        && beq (o_data o1) (o_data o2))
  | _, _ => true
  end.
Fixpoint pairwise {A} (f : A -> A -> bool) (l : list A) : bool :=
  match l with [] => true | a :: r => forallb (f a) r && pairwise f r end.

Definition wf (c : case) : bool :=
  forallb member_wf (c_members c)
  && sorted_names (map (fun m => p_name (m_opts (mc_member m))) (c_members c))
  && Z.leb (c_t0 c) (c_t1 c)
  && forallb (fun m => Z.leb (c_t0 c) (m_now (mc_member m)) && Z.leb (m_now (mc_member m)) (c_t1 c)) (c_members c)
  && forallb (fun x => (1 <=? fst x) && (fst x <=? 3)) (c_comp c)
  && pairwise inode_consistent (c_members c)
  && forallb (fun o => oo_method o <=? 3) (c_out c).

(* known finding 1: two members are names of one inode (so the later one is written as a hard
   link) and one of them carries mod=, uid= or gid=.  One inode has one mode and one owner: the
   extracted tree shows the first name's header on every name, so an override on the first
   name leaks to the others and an override on a later name is lost *)
Definition has_override (m : mcase) : bool :=
  let p := m_opts (mc_member m) in has (p_mod p) || has (p_uid p) || has (p_gid p).
Definition linkable (m : mcase) : bool :=
  match m_src (mc_member m) with
  | SPresent o => negb (p_hassrc (m_opts (mc_member m))) && (1 <? st_nlink (o_st o))
  | _ => false
  end.
Definition no_link_override (a b : mcase) : bool :=
  negb (same_inode a b && linkable a && linkable b && (has_override a || has_override b)).
Definition kf (c : case) : N := if pairwise no_link_override (c_members c) then 0%N else 1%N.

Definition verdict (c : case) : N :=
  mkverdict (wf c) (obs_beq (model c) (c_obs c, c_comp c, c_ext c, c_out c))
            (spec c (c_obs c, c_comp c, c_ext c, c_out c)) (kf c).

(* ---------------------------------------------------------------- diagnosis (replay files, debugging) *)
(* per member: name, the header fields (1 name 2 type 3 mode 4 uid 5 gid 6 mtime 7 size 8 link
   9 major 10 minor 11 xattrs 12 data; 0 = presence) on which model and observation differ,
   and whether the observed header satisfies the property *)
Definition field_diffs (a b : header) : list N :=
  (if beq (h_name a) (h_name b) then [] else [1]) ++ (if h_type a =? h_type b then [] else [2])
  ++ (if h_mode a =? h_mode b then [] else [3]) ++ (if h_uid a =? h_uid b then [] else [4])
  ++ (if h_gid a =? h_gid b then [] else [5]) ++ (if Z.eqb (h_mtime a) (h_mtime b) then [] else [6])
  ++ (if h_size a =? h_size b then [] else [7]) ++ (if beq (h_link a) (h_link b) then [] else [8])
  ++ (if h_major a =? h_major b then [] else [9]) ++ (if h_minor a =? h_minor b then [] else [10])
  ++ (if list_beq xattr_beq (h_xattrs a) (h_xattrs b) then [] else [11])
  ++ (if beq (h_data a) (h_data b) then [] else [12]).
Fixpoint diag_members (c : case) (prev : list (mcase * header)) (ms : list mcase)
    (mo oo : list (option header)) : list (bytes * list N * bool) :=
  match ms with
  | [] => []
  | m :: mr =>
    let mh := match mo with x :: _ => x | [] => None end in
    let oh := match oo with x :: _ => x | [] => None end in
    let d := match mh, oh with
             | Some a, Some b => field_diffs a b
             | None, None => []
             | _, _ => [0]
             end in
    let ok := match oh with Some h => negb (may_skip m) && member_ok c prev m h | None => may_skip m end in
    (p_name (m_opts (mc_member m)), d, ok)
    :: diag_members c (match oh with Some h => prev ++ [(m, h)] | None => prev end) mr (tl mo) (tl oo)
  end.
Definition diag (c : case) :=
  let mo := match o_run (model c) with ROutput l => l | _ => [] end in
  let oo := match c_obs c with ROutput l => l | _ => [] end in
  (match o_run (model c) with ROutput _ => 1 | RFailed => 2 | RTruncated => 3 | RDiverged => 4 end,
   match c_obs c with ROutput _ => 1 | RFailed => 2 | RTruncated => 3 | RDiverged => 4 end,
   forallb acceptable (c_members c),
   diag_members c [] (c_members c) mo oo,
   (* runs to an existing -o path: (method, prior length, fresh length, observed length,
      length the model gives, whole, same, satisfies the property) *)
   map (fun o => (oo_method o, oo_prior o, oo_fresh o, oo_len o, oo_len (model_out o),
                  oo_whole o, oo_same o, out_ok o)) (c_out c)).
End C07.
