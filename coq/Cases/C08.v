(* C08: a layer's reported state is the documented function of disk and mount table. *)
From LC Require Import Lib.Bytes Lib.Lex Lib.Fields Lib.PathM Gen.Consts
  Model.MountInfo Model.FsTree Model.Kernel Model.Layers Cases.Verdict Cases.LC.
Open Scope N_scope.
Import LC LCS.

Module C08.
Definition case := LC.case.

Definition fhs_dirs : list bytes :=
  [bs "bin"; bs "etc"; bs "lib"; bs "opt"; bs "root"; bs "sbin"; bs "usr"].

(* doc/layercake_manpage.adoc "status" + the property text, against file tree and kernel table.
   [st_of] gives the documented state of the parent (the forest is walked parents first). *)
Definition doc_state_one (c : cfgT) (f : fsT) (tab : list kline) (um : users_map) (m : lmap)
  (ch : list layer) (parent_state : option N) (x : layer) : N :=
  let bld := build_path c x in
  let derived := match l_base x with [] => false | _ => true end in
  if l_state x =? st_error then st_error else          (* the layerconfig did not load cleanly *)
  if negb (is_dir f bld) || (derived && (negb (is_dir f (work_path c x)) || negb (is_dir f (upper_path c x))))
  then st_incomplete else
  let continue_ :=
    let exp := expected_mounts c ch x in
    let imports := filter (fun em => negb (em_overlay em)) exp in
    if negb (forallb (fun d => is_dir f (pathjoin [bld; d])) fhs_dirs) then st_complete else
    (* something other than the expected thing mounted on a configured mountpoint: error *)
    let wrong := existsb (fun em =>
       exists_ f (em_target em) &&
       match top_at tab (em_target em) with
       | Some k => negb (shows_source tab k (em_source em) (em_fstype em))
       | None => false end) imports in
    let exports_wrong :=
      match expand_config_exports c x with
      | None => true
      | Some es => existsb (fun e =>
          (negb (is_descendant bld (x_source e)) && negb (beq bld (x_source e)))
          || (exists_ f (x_source e) &&
              match readlink f (x_mount e) with Some t => negb (beq t (x_source e)) | None => false end)) es
      end in
    let unresolved := negb (length imports =? length (l_mounts x))%nat in
    if unresolved then st_inhabited else
    if wrong || exports_wrong then st_error else
    let missing :=
      existsb (fun em => negb (exists_ f (em_target em))
                         || (is_abs (em_source em) && negb (exists_ f (em_source em))
                             && negb (at_or_under (c_layers c) (em_source em)))) imports
      || match expand_config_exports c x with
         | Some es => existsb (fun e => negb (exists_ f (x_source e))) es
         | None => false end in
    if missing then st_inhabited else
    let n_imports := length (filter (fun em => mounted_at tab (em_target em)) imports) in
    let n_all := (n_imports + (if derived then 1 else 0))%nat in
    let needed := (length imports + (if derived then 1 else 0))%nat in
    if (n_all =? 0)%nat then st_mountable
    else if (n_all <? needed)%nat then st_partial
    else if existsb (in_mount_dirs c) (users_of um (l_name x)) || overlain_by_mount c tab x
         then st_mounted_busy else st_mounted in
  if derived then
    match parent_state with
    | None => st_complete
    | Some ps =>
      if ps <? st_mountable then st_complete else
      match top_at tab bld with
      | None => st_mountable
      | Some k => if is_right_overlay c m x k then continue_ else st_error
      end
    end
  else continue_.

Fixpoint assoc_state (l : list (bytes * N)) (n : bytes) : option N :=
  match l with [] => None | (k, v) :: r => if beq k n then Some v else assoc_state r n end.

(* documented states of all layers, parents before children *)
Definition doc_states (c : cfgT) (f : fsT) (tab : list kline) (um : users_map) : list (bytes * N) :=
  let m := layers_on_disk c f in
  match normalize_order m with
  | None => []
  | Some order =>
    fold_left (fun acc n =>
      match lm_get m n with
      | None => acc
      | Some x =>
        let ps := match l_base x with [] => None | b0 => assoc_state acc b0 end in
        acc ++ [(n, doc_state_one c f tab um m (chain c f n) ps x)]
      end) order []
  end.

Definition step_spec (c : cfgT) (w : wobs) (v : sview) : bool :=
  if negb (plain_env (v_env v)) then true else
  let f := wo_fs w in let w' := v_after v in
  let tab := ks_tab (wo_ks w) in
  match v_cmd v, v_res v, v_layers v with
  | CProbe, ROk, Some los =>
    (* status / list: the reported state of every layer is the documented one *)
    let ds := doc_states c f tab (v_users v) in
    forallb (fun lo => match assoc_state ds (lo_name lo) with
                       | Some d => lo_state lo =? d
                       | None => false end) los
    && (length los =? length ds)%nat
  | CMkdirs n, ROk, _ =>
    (* mkdirs recreates what is missing *)
    match layer_named c f n with
    | Some x => let f' := wo_fs w' in
                is_dir f' (build_path c x)
                && (match l_base x with [] => true
                    | _ => is_dir f' (work_path c x) && is_dir f' (upper_path c x) end)
    | None => true
    end
  | CMount n, ROk, Some los =>
    (* the stack layercake has just mounted is reported mounted, never as an error *)
    forallb (fun x => existsb (fun lo => beq (lo_name lo) (l_name x) && negb (lo_state lo =? st_error)) los)
            (chain c f n)
  | _, _, _ => true
  end.

Definition spec (c : case) : bool := along_views (step_spec (c_cfg c)) (w0 c) (c_steps c).
Definition wf := LC.wf.
Definition kf (c : case) : N := 0.
Definition verdict (c : case) : N := mkverdict (wf c) (LC.corr c) (spec c) (kf c).
End C08.
