(* C09: remove without -files never destroys user data. *)
From LC Require Import Lib.Bytes Lib.Lex Lib.Fields Lib.PathM Gen.Consts
  Model.MountInfo Model.FsTree Model.Kernel Model.Layers Cases.Verdict Cases.LC.
Open Scope N_scope.
Import LC LCS.

Module C09.
Definition case := LC.case.

(* what `layercake add` itself creates for a layer (doc/layercake_directories.adoc): the layer
   directory, its layerconfig, the build directory and, for a base layer, root/.bashrc in it,
   for a derived layer the two overlayfs directories *)
(* The names "layerconfig" (doc/layercake_directories.adoc, manual page LAYER DIRECTORY) and
   "~removed" (property text; manual page, remove) are written out here, NOT taken from the
   regenerated Gen/Consts.v: a change of defaults.LayerconfigFile / defaults.RemovedLayerSuffix
   then makes this predicate disagree with what the code does (a concrete failing input)
   instead of moving with it.  The .bashrc text is not documented: D_BaseLayerRootBashrc is
   compared with the reviewed text in Properties/C09.v (C09_constants_pinned). *)
Definition created_by_add (c : cfgT) (x : layer) (p : bytes) (n : node) : bool :=
  let d := l_path x in
  match n with
  | Dir => memb p (d :: filter (at_or_under d)
                   (prefixes (build_path c x) ++
                    match l_base x with
                    | [] => [pathjoin [build_path c x; bs "root"]]
                    | _ => prefixes (work_path c x) ++ prefixes (upper_path c x)
                    end))
  | File content =>
    beq p (pathjoin [d; bs "layerconfig"])
    || (match l_base x with
        | [] => beq p (pathjoin [build_path c x; bs "root"; bs ".bashrc"]) && beq content D_BaseLayerRootBashrc
        | _ => false end)
  | Link _ => false
  end.

Definition step_spec (c : cfgT) (w : wobs) (v : sview) : bool :=
  match v_cmd v with
  | CRemove n false =>
    if negb (plain_env (v_env v)) then true else
    let f := wo_fs w in let f' := wo_fs (v_after v) in
    match layer_named c f n with
    | None => true
    | Some x =>
      let d := l_path x in
      let removed := d ++ bs "~removed" in
      let user_data := filter (fun e => at_or_under d (fst e) && negb (created_by_add c x (fst e) (snd e))) f in
      (* every user file survives with its content, in place or under <name>~removed *)
      forallb (fun e =>
        match snd e with
        | Dir => true
        | _ => opt_beq node_beq (fs_get f' (fst e)) (Some (snd e))
               || opt_beq node_beq (fs_get f' (removed ++ rel_suffix d (fst e))) (Some (snd e))
        end) user_data
      (* deleted outright only if nothing beyond what add created *)
      && (match v_res v, user_data with
          | ROk, _ :: _ => exists_ f' removed
          | _, _ => true end)
      (* an existing <name>~removed is never overwritten *)
      && forallb (fun e => if at_or_under removed (fst e)
                           then opt_beq node_beq (fs_get f' (fst e)) (Some (snd e)) else true) f
    end
  | _ => true
  end.

Definition spec (c : case) : bool := along_views (step_spec (c_cfg c)) (w0 c) (c_steps c).
Definition wf := LC.wf.
Definition kf (c : case) : N := 0.
Definition verdict (c : case) : N := mkverdict (wf c) (LC.corr c) (spec c) (kf c).
End C09.
