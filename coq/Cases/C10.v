(* C10 (layercake part): a command reports success only if all of its effects were applied. *)
From LC Require Import Lib.Bytes Lib.Lex Lib.Fields Lib.PathM Gen.Consts
  Model.MountInfo Model.FsTree Model.Kernel Model.Layers Model.StageOut Model.OutFile Cases.Verdict Cases.LC.
Open Scope N_scope.
Import LC LCS.

Module C10.

(* the k-th mutating operation was reached (so it failed): the command must not report success.
   Conversely a reported success means the fault was never hit, i.e. every step happened. *)
Definition step_spec (c : cfgT) (w : wobs) (v : sview) : bool :=
  match e_fault (v_env v) with
  | FailAt k => negb (k <? length (v_log v))%nat || negb (rclass_beq (v_res v) ROk)
  | _ => true
  end.

(* ---- stagemaker: -list / -generate with a failing output ---- *)
Record scase := MkS {
  sc_mode : N;          (* 0..3 -list system/installed/stage/stage -files; 4..7 -generate none/gzip/bzip2/xz *)
  sc_sink : sink;
  sc_size : N;          (* bytes of the complete output of the same command without a fault *)
  sc_prior : option N;  (* the -o path of the run under test held a file of this length already; None =
                           the path did not exist *)
  sc_exit_ok : bool;    (* observed: exit status 0 *)
  sc_len : option N }.  (* observed: length of the file named by -o after the run; None = the output
                           did not go to a regular file of its own (/dev/full, standard output), or
                           its length is no function of the input (compressed: synthesised members
                           carry the clock of the run; those files are read back by the C07 check) *)

(* the property: a write error at any byte offset (or a failing compressor) yields a non-zero exit *)
Definition s_fault_reached (c : scase) : bool :=
  match sc_sink c with
  | SNone => false
  | SAlwaysFail => negb (sc_size c =? 0)
  | SLimit k => k <? sc_size c
  | SBadCompressor => true
  end.
(* ... and an exit status of 0 means the complete output was written: the file named by -o then
   holds the complete output and nothing else, whatever the path held before the run *)
Definition s_file_ok (c : scase) (exit_ok : bool) (len : option N) : bool :=
  match len with Some n => negb exit_ok || (n =? sc_size c) | None => true end.
Definition s_spec (c : scase) (exit_ok : bool) (len : option N) : bool :=
  (negb (s_fault_reached c) || negb exit_ok) && s_file_ok c exit_ok len.
Definition s_model (c : scase) : bool := exit_ok_by_size (sc_sink c) (sc_size c).
(* the file after a successful run (Model/OutFile.v: create-or-truncate, then sc_size bytes from
   offset 0); after a failed run the model says nothing about the file *)
Definition s_model_len (c : scase) : option N :=
  match sc_len c with
  | Some n => Some (if s_model c then out_len (sc_prior c) (sc_size c) else n)
  | None => None
  end.

Inductive case := CIn (c : LC.case) | CStage (s : scase).

Definition spec (c : case) : bool :=
  match c with
  | CIn c => along_views (step_spec (c_cfg c)) (w0 c) (c_steps c)
  | CStage s => s_spec s (sc_exit_ok s) (sc_len s)
  end.
Definition wf (c : case) : bool := match c with CIn c => LC.wf c | CStage _ => true end.
Definition kf (c : case) : N := 0.
Definition corr (c : case) : bool :=
  match c with CIn c => LC.corr c | CStage s => Bool.eqb (s_model s) (sc_exit_ok s) && opt_beq N.eqb (s_model_len s) (sc_len s) end.
Definition verdict (c : case) : N := mkverdict (wf c) (corr c) (spec c) (kf c).
End C10.
