(* C10 (layercake part): a command reports success only if all of its effects were applied. *)
From LC Require Import Lib.Bytes Lib.Lex Lib.Fields Lib.PathM Gen.Consts
  Model.MountInfo Model.FsTree Model.Kernel Model.Layers Cases.Verdict Cases.LC.
Open Scope N_scope.
Import LC LCS.

Module C10.
Definition case := LC.case.

(* the k-th mutating operation was reached (so it failed): the command must not report success.
   Conversely a reported success means the fault was never hit, i.e. every step happened. *)
Definition step_spec (c : cfgT) (w : wobs) (v : sview) : bool :=
  match e_fault (v_env v) with
  | FailAt k => negb (k <? length (v_log v))%nat || negb (rclass_beq (v_res v) ROk)
  | _ => true
  end.

Definition spec (c : case) : bool := along_views (step_spec (c_cfg c)) (w0 c) (c_steps c).
Definition wf := LC.wf.
Definition kf (c : case) : N := 0.
Definition verdict (c : case) : N := mkverdict (wf c) (LC.corr c) (spec c) (kf c).
End C10.
