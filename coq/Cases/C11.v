(* C11: a layer's mount configuration survives rewrites and crashes intact. *)
From LC Require Import Lib.Bytes Lib.Lex Lib.Fields Lib.PathM Gen.Consts
  Model.MountInfo Model.FsTree Model.Kernel Model.Layers Cases.Verdict Cases.LC.
Open Scope N_scope.
Import LC LCS.

Module C11.
Definition case := LC.case.

Definition lf_beq (a b : lfile) : bool :=
  beq (lf_base a) (lf_base b) && list_beq nmount_beq (lf_mounts a) (lf_mounts b)
  && list_beq nmount_beq (lf_exports a) (lf_exports b).
Definition loads_clean (content : bytes) : bool := match lf_errors (read_layerfile content) with O => true | _ => false end.

(* every layerconfig found after the step (path p, content x) is a complete version: either
   byte-identical to a layerconfig that existed before the step (at the same path or at the
   path the layer had before a rename), or a complete rewrite -- it loads without error, has
   the same imports and exports in the same order as the configuration it replaces, and the
   base line the command intends *)
(* "layerconfig" (doc/layercake_layerconfig.adoc: "the layerconfig file in each layer directory")
   is written out in this predicate, not taken from the regenerated Gen/Consts.v: after a change
   of defaults.LayerconfigFile the predicate still looks at the documented name.  (layer_named /
   layers_on_disk below are the model's reader and do use D_LayerconfigFile; Properties/C11.v
   C11_constants_pinned compares it with the literal.) *)
Definition complete_version (c : cfgT) (f : fsT) (cmd : command) (p x : bytes) : bool :=
  let olds : list bytes :=                         (* contents it may legitimately derive from *)
    flat_map (fun e => match snd e with
                       | File o => if beq (pathbase (fst e)) (bs "layerconfig")
                                      || beq (pathdir (fst e)) (c_base c) then [o] else []
                       | _ => [] end) f in
  existsb (fun o => beq o x) olds
  || (loads_clean x
      && existsb (fun o =>
           let lo := read_layerfile o in let lx := read_layerfile x in
           list_beq nmount_beq (lf_mounts lo) (lf_mounts lx)
           && list_beq nmount_beq (lf_exports lo) (lf_exports lx)
           && (beq (lf_base lo) (lf_base lx)
               || match cmd with
                  | CRename _ n => beq (lf_base lx) n
                  | CRebase _ b0 => beq (lf_base lx) b0
                  | CAdd _ b0 _ => beq (lf_base lx) b0
                  | _ => false end)) olds).

Definition step_spec (c : cfgT) (w : wobs) (v : sview) : bool :=
  if e_pretend (v_env v) then true else
  let f := wo_fs w in let f' := wo_fs (v_after v) in
  (* (b) crash or not: no layerconfig is ever an empty or truncated file *)
  forallb (fun e => match snd e with
                    | File x => if beq (pathbase (fst e)) (bs "layerconfig") && under (c_layers c) (fst e)
                                then complete_version c f (v_cmd v) (fst e) x else true
                    | _ => true end) f'
  (* (a) a successful rewrite keeps parent, imports and exports of every layer that loaded *)
  && match v_res v, e_fault (v_env v) with
     | ROk, NoFault =>
       forallb (fun x =>
         if l_state x =? st_error then true else
         let newname := match v_cmd v with CRename a n => if beq a (l_name x) then n else l_name x | _ => l_name x end in
         match v_cmd v with
         | CRemove a _ => true
         | _ =>
           match layer_named c f' newname with
           | None => false
           | Some y =>
             list_beq nmount_beq (l_mounts x) (l_mounts y) && list_beq nmount_beq (l_exports x) (l_exports y)
             && beq (l_base y)
                    (match v_cmd v with
                     | CRename a n => if beq (l_base x) a then n else l_base x
                     | CRebase a b0 => if beq a (l_name x) then b0 else l_base x
                     | _ => l_base x end)
           end
         end) (layers_on_disk c f)
     | _, _ => true
     end.

Definition spec (c : case) : bool := along_views (step_spec (c_cfg c)) (w0 c) (c_steps c).
Definition wf := LC.wf.
Definition kf (c : case) : N := 0.
Definition verdict (c : case) : N := mkverdict (wf c) (LC.corr c) (spec c) (kf c).
End C11.
