(* C12: case type, model observation, specification predicate, verdict. *)
From LC Require Import Lib.Bytes Lib.Lex Lib.Fields Lib.PathM Gen.Consts Model.MountInfo Cases.Verdict.

Module C12.
(* per query path: GetMount, GetMountAndSubmounts (mountpoints), GetMountSources of GetMount *)
Record qres := MkQ { q_mount : option mount; q_subs : list bytes; q_srcs : option src_res }.
Record obs := MkObs { o_probe : probe_res; o_queries : list qres; o_lowers : list bytes }.
Record case := MkCase {
  c_tbl : option (list kline);     (* structured table when the lines are a rendering *)
  c_lines : list bytes;            (* the mountinfo text given to the implementation *)
  c_queries : list bytes;          (* paths asked for *)
  c_obs : obs }.                   (* what the implementation answered *)

Definition src_res_beq (a b : src_res) : bool :=
  match a, b with SPanic, SPanic => true | SOk x, SOk y => list_beq beq x y | _, _ => false end.
Definition qres_beq (a b : qres) : bool :=
  opt_beq mount_beq (q_mount a) (q_mount b) && list_beq beq (q_subs a) (q_subs b)
  && opt_beq src_res_beq (q_srcs a) (q_srcs b).
Definition obs_beq (a b : obs) : bool :=
  probe_res_beq (o_probe a) (o_probe b) && list_beq qres_beq (o_queries a) (o_queries b)
  && list_beq beq (o_lowers a) (o_lowers b).

Definition answer (pr : probe_res) (qs : list bytes) : obs :=
  match pr with
  | PPanic => MkObs PPanic [] []
  | POk ms ds =>
    MkObs pr
      (map (fun q => let m := get_mount ms q in
                     MkQ m (get_mount_and_submounts ms q)
                         (match m with Some x => Some (mount_sources ds x) | None => None end)) qs)
      (overlay_lowerdirs ms)
  end.

Definition model (c : case) : obs := answer (probe (c_lines c)) (c_queries c).

Definition wf (c : case) : bool :=
  match c_tbl c with
  | Some T => wf_table T && list_beq beq (render T) (c_lines c)
  | None => true
  end.

(* the property on one case: what the implementation read back is the abstract content
   of the table the kernel rendered *)
Definition spec (c : case) (o : obs) : bool :=
  match c_tbl c with
  | Some T => obs_beq o (answer (view T) (c_queries c))
  | None => true
  end.

Definition kf (c : case) : N := 0%N.

Definition verdict (c : case) : N :=
  mkverdict (wf c) (obs_beq (model c) (c_obs c)) (spec c (c_obs c)) (kf c).
End C12.
