(* C13: case type, model observation, specification predicate, known-finding classes, verdict. *)
From LC Require Import Lib.Bytes Lib.Lex Lib.Fields Model.PMS Model.AtomMatch Cases.Verdict.
Import PMS.

Module C13.

(* ---- the input: a dependency atom, an installed package, the depending package's flags ---- *)
Record atom := MkAtom {
  a_ver : option (vop * ver);               (* operator and version; None = unversioned atom *)
  a_slot : slotdep;
  a_use : list usedep }.
Record pkg := MkPkg {
  p_ver : ver;
  p_slot : bytes;
  p_subslot : option bytes;
  p_iuse : list (N * bytes);                (* IUSE_EFFECTIVE tokens: prefix (0 none, 1 "+", 2 "-") and flag *)
  p_use : list bytes }.                     (* USE: the enabled flags *)

(* ---- what the implementation did ---- *)
Inductive obs :=
  | OTimeout                                (* no answer within the wall-clock limit *)
  | OPanic
  | OErr (stage : N)                        (* 0: the atom was rejected, 1: the package was rejected *)
  | OOk (dep_cv dep_slot dep_sub pkg_cv pkg_slot pkg_sub : bytes)   (* comparison strings as built *)
        (vs : bool)                         (* VersionAndSlotMatch *)
        (fl : bool)                         (* FilterAtoms of the same atom without version and slot *)
        (filter : bool).                    (* FilterAtoms non-empty *)

Record case := MkCase {
  c_atom : atom; c_pkg : pkg;
  c_parent : list (bytes * bool);           (* ParentUseFlags *)
  c_obs : obs }.

Definition obs_beq (a b : obs) : bool :=
  match a, b with
  | OTimeout, OTimeout => true
  | OPanic, OPanic => true
  | OErr x, OErr y => (x =? y)%N
  | OOk a1 a2 a3 a4 a5 a6 v1 f1 r1, OOk b1 b2 b3 b4 b5 b6 v2 f2 r2 =>
      beq a1 b1 && beq a2 b2 && beq a3 b3 && beq a4 b4 && beq a5 b5 && beq a6 b6
      && Bool.eqb v1 v2 && Bool.eqb f1 f2 && Bool.eqb r1 r2
  | _, _ => false
  end.

(* ---- printing a structured version into the three groups pkgVerRE delivers ---- *)
Definition dotc : ascii := nb 46.
Definition kind_name (k : skind) : bytes :=
  match k with SAlpha => bs "_alpha" | SBeta => bs "_beta" | SPre => bs "_pre" | SRc => bs "_rc" | SP => bs "_p" end.
Definition basever_of (v : ver) : bytes :=
  join dotc (v_nums v) ++ match v_letter v with Some l => [l] | None => [] end.
Definition suffix_of (v : ver) : bytes :=
  flat_map (fun s => kind_name (fst s) ++ match snd s with Some d => d | None => [] end) (v_sufs v).
Definition revision_of (v : ver) : bytes :=
  match v_rev v with Some d => nb 114 :: d | None => [] end.

Definition relop_of (op : vop) : N :=
  match op with
  | OpLt => Relop_lt | OpLe => Relop_le | OpEq => Relop_eq | OpGe => Relop_ge | OpGt => Relop_gt
  | OpTilde => Relop_range | OpGlob => Relop_eq          (* "=" prefix; the "*" is the wildcard group *)
  end.
Definition is_glob (op : vop) : bool := match op with OpGlob => true | _ => false end.

(* prefixSuffixMap: the Type number each USE-dependency form is parsed into *)
Definition form_type (f : uform) : N :=
  match f with UEnabled => 0 | USame => 1 | UOpposite => 2 | UIf => 3 | UIfNot => 4 | UDisabled => 5 end%N.
Definition def_code (d : udefault) : N := match d with DNone => 0 | DPlus => 1 | DMinus => 2 end%N.
Definition usedeps_of (l : list usedep) : list (N * N * bytes) :=
  map (fun d => (form_type (u_form d), def_code (u_def d), u_flag d)) l.

(* the comparison string RawParseAtomAtCursor builds for a version under operator [relop] *)
Definition cmpstr (relop : N) (v : ver) : bytes :=
  comp_ver relop (basever_of v) (suffix_of v) (revision_of v).

Definition parse_atom (a : atom) : parsed :=
  let '(slot, sub, sop) :=
    match a_slot a with
    | SNone => ([], [], [])
    | SAnyStar => ([], [], [nb 42])
    | SAnyEq => ([], [], [nb 61])
    | SSlot s ss e => (s, match ss with Some x => x | None => [] end, if e then [nb 61] else [])
    end in
  match a_ver a with
  | None => raw_parse Relop_none false [] [] [] false slot sub sop (usedeps_of (a_use a))
  | Some (op, v) =>
    raw_parse (relop_of op) true (basever_of v) (suffix_of v) (revision_of v) (is_glob op)
              slot sub sop (usedeps_of (a_use a))
  end.

Definition parse_pkg (p : pkg) : parsed :=
  raw_parse Relop_none true (basever_of (p_ver p)) (suffix_of (p_ver p)) (revision_of (p_ver p)) false
            (p_slot p) (match p_subslot p with Some x => x | None => [] end) [] [].

(* the IUSE and USE lines as the harness writes them *)
Definition iuse_tok (t : N * bytes) : bytes :=
  (if (fst t =? 1)%N then [nb 43] else if (fst t =? 2)%N then [nb 45] else []) ++ snd t.
Definition iuse_line (p : pkg) : bytes := join sp (map iuse_tok (p_iuse p)).
Definition use_line (p : pkg) : bytes := join sp (p_use p).
Definition pkg_flags (p : pkg) : flagset := set_from_use (new_from_iuse (iuse_line p)) (use_line p).

Definition model (c : case) : obs :=
  let pa := parse_atom (c_atom c) in
  let pp := parse_pkg (c_pkg c) in
  match make_da pa with
  | Diverge => OTimeout
  | Val d =>
    let f := pkg_flags (c_pkg c) in
    OOk (da_compver d) (da_slot d) (da_subslot d) (pa_compver pp) (pa_slot pp) (pa_subslot pp)
        (version_and_slot_match d (pa_compver pp) (pa_slot pp))
        (flags_match (da_usedeps d) f (c_parent c))
        (filter_one d (pa_compver pp) (pa_slot pp) f (c_parent c))
  end.

(* ---- well-formedness: the PMS grammar ---- *)
Definition is_alnum (c : ascii) : bool :=
  let n := bn c in ((48 <=? n) && (n <=? 57) || (65 <=? n) && (n <=? 90) || (97 <=? n) && (n <=? 122))%N.
(* slot names: [A-Za-z0-9_][A-Za-z0-9+_.-]* *)
Definition wf_slotname (s : bytes) : bool :=
  match s with
  | [] => false
  | c :: r => (is_alnum c || (bn c =? 95)%N)
              && forallb (fun c => let n := bn c in
                   is_alnum c || (n =? 95)%N || (n =? 43)%N || (n =? 46)%N || (n =? 45)%N) r
  end.
(* USE flag names: [A-Za-z0-9][A-Za-z0-9+_@-]* *)
Definition wf_flagname (s : bytes) : bool :=
  match s with
  | [] => false
  | c :: r => is_alnum c
              && forallb (fun c => let n := bn c in
                   is_alnum c || (n =? 95)%N || (n =? 43)%N || (n =? 64)%N || (n =? 45)%N) r
  end.

Definition last_suffix_numbered (v : ver) : bool :=
  match rev (v_sufs v) with (_, None) :: _ => false | _ => true end.

Definition wf_atom (a : atom) : bool :=
  match a_ver a with
  | None => true
  | Some (op, v) =>
    wf_ver v
    && match op with
       | OpTilde => match v_rev v with None => true | Some _ => false end   (* PMS: no revision after ~ *)
       | OpGlob => last_suffix_numbered v    (* "=p-1_rc*": PMS does not say whether _rc1 is a further component *)
       | _ => true
       end
  end
  && match a_slot a with
     | SSlot s ss _ => wf_slotname s && match ss with Some x => wf_slotname x | None => true end
     | _ => true
     end
  && forallb (fun d => wf_flagname (u_flag d)) (a_use a).

Definition wf_pkg (p : pkg) : bool :=
  wf_ver (p_ver p) && wf_slotname (p_slot p)
  && match p_subslot p with Some x => wf_slotname x | None => true end
  && forallb (fun t => (fst t <=? 2)%N && wf_flagname (snd t)) (p_iuse p)
  && forallb wf_flagname (p_use p).

Definition wf (c : case) : bool :=
  wf_atom (c_atom c) && wf_pkg (c_pkg c) && forallb (fun e => wf_flagname (fst e)) (c_parent c).

(* ---- the property on one case ---- *)
(* the candidate's IUSE_EFFECTIVE with the state of each flag *)
Definition memb (x : bytes) (l : list bytes) : bool := existsb (beq x) l.
Definition cand_flags (p : pkg) : list (bytes * bool) :=
  map (fun t => (snd t, memb (snd t) (p_use p))) (p_iuse p).

Definition spec_vs (c : case) : bool :=
  match a_ver (c_atom c) with
  | None => true
  | Some (op, v) => ver_match op v (p_ver (c_pkg c))
  end
  && slot_match (a_slot (c_atom c)) (p_slot (c_pkg c)) (p_subslot (c_pkg c)).
Definition spec_use (c : case) : bool :=
  use_match (a_use (c_atom c)) (cand_flags (c_pkg c)) (c_parent c).

(* stagemaker's decision equals the PMS definition: a decision is made (no hang, no crash,
   no rejection of a valid atom) and it is the right one *)
Definition spec (c : case) (o : obs) : bool :=
  match o with
  | OOk _ _ _ _ _ _ vs fl filter =>
      Bool.eqb vs (spec_vs c) && Bool.eqb fl (spec_use c) && Bool.eqb filter (spec_vs c && spec_use c)
  | _ => false
  end.

(* ---- known-finding classes (KNOWN_FINDINGS); input classes, 0 = none ---- *)
Definition padlen (d : bytes) : nat := Nat.max 5 (length d).
Fixpoint aligned_ok (a b : list bytes) : bool :=
  match a, b with
  | x :: a', y :: b' => Nat.eqb (padlen x) (padlen y) && aligned_ok a' b'
  | _, _ => true
  end.
Definition optlen (d : option bytes) : nat := match d with Some x => padlen x | None => 5%nat end.
Fixpoint sufs_aligned_ok (a b : list (skind * option bytes)) : bool :=
  match a, b with
  | x :: a', y :: b' =>
      match snd x, snd y with Some p, Some q => Nat.eqb (padlen p) (padlen q) | _, _ => true end
      && sufs_aligned_ok a' b'
  | _, _ => true
  end.
(* 1: numeric parts at the same position that do not pad to the same width (one has more than 5 digits) *)
Definition kf_long (a v : ver) : bool :=
  negb (aligned_ok (v_nums a) (v_nums v) && sufs_aligned_ok (v_sufs a) (v_sufs v)
        && Nat.eqb (optlen (v_rev a)) (optlen (v_rev v))).
(* 2: a number component after the first with a leading zero *)
Definition lead0 (d : bytes) : bool := starts0 d && (1 <? length d)%nat.
Definition kf_lead0 (v : ver) : bool := existsb lead0 (tl (v_nums v)).
(* 3: more than one suffix *)
Definition kf_multisuf (v : ver) : bool := (1 <? length (v_sufs v))%nat.
(* 4: the same suffix once without integer part and once with integer part zero *)
Fixpoint kf_sufzero (a b : list (skind * option bytes)) : bool :=
  match a, b with
  | x :: a', y :: b' =>
      (is_eq (krank (fst x) ?= krank (fst y))%N
       && match snd x, snd y with
          | None, Some d | Some d, None => (val d =? 0)%N
          | _, _ => false end)
      || kf_sufzero a' b'
  | _, _ => false
  end.

(* the candidate's version text continues the atom's at a component boundary: further number
   components, a letter, suffixes, or an integer part after a bare last suffix *)
Definition continues (a v : ver) : bool :=
  glob_match (norev a) v
  || match v_sufs a, v_sufs v with
     | [(k, None)], (k', Some _) :: _ =>
         is_eq (nums_cmp (v_nums a) (v_nums v)) && is_eq (letter_cmp (v_letter a) (v_letter v))
         && is_eq (krank k ?= krank k')%N
     | _, _ => false
     end.

(* the domain of the normal form, for a pair of versions: none of the classes 1-4 *)
Definition in_domain (a v : ver) : bool :=
  negb (kf_long a v) && negb (kf_lead0 a) && negb (kf_lead0 v)
  && negb (kf_multisuf a) && negb (kf_multisuf v) && negb (kf_sufzero (v_sufs a) (v_sufs v)).

Definition kf_ver (op : vop) (a v : ver) : N :=
  if kf_long a v then 1
  else if kf_lead0 a || kf_lead0 v then 2
  else if kf_multisuf a || kf_multisuf v then 3
  else if kf_sufzero (v_sufs a) (v_sufs v) then 4
  (* 5: "~" and a candidate whose version continues the atom's with further components *)
  else if match op with OpTilde => continues a v && negb (ver_match OpTilde a v) | _ => false end then 5
  (* 8: "=...-rN*" without suffix: the revision is ignored *)
  else if match op, v_rev a, v_sufs a with OpGlob, Some _, [] => true | _, _, _ => false end then 8
  else 0.

(* 6: the atom names a sub-slot and the candidate (same slot) has a different one *)
Definition kf_subslot (c : case) : bool :=
  match a_slot (c_atom c) with
  | SSlot s (Some ss) _ =>
      beq s (p_slot (c_pkg c))
      && negb (beq ss (match p_subslot (c_pkg c) with Some x => x | None => p_slot (c_pkg c) end))
  | _ => false
  end.
(* 9: slot names identified by the normaliser although different (leading zeros in a numeric part) *)
Definition kf_slotzero (c : case) : bool :=
  match a_slot (c_atom c) with
  | SSlot s _ _ => negb (beq s (p_slot (c_pkg c)))
                   && beq (make_comparable s) (make_comparable (p_slot (c_pkg c)))
  | _ => false
  end.
(* 7: a [!flag?] dependency on a flag the candidate has (effectively) enabled *)
Definition kf_ifnot (c : case) : bool :=
  existsb (fun d =>
    match u_form d with
    | UIfNot =>
        match lookup (u_flag d) (cand_flags (c_pkg c)) with
        | Some s => s
        | None => match u_def d with DPlus => true | _ => false end
        end
    | _ => false
    end) (a_use (c_atom c)).

Definition kf (c : case) : N :=
  match (match a_ver (c_atom c) with Some (op, v) => kf_ver op v (p_ver (c_pkg c)) | None => 0%N end) with
  | 0%N => if kf_subslot c then 6 else if kf_slotzero c then 9 else if kf_ifnot c then 7 else 0
  | k => k
  end%N.

Definition verdict (c : case) : N :=
  mkverdict (wf c) (obs_beq (model c) (c_obs c)) (spec c (c_obs c)) (kf c).

(* ================= candidates and depending packages loaded from /var/db/pkg =================
   Production code never builds a flag set by hand: vdb.GetInstalledPackageList reads every
   installed package from its VDB directory (setAtom) and the depending package's flags are that
   package's own loaded flag set (installedResolverData.ParentUseFlags).  An extended case says,
   for the candidate and for the depending package, whether the harness built the flags directly
   (None: the case is as above) or wrote a VDB entry and let the real loader read it. *)
Record vdbent := MkVdb {
  e_eff : option (list bytes);              (* file IUSE_EFFECTIVE: flags; None = no such file *)
  e_iuse : option (list (N * bytes));       (* file IUSE: prefix (0 none, 1 "+", 2 "-") and flag *)
  e_use : option (list bytes) }.            (* file USE: the enabled flags *)

Record xcase := MkX {
  x_case : case;       (* with a VDB candidate p_iuse/p_use of its package are unused (empty), with a
                          VDB depending package c_parent is unused (empty): the entries replace them *)
  x_cand : option vdbent;
  x_par : option vdbent }.

(* the files as the harness writes them: words separated by one space, a final newline *)
Definition nl : ascii := nb 10.
Definition file_of (words : list bytes) : bytes := join sp words ++ [nl].
Definition eff_file (e : vdbent) : option bytes := option_map file_of (e_eff e).
Definition iuse_file (e : vdbent) : option bytes := option_map (fun l => file_of (map iuse_tok l)) (e_iuse e).
Definition use_file (e : vdbent) : option bytes := option_map file_of (e_use e).
Definition slot_file (p : pkg) : bytes :=
  p_slot p ++ match p_subslot p with Some x => nb 47 :: x | None => [] end ++ [nl].

(* -- the model (from the code): setAtom on the entry -- *)
Definition ent_flags (e : vdbent) : flagset := vdb_flags (eff_file e) (iuse_file e) (use_file e).
(* the loaded package: name-version parsed without slot, then SetSlotAndSubslot(cut SLOT, "") *)
Definition parse_vdb_pkg (p : pkg) : parsed :=
  raw_parse Relop_none true (basever_of (p_ver p)) (suffix_of (p_ver p)) (revision_of (p_ver p)) false
            (vdb_slot (slot_file p)) [] [] [].

Definition xmodel (x : xcase) : obs :=
  let c := x_case x in
  let pa := parse_atom (c_atom c) in
  let pp := match x_cand x with None => parse_pkg (c_pkg c) | Some _ => parse_vdb_pkg (c_pkg c) end in
  match make_da pa with
  | Diverge => OTimeout
  | Val d =>
    let f := match x_cand x with None => pkg_flags (c_pkg c) | Some e => ent_flags e end in
    let ctx := match x_par x with None => c_parent c | Some e => get_map (ent_flags e) end in
    OOk (da_compver d) (da_slot d) (da_subslot d) (pa_compver pp) (pa_slot pp) (pa_subslot pp)
        (version_and_slot_match d (pa_compver pp) (pa_slot pp))
        (flags_match (da_usedeps d) f ctx)
        (filter_one d (pa_compver pp) (pa_slot pp) f ctx)
  end.

(* -- the specification (from PMS): what the entry says about the installed package -- *)
Definition ent_pms (e : vdbent) : list (bytes * bool) := installed_flags (e_iuse e) (e_eff e) (e_use e).
(* the installed package as the unextended predicate sees it: its IUSE_EFFECTIVE is what the entry
   declares (prefixes play no part), its USE what the entry records *)
Definition pms_pkg (p : pkg) (e : vdbent) : pkg :=
  MkPkg (p_ver p) (p_slot p) (p_subslot p)
        (map (fun f => (0%N, f)) (declared_flags (e_iuse e) (e_eff e)))
        (match e_use e with Some l => l | None => [] end).
Definition pms_case (x : xcase) : case :=
  let c := x_case x in
  MkCase (c_atom c)
         (match x_cand x with Some e => pms_pkg (c_pkg c) e | None => c_pkg c end)
         (match x_par x with Some e => ent_pms e | None => c_parent c end)
         (c_obs c).

Definition xspec (x : xcase) (o : obs) : bool := spec (pms_case x) o.
Definition xkf (x : xcase) : N := kf (pms_case x).

Definition wf_ent (e : vdbent) : bool :=
  match e_eff e with Some l => forallb wf_flagname l | None => true end
  && match e_iuse e with Some l => forallb (fun t => (fst t <=? 2)%N && wf_flagname (snd t)) l | None => true end
  && match e_use e with Some l => forallb wf_flagname l | None => true end.
Definition wf_oent (e : option vdbent) : bool := match e with Some e => wf_ent e | None => true end.
Definition xwf (x : xcase) : bool := wf (x_case x) && wf_oent (x_cand x) && wf_oent (x_par x).

Definition xverdict (x : xcase) : N :=
  mkverdict (xwf x) (obs_beq (xmodel x) (c_obs (x_case x))) (xspec x (c_obs (x_case x))) (xkf x).
End C13.
