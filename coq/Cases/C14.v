(* C14: case type, model observation, specification predicate, known-finding classes, verdict. *)
From LC Require Import Lib.Bytes Lib.Fields Gen.Consts Model.AtomParse Model.DepParse Model.PMSGrammar
  Cases.Verdict.
Open Scope list_scope.
Open Scope N_scope.

Module C14.

(* what the implementation answered *)
Inductive obs :=
| OAtom (r : ares)                                  (* atom.RawParseAtom *)
| ODep (r : dres (list dep)) (strs : list bytes).   (* depend.DecodeDependencies; String() of every top-level item *)

Inductive case :=
| CAtom (ast : option atom_ast) (input : bytes) (vnr asdep : bool) (o : obs)
| CDep (ast : option (list dast)) (input : bytes) (o : obs).

Definition c_obs (c : case) : obs := match c with CAtom _ _ _ _ o => o | CDep _ _ o => o end.

Definition ares_beq (a b : ares) : bool :=
  match a, b with
  | AOk p, AOk q => parsed_beq p q
  | AErr, AErr | APanic, APanic | ADiverge, ADiverge => true
  | _, _ => false
  end.
Definition dres_beq (a b : dres (list dep)) : bool :=
  match a, b with
  | ROk l, ROk l' => list_beq dep_beq l l'
  | RErr, RErr | RPanic, RPanic | RDiverge, RDiverge => true
  | _, _ => false
  end.
Definition obs_beq (a b : obs) : bool :=
  match a, b with
  | OAtom r, OAtom r' => ares_beq r r'
  | ODep r s, ODep r' s' => dres_beq r r' && list_beq beq s s'
  | _, _ => false
  end.

Definition dep_strings (r : dres (list dep)) : list bytes :=
  match r with ROk l => map dep_string l | _ => [] end.

Definition model (c : case) : obs :=
  match c with
  | CAtom _ input vnr asdep _ => OAtom (fst (raw_parse_at input vnr asdep))
  | CDep _ input _ => let r := decode input in ODep r (dep_strings r)
  end.

(* a case that carries abstract syntax is in the domain when that syntax is well-formed PMS and
   the input text is a rendering of it (for dependency strings: any white space between the
   tokens) *)
Definition wf (c : case) : bool :=
  match c with
  | CAtom (Some a) input vnr asdep _ => wf_atom vnr asdep a && beq (print_atom a) input
  | CDep (Some ts) input _ => forallb wf_dast ts && list_beq beq (ptokens input) (flat_map print_toks ts)
  | _ => true
  end.

Definition sp_join (ts : list bytes) : bytes := unwords [nb 32] ts.

(* the property on one input and what the implementation answered:
   - never a crash or a hang;
   - text that renders well-formed abstract syntax is decomposed into exactly that syntax;
   - whatever is accepted is not mis-parsed: an accepted atom is the text that was given (all of
     it, or -- when parsing at a cursor -- a prefix), with the blocker strength written; an accepted
     dependency string, read back as PMS text, is token for token the input, and String() is
     that text *)
(* the version operator of a result is the one the text was written with: when a version needs an
   operator (versionNeedsRelop), a text without one is never accepted as if it had "=" *)
Definition relop_written (input : bytes) : N := let '(_, _, relop, _) := take_prefix input in relop.
Definition op_written (vnr : bool) (input : bytes) (p : parsed) : bool :=
  negb vnr || negb (relop_written input =? R_none) || (p_verrelop p =? R_none).

Definition spec (c : case) (o : obs) : bool :=
  match c, o with
  | CAtom ast input vnr asdep _, OAtom r =>
    match r with
    | APanic | ADiverge => false
    | AErr => match ast with Some _ => false | None => true end
    | AOk p =>
      match ast with Some a => parsed_beq p (denote a) | None => true end
      && prefixb (p_atom p) input && (asdep || beq (p_atom p) input)
      && Bool.eqb (p_blocker p) (is 33 (peek input))
      && Bool.eqb (p_hardblock p) (is 33 (peek input) && is 33 (peek1 input))
      && op_written vnr input p
    end
  | CDep ast input _, ODep r strs =>
    match r with
    | RPanic | RDiverge => false
    | RErr => match ast with Some _ => false | None => true end
    | ROk l =>
      match ast with Some ts => list_beq dep_beq l (map denote_dast ts) | None => true end
      && list_beq beq (ptokens input) (flat_map dep_toks l)
      && list_beq beq strs (map (fun d => sp_join (dep_toks d)) l)
    end
  | _, _ => false
  end.

(* ---- known-finding classes (narrow, decidable on the input; bare_use and ctrl_byte are
   defined in Model/PMSGrammar.v) ---- *)
(* 1: a USE-conditional "flag?" / "!flag?" directly followed by something other than "(" is
      accepted as if the parentheses were there
   2: bytes 0x00-0x08 and 0x0e-0x1f separate tokens like white space *)
(* both classes contain only inputs that are accepted (by the model; the correspondence check
   ties that to the implementation), so a crash or a rejection inside them is not excused *)
Definition accepted (input : bytes) : bool := match decode input with ROk _ => true | _ => false end.
Definition kf (c : case) : N :=
  match c with
  | CDep _ input _ =>
    if negb (accepted input) then 0
    else if existsb ctrl_byte input then 2
    else if bare_use (ptokens input) then 1
    else 0
  | _ => 0
  end.

Definition verdict (c : case) : N :=
  mkverdict (wf c) (obs_beq (model c) (c_obs c)) (spec c (c_obs c)) (kf c).
End C14.
