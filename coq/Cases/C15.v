(* C15: pretend mode changes nothing. *)
From LC Require Import Lib.Bytes Lib.Lex Lib.Fields Lib.PathM Gen.Consts
  Model.MountInfo Model.FsTree Model.Kernel Model.Layers Cases.Verdict Cases.LC.
Open Scope N_scope.
Import LC LCS.

Module C15.
Definition case := LC.case.

Definition step_spec (c : cfgT) (w : wobs) (v : sview) : bool :=
  if e_pretend (v_env v) then
    unchanged w v && match v_log v with [] => true | _ => false end
    && (ks_nextid (wo_ks (v_after v)) =? ks_nextid (wo_ks w)) && (ks_nextdev (wo_ks (v_after v)) =? ks_nextdev (wo_ks w))
  else true.

Definition spec (c : case) : bool := along_views (step_spec (c_cfg c)) (w0 c) (c_steps c).
Definition wf := LC.wf.
Definition kf (c : case) : N := 0.
Definition verdict (c : case) : N := mkverdict (wf c) (LC.corr c) (spec c) (kf c).
End C15.
