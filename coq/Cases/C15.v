(* C15: pretend mode changes nothing. *)
From LC Require Import Lib.Bytes Lib.Lex Lib.Fields Lib.PathM Gen.Consts
  Model.MountInfo Model.FsTree Model.Kernel Model.Layers Model.Args Cases.Verdict Cases.LC.
Open Scope N_scope.
Import LC LCS.

Module C15.

Definition step_spec (c : cfgT) (w : wobs) (v : sview) : bool :=
  if e_pretend (v_env v) then
    unchanged w v && match v_log v with [] => true | _ => false end
    && (ks_nextid (wo_ks (v_after v)) =? ks_nextid (wo_ks w)) && (ks_nextdev (wo_ks (v_after v)) =? ks_nextdev (wo_ks w))
  else true.

(* ---- process level: the real binary, the switch anywhere on the command line ---- *)
Record pcase := MkP {
  p_pre : list tok; p_cmd : bytes; p_post : list tok;     (* structured command line *)
  p_argv : list bytes;                                    (* what was passed to the binary *)
  p_ops : nat;                  (* mutating operations the binary performed (fault-point log) *)
  p_changed : bool;             (* file tree below the base path or mount table changed *)
  p_would : bool; p_action : bool }.                      (* -debug output: "would ..." / "action: ..." lines *)

Definition p_wf (p : pcase) : bool :=
  list_beq beq (render_toks (p_pre p) ++ [p_cmd p] ++ render_toks (p_post p)) (p_argv p)
  && forallb (fun t => match t with
                       | TBool n => plain_name n
                       | TStr n v => plain_name n
                       | TWord w => false end) (p_pre p)
  && forallb (fun t => match t with
                       | TBool n => plain_name n
                       | TStr n v => plain_name n
                       | TWord w => is_word w end) (p_post p)
  && is_word (p_cmd p).
Definition has_p (p : pcase) : bool :=
  existsb (fun t => match t with TBool n => beq n (bs "p") | _ => false end) (p_pre p ++ p_post p).
(* correspondence: the pretender the model says is installed is the one the -debug output shows *)
Definition p_corr (p : pcase) : bool :=
  match parse_main (p_argv p) with
  | MUsage => (p_ops p =? 0)%nat && negb (p_changed p)
  | MRun o _ _ _ =>
    if o_debug o && (p_would p || p_action p)
    then Bool.eqb (p_would p) (o_p o) && Bool.eqb (p_action p) (negb (o_p o))
    else true
  end.
(* the property: with -p anywhere, nothing is done *)
Definition p_spec (p : pcase) : bool :=
  negb (has_p p) || ((p_ops p =? 0)%nat && negb (p_changed p) && negb (p_action p)).

Inductive case := CIn (c : LC.case) | CProc (p : pcase).

Definition spec (c : case) : bool :=
  match c with
  | CIn c => along_views (step_spec (c_cfg c)) (w0 c) (c_steps c)
  | CProc p => p_spec p
  end.
Definition wf (c : case) : bool := match c with CIn c => LC.wf c | CProc p => p_wf p end.
Definition kf (c : case) : N := 0.
Definition corr (c : case) : bool := match c with CIn c => LC.corr c | CProc p => p_corr p end.
Definition verdict (c : case) : N := mkverdict (wf c) (corr c) (spec c) (kf c).
End C15.
