(* C15: pretend mode changes nothing. *)
From LC Require Import Lib.Bytes Lib.Lex Lib.Fields Lib.PathM Gen.Consts
  Model.MountInfo Model.FsTree Model.Kernel Model.Layers Cases.Verdict Cases.LC.
Open Scope N_scope.
Import LC LCS.

Module C15.
Definition case := LC.case.

Definition step_spec (c : cfgT) (w : wobs) (s : step) : bool :=
  if e_pretend (s_env s) then
    unchanged w s && match s_oplog s with [] => true | _ => false end
    && (s_nextid s =? ks_nextid (wo_ks w)) && (s_nextdev s =? ks_nextdev (wo_ks w))
  else true.

Definition spec (c : case) : bool := along (step_spec (c_cfg c)) (w0 c) (c_steps c).
Definition wf := LC.wf.
Definition kf (c : case) : N := 0.
Definition verdict (c : case) : N := mkverdict (wf c) (LC.corr c) (spec c) (kf c).
End C15.
