(* C16: export links always point at live layers and never clobber foreign entries. *)
From LC Require Import Lib.Bytes Lib.Lex Lib.Fields Lib.PathM Gen.Consts
  Model.MountInfo Model.FsTree Model.Kernel Model.Layers Cases.Verdict Cases.LC.
Open Scope N_scope.
Import LC LCS.

Module C16.
Definition case := LC.case.

Definition pkg_link (c : cfgT) (n : bytes) : bytes := pathjoin [c_exports c; c_exp_binpkg c; n].
Definition gen_link (c : cfgT) (n : bytes) : bytes := pathjoin [c_exports c; c_exp_gen c; n].

(* explicit export directives of x naming the packages / generated export *)
Definition explicit_target (c : cfgT) (x : layer) (key : bytes) : option bytes :=
  match filter (fun nm => beq (nm_mount nm) (bs "$$" ++ key)) (l_exports x) with
  | nm :: _ => Some (pathjoin [l_path x; c_buildroot c; nm_source nm])
  | [] => None
  end.

(* the entry must exist iff the layer has the directory or an explicit directive, and then be a
   symlink to that directory *)
Definition link_ok (f' : fsT) (link : bytes) (auto_dir : bytes) (explicit : option bytes) : bool :=
  let wanted : option bytes :=
    match explicit with
    | Some t => Some t
    | None => if exists_ f' auto_dir then Some auto_dir else None
    end in
  match wanted, lstat f' link with
  | Some t, Some (Link t') => beq t t'
  | Some _, _ => false                 (* a foreign entry in the way: the mount must not report success *)
  | None, Some (Link _) => false       (* a stale link to a directory that is not there *)
  | None, _ => true                    (* nothing, or a foreign non-symlink entry that is left alone *)
  end.

Definition in_export_tree (c : cfgT) (p : bytes) : bool := under (c_exports c) p.

Definition step_spec (c : cfgT) (w : wobs) (v : sview) : bool :=
  if negb (plain_env (v_env v)) then true else
  let f := wo_fs w in let f' := wo_fs (v_after v) in
  (* an export entry that is not a symlink is never deleted or replaced, whatever the command *)
  forallb (fun e => if in_export_tree c (fst e) then
                      match snd e with
                      | Link _ => true
                      | n => opt_beq node_beq (fs_get f' (fst e)) (Some n)
                      end
                    else true) f
  &&
  match v_cmd v, v_res v with
  | CMount n, ROk =>
    forallb (fun x =>
      link_ok f' (pkg_link c (l_name x)) (pathjoin [l_path x; c_binpkg c]) (explicit_target c x (bs "package_export"))
      && link_ok f' (gen_link c (l_name x)) (pathjoin [l_path x; c_gen c]) (explicit_target c x (bs "file_export")))
      (chain c f n)
  | CRename n _, ROk | CRemove n _, ROk =>
    (* no entry carrying the old name is left; entries of other layers are untouched *)
    negb (exists_ f' (pkg_link c n)) && negb (exists_ f' (gen_link c n))
    && forallb (fun e => if in_export_tree c (fst e) && negb (beq (fst e) (pkg_link c n))
                            && negb (beq (fst e) (gen_link c n))
                         then opt_beq node_beq (fs_get f' (fst e)) (Some (snd e)) else true) f
  | _, _ => true
  end.

Definition spec (c : case) : bool := along_views (step_spec (c_cfg c)) (w0 c) (c_steps c).
Definition wf := LC.wf.
Definition kf (c : case) : N := 0.
Definition verdict (c : case) : N := mkverdict (wf c) (LC.corr c) (spec c) (kf c).
End C16.
