(* C16: export links always point at live layers and never clobber foreign entries. *)
From LC Require Import Lib.Bytes Lib.Lex Lib.Fields Lib.PathM Gen.Consts
  Model.MountInfo Model.FsTree Model.Kernel Model.Layers Cases.Verdict Cases.LC.
Open Scope N_scope.
Import LC LCS.

Module C16.
Definition case := LC.case.

Definition pkg_link (c : cfgT) (n : bytes) : bytes := pathjoin [c_exports c; c_exp_binpkg c; n].
Definition gen_link (c : cfgT) (n : bytes) : bytes := pathjoin [c_exports c; c_exp_gen c; n].

(* the directories that explicit export directives of x name for the export entry [link]:
   a directive counts when its (expanded) export target is that entry, however it is spelled
   ($$package_export, $$file_export, or the path written out) *)
Definition explicit_targets (c : cfgT) (x : layer) (link : bytes) : list bytes :=
  match expand_config_exports c x with
  | Some es => map x_source (filter (fun e => beq (x_mount e) link) es)
  | None => []
  end.

(* the entry must exist iff the layer has the directory or an explicit directive names the
   entry, and then be a symlink to that directory (to one of them if several directives name it) *)
Definition link_ok (f' : fsT) (link : bytes) (auto_dir : bytes) (explicit : list bytes) : bool :=
  let wanted : list bytes :=
    match explicit with
    | _ :: _ => explicit
    | [] => if exists_ f' auto_dir then [auto_dir] else []
    end in
  match wanted, lstat f' link with
  | _ :: _, Some (Link t') => memb t' wanted
  | _ :: _, _ => false                 (* a foreign entry in the way: the mount must not report success *)
  | [], Some (Link _) => false         (* a stale link to a directory that is not there *)
  | [], _ => true                      (* nothing, or a foreign non-symlink entry that is left alone *)
  end.

Definition in_export_tree (c : cfgT) (p : bytes) : bool := under (c_exports c) p.

Definition step_spec (c : cfgT) (w : wobs) (v : sview) : bool :=
  if negb (plain_env (v_env v)) then true else
  let f := wo_fs w in let f' := wo_fs (v_after v) in
  (* an export entry that is not a symlink is never deleted or replaced, whatever the command *)
  forallb (fun e => if in_export_tree c (fst e) then
                      match snd e with
                      | Link _ => true
                      | n => opt_beq node_beq (fs_get f' (fst e)) (Some n)
                      end
                    else true) f
  &&
  match v_cmd v, v_res v with
  | CMount n, ROk =>
    forallb (fun x =>
      link_ok f' (pkg_link c (l_name x)) (pathjoin [l_path x; c_binpkg c]) (explicit_targets c x (pkg_link c (l_name x)))
      && link_ok f' (gen_link c (l_name x)) (pathjoin [l_path x; c_gen c]) (explicit_targets c x (gen_link c (l_name x))))
      (chain c f n)
  | CRename n _, ROk | CRemove n _, ROk =>
    (* no entry carrying the old name is left; entries of other layers are untouched *)
    negb (exists_ f' (pkg_link c n)) && negb (exists_ f' (gen_link c n))
    && forallb (fun e => if in_export_tree c (fst e) && negb (beq (fst e) (pkg_link c n))
                            && negb (beq (fst e) (gen_link c n))
                         then opt_beq node_beq (fs_get f' (fst e)) (Some (snd e)) else true) f
  | _, _ => true
  end.

Definition spec (c : case) : bool := along_views (step_spec (c_cfg c)) (w0 c) (c_steps c).
Definition wf := LC.wf.
Definition kf (c : case) : N := 0.
Definition verdict (c : case) : N := mkverdict (wf c) (LC.corr c) (spec c) (kf c).
End C16.
