(* C17: case type, model observation, specification predicate, verdict. *)
From LC Require Import Lib.Bytes Lib.Fields Lib.PathM Gen.Consts Model.StageLine Model.StageDoc
  Model.StageWild Model.StageWildDoc Model.Recipe Model.RecipeDoc Model.Compress Cases.Verdict.
Open Scope N_scope.

Module C17.

(* compact transport of token lists: (kind, byte) pairs; kind 0 literal, 1 escaped asterisk, 2 wildcard *)
Fixpoint tk (b : bytes) : list ftok :=
  match b with
  | k :: c :: r => (if bn k =? 0 then FLit c else if bn k =? 1 then FEsc else FStar) :: tk r
  | _ => []
  end.
Definition sty (n : N) : qstyle := if n =? 0 then QBare else if n =? 1 then QSingle else QDouble.
Definition mkf (sep : bytes) (style : N) (toks : bytes) : sfield := MkF sep (sty style) (tk toks).

Inductive input :=
  | ILine (sl : option sline) (line : bytes)     (* one add-files line given to parseLine *)
  | IMode (s : bytes)                            (* one mod= value given to parseModString *)
  | IList (t : tree) (init : list bytes) (items : option (list sitem)) (lines : list bytes)
                                                 (* GenerateFileList + ReadUserFileList + Finalize on a build root *)
  | IProc (t : tree) (pre : list bytes) (lines : list bytes)
                                                 (* stagemaker -list stage -files -addfiles F *)
  | IRecipe (env : renv) (cmd : rcmd) (items : option (list ritem)) (lines : list bytes)
                                                 (* stagemaker -list system -recipe F *)
  | IGen (sw out : bytes) (recipe : list bytes). (* stagemaker -generate [-compress sw] [-o out] [-recipe: compress lines] *)

Inductive obs :=
  | OLine (r : line_res) (located : bool)        (* located: every message names file and line *)
  | OMode (r : option (N * N)) (referee : list (N * option N))   (* chmod(1) s on files of mode m *)
  | OList (r : list_res) (located : bool)
  | OProc (class : N) (located : bool) (names : list bytes)      (* class: 0 exit 0, 1 exit 1, 2 crash *)
  | ORecipe (class : N) (located : bool) (atoms : list bytes)
  | OGen (class : N) (method : N).               (* method read from the magic bytes: 0 tar, 1 gzip, 2 bzip2, 3 xz *)

Record case := MkCase { c_in : input; c_obs : obs }.

Definition pair_beq (a b : N * N) : bool := (fst a =? fst b) && (snd a =? snd b).
Definition ref_beq (a b : N * option N) : bool := (fst a =? fst b) && optN_beq (snd a) (snd b).
Definition obs_beq (a b : obs) : bool :=
  match a, b with
  | OLine r1 l1, OLine r2 l2 => line_res_beq r1 r2 && Bool.eqb l1 l2
  | OMode r1 f1, OMode r2 f2 => opt_beq pair_beq r1 r2 && list_beq ref_beq f1 f2
  | OList r1 l1, OList r2 l2 => list_res_beq r1 r2 && Bool.eqb l1 l2
  | OProc c1 l1 n1, OProc c2 l2 n2 => (c1 =? c2) && Bool.eqb l1 l2 && list_beq beq n1 n2
  | ORecipe c1 l1 n1, ORecipe c2 l2 n2 => (c1 =? c2) && Bool.eqb l1 l2 && list_beq beq n1 n2
  | OGen c1 m1, OGen c2 m2 => (c1 =? c2) && (m1 =? m2)
  | _, _ => false
  end.

Definition pre_list (names : list bytes) : flist := map (fun n => MkL n 0 []) names.

Definition proc_obs (r : list_res) : obs :=
  match r with
  | LsPanic => OProc 2 false []
  | LsErr => OProc 1 true []
  | LsOk es => OProc 0 true (map l_name es)
  end.
Definition recipe_obs (r : rres) : obs :=
  match r with
  | RROk a => ORecipe 0 true a
  | RRRecipeErr => ORecipe 1 true []
  | RRFail => ORecipe 1 false []
  end.
(* what was seen, read back as a result class *)
Definition recipe_res (class : N) (located : bool) (atoms : list bytes) : option rres :=
  if class =? 0 then Some (RROk atoms)
  else if class =? 1 then Some (if located then RRRecipeErr else RRFail)
  else None.

Definition model (c : case) : obs :=
  match c_in c with
  | ILine _ line => OLine (parse_line line) true
  | IMode s =>
    OMode (parse_mod s)
          (match c_obs c with
           | OMode _ f => map (fun mr => (fst mr, chmod1 s (fst mr))) f
           | _ => []
           end)
  | IList t init _ lines => OList (fst (run_list t [] init lines)) true
  | IProc t pre lines => proc_obs (fst (run_proc t (pre_list pre) lines))
  | IRecipe env cmd _ lines => recipe_obs (list_system env cmd lines)
  | IGen sw out recipe => match gen_method sw out recipe with Some m => OGen 0 m | None => OGen 1 0 end
  end.

(* chmod(1) is asked only about strings without NUL that are octal or have no digit at all
   (GNU chmod has operator+octal forms the reference leaves out), on permission-bit modes *)
Definition referee_domain (s : bytes) : bool :=
  match s with [] => false | _ =>
    negb (existsb (fun c => Ascii.eqb c c_nul) s) && (forallb is_oct s || negb (existsb is_dec s)) end.

(* an atom the recipe cases use: letters and hyphens, a slash, letters *)
Definition is_lower (c : ascii) : bool := (97 <=? bn c) && (bn c <=? 122).
Definition atom_ok (a : bytes) : bool :=
  match split2 c_slash a with
  | (x, Some y) => match x, y with
                   | _ :: _, _ :: _ => forallb (fun c => is_lower c || Ascii.eqb c c_minus) x && forallb is_lower y
                   | _, _ => false
                   end
  | _ => false
  end.
Definition env_ok (env : renv) : bool :=
  forallb (fun pa => forallb atom_ok (snd pa)) (en_profiles env)
  && forallb (fun pa => forallb atom_ok (snd pa)) (en_afiles env).
Definition atoms_text_ok (s : bytes) : bool := no_uni s && forallb atom_ok (fields s).
(* the atoms the run will see, whatever the line structure: every "atoms" value *)
Definition recipe_atoms_ok (cmd : rcmd) (lines : list bytes) : bool :=
  atoms_text_ok (rs_atoms (recipe_loop cmd lines)).

Definition wf (c : case) : bool :=
  match c_in c, c_obs c with
  | ILine (Some sl) line, OLine _ _ => sline_ok sl && beq (render_line sl) line
  | ILine None _, OLine _ _ => true
  | IMode s, OMode _ f => forallb (fun mr => fst mr <? 4096) f
                          && (match f with [] => true | _ => referee_domain s end)
  | IList t init items lines, OList _ _ =>
    tree_ok t && forallb no_nl lines && negb (snd (run_list t [] init lines))
    && match items with
       | Some its => forallb item_ok its && list_beq beq (map item_render its) lines
       | None => true
       end
  | IProc t pre lines, OProc _ _ _ => tree_ok t && forallb no_nl lines && negb (snd (run_proc t (pre_list pre) lines))
  | IRecipe env cmd items lines, ORecipe _ _ _ =>
    forallb no_nl lines && env_ok env && recipe_atoms_ok cmd lines && no_uni (rc_atoms cmd)
    && match items with
       | Some its => forallb ritem_ok its && list_beq beq (map ritem_render its) lines
       | None => true
       end
  | IGen sw out recipe, OGen _ _ =>
    let plain (s : bytes) := forallb (fun c => (33 <=? bn c) && (bn c <? 127)) s in
    plain sw && plain out && forallb (fun v => plain v && match v with [] => false | _ => true end) recipe
  | _, _ => false
  end.

Definition res_ok (r : line_res) : bool := match r with LRes _ ok _ => ok | LPanic => false end.
Definition no_panic (r : line_res) : bool := match r with LPanic => false | _ => true end.
Definition ls_err (r : list_res) : bool := match r with LsErr => true | _ => false end.

(* the property on one case *)
Definition spec (c : case) (o : obs) : bool :=
  match c_in c, o with
  | ILine (Some sl) _, OLine r loc => line_spec sl r && (res_ok r || loc)
  | ILine None _, OLine r loc => no_panic r && (res_ok r || loc)
  | IMode s, OMode r _ =>
    match r with
    | Some (a, o) => perm_is_chmod s a o
    | None => negb (simple_mode s)
    end
  | IList t init (Some its) _, OList r loc => list_spec t init its r && (negb (ls_err r) || loc)
  | IList t init None _, OList r loc =>
    match r with LsPanic => false | _ => true end && (negb (ls_err r) || loc)
  | IProc _ _ _, OProc class loc _ => negb (class =? 2) && (negb (class =? 1) || loc)
  | IRecipe env cmd (Some its) _, ORecipe class loc atoms =>
    match recipe_res class loc atoms with
    | Some r => recipe_spec env cmd its r
    | None => false
    end
  | IRecipe _ _ None _, ORecipe class _ _ => negb (class =? 2)
  | IGen sw out recipe, OGen class m =>
    negb (class =? 2) && gen_spec sw out recipe (if class =? 0 then Some m else None)
  | _, _ => false
  end.

Definition kf (c : case) : N :=
  match c_in c with
  | ILine (Some sl) _ => kf_line sl
  | IList _ _ (Some its) _ =>
    if existsb (fun it => match it with SLine sl => kf_line sl =? 1 | _ => false end) its then 1 else 0
  | _ => 0
  end.

Definition verdict (c : case) : N :=
  mkverdict (wf c) (obs_beq (model c) (c_obs c)) (spec c (c_obs c)) (kf c).
End C17.
