(* C17: case type, model observation, specification predicate, verdict. *)
From LC Require Import Lib.Bytes Lib.Fields Gen.Consts Model.StageLine Model.StageDoc Cases.Verdict.
Open Scope N_scope.

Module C17.

(* compact transport of token lists: (kind, byte) pairs; kind 0 literal, 1 escaped asterisk, 2 wildcard *)
Fixpoint tk (b : bytes) : list ftok :=
  match b with
  | k :: c :: r => (if bn k =? 0 then FLit c else if bn k =? 1 then FEsc else FStar) :: tk r
  | _ => []
  end.
Definition sty (n : N) : qstyle := if n =? 0 then QBare else if n =? 1 then QSingle else QDouble.
Definition mkf (sep : bytes) (style : N) (toks : bytes) : sfield := MkF sep (sty style) (tk toks).

Inductive input :=
  | ILine (sl : option sline) (line : bytes)     (* one add-files line given to parseLine *)
  | IMode (s : bytes).                           (* one mod= value given to parseModString *)

Inductive obs :=
  | OLine (r : line_res) (located : bool)        (* located: every message names file and line *)
  | OMode (r : option (N * N)) (referee : list (N * option N)).   (* chmod(1) s on files of mode m *)

Record case := MkCase { c_in : input; c_obs : obs }.

Definition pair_beq (a b : N * N) : bool := (fst a =? fst b) && (snd a =? snd b).
Definition ref_beq (a b : N * option N) : bool := (fst a =? fst b) && optN_beq (snd a) (snd b).
Definition obs_beq (a b : obs) : bool :=
  match a, b with
  | OLine r1 l1, OLine r2 l2 => line_res_beq r1 r2 && Bool.eqb l1 l2
  | OMode r1 f1, OMode r2 f2 => opt_beq pair_beq r1 r2 && list_beq ref_beq f1 f2
  | _, _ => false
  end.

Definition model (c : case) : obs :=
  match c_in c with
  | ILine _ line => OLine (parse_line line) true
  | IMode s =>
    OMode (parse_mod s)
          (match c_obs c with
           | OMode _ f => map (fun mr => (fst mr, chmod1 s (fst mr))) f
           | _ => []
           end)
  end.

(* chmod(1) is asked only about strings without NUL that are octal or have no digit at all
   (GNU chmod has operator+octal forms the reference leaves out), on permission-bit modes *)
Definition referee_domain (s : bytes) : bool :=
  match s with [] => false | _ =>
    negb (existsb (fun c => Ascii.eqb c c_nul) s) && (forallb is_oct s || negb (existsb is_dec s)) end.

Definition wf (c : case) : bool :=
  match c_in c, c_obs c with
  | ILine (Some sl) line, OLine _ _ => sline_ok sl && beq (render_line sl) line
  | ILine None _, OLine _ _ => true
  | IMode s, OMode _ f => forallb (fun mr => fst mr <? 4096) f
                          && (match f with [] => true | _ => referee_domain s end)
  | _, _ => false
  end.

Definition res_ok (r : line_res) : bool := match r with LRes _ ok _ => ok | LPanic => false end.
Definition no_panic (r : line_res) : bool := match r with LPanic => false | _ => true end.

(* the property on one case *)
Definition spec (c : case) (o : obs) : bool :=
  match c_in c, o with
  | ILine (Some sl) _, OLine r loc => line_spec sl r && (res_ok r || loc)
  | ILine None _, OLine r loc => no_panic r && (res_ok r || loc)
  | IMode s, OMode r _ =>
    match r with
    | Some (a, o) => perm_is_chmod s a o
    | None => negb (simple_mode s)
    end
  | _, _ => false
  end.

Definition kf (c : case) : N :=
  match c_in c with
  | ILine (Some sl) _ => kf_line sl
  | _ => 0
  end.

Definition verdict (c : case) : N :=
  mkverdict (wf c) (obs_beq (model c) (c_obs c)) (spec c (c_obs c)) (kf c).
End C17.
