(* C18: case type, model observation, specification predicate, verdict.

   [model] is Model.Config.load (written from config/config.go).
   [spec] is written from doc/layercake_config.adoc, the CONFIGURATION FILE / ENVIRONMENT
   sections of doc/layercake_manpage.adoc and the property text: a reference resolution
   ([reference]) built differently from the code -- the chain is first collected as a list of
   files identified by the file they resolve to (not by spelling), then every setting is the
   first non-empty value of  switch, environment, file_1 .. file_n, default  -- plus the
   unconditional requirement that the three directory settings come out clean and absolute.
   The lexical primitives (white-space trimming, splitting at the first '=', path.Clean, the
   component-wise path resolution of the abstract file system) are shared with the model. *)
From LC Require Import Lib.Bytes Lib.Fields Lib.PathM Gen.Consts Model.Config Cases.Verdict.
Close Scope string_scope.
Open Scope list_scope.
Open Scope N_scope.

Module C18.

(* what is observed: the result of config.Load and, for a sample of the cases, what
   `layercake status` showed when run with the same switches and environment *)
Record obs := MkObs { o_load : outcome; o_bin : option binview }.
Record case := MkCase {
  c_env : env;                       (* switches, environment, cwd, file system *)
  c_binrun : bool;                   (* a comparable run of the binary was made *)
  c_obs : obs }.

Definition errclass_beq (a b : errclass) : bool :=
  match a, b with
  | ELoop, ELoop | EUnknown, EUnknown | ENoAbs, ENoAbs | EIO, EIO => true
  | _, _ => false
  end.
Definition outcome_beq (a b : outcome) : bool :=
  match a, b with
  | OOk x, OOk y => list_beq beq x y
  | OErr x, OErr y => errclass_beq x y
  | OPanic, OPanic | OTimeout, OTimeout => true
  | _, _ => false
  end.
Definition binview_beq (a b : binview) : bool :=
  match a, b with
  | BErr, BErr | BOther, BOther => true
  | BDirs a1 a2 a3, BDirs b1 b2 b3 => beq a1 b1 && beq a2 b2 && beq a3 b3
  (* a run that loaded the configuration without showing all three names agrees with any loaded
     configuration -- and with nothing else: not with a configuration error *)
  | BRunOK, BRunOK | BRunOK, BDirs _ _ _ | BDirs _ _ _, BRunOK => true
  | _, _ => false
  end.

Definition obs_beq (a b : obs) : bool :=
  outcome_beq (o_load a) (o_load b) && opt_beq binview_beq (o_bin a) (o_bin b).

Definition model (c : case) : obs :=
  let r := load (c_env c) in MkObs r (if c_binrun c then Some (bin_view r) else None).

(* ------------------------------------------------------------------ documented settings *)
(* numbering: 1 BASEPATH 2 CONFIGFILE 3 LAYERS 4 BUILDROOT 5 BINPKGS 6 GENERATED_FILES
   7 work dir 8 upper dir 9 EXPORTS 10 EXPORT_BINPKGS 11 EXPORT_GENERATED_FILES 12 chroot exec.
   WORKDIR / UPPERDIR / CHROOTEXEC are the spellings of layercake_config.adoc (and of the manual
   page for the first two), CHROOT_EXEC the manual page's, OVERFS_WORKDIR / OVERFS_UPPERDIR the
   ones the test-suite pins. *)
Definition K_BASE := 1.  Definition K_CONF := 2.  Definition K_LAYERS := 3.
Definition K_EXPORTS := 9.  Definition K_CHROOT := 12.
Definition doc_keys : list (bytes * N) :=
  [(bs "BASEPATH"%string, 1); (bs "CONFIGFILE"%string, 2); (bs "LAYERS"%string, 3);
   (bs "BUILDROOT"%string, 4); (bs "BINPKGS"%string, 5); (bs "GENERATED_FILES"%string, 6);
   (bs "WORKDIR"%string, 7); (bs "OVERFS_WORKDIR"%string, 7);
   (bs "UPPERDIR"%string, 8); (bs "OVERFS_UPPERDIR"%string, 8);
   (bs "EXPORTS"%string, 9); (bs "EXPORT_BINPKGS"%string, 10);
   (bs "EXPORT_GENERATED_FILES"%string, 11);
   (bs "CHROOT_EXEC"%string, 12); (bs "CHROOTEXEC"%string, 12)].
Definition doc_only_keys : list bytes :=
  [bs "WORKDIR"%string; bs "UPPERDIR"%string; bs "CHROOTEXEC"%string].
Definition doc_default (k : N) : bytes :=
  if k =? 1 then bs "/var/lib/layercake"%string
  else if k =? 3 then bs "layers"%string
  else if k =? 4 then bs "build"%string
  else if k =? 5 then bs "packages"%string
  else if k =? 6 then bs "generated"%string
  else if k =? 7 then bs "overlayfs/workdir"%string
  else if k =? 8 then bs "overlayfs/upperdir"%string
  else if k =? 9 then bs "export"%string
  else if k =? 10 then bs "packages"%string
  else if k =? 11 then bs "generated"%string
  else if k =? 12 then bs "/usr/bin/chroot"%string
  else [].
(* order of the result record *)
Definition result_keys : list N := [1; 3; 4; 5; 6; 7; 8; 9; 10; 11; 12].

Fixpoint assoc (l : list (bytes * N)) (u : bytes) : option N :=
  match l with [] => None | (k, v) :: r => if beq u k then Some v else assoc r u end.

(* ------------------------------------------------------------------ one configuration file *)
(* "one key/value pair per line … blank lines and comments, which are lines beginning with
   # or //"; keys are matched without regard to (ASCII) letter case; a key that is not a
   documented one is an error whatever its value; an empty value leaves the setting unset *)
Inductive sline := SBlank | SPair (k : N) (v : bytes) | SUnknown.
Definition key_text (raw : bytes) : bytes := map up1 (utrim (fst (split2 (nb 61) (utrim raw)))).
Definition spec_line (raw : bytes) : sline :=
  let l := utrim raw in
  if isempty l || is_comment l then SBlank else
  let '(k, ov) := split2 (nb 61) l in
  match assoc doc_keys (map up1 (utrim k)) with
  | None => SUnknown
  | Some id => SPair id (match ov with Some x => utrim x | None => [] end)
  end.
Fixpoint spec_lines (ls : list bytes) : option (list (N * bytes)) :=
  match ls with
  | [] => Some []
  | l :: r =>
    match spec_line l, spec_lines r with
    | SUnknown, _ => None
    | _, None => None
    | SBlank, Some ps => Some ps
    | SPair k v, Some ps => Some (if isempty v then ps else (k, v) :: ps)
    end
  end.
Definition spec_file (content : bytes) : option (list (N * bytes)) := spec_lines (split (nb 10) content).
Fixpoint file_value (ps : list (N * bytes)) (k : N) : bytes :=
  match ps with [] => [] | (k', v) :: r => if k' =? k then v else file_value r k end.
Fixpoint nodup_keys (ps : list (N * bytes)) : bool :=
  match ps with [] => true | (k, _) :: r => negb (existsb (fun p => fst p =? k) r) && nodup_keys r end.
Definition uses_doc_only_key (content : bytes) : bool :=
  existsb (fun raw =>
    let l := utrim raw in
    negb (isempty l || is_comment l) && existsb (beq (key_text raw)) doc_only_keys)
    (split (nb 10) content).

(* ------------------------------------------------------------------ the chain of files *)
Inductive chain_end := EndOk | EndErr (e : errclass) | EndFuel.
(* follows CONFIGFILE; a file is identified by what its name resolves to; returns the files
   read in order (content and settings) and how the walk ended *)
Fixpoint ref_chain (e : env) (fuel : nat) (seen : list bytes) (name : bytes)
  : list (bytes * list (N * bytes)) * chain_end :=
  if isempty name then ([], EndOk) else
  match fuel with
  | O => ([], EndFuel)
  | S fuel' =>
    match resolve (files e) (cwd e) name with
    | Some (id, NFile content) =>
      if existsb (beq id) seen then ([], EndErr ELoop) else
      match spec_file content with
      | None => ([], EndErr EUnknown)
      | Some ps =>
        let '(rest, fin) := ref_chain e fuel' (id :: seen) (file_value ps K_CONF) in
        ((content, ps) :: rest, fin)
      end
    | _ => ([], EndErr EIO)
    end
  end.

(* "Layercake takes its configuration from the first of these sources it encounters: -config,
   LAYERCONF, ~/.layercake, etc/layercake.conf parallel to the executable's directory" *)
Definition exe_conf (a0 : bytes) : bytes :=
  pathdir (pathdir a0) ++ bs "/etc/layercake.conf"%string.
Definition ref_start (e : env) : bytes :=
  if negb (isempty (sw_conf e)) then sw_conf e else
  let cands :=
    (if isempty (layerconf e) then [] else [layerconf e])
    ++ (if isempty (home e) then [] else [home e ++ bs "/.layercake"%string])
    ++ [exe_conf (argv0 e)] in
  match find (is_file (files e) (cwd e)) cands with Some p => p | None => [] end.

Fixpoint first_nonempty (l : list bytes) : bytes :=
  match l with [] => [] | x :: r => if isempty x then first_nonempty r else x end.

Inductive refres := RUnspec | RRes (o : outcome).

Definition ref_fuel (e : env) : nat := S (length (files e)).

(* where the documentation does not determine the result *)
Definition ref_scope (e : env) (chain : list (bytes * list (N * bytes))) : bool :=
  (* the executable's location is known from an absolute clean os.Args[0]; the undocumented last
     resort /etc/layercake.conf does not exist *)
  (negb (isempty (sw_conf e))
   || (is_clean_abs (argv0 e) && negb (is_file (files e) (cwd e) (bs "/etc/layercake.conf"%string))))
  (* no setting twice in one file; CONFIGFILE values are absolute path names *)
  && forallb (fun f => nodup_keys (snd f)
                       && (isempty (file_value (snd f) K_CONF) || is_abs (file_value (snd f) K_CONF))) chain.

(* the effective value of setting k before path treatment: the first one found in
   command-line switch, environment variable (base path only), the files in chain order, default *)
Definition raw_value (e : env) (chain : list (bytes * list (N * bytes))) (k : N) : bytes :=
  first_nonempty ((if k =? K_BASE then [sw_base e; layerroot e] else [])
                  ++ map (fun f => file_value (snd f) k) chain ++ [doc_default k]).

(* directory settings: clean absolute paths, LAYERS and EXPORTS against the effective base path *)
Definition resolve_paths (raw : N -> bytes) : refres :=
  if negb (is_abs (raw K_BASE)) then RRes (OErr ENoAbs) else
  if negb (is_abs (raw K_CHROOT)) then RUnspec else
  let base := clean (raw K_BASE) in
  let dirv := fun k => if is_abs (raw k) then clean (raw k) else clean (base ++ sl :: raw k) in
  RRes (OOk (map (fun k =>
    if k =? K_BASE then base
    else if (k =? K_LAYERS) || (k =? K_EXPORTS) then dirv k
    else if k =? K_CHROOT then clean (raw k)
    else raw k) result_keys)).

Definition reference (e : env) : refres :=
  let '(chain, fin) := ref_chain e (ref_fuel e) [] (ref_start e) in
  if negb (ref_scope e chain) then RUnspec else
  match fin with
  | EndFuel => RUnspec
  | EndErr x => RRes (OErr x)
  | EndOk => resolve_paths (raw_value e chain)
  end.

(* "Directory settings come out as clean absolute paths" -- on every successful load *)
Definition paths_ok (o : outcome) : bool :=
  match o with
  | OOk vals => is_clean_abs (nth 0%nat vals []) && is_clean_abs (nth 1%nat vals [])
                && is_clean_abs (nth 7%nat vals [])
  | _ => true
  end.

Definition spec (c : case) (o : obs) : bool :=
  paths_ok (o_load o)
  && match reference (c_env c) with
     | RUnspec => true
     | RRes r => outcome_beq (o_load o) r
                 && match o_bin o with Some b => binview_beq b (bin_view r) | None => true end
     end.

(* ------------------------------------------------------------------ domain of the model *)
Definition parent_of (p : bytes) : bytes := path_of (tl (rev (comps p))).
Definition comp_ok (c : bytes) : bool :=
  (N.of_nat (length c) <=? 255) && negb (existsb (fun x => bn x =? 0) c).
Fixpoint nodup_paths (l : list bytes) : bool :=
  match l with [] => true | p :: r => negb (existsb (beq p) r) && nodup_paths r end.
Definition fs_wf (fs : fsmap) : bool :=
  is_dir (fs_get fs [sl])
  && forallb (fun pn => is_clean_abs (fst pn) && forallb comp_ok (comps (fst pn))
                        && is_dir (fs_get fs (parent_of (fst pn)))) fs
  && nodup_paths (map fst fs).
Definition short (b : bytes) : bool := N.of_nat (length b) <? 4000.
Definition wf (c : case) : bool :=
  let e := c_env c in
  fs_wf (files e) && is_clean_abs (cwd e) && is_dir (fs_get (files e) (cwd e))
  && short (sw_conf e) && short (sw_base e) && short (layerroot e) && short (layerconf e)
  && short (home e) && short (argv0 e)
  && forallb (fun pn => match snd pn with NFile b => short b | NDir => true end) (files e).

(* known finding 1: a configuration file that is read uses one of the documented spellings
   WORKDIR, UPPERDIR, CHROOTEXEC, which the implementation rejects as unrecognized *)
Definition kf_env (e : env) : N :=
  let '(chain, _) := ref_chain e (ref_fuel e) [] (ref_start e) in
  if existsb (fun f => uses_doc_only_key (fst f)) chain then 1 else 0.
Definition kf (c : case) : N := kf_env (c_env c).

Definition verdict (c : case) : N :=
  mkverdict (wf c) (obs_beq (model c) (c_obs c)) (spec c (c_obs c)) (kf c).
End C18.
