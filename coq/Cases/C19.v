(* C19: case type, model observation, specification predicate, verdict. *)
From LC Require Import Lib.Bytes Lib.Lex Lib.Fields Lib.PathM Gen.Consts Model.InUse Cases.Verdict.

Module C19.

(* ---- observations ---- *)
(* in-process: fs.FindLayerUsers (map sorted by key), then per layer of c_layers the busy flags
   after manage.ProbeAllLayerstate (None = panic) and the rows of manage.DescribeUsers;
   binary: exit status 0 of `layercake status <layer>`, its "Usage:" line as a class
   (Model.InUse.usage), the rows of its process table *)
Inductive obs :=
  | OProc (scan : scan_res) (fl : option (list flags)) (rows : list (list drow))
  | OStatus (ok : bool) (usage : N) (rows : list drow).

Record case := MkCase {
  c_layersdir : bytes;           (* cfg.Layerdirs, as configured *)
  c_realdir : bytes;             (* the same directory with every symbolic link resolved
                                    (filepath.EvalSymlinks): the name under which the kernel
                                    reports it in /proc links *)
  c_dirs : list bytes;           (* [LayerBuildRoot; LayerOvfsWorkdir; LayerOvfsUpperdir] *)
  c_layers : list bytes;         (* names of the layers (all complete) *)
  c_procs : list proc;           (* the /proc snapshot, in readdir order *)
  c_faults : list fault;         (* reads failed during the scan *)
  c_status : option nat;         (* Some i: observed through `layercake status (nth i c_layers)` *)
  c_obs : obs }.

Definition users_beq := list_beq user_beq.
Definition umap_beq (a b : umap) : bool :=
  list_beq (fun x y => beq (fst x) (fst y) && users_beq (snd x) (snd y)) a b.
Definition scan_res_beq (a b : scan_res) : bool :=
  match a, b with
  | SPanic, SPanic | SErr, SErr => true
  | SOk x, SOk y => umap_beq x y
  | _, _ => false
  end.
Definition obs_beq (a b : obs) : bool :=
  match a, b with
  | OProc s f r, OProc s' f' r' =>
    scan_res_beq s s' && opt_beq (list_beq flags_beq) f f' && list_beq (list_beq drow_beq) r r'
  | OStatus k u r, OStatus k' u' r' => Bool.eqb k k' && N.eqb u u' && list_beq drow_beq r r'
  | _, _ => false
  end.

(* ---- model ---- *)
Fixpoint all_some {A} (l : list (option A)) : option (list A) :=
  match l with
  | [] => Some []
  | None :: _ => None
  | Some x :: r => option_map (cons x) (all_some r)
  end.

(* FindLayerUsers first resolves the symbolic links of the configured path (before the repair
   it worked with [c_layersdir c] as configured) *)
Definition model_scan (c : case) : scan_res :=
  find_layer_users (c_realdir c) (orc_of (c_faults c)) (c_procs c).

Definition model (c : case) : obs :=
  match c_status c with
  | None =>
    match model_scan c with
    | SOk m =>
      OProc (SOk m) (all_some (map (fun L => classify (c_dirs c) (get m L)) (c_layers c)))
            (map (fun L => describe (get m L)) (c_layers c))
    | r => OProc r (Some []) []
    end
  | Some i =>
    match model_scan c with
    | SOk m =>
      let us := get m (nth i (c_layers c) []) in
      match classify (c_dirs c) us with
      | Some f => OStatus true (usage f) (describe us)
      | None => OStatus false 0 []
      end
    | _ => OStatus false 0 []
    end
  end.

(* ---- well-formed inputs ---- *)
Definition nonempty {A} (l : list A) : bool := match l with [] => false | _ => true end.
Definition no_slash (s : bytes) : bool := negb (existsb (fun x => Ascii.eqb x slc) s).
Definition last_not_slash (s : bytes) : bool :=
  match rev s with c :: _ => negb (Ascii.eqb c slc) | [] => false end.
Fixpoint nodupb (l : list bytes) : bool :=
  match l with [] => true | x :: r => negb (existsb (beq x) r) && nodupb r end.
(* a canonical decimal below 10^19 < 2^64 that is not zero *)
Definition canonical_pid (s : bytes) : bool :=
  match s with
  | c :: _ => negb (Ascii.eqb c (nb 48)) && (length s <=? 19)%nat
  | [] => false
  end.
Definition wf_name (p : proc) : bool :=
  nonempty (p_name p) && (if p_isdir p && is_numeric (p_name p) then canonical_pid (p_name p) else true).
Definition opt_len_ok (o : option bytes) : bool :=
  match o with Some t => nonempty t && (length t <? 4096)%nat | None => true end.
Definition wf_proc (p : proc) : bool :=
  wf_name p && opt_len_ok (p_exe p) && opt_len_ok (p_cwd p) && opt_len_ok (p_root p)
  && match p_fds p with Some fds => forallb (fun f => opt_len_ok (fd_tgt f)) fds | None => true end.
Definition wf_dir (d : bytes) : bool := nonempty d && last_not_slash d.
(* the layers directory is an absolute path without a trailing slash *)
Definition wf_layersdir (d : bytes) : bool :=
  match d with c0 :: _ :: _ => Ascii.eqb c0 slc | _ => false end && last_not_slash d.
Definition wf (c : case) : bool :=
  wf_layersdir (c_layersdir c) && wf_layersdir (c_realdir c)
  && (length (c_dirs c) =? 3)%nat && forallb wf_dir (c_dirs c)
  && forallb (fun L => nonempty L && no_slash L) (c_layers c) && nodupb (c_layers c)
  && forallb wf_proc (c_procs c) && nodupb (map p_name (c_procs c))
  && forallb (fun f => (f_proc f <? length (c_procs c))%nat) (c_faults c)
  && match c_status c with Some i => (i <? length (c_layers c))%nat | None => true end.

(* ---- the property on one case ---- *)
Definition layer_dir (c : case) (L : bytes) : bytes := c_realdir c ++ slc :: L.

(* [inside d t]: t is the directory d itself or lies below it; the path relative to d *)
Definition inside (d t : bytes) : option bytes :=
  match strip_prefix d t with
  | Some [] => Some []
  | Some (ch :: rest) => if Ascii.eqb ch slc then Some rest else None
  | None => None
  end.
Definition is_some {A} (o : option A) : bool := match o with Some _ => true | None => false end.

Definition triple := (N * N * bytes)%type.            (* pid, kind, path inside the layer *)
Definition triple_beq (a b : triple) : bool :=
  let '(p, k, t) := a in let '(p', k', t') := b in N.eqb p p' && N.eqb k k' && beq t t'.
Definition proj (u : user) : triple := (u_pid u, u_kind u, u_file u).

Definition is_process (p : proc) : bool := p_isdir p && is_numeric (p_name p).
Definition opt_link (k : N) (o : option bytes) : list (N * bytes) :=
  match o with Some t => [(k, t)] | None => [] end.
(* the links of a process: working directory, root, executable, open descriptors *)
Definition links (p : proc) : list (N * bytes) :=
  opt_link K_cwd (p_cwd p) ++ opt_link K_root (p_root p) ++ opt_link K_exec (p_exe p)
  ++ match p_fds p with
     | Some fds => flat_map (fun f => opt_link K_open (fd_tgt f)) fds
     | None => []
     end.
Definition uses (ldir : bytes) (p : proc) : list triple :=
  if is_process p then
    flat_map (fun kt => match inside ldir (snd kt) with
                        | Some tl => [(pid_of (p_name p), fst kt, tl)]
                        | None => []
                        end) (links p)
  else [].

Definition faulted (fs : list fault) (i : nat) : bool := existsb (fun f => Nat.eqb (f_proc f) i) fs.
Fixpoint expected_from (fs : list fault) (only_unfaulted : bool) (ldir : bytes) (i : nat) (ps : list proc)
  : list triple :=
  match ps with
  | [] => []
  | p :: r => (if only_unfaulted && faulted fs i then [] else uses ldir p)
              ++ expected_from fs only_unfaulted ldir (S i) r
  end.
(* lo: the uses by processes no read of which was disturbed; hi: the uses by all processes *)
Definition lo (c : case) (L : bytes) := expected_from (c_faults c) true (layer_dir c L) 0 (c_procs c).
Definition hi (c : case) (L : bytes) := expected_from (c_faults c) false (layer_dir c L) 0 (c_procs c).

Definition subset (a b : list triple) : bool := forallb (fun x => existsb (triple_beq x) b) a.
Definition count (x : triple) (l : list triple) : nat := length (filter (triple_beq x) l).
Definition perm_beq (a b : list triple) : bool :=
  Nat.eqb (length a) (length b) && forallb (fun x => Nat.eqb (count x a) (count x b)) a.

(* (1) attribution: exactly the processes with a link at or below layers/L are reported for L,
   with kind and relative path; nothing else is reported for any key of the map *)
Definition spec_attr_key (c : case) (m : umap) (K : bytes) : bool :=
  let got := map proj (get m K) in
  subset (lo c K) got && subset got (hi c K)
  && (if nonempty (c_faults c) then true else perm_beq got (hi c K)).
Definition spec_attr (c : case) (m : umap) : bool :=
  forallb (spec_attr_key c m) (c_layers c ++ map fst m).

(* (2) classification *)
Definition in_mount (dirs : list bytes) (t : bytes) : bool := existsb (fun d => is_some (inside d t)) dirs.
Definition build_of (c : case) : bytes := nth 0 (c_dirs c) [].
Definition spec_flags (c : case) (L : bytes) (f : flags) : bool :=
  let l := lo c L in let h := hi c L in
  let mnt := fun x : triple => in_mount (c_dirs c) (snd x) in
  let isroot := fun x : triple => N.eqb (snd (fst x)) K_root in
  implb (existsb mnt l) (fl_mb f) && implb (fl_mb f) (existsb mnt h)
  && implb (existsb (fun x => isroot x && is_some (inside (build_of c) (snd x))) l) (fl_chroot f)
  && implb (fl_chroot f) (existsb isroot h)
  && implb (nonempty l) (fl_mb f || fl_nmb f)
  && implb (fl_mb f || fl_nmb f || fl_chroot f) (nonempty h).
Fixpoint spec_flags_all (c : case) (Ls : list bytes) (fl : list flags) : bool :=
  match Ls, fl with
  | [], [] => true
  | L :: Ls', f :: fl' => spec_flags c L f && spec_flags_all c Ls' fl'
  | _, _ => false
  end.

(* (3) the scan survives processes that vanish (or are inaccessible) while it runs.
   What the kernel answers for a task that has exited, per call site: lookups, stat and
   getdents say ENOENT; readlink and open say ENOENT, EACCES (fs/proc/base.c, fs/proc/fd.c) or
   ESRCH (observed on Linux 6.18 for the readlink of /proc/<pid>/exe of a task that exits
   between the listing of /proc and the call: thorough run of 2026-10-01) *)
Definition vanish_ok (r : rid) (e : err) : bool :=
  match r with
  | RTopOpen | RTopReaddir => false
  | RLstat | RFdReaddir | RFdLstat _ => match e with ENOENT => true | _ => false end
  | _ => match e with ENOENT | EACCES | ESRCH => true | _ => false end
  end.
Definition only_vanish (c : case) : bool := forallb (fun f => vanish_ok (f_rid f) (f_err f)) (c_faults c).

Definition spec_usage (c : case) (L : bytes) (u : N) : bool :=
  let l := lo c L in let h := hi c L in
  let mnt := fun x : triple => in_mount (c_dirs c) (snd x) in
  let isroot := fun x : triple => N.eqb (snd (fst x)) K_root in
  (* 1 active chroot, 2 busy, 4 busy; may be unmounted, 5 idle *)
  implb (N.eqb u 1) (existsb isroot h)
  && implb (existsb (fun x => isroot x && is_some (inside (build_of c) (snd x))) l) (N.eqb u 1)
  && implb (N.eqb u 2) (existsb mnt h)
  && implb (existsb mnt l && negb (existsb isroot h)) (N.eqb u 2)
  && implb (N.eqb u 4) (nonempty h)
  && implb (N.eqb u 5) (negb (nonempty l))
  && implb (negb (nonempty h)) (N.eqb u 5)
  && (N.eqb u 1 || N.eqb u 2 || N.eqb u 4 || N.eqb u 5).

(* (4) the process table of `layercake status` (manage.DescribeUsers): one row per process that
   uses the layer; "running in chroot" (1) for a process whose root lies in the layer, else
   "running in layer directory" (2) for one whose working directory does, else "opened files"
   (3); the working directory shown and the open files listed are that process's *)
Definition t_pid (x : triple) : N := fst (fst x).
Definition t_kind (x : triple) : N := snd (fst x).
Definition has (l : list triple) (q k : N) : bool :=
  existsb (fun x => N.eqb (t_pid x) q && N.eqb (t_kind x) k) l.
Definition tails (l : list triple) (q k : N) : list bytes :=
  map snd (filter (fun x => N.eqb (t_pid x) q && N.eqb (t_kind x) k) l).
Definition bsubset (a b : list bytes) : bool := forallb (fun x => existsb (beq x) b) a.
Definition spec_row (l h : list triple) (r : drow) : bool :=
  let q := r_pid r in
  existsb (fun x => N.eqb (t_pid x) q) h
  && implb (N.eqb (r_mode r) 1) (has h q K_root) && implb (has l q K_root) (N.eqb (r_mode r) 1)
  && implb (N.eqb (r_mode r) 2) (has h q K_cwd && negb (has l q K_root))
  && implb (has l q K_cwd && negb (has h q K_root)) (N.eqb (r_mode r) 2)
  && implb (N.eqb (r_mode r) 3) (negb (has l q K_root) && negb (has l q K_cwd))
  && (N.eqb (r_mode r) 1 || N.eqb (r_mode r) 2 || N.eqb (r_mode r) 3)
  && implb (N.eqb (r_mode r) 2 || has l q K_cwd || nonempty (r_cwd r)) (existsb (beq (r_cwd r)) (tails h q K_cwd))
  && bsubset (tails l q K_open) (r_files r) && bsubset (r_files r) (tails h q K_open).
Fixpoint nodupN (l : list N) : bool :=
  match l with [] => true | x :: r => negb (existsb (N.eqb x) r) && nodupN r end.
Definition spec_rows (c : case) (L : bytes) (rows : list drow) : bool :=
  let l := lo c L in let h := hi c L in
  forallb (spec_row l h) rows
  && forallb (fun x => (t_pid x <? 1)%N || existsb (fun r => N.eqb (r_pid r) (t_pid x)) rows) l
  && nodupN (map r_pid rows).
Fixpoint spec_rows_all (c : case) (Ls : list bytes) (rows : list (list drow)) : bool :=
  match Ls, rows with
  | [], [] => true
  | L :: Ls', r :: rows' => spec_rows c L r && spec_rows_all c Ls' rows'
  | _, _ => false
  end.

Definition spec (c : case) (o : obs) : bool :=
  match o with
  | OProc SPanic _ _ => false
  | OProc SErr _ _ => negb (only_vanish c)
  | OProc (SOk m) fl rows =>
    spec_attr c m
    && match fl with Some fs => spec_flags_all c (c_layers c) fs | None => false end
    && spec_rows_all c (c_layers c) rows
  | OStatus ok u rows =>
    let L := nth (match c_status c with Some i => i | None => 0%nat end) (c_layers c) [] in
    if ok then spec_usage c L u && spec_rows c L rows
    else negb (only_vanish c)
  end.

(* known findings: none so far *)
Definition kf (c : case) : N := 0%N.

Definition verdict (c : case) : N :=
  mkverdict (wf c) (obs_beq (model c) (c_obs c)) (spec c (c_obs c)) (kf c).
End C19.
