(* C20: concurrent layercake invocations leave a serially explainable mount table. *)
From LC Require Import Lib.Bytes Lib.Lex Lib.Fields Lib.PathM Gen.Consts
  Model.MountInfo Model.FsTree Model.Kernel Model.Layers Model.Conc Cases.Verdict Cases.LC.
Open Scope N_scope.
Import LC LCS.

Module C20.

(* the kernel interactions of one invocation, from the layers on disk (cf. Layers.mount_layer,
   mount_one, unmount_layer): getLayers reads the table; per layer of the chain the overlay is
   mounted unless the cached table shows it, every import likewise, each mount followed by a
   re-read, and the table is re-read at the end of the layer *)
Definition layer_code (c : cfgT) (ch : list layer) (x : layer) : list instr :=
  flat_map (fun em => [IMountIf (em_target em) true]) (expected_mounts c ch x) ++ [IProbe].
Definition code_of (c : cfgT) (f : fsT) (cmd : command) : list instr :=
  match cmd with
  | CMount n => let ch := chain c f n in
                match ch with [] => [IProbe; IFail] | _ => IProbe :: flat_map (layer_code c ch) ch end
  | CUmount n false => match layer_named c f n with
                       | Some x => [IProbe; IUmountLayer (build_path c x)]
                       | None => [IProbe; IFail]
                       end
  | _ => [IProbe]
  end.

Definition call_beq (a b : call) : bool :=
  match a, b with
  | KProbe, KProbe => true
  | KMount p, KMount q => beq p q
  | KUmount p x, KUmount q y => beq p q && Bool.eqb x y
  | _, _ => false
  end.

Record case := MkCase {
  c_cfg : cfgT; c_fs : fsT;
  c_k0 : ktab;                          (* mountpoints below the base path before the two commands *)
  c_cmd_a : command; c_cmd_b : command;
  c_sched : list bool;
  (* observed *)
  c_final : ktab;
  c_calls_a : list call; c_calls_b : list call;
  c_ok_a : bool; c_ok_b : bool;
  c_rest : ktab }.                      (* what is still mounted below the base path after ONE later,
                                           undisturbed `umount -all` by a fresh invocation *)

Record outcome := MkOut { o_final : ktab; o_calls_a : list call; o_calls_b : list call; o_ok_a : bool; o_ok_b : bool;
                          o_trace : trace }.

Definition model (c : case) : outcome :=
  let ca := code_of (c_cfg c) (c_fs c) (c_cmd_a c) in
  let cb := code_of (c_cfg c) (c_fs c) (c_cmd_b c) in
  let '(k, pa, pb, tr) := run_sched (c_sched c) (c_k0 c) ca cb in
  MkOut k (pc_calls pa) (pc_calls pb) (negb (pc_failed pa)) (negb (pc_failed pb)) tr.

(* the later umount -all against the machine's.  Without a covered line ([ncov]) no call fails and
   the result is exactly [later_umount_all].  With one (a second overlay stacked on a build root
   over the imports mounted inside the first: known finding 1) umount(2) of the hidden mountpoint
   fails and the command stops there; which lines it removed before depends on the order of the
   layers, so only this is required: what is left was there before (as a multiset) and something
   is left. *)
Fixpoint remove_one (p : bytes) (t : ktab) : option ktab :=
  match t with
  | [] => None
  | x :: r => if beq x p then Some r else match remove_one p r with Some r' => Some (x :: r') | None => None end
  end.
Fixpoint submultiset (a b : ktab) : bool :=
  match a with
  | [] => true
  | x :: r => match remove_one x b with Some b' => submultiset r b' | None => false end
  end.
Definition later_corr (final rest : ktab) : bool :=
  if ncov final then ktab_eq (later_umount_all final) rest
  else submultiset rest final && match rest with [] => false | _ => true end.

Definition corr (c : case) : bool :=
  let m := model c in
  ktab_eq (o_final m) (c_final c)
  && list_beq call_beq (o_calls_a m) (c_calls_a c) && list_beq call_beq (o_calls_b m) (c_calls_b c)
  && Bool.eqb (o_ok_a m) (c_ok_a c) && Bool.eqb (o_ok_b m) (c_ok_b c)
  (* the later, undisturbed umount -all: deepest first, one umount(2) per line of the table *)
  && later_corr (c_final c) (c_rest c).

(* the property: the final table is one some serial order of the two commands produces; in
   particular no mountpoint ends up with two stacked mounts *)
Definition spec (c : case) (final : ktab) : bool :=
  let ca := code_of (c_cfg c) (c_fs c) (c_cmd_a c) in
  let cb := code_of (c_cfg c) (c_fs c) (c_cmd_b c) in
  ktab_eq final (serial_ab (c_k0 c) ca cb) || ktab_eq final (serial_ab (c_k0 c) cb ca).

(* "... so one later umount fully unmounts the layer": unless a mountpoint carries two mounts,
   the later umount leaves nothing behind.  (The machine and the code do better: every line of
   the table is unmounted, a stacked one twice -- C20_later_umount_all_empties_any; the
   correspondence below holds the code to that, the property asks only for this.) *)
Definition later_ok (final rest : ktab) : bool :=
  has_dup final || match rest with [] => true | _ => false end.

Fixpoint nodup_b (l : list bytes) : bool := match l with [] => true | x :: r => negb (mem_path x r) && nodup_b r end.
Definition mount_targets_of (code : list instr) : list bytes :=
  flat_map (fun i => match i with IMountIf t _ => [t] | _ => [] end) code.
Definition is_umount (cmd : command) : bool := match cmd with CUmount _ _ => true | _ => false end.

Definition wf (c : case) : bool :=
  LC.wf_cfg (c_cfg c) && nodup_b (c_k0 c)
  && nodup_b (mount_targets_of (code_of (c_cfg c) (c_fs c) (c_cmd_a c)))
  && nodup_b (mount_targets_of (code_of (c_cfg c) (c_fs c) (c_cmd_b c))).

(* known findings (there is no lock between reading the table and acting on it):
   1  a mount(2) of one invocation lands on a mountpoint the other mounted after the caller's
      last read of the table (two stacked mounts);
   2  a mount and an umount of overlapping stacks truly interleave (partial outcome) *)
Definition kf (c : case) : N :=
  let m := model c in
  if tr_stacked (o_trace m) then 1
  else if (is_umount (c_cmd_a c) || is_umount (c_cmd_b c)) && negb (serial_picks (tr_picks (o_trace m))) then 2
  else 0.

Definition verdict (c : case) : N :=
  mkverdict (wf c) (corr c) (spec c (c_final c) && later_ok (c_final c) (c_rest c)) (kf c).
End C20.
