(* Shared case format of the layercake-command properties (C01-C04, C08-C11, C15, C16):
   an initial world and a sequence of steps; each step records what the implementation did
   (result class, operation log, file-tree delta, kernel table, per-layer probe results).
   Every step is checked on its own: the model is run from the OBSERVED world before the
   step and must reproduce the observed result, log and world after it. *)
From LC Require Import Lib.Bytes Lib.Lex Lib.Fields Lib.PathM Gen.Consts
  Model.MountInfo Model.FsTree Model.Kernel Model.Layers Cases.Verdict.
Open Scope N_scope.

Module LC.

(* per-layer observation after a successful command *)
Record lobs := MkLO {
  lo_name : bytes; lo_base : bytes; lo_state : N;
  lo_mbusy : bool; lo_nmbusy : bool; lo_overlain : bool; lo_chroot : bool;
  lo_kmounts : list bytes }.
Definition lobs_beq (a b : lobs) : bool :=
  beq (lo_name a) (lo_name b) && beq (lo_base a) (lo_base b) && (lo_state a =? lo_state b)
  && Bool.eqb (lo_mbusy a) (lo_mbusy b) && Bool.eqb (lo_nmbusy a) (lo_nmbusy b)
  && Bool.eqb (lo_overlain a) (lo_overlain b) && Bool.eqb (lo_chroot a) (lo_chroot b)
  && list_beq beq (lo_kmounts a) (lo_kmounts b).

Record delta := MkDelta { d_removed : list bytes; d_upsert : fsT }.

Record step := MkStep {
  s_env : env; s_cmd : command; s_users : users_map;
  s_res : rclass; s_oplog : list op; s_delta : delta;
  s_ktab : list kline; s_nextid : N; s_nextdev : N;
  s_layers : option (list lobs) }.

Record case := MkCase { c_cfg : cfgT; c_fs0 : fsT; c_ks0 : kstate; c_steps : list step }.

Definition apply_delta (f : fsT) (d : delta) : fsT :=
  fold_left (fun acc e => fs_set acc (fst e) (snd e))
            (d_upsert d)
            (filter (fun e => negb (memb (fst e) (d_removed d))) f).

Definition rclass_beq (a b : rclass) : bool :=
  match a, b with
  | ROk, ROk | RFail, RFail | RCrash, RCrash | RDiverge, RDiverge | RPanic, RPanic => true
  | _, _ => false
  end.

Definition lobs_of (l : layer) : lobs :=
  MkLO (l_name l) (l_base l) (l_state l) (l_mbusy l) (l_nmbusy l) (l_overlain l) (l_chroot l) (l_kmounts l).
Fixpoint ins_lobs (x : lobs) (l : list lobs) : list lobs :=
  match l with [] => [x] | y :: r => if ltb (lo_name y) (lo_name x) then y :: ins_lobs x r else x :: l end.
Definition sort_lobs (l : list lobs) : list lobs := fold_right ins_lobs [] l.

(* the observed world before / after each step *)
Record wobs := MkWO { wo_fs : fsT; wo_ks : kstate }.
Definition world_of (w : wobs) : world := MkW (wo_fs w) (wo_ks w).
Definition after (w : wobs) (s : step) : wobs :=
  MkWO (apply_delta (wo_fs w) (s_delta s)) (MkKS (s_ktab s) (s_nextid s) (s_nextdev s)).

(* model of one step, projected on the observables *)
Record sres := MkSR { r_class : rclass; r_log : list op; r_fs : fsT; r_ks : kstate; r_layers : option (list lobs) }.
Definition model_step (c : cfgT) (w : wobs) (s : step) : sres :=
  let '(o, st) := run (s_env s) c (s_users s) (s_cmd s) (world_of w) in
  MkSR (rclass_of o) (rev (s_log st)) (w_fs (s_w st)) (w_ks (s_w st))
       (match o with
        | Ret (Some ld) => Some (sort_lobs (map lobs_of (ld_map ld)))
        | _ => None
        end).

Definition kstate_beq (a b : kstate) : bool :=
  ktab_beq (ks_tab a) (ks_tab b) && (ks_nextid a =? ks_nextid b) && (ks_nextdev a =? ks_nextdev b).

Definition step_corr (c : cfgT) (w : wobs) (s : step) : bool :=
  let r := model_step c w s in
  let w' := after w s in
  rclass_beq (r_class r) (s_res s)
  && list_beq op_beq (r_log r) (s_oplog s)
  && fs_beq (r_fs r) (wo_fs w')
  && kstate_beq (r_ks r) (wo_ks w')
  && match s_res s with
     | ROk => opt_beq (list_beq lobs_beq) (r_layers r) (option_map sort_lobs (s_layers s))
     | _ => true
     end.

(* diagnostics: per step, which components agree (bit0 class, 1 log, 2 fs, 3 kernel, 4 layers) *)
Definition step_diag (c : cfgT) (w : wobs) (s : step) : N :=
  let r := model_step c w s in
  let w' := after w s in
  (if rclass_beq (r_class r) (s_res s) then 1 else 0)
  + (if list_beq op_beq (r_log r) (s_oplog s) then 2 else 0)
  + (if fs_beq (r_fs r) (wo_fs w') then 4 else 0)
  + (if kstate_beq (r_ks r) (wo_ks w') then 8 else 0)
  + (match s_res s with
     | ROk => if opt_beq (list_beq lobs_beq) (r_layers r) (option_map sort_lobs (s_layers s)) then 16 else 0
     | _ => 16 end).
Fixpoint diag_along (c : cfgT) (w : wobs) (ss : list step) : list N :=
  match ss with [] => [] | s :: r => step_diag c w s :: diag_along c (after w s) r end.
Fixpoint world_before (w : wobs) (ss : list step) (n : nat) : wobs :=
  match n, ss with O, _ => w | S n', s :: r => world_before (after w s) r n' | _, [] => w end.

(* fold a per-step predicate along the observed trajectory *)
Fixpoint along (P : wobs -> step -> bool) (w : wobs) (ss : list step) : bool :=
  match ss with
  | [] => true
  | s :: r => P w s && along P (after w s) r
  end.

Definition w0 (c : case) : wobs := MkWO (c_fs0 c) (c_ks0 c).
Definition corr (c : case) : bool := along (step_corr (c_cfg c)) (w0 c) (c_steps c).
Definition diag (c : case) : list N := diag_along (c_cfg c) (w0 c) (c_steps c).
Definition model_at (c : case) (n : nat) : option sres :=
  match nth_error (c_steps c) n with
  | Some s => Some (model_step (c_cfg c) (world_before (w0 c) (c_steps c) n) s)
  | None => None
  end.

(* well-formedness of a case: ASCII-only names in the layers directory, unique paths,
   absolute clean configuration paths *)
Definition ascii_only (s : bytes) : bool := forallb (fun ch => bn ch <? 128) s.
Fixpoint nodup_paths (l : list bytes) : bool :=
  match l with [] => true | x :: r => negb (memb x r) && nodup_paths r end.
Definition wf_cfg (c : cfgT) : bool :=
  is_abs (c_base c) && beq (clean (c_base c)) (c_base c)
  && is_abs (c_layers c) && beq (clean (c_layers c)) (c_layers c)
  && is_abs (c_exports c) && beq (clean (c_exports c)) (c_exports c).
Definition wf (c : case) : bool :=
  wf_cfg (c_cfg c)
  && nodup_paths (map fst (c_fs0 c))
  && forallb (fun e => ascii_only (fst e) && fields_exact (match snd e with File x => x | _ => [] end)) (c_fs0 c)
  && wf_table (ks_tab (c_ks0 c))
  && forallb (fun s => forallb ascii_only
       (match s_cmd s with
        | CAdd a b0 x => [a; b0; x] | CRemove a _ => [a] | CRename a b0 => [a; b0] | CRebase a b0 => [a; b0]
        | CMkdirs a => [a] | CMount a => [a] | CUmount a _ => [a] | CChroot a => [a] | _ => []
        end)) (c_steps c).

End LC.
