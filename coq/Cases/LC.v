(* Shared case format of the layercake-command properties (C01-C04, C08-C11, C15, C16):
   an initial world and a sequence of steps; each step records what the implementation did
   (result class, operation log, file-tree delta, kernel table, per-layer probe results).
   Every step is checked on its own: the model is run from the OBSERVED world before the
   step and must reproduce the observed result, log and world after it. *)
From LC Require Import Lib.Bytes Lib.Lex Lib.Fields Lib.PathM Gen.Consts
  Model.MountInfo Model.FsTree Model.Kernel Model.Layers Model.Args Model.Dispatch Model.Whole Cases.Verdict.
Open Scope N_scope.

Module LC.

(* per-layer observation after a successful command *)
Record lobs := MkLO {
  lo_name : bytes; lo_base : bytes; lo_state : N;
  lo_mbusy : bool; lo_nmbusy : bool; lo_overlain : bool; lo_chroot : bool;
  lo_kmounts : list bytes }.
Definition lobs_beq (a b : lobs) : bool :=
  beq (lo_name a) (lo_name b) && beq (lo_base a) (lo_base b) && (lo_state a =? lo_state b)
  && Bool.eqb (lo_mbusy a) (lo_mbusy b) && Bool.eqb (lo_nmbusy a) (lo_nmbusy b)
  && Bool.eqb (lo_overlain a) (lo_overlain b) && Bool.eqb (lo_chroot a) (lo_chroot b)
  && list_beq beq (lo_kmounts a) (lo_kmounts b).

Record delta := MkDelta { d_removed : list bytes; d_upsert : fsT }.

Record step := MkStep {
  s_env : env; s_cmd : command; s_users : users_map;
  s_res : rclass; s_oplog : list op; s_delta : delta;
  s_ktab : list kline; s_nextid : N; s_nextdev : N;
  s_layers : option (list lobs);
  (* the command line, when the step was executed by the real binary cmd/layercake (process-level
     step); [] when it was executed by calls into package manage or by hand *)
  s_argv : list bytes }.

Record case := MkCase { c_cfg : cfgT; c_fs0 : fsT; c_ks0 : kstate; c_steps : list step }.

Definition apply_delta (f : fsT) (d : delta) : fsT :=
  fold_left (fun acc e => fs_set acc (fst e) (snd e))
            (d_upsert d)
            (filter (fun e => negb (memb (fst e) (d_removed d))) f).

Definition rclass_beq (a b : rclass) : bool :=
  match a, b with
  | ROk, ROk | RFail, RFail | RCrash, RCrash | RDiverge, RDiverge | RPanic, RPanic => true
  | _, _ => false
  end.

Definition lobs_of (l : layer) : lobs :=
  MkLO (l_name l) (l_base l) (l_state l) (l_mbusy l) (l_nmbusy l) (l_overlain l) (l_chroot l) (l_kmounts l).
(* what `layercake list` (without -v) shows of a layer: name, parent, state, and one usage word --
   "chroot", else "busy" when the layer is busy in any way *)
Definition lobs_listed (lo : lobs) : lobs :=
  MkLO (lo_name lo) (lo_base lo) (lo_state lo)
       (negb (lo_chroot lo) && (lo_mbusy lo || lo_nmbusy lo || lo_overlain lo)) false false (lo_chroot lo) [].
Fixpoint ins_lobs (x : lobs) (l : list lobs) : list lobs :=
  match l with [] => [x] | y :: r => if ltb (lo_name y) (lo_name x) then y :: ins_lobs x r else x :: l end.
Definition sort_lobs (l : list lobs) : list lobs := fold_right ins_lobs [] l.

(* the observed world before / after each step *)
Record wobs := MkWO { wo_fs : fsT; wo_ks : kstate }.
Definition world_of (w : wobs) : world := MkW (wo_fs w) (wo_ks w).
Definition after (w : wobs) (s : step) : wobs :=
  MkWO (apply_delta (wo_fs w) (s_delta s)) (MkKS (s_ktab s) (s_nextid s) (s_nextdev s)).

(* what a property predicate may look at: one step as seen from outside *)
Record sview := MkV {
  v_env : env; v_cmd : command; v_users : users_map;
  v_res : rclass; v_log : list op; v_after : wobs; v_layers : option (list lobs) }.
Definition view_of_obs (w : wobs) (s : step) : sview :=
  MkV (s_env s) (s_cmd s) (s_users s) (s_res s) (s_oplog s) (after w s) (option_map sort_lobs (s_layers s)).
(* the same view of what the MODEL does from world w *)
Definition view_of_model (c : cfgT) (w : wobs) (e : env) (cmd : command) (um : users_map) : sview :=
  let '(o, st) := run e c um cmd (world_of w) in
  MkV e cmd um (rclass_of o) (rev (s_log st)) (MkWO (w_fs (s_w st)) (w_ks (s_w st)))
      (match o with
       | Ret (Some ld) => Some (sort_lobs (map lobs_of (ld_map ld)))
       | _ => None
       end).

(* model of one step, projected on the observables *)
Record sres := MkSR { r_class : rclass; r_log : list op; r_fs : fsT; r_ks : kstate; r_layers : option (list lobs) }.
Definition model_step (c : cfgT) (w : wobs) (s : step) : sres :=
  let '(o, st) := run (s_env s) c (s_users s) (s_cmd s) (world_of w) in
  MkSR (rclass_of o) (rev (s_log st)) (w_fs (s_w st)) (w_ks (s_w st))
       (match o with
        | Ret (Some ld) => Some (sort_lobs (map lobs_of (ld_map ld)))
        | _ => None
        end).

Definition kstate_beq (a b : kstate) : bool :=
  ktab_beq (ks_tab a) (ks_tab b) && (ks_nextid a =? ks_nextid b) && (ks_nextdev a =? ks_nextdev b).

(* a process-level step is the step the model of the whole binary (Model/Whole.v) says it is:
   the command line dispatches to the command and options of the step (Model/Dispatch.v) and
   config.Load (Model/Config.v), reading the observed file tree, yields the configuration of the case *)
Definition argv_ok (c : cfgT) (w : wobs) (s : step) : bool :=
  match s_argv s with
  | [] => true
  | argv => dispatch_is argv (s_env s) (s_cmd s) && config_is argv (wo_fs w) c
  end.

Definition step_corr (c : cfgT) (w : wobs) (s : step) : bool :=
  let r := model_step c w s in
  let w' := after w s in
  argv_ok c w s
  && (rclass_beq (r_class r) (s_res s)
  && list_beq op_beq (r_log r) (s_oplog s)
  && fs_beq (r_fs r) (wo_fs w')
  && kstate_beq (r_ks r) (wo_ks w')
  && match s_res s, s_layers s with
     | ROk, Some los =>
       match s_argv s with
       | [] => opt_beq (list_beq lobs_beq) (r_layers r) (Some (sort_lobs los))
       | _ => (* a process-level `list`: the table it printed, row by row *)
         opt_beq (list_beq lobs_beq) (option_map (map lobs_listed) (r_layers r)) (Some (sort_lobs los))
       end
     | ROk, None =>
       (* no layer table observed: a hand-made step (the model has none either), or a step run by
          the real binary, whose probed layer table cannot be seen from outside the process *)
       true
     | _, _ => true
     end).

(* diagnostics: per step, which components agree (bit0 class, 1 log, 2 fs, 3 kernel, 4 layers) *)
Definition step_diag (c : cfgT) (w : wobs) (s : step) : N :=
  let r := model_step c w s in
  let w' := after w s in
  (if rclass_beq (r_class r) (s_res s)
        && argv_ok c w s then 1 else 0)
  + (if list_beq op_beq (r_log r) (s_oplog s) then 2 else 0)
  + (if fs_beq (r_fs r) (wo_fs w') then 4 else 0)
  + (if kstate_beq (r_ks r) (wo_ks w') then 8 else 0)
  + (match s_res s, s_layers s with
     | ROk, Some los =>
       if match s_argv s with
          | [] => opt_beq (list_beq lobs_beq) (r_layers r) (Some (sort_lobs los))
          | _ => opt_beq (list_beq lobs_beq) (option_map (map lobs_listed) (r_layers r)) (Some (sort_lobs los))
          end then 16 else 0
     | _, _ => 16 end).
Fixpoint diag_along (c : cfgT) (w : wobs) (ss : list step) : list N :=
  match ss with [] => [] | s :: r => step_diag c w s :: diag_along c (after w s) r end.
Fixpoint world_before (w : wobs) (ss : list step) (n : nat) : wobs :=
  match n, ss with O, _ => w | S n', s :: r => world_before (after w s) r n' | _, [] => w end.

(* fold a per-step predicate along the observed trajectory *)
Fixpoint along (P : wobs -> step -> bool) (w : wobs) (ss : list step) : bool :=
  match ss with
  | [] => true
  | s :: r => P w s && along P (after w s) r
  end.

Definition along_views (P : wobs -> sview -> bool) (w : wobs) (ss : list step) : bool :=
  along (fun w s => P w (view_of_obs w s)) w ss.

Definition w0 (c : case) : wobs := MkWO (c_fs0 c) (c_ks0 c).
Definition corr (c : case) : bool := along (step_corr (c_cfg c)) (w0 c) (c_steps c).
Definition diag (c : case) : list N := diag_along (c_cfg c) (w0 c) (c_steps c).
Definition model_at (c : case) (n : nat) : option sres :=
  match nth_error (c_steps c) n with
  | Some s => Some (model_step (c_cfg c) (world_before (w0 c) (c_steps c) n) s)
  | None => None
  end.

(* well-formedness of a case: paths and command arguments within the modelled bytes (ASCII, and
   the two-byte UTF-8 letters of Model/Layers.v: [name_bytes_ok]), unique paths, absolute clean
   configuration paths *)
Fixpoint nodup_paths (l : list bytes) : bool :=
  match l with [] => true | x :: r => negb (memb x r) && nodup_paths r end.
Definition wf_cfg (c : cfgT) : bool :=
  is_abs (c_base c) && beq (clean (c_base c)) (c_base c)
  && is_abs (c_layers c) && beq (clean (c_layers c)) (c_layers c)
  && is_abs (c_exports c) && beq (clean (c_exports c)) (c_exports c).
Definition wf (c : case) : bool :=
  wf_cfg (c_cfg c)
  && nodup_paths (map fst (c_fs0 c))
  && forallb (fun e => name_bytes_ok (fst e) && fields_exact (match snd e with File x => x | _ => [] end)) (c_fs0 c)
  && wf_table (ks_tab (c_ks0 c))
  && forallb (fun s => forallb name_bytes_ok
       (match s_cmd s with
        | CAdd a b0 x => [a; b0; x] | CRemove a _ => [a] | CRename a b0 => [a; b0] | CRebase a b0 => [a; b0]
        | CMkdirs a => [a] | CMount a => [a] | CUmount a _ => [a] | CChroot a => [a] | _ => []
        end)) (c_steps c).

End LC.

(* ------------------------------------------------------------------------------------------
   Vocabulary shared by the property predicates (written from the property texts, against
   file tree + kernel table only; nothing here calls the command model). *)
Module LCS.
Import LC.

Definition layers_on_disk (c : cfgT) (f : fsT) : lmap := read_layer_files c f.
Definition layer_named (c : cfgT) (f : fsT) (n : bytes) : option layer := lm_get (layers_on_disk c f) n.

(* root base ... L, or [] when the chain is broken *)
Definition chain (c : cfgT) (f : fsT) (n : bytes) : list layer :=
  let m := layers_on_disk c f in
  match ancestors_and_self (S (length m)) m n [] with Some l => l | None => [] end.

Definition root_base (ch : list layer) (x : layer) : layer := match ch with b0 :: _ => b0 | [] => x end.

(* resolved import source: $$self = the layer's directory, $$base = the root base layer's *)
Definition resolve_source (c : cfgT) (ch : list layer) (x : layer) (src : bytes) : option bytes :=
  adjust_prefixed src (fun name =>
    if beq name (bs "base") then Some (l_path (root_base ch x))
    else if beq name (bs "self") then Some (l_path x) else None).

Record emount := MkEM { em_target : bytes; em_source : bytes; em_fstype : bytes; em_overlay : bool }.

(* the mounts layer x must have, in the order they are to be made *)
Definition expected_mounts (c : cfgT) (ch : list layer) (x : layer) : list emount :=
  (match l_base x with
   | [] => []
   | b0 => [MkEM (build_path c x) overlay overlay true]
   end) ++
  flat_map (fun nm => match resolve_source c ch x (nm_source nm) with
                      | Some s => [MkEM (pathjoin [build_path c x; nm_mount nm]) s (nm_fstype nm) false]
                      | None => [] end) (l_mounts x).
Definition expected_chain_mounts (c : cfgT) (ch : list layer) : list emount :=
  flat_map (expected_mounts c ch) ch.

Definition count_at (tab : list kline) (p : bytes) : nat := length (filter (fun k => beq (k_mp k) p) tab).
Definition mounted_at (tab : list kline) (p : bytes) : bool := match top_at tab p with Some _ => true | None => false end.
Definition any_at_or_under (tab : list kline) (d : bytes) : bool := existsb (fun k => at_or_under d (k_mp k)) tab.

(* does kernel mount k show source src mounted with type ty (identity of a bind = device + root) *)
Definition is_bind_type (ty : bytes) : bool := beq ty (bs "bind") || beq ty (bs "rbind").
(* the table as it was when k was attached (lines are in attachment order) *)
Fixpoint before_line (tab : list kline) (k : kline) : list kline :=
  match tab with
  | [] => []
  | m :: r => if beq (k_id m) (k_id k) then [] else m :: before_line r k
  end.
Definition shows_source (tab : list kline) (k : kline) (src ty : bytes) : bool :=
  if is_bind_type ty then
    match covering (before_line tab k) src with
    | Some cv => beq (k_dev k) (k_dev cv) && beq (k_root k) (join_root (k_root cv) (rel_suffix (k_mp cv) src))
    | None => false
    end
  else beq (k_fstype k) ty && beq (k_source k) src.

Definition sopt (k : kline) (key : bytes) : bytes := last_opt key (k_sopts k) [].
Definition is_right_overlay (c : cfgT) (m : lmap) (x : layer) (k : kline) : bool :=
  beq (k_fstype k) overlay
  && match lm_get m (l_base x) with
     | Some p => beq (sopt k (bs "lowerdir")) (build_path c p)
     | None => false end
  && beq (sopt k (bs "upperdir")) (upper_path c x)
  && beq (sopt k (bs "workdir")) (work_path c x).

(* replay the mount / umount calls of a log over the kernel model, checking P before each *)
Fixpoint replay_calls (f : fsT) (ks : kstate) (log : list op) (P : kstate -> op -> bool) : bool :=
  match log with
  | [] => true
  | o :: r =>
    match o with
    | OMount s t ty fl d =>
      P ks o && match kmount f ks s t ty fl d with KOk ks' => replay_calls f ks' r P | KErr => replay_calls f ks r P end
    | OUmount t fl =>
      P ks o && match kumount ks t fl with KOk ks' => replay_calls f ks' r P | KErr => replay_calls f ks r P end
    | _ => replay_calls f ks r P
    end
  end.

Definition is_slave_call (o : op) : bool :=
  match o with OMount _ _ _ fl _ => has_flag fl MS_SLAVE | _ => false end.
Definition mount_targets (log : list op) : list bytes :=
  flat_map (fun o => match o with OMount _ t _ fl _ => if has_flag fl MS_SLAVE then [] else [t] | _ => [] end) log.
Definition umount_targets (log : list op) : list bytes :=
  flat_map (fun o => match o with OUmount t _ => [t] | _ => [] end) log.
Definition syscalls (log : list op) : list op :=
  filter (fun o => match o with OMount _ _ _ _ _ | OUmount _ _ => true | _ => false end) log.

Fixpoint subseq (a b0 : list bytes) : bool :=       (* a is a subsequence of b0 *)
  match a, b0 with
  | [], _ => true
  | _ :: _, [] => false
  | x :: a', y :: b' => if beq x y then subseq a' b' else subseq a b'
  end.

Definition plain_env (e : env) : bool :=
  negb (e_pretend e) && match e_fault e with NoFault => true | _ => false end.
Definition unchanged (w : wobs) (v : sview) : bool :=
  fs_beq (wo_fs w) (wo_fs (v_after v)) && ktab_beq (ks_tab (wo_ks (v_after v))) (ks_tab (wo_ks w)).

(* busy in the three ways the properties name *)
Definition overlain_by_mount (c : cfgT) (tab : list kline) (x : layer) : bool :=
  existsb (fun k => beq (k_fstype k) overlay && beq (sopt k (bs "lowerdir")) (build_path c x)) tab.
Definition has_mounts (c : cfgT) (tab : list kline) (x : layer) : bool := any_at_or_under tab (build_path c x).
Definition in_mount_dirs (c : cfgT) (u : user) : bool :=
  existsb (fun d => beq (u_file u) d || prefixb (d ++ [sl]) (u_file u)) [c_buildroot c; c_work c; c_upper c].

(* is d a (proper or improper) descendant of a in the forest m? *)
Fixpoint descends (fuel : nat) (m : lmap) (a d : bytes) : bool :=
  beq a d ||
  match fuel with
  | O => false
  | S f' => match lm_get m d with
            | Some l => (match l_base l with [] => false | b0 => descends f' m a b0 end)
            | None => false
            end
  end.
End LCS.
