(* Dense transport of byte strings into case files: 7 bytes per primitive 63-bit integer.
   Used only by generated case files (never by models or theorems); elaborating
   [hx "…"] string literals costs ~10 us per term node, this is ~20x fewer nodes. *)
From LC Require Import Lib.Bytes.
From Coq Require Import Uint63 ZArith.
Open Scope uint63_scope.
Definition chunk_bytes (k : nat) (x : int) : bytes :=
  (fix go (k : nat) (x : int) (acc : bytes) : bytes :=
     match k with O => acc | S k' => go k' (x >> 8) (nb (Z.to_N (Uint63.to_Z (x land 255))) :: acc) end) k x [].
(* [last] = number of bytes held by the last chunk (1..7); all others hold 7 *)
Fixpoint hp (last : nat) (l : list int) : bytes :=
  match l with
  | [] => []
  | [x] => chunk_bytes last x
  | x :: r => chunk_bytes 7 x ++ hp last r
  end.
