(* verdict encoding shared by all case files: bit0 wf, bit1 corr, bit2 spec, kf id in bits 3.. *)
From LC Require Import Lib.Bytes.
Open Scope N_scope.
Definition mkverdict (wf corr spec : bool) (kf : N) : N :=
  (if wf then 1 else 0) + (if corr then 2 else 0) + (if spec then 4 else 0) + 8 * kf.
