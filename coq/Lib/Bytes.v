(* Byte strings as [list ascii]; hex transport used by the generated case files. *)
From Coq Require Export String.
From Coq Require Export List Ascii NArith Bool Arith Lia.
Export ListNotations.

Notation bytes := (list ascii).

Definition bn (c : ascii) : N := N_of_ascii c.
Definition nb (n : N) : ascii := ascii_of_N n.

Lemma bn_inj x y : bn x = bn y -> x = y.
Proof.
  intros H. unfold bn in H.
  rewrite <- (ascii_N_embedding x), <- (ascii_N_embedding y). now rewrite H.
Qed.

Lemma bn_lt_256 c : (bn c < 256)%N.
Proof. apply N_ascii_bounded. Qed.

Lemma bn_nb n : (n < 256)%N -> bn (nb n) = n.
Proof. intros H. apply N_ascii_embedding. exact H. Qed.

Lemma nb_bn c : nb (bn c) = c.
Proof. apply ascii_N_embedding. Qed.

Definition ceqb (a b : ascii) : bool := Ascii.eqb a b.

Fixpoint beq (a b : bytes) : bool :=
  match a, b with
  | [], [] => true
  | x :: a', y :: b' => Ascii.eqb x y && beq a' b'
  | _, _ => false
  end.

Lemma beq_true a : forall b, beq a b = true <-> a = b.
Proof.
  induction a as [|x a IH]; intros [|y b]; cbn; split; try congruence; auto.
  - intros H. apply andb_true_iff in H as [H1 H2]. apply Ascii.eqb_eq in H1.
    apply IH in H2. congruence.
  - intros H. injection H as -> ->. rewrite Ascii.eqb_refl. cbn. now apply IH.
Qed.

Lemma beq_refl a : beq a a = true.
Proof. now apply beq_true. Qed.

Lemma beq_false a b : beq a b = false <-> a <> b.
Proof.
  split.
  - intros H E. apply beq_true in E. congruence.
  - intros H. destruct (beq a b) eqn:E; auto. apply beq_true in E. contradiction.
Qed.

Lemma beq_sym a b : beq a b = beq b a.
Proof.
  destruct (beq a b) eqn:E.
  - apply beq_true in E. subst. symmetry. apply beq_refl.
  - apply beq_false in E. symmetry. apply beq_false. congruence.
Qed.

(* string <-> bytes *)
Fixpoint of_string (s : string) : bytes :=
  match s with EmptyString => [] | String c r => c :: of_string r end.

(* hex transport: two lowercase hex digits per byte *)
Definition hexval (c : ascii) : N :=
  let n := bn c in
  if (48 <=? n)%N && (n <=? 57)%N then n - 48
  else if (97 <=? n)%N && (n <=? 102)%N then n - 87
  else 0.

Fixpoint of_hex (s : string) : bytes :=
  match s with
  | String a (String b r) => nb (hexval a * 16 + hexval b) :: of_hex r
  | _ => []
  end.

Definition hx (s : string) : bytes := of_hex s.
Definition bs (s : string) : bytes := of_string s.

(* generic list helpers *)
Fixpoint list_beq {A} (eq : A -> A -> bool) (a b : list A) : bool :=
  match a, b with
  | [], [] => true
  | x :: a', y :: b' => eq x y && list_beq eq a' b'
  | _, _ => false
  end.

Lemma list_beq_true {A} (eq : A -> A -> bool) :
  (forall x y, eq x y = true <-> x = y) ->
  forall a b, list_beq eq a b = true <-> a = b.
Proof.
  intros Heq. induction a as [|x a IH]; intros [|y b]; cbn; split; try congruence; auto.
  - intros H. apply andb_true_iff in H as [H1 H2]. apply Heq in H1. apply IH in H2. congruence.
  - intros H. injection H as -> ->. apply andb_true_iff. split; [now apply Heq|now apply IH].
Qed.

Definition opt_beq {A} (eq : A -> A -> bool) (a b : option A) : bool :=
  match a, b with
  | None, None => true
  | Some x, Some y => eq x y
  | _, _ => false
  end.

Fixpoint prefixb (p s : bytes) : bool :=
  match p, s with
  | [], _ => true
  | x :: p', y :: s' => Ascii.eqb x y && prefixb p' s'
  | _ :: _, [] => false
  end.

Lemma prefixb_spec p : forall s, prefixb p s = true <-> exists r, s = p ++ r.
Proof.
  induction p as [|x p IH]; intros s; cbn.
  - split; auto. intros _. now exists s.
  - destruct s as [|y s]; split; try discriminate.
    + intros [r H]. discriminate.
    + intros H. apply andb_true_iff in H as [H1 H2]. apply Ascii.eqb_eq in H1. subst.
      apply IH in H2 as [r ->]. now exists r.
    + intros [r H]. injection H as -> ->. rewrite Ascii.eqb_refl. cbn. apply IH. now exists r.
Qed.
