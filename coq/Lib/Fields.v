(* strings.Split on one byte, strings.Join, strings.Fields (ASCII white space;
   exact for Go whenever the input has none of the lead bytes C2 E1 E2 E3 of the
   multi-byte Unicode spaces -- [fields_exact]). *)
From LC Require Import Lib.Bytes.

Section Split.
Variable sep : ascii.

Fixpoint split_acc (cur : bytes) (s : bytes) : list bytes :=
  match s with
  | [] => [rev cur]
  | c :: r => if Ascii.eqb c sep then rev cur :: split_acc [] r else split_acc (c :: cur) r
  end.
Definition split (s : bytes) : list bytes := split_acc [] s.

Fixpoint join (cs : list bytes) : bytes :=
  match cs with [] => [] | [c] => c | c :: r => c ++ sep :: join r end.

Definition nosep (c : bytes) : Prop := ~ In sep c.
Definition nosepb (c : bytes) : bool := negb (existsb (fun x => Ascii.eqb x sep) c).

Lemma nosepb_spec c : nosepb c = true <-> nosep c.
Proof.
  unfold nosepb, nosep. rewrite negb_true_iff. split.
  - intros H Hin. assert (existsb (fun x => Ascii.eqb x sep) c = true).
    { apply existsb_exists. exists sep. split; auto. apply Ascii.eqb_refl. }
    congruence.
  - intros H. destruct (existsb _ c) eqn:E; auto. apply existsb_exists in E as (x & Hx & Ex).
    apply Ascii.eqb_eq in Ex. subst. contradiction.
Qed.

Lemma split_acc_app cur a : nosep a -> forall r,
  split_acc cur (a ++ sep :: r) = rev (rev a ++ cur) :: split_acc [] r.
Proof.
  revert cur. induction a as [|c a IH]; intros cur Hn r; cbn.
  - now rewrite Ascii.eqb_refl.
  - assert (c <> sep) by (intro; subst; apply Hn; now left).
    destruct (Ascii.eqb c sep) eqn:E; [apply Ascii.eqb_eq in E; congruence|].
    rewrite IH by (intro; apply Hn; now right). now rewrite <- app_assoc.
Qed.
Lemma split_acc_end cur a : nosep a -> split_acc cur a = [rev (rev a ++ cur)].
Proof.
  revert cur. induction a as [|c a IH]; intros cur Hn; cbn; [reflexivity|].
  assert (c <> sep) by (intro; subst; apply Hn; now left).
  destruct (Ascii.eqb c sep) eqn:E; [apply Ascii.eqb_eq in E; congruence|].
  rewrite IH by (intro; apply Hn; now right). now rewrite <- app_assoc.
Qed.
Lemma split_join cs : cs <> [] -> Forall nosep cs -> split (join cs) = cs.
Proof.
  unfold split. induction cs as [|c r IH]; intros Hne HF; [congruence|].
  inversion HF as [|? ? Hc Hr]; subst. destruct r as [|c2 r'].
  - cbn [join]. rewrite split_acc_end by assumption. now rewrite app_nil_r, rev_involutive.
  - change (join (c :: c2 :: r')) with (c ++ sep :: join (c2 :: r')).
    rewrite split_acc_app by assumption. rewrite app_nil_r, rev_involutive. f_equal. apply IH; [congruence|assumption].
Qed.
Lemma split_acc_nonempty cur s : split_acc cur s <> [].
Proof. revert cur. induction s as [|c r IH]; intros cur; cbn; [discriminate|]. destruct (Ascii.eqb c sep); [discriminate|apply IH]. Qed.
End Split.

(* strings.SplitN(s, sep, 2) for a one-byte separator *)
Fixpoint split2_acc (sep : ascii) (cur s : bytes) : bytes * option bytes :=
  match s with
  | [] => (rev cur, None)
  | c :: r => if Ascii.eqb c sep then (rev cur, Some r) else split2_acc sep (c :: cur) r
  end.
Definition split2 sep s := split2_acc sep [] s.

Lemma split2_acc_app sep a : nosep sep a -> forall cur r,
  split2_acc sep cur (a ++ sep :: r) = (rev (rev a ++ cur), Some r).
Proof.
  induction a as [|c a IH]; intros Hn cur r; cbn.
  - now rewrite Ascii.eqb_refl.
  - assert (c <> sep) by (intro; subst; apply Hn; now left).
    destruct (Ascii.eqb c sep) eqn:E; [apply Ascii.eqb_eq in E; congruence|].
    rewrite IH by (intro; apply Hn; now right). now rewrite <- app_assoc.
Qed.

(* strings.Fields *)
Definition is_sp (c : ascii) : bool :=
  let n := bn c in ((n =? 32) || ((9 <=? n) && (n <=? 13)))%N.
Definition fst_ := (bytes * list bytes)%type.     (* reversed current token, reversed output *)
Definition fstep (s : fst_) (c : ascii) : fst_ :=
  let '(cur, out) := s in
  if is_sp c then match cur with [] => ([], out) | _ => ([], rev cur :: out) end
  else (c :: cur, out).
Definition ffinish (s : fst_) : list bytes :=
  let '(cur, out) := s in match cur with [] => rev out | _ => rev (rev cur :: out) end.
Definition fields (s : bytes) : list bytes := ffinish (fold_left fstep s ([], [])).
Definition tok_ok (t : bytes) : Prop := t <> [] /\ forallb (fun c => negb (is_sp c)) t = true.
Definition tok_okb (t : bytes) : bool :=
  match t with [] => false | _ => forallb (fun c => negb (is_sp c)) t end.
Lemma tok_okb_spec t : tok_okb t = true <-> tok_ok t.
Proof.
  unfold tok_ok. destruct t as [|c t]; cbn.
  - split; [discriminate|]. intros [H _]. congruence.
  - split; [intros H; split; [discriminate|exact H]|intros [_ H]; exact H].
Qed.
Fixpoint unwords (sep : bytes) (ts : list bytes) : bytes :=
  match ts with [] => [] | [t] => t | t :: r => t ++ sep ++ unwords sep r end.
Lemma step_tok t : forall cur out, forallb (fun c => negb (is_sp c)) t = true ->
  fold_left fstep t (cur, out) = (rev t ++ cur, out).
Proof.
  induction t as [|c t IH]; intros cur out H; cbn; [reflexivity|].
  cbn in H. apply andb_true_iff in H as [Hc Ht]. apply negb_true_iff in Hc. rewrite Hc.
  rewrite IH by assumption. now rewrite <- app_assoc.
Qed.
Lemma step_seps sep : forallb is_sp sep = true -> forall out,
  fold_left fstep sep ([], out) = ([], out).
Proof. induction sep as [|c r IH]; intros H out; cbn; [reflexivity|]. cbn in H. apply andb_true_iff in H as [Hc Hr]. rewrite Hc. now apply IH. Qed.
Lemma fields_unwords_gen sep : sep <> [] -> forallb is_sp sep = true ->
  forall ts, Forall tok_ok ts -> forall out,
  ffinish (fold_left fstep (unwords sep ts) ([], out)) = rev out ++ ts.
Proof.
  intros Hne Hsep. induction ts as [|t r IH]; intros HF out.
  - cbn. now rewrite app_nil_r.
  - inversion HF as [|? ? [Hn Ht] HF']; subst. destruct r as [|t2 r'].
    + cbn [unwords]. rewrite step_tok by assumption. rewrite app_nil_r. cbn [ffinish].
      destruct (rev t) eqn:E. { apply (f_equal (@rev _)) in E. rewrite rev_involutive in E. cbn in E. congruence. }
      rewrite <- E, rev_involutive. cbn. reflexivity.
    + change (unwords sep (t :: t2 :: r')) with (t ++ sep ++ unwords sep (t2 :: r')).
      rewrite !fold_left_app. rewrite step_tok by assumption. rewrite app_nil_r.
      destruct sep as [|s0 sep']; [congruence|]. cbn [fold_left forallb] in *.
      apply andb_true_iff in Hsep as [Hs0 Hsep']. cbn [fstep]. rewrite Hs0.
      destruct (rev t) eqn:E. { apply (f_equal (@rev _)) in E. rewrite rev_involutive in E. cbn in E. congruence. }
      rewrite <- E, rev_involutive. rewrite step_seps by assumption.
      rewrite (IH HF' (t :: out)). cbn. now rewrite <- app_assoc.
Qed.
Theorem fields_unwords sep ts : sep <> [] -> forallb is_sp sep = true -> Forall tok_ok ts ->
  fields (unwords sep ts) = ts.
Proof. intros. unfold fields. now rewrite fields_unwords_gen. Qed.

(* the lead bytes of every multi-byte Unicode space; without them [fields] and
   [trim] are exactly Go's strings.Fields / strings.TrimSpace *)
Definition uni_lead (c : ascii) : bool :=
  let n := bn c in ((n =? 194) || (n =? 225) || (n =? 226) || (n =? 227))%N.
Definition fields_exact (s : bytes) : bool := negb (existsb uni_lead s).

Fixpoint drop_sp (s : bytes) : bytes :=
  match s with [] => [] | c :: r => if is_sp c then drop_sp r else s end.
Definition trim (s : bytes) : bytes := rev (drop_sp (rev (drop_sp s))).
