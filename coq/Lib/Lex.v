(* Go's [<] on strings: bytewise unsigned lexicographic order; insertion sort. *)
From LC Require Import Lib.Bytes.
From Coq Require Import Sorting.Sorted.

Fixpoint ltb (a b : bytes) : bool :=
  match a, b with
  | [], [] => false
  | [], _ :: _ => true
  | _ :: _, [] => false
  | x :: a', y :: b' => if (bn x <? bn y)%N then true else if (bn y <? bn x)%N then false else ltb a' b'
  end.
Lemma ltb_irrefl a : ltb a a = false.
Proof. induction a as [|x a IH]; cbn; auto. rewrite N.ltb_irrefl. exact IH. Qed.
Lemma prefix_lt p s : s <> [] -> ltb p (p ++ s) = true.
Proof. intros Hs. induction p as [|x p IH]; cbn. - destruct s; congruence. - now rewrite N.ltb_irrefl. Qed.
Lemma ltb_trans a : forall b c, ltb a b = true -> ltb b c = true -> ltb a c = true.
Proof.
  induction a as [|x a IH]; intros [|y b] [|z c]; cbn; try congruence; auto.
  destruct (bn x <? bn y)%N eqn:Exy, (bn y <? bn z)%N eqn:Eyz, (bn x <? bn z)%N eqn:Exz; auto;
  repeat match goal with
  | H : (_ <? _)%N = true |- _ => apply N.ltb_lt in H
  | H : (_ <? _)%N = false |- _ => apply N.ltb_ge in H
  end; try lia.
  - intros _ H. destruct (bn z <? bn y)%N eqn:E; [discriminate|]. apply N.ltb_ge in E. lia.
  - destruct (bn y <? bn x)%N eqn:E; [discriminate|]. apply N.ltb_ge in E. intros; lia.
  - destruct (bn y <? bn x)%N eqn:E1; [discriminate|]. destruct (bn z <? bn y)%N eqn:E2; [discriminate|].
    apply N.ltb_ge in E1, E2. assert (bn x = bn y) by lia. assert (bn y = bn z) by lia.
    assert (E3 : (bn z <? bn x)%N = false) by (apply N.ltb_ge; lia). rewrite E3. apply IH.
Qed.
Lemma ltb_total a : forall b, ltb a b = false -> ltb b a = false -> a = b.
Proof.
  induction a as [|x a IH]; intros [|y b]; cbn; try congruence.
  destruct (bn x <? bn y)%N eqn:E1; [discriminate|]. destruct (bn y <? bn x)%N eqn:E2; [discriminate|].
  intros H1 H2. apply N.ltb_ge in E1, E2. assert (x = y) by (apply bn_inj; lia). subst. f_equal. now apply IH.
Qed.
Lemma ltb_asym a b : ltb a b = true -> ltb b a = false.
Proof.
  intros H. destruct (ltb b a) eqn:E; auto.
  pose proof (ltb_trans _ _ _ H E) as C. now rewrite ltb_irrefl in C.
Qed.

Definition lt a b := ltb a b = true.
Lemma sorted_parent_first l : StronglySorted lt l ->
  forall i j p s, s <> [] -> nth_error l i = Some (p ++ s) -> nth_error l j = Some p -> j < i.
Proof.
  intros HS i j p s Hs Hi Hj.
  destruct (Nat.lt_trichotomy j i) as [H|[H|H]]; auto; exfalso.
  - subst. rewrite Hi in Hj. injection Hj as E. apply (f_equal (@length _)) in E. rewrite app_length in E. destruct s; [congruence|cbn in E; lia].
  - assert (L : lt (p ++ s) p).
    { revert i j H Hi Hj. induction HS as [|a l HS IH HF]; intros i j H Hi Hj; [destruct i; discriminate|].
      destruct i as [|i]; cbn in Hi.
      - injection Hi as ->. destruct j as [|j]; [lia|]. cbn in Hj. rewrite Forall_forall in HF. apply HF. eapply nth_error_In; eauto.
      - destruct j as [|j]; [lia|]. cbn in Hj. apply (IH i j); [lia|exact Hi|exact Hj]. }
    pose proof (prefix_lt p s Hs) as L2. pose proof (ltb_trans _ _ _ L L2) as L3. rewrite ltb_irrefl in L3. discriminate.
Qed.

Fixpoint insert (x : bytes) (l : list bytes) : list bytes :=
  match l with [] => [x] | y :: r => if ltb y x then y :: insert x r else x :: l end.
Definition sort (l : list bytes) : list bytes := fold_right insert [] l.
Lemma insert_in x l z : In z (insert x l) <-> z = x \/ In z l.
Proof. induction l as [|y r IH]; cbn; [intuition congruence|]. destruct (ltb y x); cbn; rewrite ?IH; intuition congruence. Qed.
Lemma sort_in l z : In z (sort l) <-> In z l.
Proof. induction l as [|y r IH]; cbn; [tauto|]. rewrite insert_in, IH. intuition congruence. Qed.

Lemma insert_sorted x l : StronglySorted (fun a b => ltb b a = false) l ->
  StronglySorted (fun a b => ltb b a = false) (insert x l).
Proof.
  induction 1 as [|y r HS IH HF]; cbn; [repeat constructor|].
  destruct (ltb y x) eqn:E.
  - constructor; auto. apply Forall_forall. intros z Hz. apply insert_in in Hz as [->|Hz].
    + destruct (ltb x y) eqn:E2; auto. pose proof (ltb_trans _ _ _ E E2) as C. now rewrite ltb_irrefl in C.
    + rewrite Forall_forall in HF. auto.
  - constructor; [constructor; auto|]. constructor; auto.
    rewrite Forall_forall in HF |- *. intros z Hz. specialize (HF z Hz).
    destruct (ltb z x) eqn:E2; auto.
    destruct (ltb x y) eqn:E3.
    + pose proof (ltb_trans _ _ _ E2 E3) as C. congruence.
    + assert (x = y) by (apply ltb_total; auto). subst. congruence.
Qed.
Lemma sort_sorted l : StronglySorted (fun a b => ltb b a = false) (sort l).
Proof. induction l; cbn; [constructor|]. now apply insert_sorted. Qed.
Lemma insert_nodup x l : ~ In x l -> NoDup l -> NoDup (insert x l).
Proof.
  induction l as [|y r IH]; cbn; intros Hn ND; [repeat constructor; auto|].
  inversion ND; subst. destruct (ltb y x).
  - constructor; [|apply IH; auto]. rewrite insert_in. intros [->|H]; [apply Hn; now left|contradiction].
  - constructor; auto.
Qed.
Lemma sort_nodup l : NoDup l -> NoDup (sort l).
Proof. induction 1; cbn; [constructor|]. apply insert_nodup; auto. now rewrite sort_in. Qed.
