(* Component-level model of Go's path.Clean / path.Join / path.Dir / path.Base. *)
From LC Require Import Lib.Bytes Lib.Fields.

Definition sl : ascii := nb 47.
Definition dot : bytes := [nb 46].
Definition dotdot : bytes := [nb 46; nb 46].

Definition psplit := split sl.
Definition pjoin := join sl.

Definition stepc (rooted : bool) (st : list bytes) (c : bytes) : list bytes :=
  if beq c [] || beq c dot then st
  else if beq c dotdot then
    match st with
    | top :: rest => if beq top dotdot then dotdot :: st else rest
    | [] => if rooted then [] else [dotdot]
    end
  else c :: st.
Definition is_rooted (p : bytes) : bool := match p with c :: _ => Ascii.eqb c sl | [] => false end.
Definition assemble (rooted : bool) (cs : list bytes) : bytes :=
  let body := pjoin cs in
  if rooted then sl :: body else match body with [] => dot | _ => body end.
Definition clean (p : bytes) : bytes :=
  match p with [] => dot | _ => let r := is_rooted p in assemble r (rev (fold_left (stepc r) (psplit p) [])) end.

(* path.Join: empty elements ignored; all empty => "" ; otherwise Clean of the slash-joined rest *)
Definition pathjoin (elems : list bytes) : bytes :=
  match filter (fun e => negb (beq e [])) elems with
  | [] => []
  | es => clean (pjoin es)
  end.
Definition pathjoin2 (a b : bytes) : bytes := pathjoin [a; b].

(* path.Dir / path.Base *)
Fixpoint last_slash_split (s : bytes) (cur acc : bytes) (found : bool) : bool * bytes * bytes :=
  (* returns (found, reversed dir-with-slash, file) scanning left to right *)
  match s with
  | [] => (found, acc, rev cur)
  | c :: r => if Ascii.eqb c sl then last_slash_split r [] (c :: cur ++ acc) true
              else last_slash_split r (c :: cur) acc found
  end.
Definition pathsplit (p : bytes) : bytes * bytes :=
  let '(_, d, f) := last_slash_split p [] [] false in (rev d, f).
Definition pathdir (p : bytes) : bytes := clean (fst (pathsplit p)).
Fixpoint strip_trailing_slashes_rev (r : bytes) : bytes :=
  match r with c :: r' => if Ascii.eqb c sl then strip_trailing_slashes_rev r' else r | [] => [] end.
Definition pathbase (p : bytes) : bytes :=
  match p with
  | [] => dot
  | _ => let q := rev (strip_trailing_slashes_rev (rev p)) in
         match q with [] => [sl] | _ => snd (pathsplit q) end
  end.
Definition is_abs (p : bytes) : bool := is_rooted p.

Definition noslash (c : bytes) : Prop := nosep sl c.
Definition plain (c : bytes) : Prop := c <> [] /\ c <> dot /\ c <> dotdot /\ noslash c.
Definition plainb (c : bytes) : bool :=
  negb (beq c []) && negb (beq c dot) && negb (beq c dotdot) && nosepb sl c.
Lemma plainb_spec c : plainb c = true <-> plain c.
Proof.
  unfold plainb, plain. rewrite !andb_true_iff, !negb_true_iff, !beq_false.
  unfold noslash. rewrite nosepb_spec. tauto.
Qed.
(* normal form: k copies of ".." (k = 0 if rooted) followed by plain components *)
Definition nf (rooted : bool) (cs : list bytes) : Prop :=
  exists k ps, cs = repeat dotdot k ++ ps /\ Forall plain ps /\ (rooted = true -> k = 0%nat).

Lemma dotdot_noslash : noslash dotdot.
Proof. intros [H|[H|[]]]; apply (f_equal bn) in H; vm_compute in H; discriminate. Qed.
Lemma nf_noslash r cs : nf r cs -> Forall noslash cs.
Proof.
  intros (k & ps & -> & HP & _). apply Forall_app; split.
  - apply Forall_forall. intros x Hx. apply repeat_spec in Hx. subst. apply dotdot_noslash.
  - eapply Forall_impl; [|exact HP]. intros a (_ & _ & _ & H). exact H.
Qed.
Lemma fold_dd r k : (r = true -> k = 0%nat) -> fold_left (stepc r) (repeat dotdot k) [] = repeat dotdot k.
Proof.
  intros Hr. destruct r; [rewrite Hr by reflexivity; reflexivity|].
  assert (G : forall n m, fold_left (stepc false) (repeat dotdot n) (repeat dotdot m) = repeat dotdot (n + m)).
  { induction n as [|n IH]; intros m; [reflexivity|]. cbn [repeat fold_left].
    assert (S : stepc false (repeat dotdot m) dotdot = repeat dotdot (S m)).
    { unfold stepc. destruct m; reflexivity. }
    rewrite S, IH. f_equal. lia. }
  specialize (G k 0%nat). cbn in G. now rewrite Nat.add_0_r in G.
Qed.
Lemma stepc_plain r st c : plain c -> stepc r st c = c :: st.
Proof.
  intros (H1 & H2 & H3 & _). unfold stepc.
  assert (beq c [] = false) as -> by now apply beq_false.
  assert (beq c dot = false) as -> by now apply beq_false.
  assert (beq c dotdot = false) as -> by now apply beq_false. reflexivity.
Qed.
Lemma fold_plain r ps : Forall plain ps -> forall st, fold_left (stepc r) ps st = rev ps ++ st.
Proof. induction 1 as [|c ps Hc _ IH]; intros st; cbn [fold_left]; [reflexivity|]. rewrite stepc_plain by assumption. rewrite IH. cbn. now rewrite <- app_assoc. Qed.
Lemma repeat_snoc {A} (x : A) k : repeat x k ++ [x] = x :: repeat x k.
Proof. induction k; cbn; [reflexivity|]. now rewrite IHk. Qed.
Lemma rev_repeat {A} (x : A) k : repeat x k = rev (repeat x k).
Proof. induction k; cbn; [reflexivity|]. rewrite <- IHk. now rewrite repeat_snoc. Qed.
Lemma fold_nf r cs : nf r cs -> fold_left (stepc r) cs [] = rev cs.
Proof.
  intros (k & ps & -> & HP & Hr). rewrite fold_left_app, fold_dd by assumption. rewrite fold_plain by assumption.
  rewrite rev_app_distr. f_equal. apply rev_repeat.
Qed.

Lemma nf_step r st c : noslash c -> nf r (rev st) -> nf r (rev (stepc r st c)).
Proof.
  intros Hc (k & ps & E & HP & Hr). unfold stepc.
  destruct (beq c [] || beq c dot) eqn:E0; [now exists k, ps|].
  apply orb_false_iff in E0 as [E1 E2]. apply beq_false in E1, E2.
  destruct (beq c dotdot) eqn:E3.
  - apply beq_true in E3. subst c. destruct st as [|top rest].
    + destruct r; [exists 0%nat, []; cbn; auto|exists 1%nat, []; cbn; repeat split; auto; discriminate].
    + cbn [rev] in E. destruct (beq top dotdot) eqn:E4.
      * apply beq_true in E4. subst top.
        destruct ps as [|p ps' _] using rev_ind.
        -- rewrite app_nil_r in E. exists (S k), []. cbn [rev]. rewrite E. rewrite app_nil_r.
           split; [now rewrite repeat_snoc|]. split; [constructor|]. intros Hr'. specialize (Hr Hr'). subst k.
           cbn in E. destruct (rev rest); discriminate.
        -- rewrite app_assoc in E. apply app_inj_tail in E as [_ E]. subst p.
           apply Forall_app in HP as [_ HP]. inversion HP as [|? ? (_ & _ & H & _) _]. congruence.
      * apply beq_false in E4.
        destruct ps as [|p ps' _] using rev_ind.
        -- rewrite app_nil_r in E. exfalso. destruct k; cbn in E; [destruct (rev rest); discriminate|].
           rewrite <- repeat_snoc in E. apply app_inj_tail in E as [_ E]. congruence.
        -- rewrite app_assoc in E. apply app_inj_tail in E as [E _]. exists k, ps'. rewrite E.
           apply Forall_app in HP as [HP _]. auto.
  - apply beq_false in E3. exists k, (ps ++ [c]). cbn [rev]. rewrite E, <- app_assoc. repeat split; auto.
    apply Forall_app; split; auto. constructor; [|constructor]. repeat split; auto.
Qed.
Lemma nf_fold r cs : Forall noslash cs -> forall st, nf r (rev st) -> nf r (rev (fold_left (stepc r) cs st)).
Proof. induction 1 as [|c cs Hc _ IH]; intros st H; cbn; auto. apply IH. now apply nf_step. Qed.
