(* Model of the command line of cmd/layercake: Go's flag package (FlagSet.parseOne), main()'s
   global flag set, config/opts.go ParseArgsSetFlags (switches may appear anywhere), the
   per-command local switches and arities of cmd/layercake/layercake.go, and which commands
   install the pretender (all of them, through getArgs).  Definitions only. *)
From LC Require Import Lib.Bytes.
Open Scope N_scope.

Definition dashc : ascii := nb 45.
Definition eqch : ascii := nb 61.

Inductive fk := FBool | FString.
Definition flagset := list (bytes * fk).

Fixpoint fs_lookup (fs : flagset) (n : bytes) : option fk :=
  match fs with [] => None | (k, v) :: r => if beq k n then Some v else fs_lookup r n end.

(* strconv.ParseBool *)
Definition parse_bool (v : bytes) : option bool :=
  if existsb (beq v) [bs "1"; bs "t"; bs "T"; bs "TRUE"; bs "true"; bs "True"] then Some true
  else if existsb (beq v) [bs "0"; bs "f"; bs "F"; bs "FALSE"; bs "false"; bs "False"] then Some false
  else None.

Fixpoint split_eq (cur s : bytes) : bytes * option bytes :=
  match s with
  | [] => (rev cur, None)
  | c :: r => if Ascii.eqb c eqch then (rev cur, Some r) else split_eq (c :: cur) r
  end.

(* an assignment made by a flag set: name and value ("true"/"false" for booleans) *)
Definition assign := (bytes * bytes)%type.

Inductive pres := PErr | POk (asg : list assign) (rest : list bytes).

(* FlagSet.Parse: consumes flags until the first non-flag argument or "--" *)
Fixpoint fparse (fs : flagset) (args : list bytes) (acc : list assign) : pres :=
  match args with
  | [] => POk (rev acc) []
  | s :: rest =>
    match s with
    | c0 :: c1 :: tl =>
      if negb (Ascii.eqb c0 dashc) then POk (rev acc) args else
      let two := Ascii.eqb c1 dashc in
      if two && match tl with [] => true | _ => false end then POk (rev acc) rest   (* "--" *)
      else
        let name0 := if two then tl else c1 :: tl in
        match name0 with
        | [] => PErr
        | n0 :: _ =>
          if Ascii.eqb n0 dashc || Ascii.eqb n0 eqch then PErr else
          let '(name, val) := split_eq [] name0 in
          match fs_lookup fs name with
          | None => PErr
          | Some FBool =>
            match val with
            | None => fparse fs rest ((name, bs "true") :: acc)
            | Some v => match parse_bool v with
                        | Some b0 => fparse fs rest ((name, if b0 then bs "true" else bs "false") :: acc)
                        | None => PErr
                        end
            end
          | Some FString =>
            match val with
            | Some v => fparse fs rest ((name, v) :: acc)
            | None => match rest with
                      | v :: rest' => fparse fs rest' ((name, v) :: acc)
                      | [] => PErr
                      end
            end
          end
        end
    | _ => POk (rev acc) args           (* shorter than 2 bytes: not a flag *)
    end
  end.

Record opts := MkO { o_v : bool; o_p : bool; o_debug : bool; o_force : bool }.
Definition apply_assign (o : opts) (a : assign) : opts :=
  let b0 := beq (snd a) (bs "true") in
  if beq (fst a) (bs "v") then MkO b0 (o_p o) (o_debug o) (o_force o)
  else if beq (fst a) (bs "p") then MkO (o_v o) b0 (o_debug o) (o_force o)
  else if beq (fst a) (bs "debug") then MkO (o_v o) (o_p o) b0 (o_force o)
  else if beq (fst a) (bs "force") then MkO (o_v o) (o_p o) (o_debug o) b0
  else o.

Definition common_switches : flagset :=
  [(bs "v", FBool); (bs "p", FBool); (bs "debug", FBool); (bs "force", FBool)].
Definition global_flags : flagset :=
  [(bs "config", FString); (bs "basepath", FString); (bs "help", FBool); (bs "h", FBool);
   (bs "version", FBool)] ++ common_switches.

(* per command: local switches, minimum and maximum number of arguments *)
Definition command_info (cmd : bytes) : option (flagset * nat * nat) :=
  let is := beq cmd in
  if is (bs "init") then Some ([], 0, 0)%nat
  else if is (bs "status") then Some ([], 0, 1)%nat
  else if is (bs "list") then Some ([], 0, 0)%nat
  else if is (bs "add") then Some ([(bs "configfile", FString)], 1, 2)%nat
  else if is (bs "remove") then Some ([(bs "files", FBool)], 1, 1)%nat
  else if is (bs "rename") then Some ([], 2, 2)%nat
  else if is (bs "rebase") then Some ([], 1, 2)%nat
  else if is (bs "shell") then Some ([], 1, 1)%nat
  else if is (bs "mkdirs") then Some ([], 1, 1)%nat
  else if is (bs "mount") then Some ([], 1, 1)%nat
  else if is (bs "unmount") || is (bs "umount") then Some ([(bs "all", FBool)], 0, 1)%nat
  else if is (bs "chroot") then Some ([], 1, 1)%nat
  else if is (bs "shake") then Some ([], 0, 0)%nat
  else None.

(* ParseArgsSetFlags: the first word is the command; switches may follow any word *)
Fixpoint parse_cmd_args (fuel : nat) (fs : flagset) (args : list bytes) (first : bool)
  (words : list bytes) (asg : list assign) : option (list bytes * list assign) :=
  match args with
  | [] => Some (rev words, asg)
  | w :: rest =>
    match fuel with
    | O => None
    | S fuel' =>
      match fparse fs rest [] with
      | PErr => None
      | POk a rest' => parse_cmd_args fuel' fs rest' false (if first then words else w :: words) (asg ++ a)
      end
    end
  end.

Inductive mres :=
| MUsage                                           (* bad flag, -h, -version, unknown command, wrong arity *)
| MRun (o : opts) (cmd : bytes) (args : list bytes) (local : list assign).

Definition has_true (asg : list assign) (n : bytes) : bool :=
  existsb (fun a => beq (fst a) n && beq (snd a) (bs "true")) asg.

Definition parse_main (argv : list bytes) : mres :=
  match fparse global_flags argv [] with
  | PErr => MUsage
  | POk g rest =>
    (* the last assignment of a boolean wins *)
    let last_true n := match filter (fun a => beq (fst a) n) (rev g) with a :: _ => beq (snd a) (bs "true") | [] => false end in
    if last_true (bs "help") || last_true (bs "h") || last_true (bs "version") then MUsage else
    let o0 := fold_left apply_assign g (MkO false false false false) in
    let cmd := match rest with c :: _ => c | [] => bs "status" end in
    match command_info cmd with
    | None => MUsage
    | Some (locals, lo, hi) =>
      match parse_cmd_args (S (length rest)) (common_switches ++ locals) rest true [] [] with
      | None => MUsage
      | Some (words, asg) =>
        if (length words <? lo)%nat || (hi <? length words)%nat then MUsage
        else MRun (fold_left apply_assign asg o0) cmd words asg
      end
    end
  end.

(* ---- structured command lines: the shapes the property quantifies over ---- *)
Inductive tok := TBool (name : bytes) | TStr (name value : bytes) | TWord (w : bytes).
Definition render_tok (t : tok) : list bytes :=
  match t with
  | TBool n => [dashc :: n]
  | TStr n v => [dashc :: n; v]
  | TWord w => [w]
  end.
Definition render_toks (ts : list tok) : list bytes := flat_map render_tok ts.

Definition is_word (w : bytes) : bool :=
  match w with [] => false | c :: _ => negb (Ascii.eqb c dashc) end.
Definition plain_name (n : bytes) : bool :=
  match n with
  | [] => false
  | c :: _ => negb (Ascii.eqb c dashc) && negb (existsb (fun x => Ascii.eqb x eqch) n)
  end.
