(* Model of the matching half of stagemaker's atom handling, written from the Go code:
     portage/atom/compare.go        makeComparable, padNumericSegment, MakeNextVer, incrementDecimal
     portage/atom/parse.go:192-258  version / slot normalisation of RawParseAtomAtCursor
                                    (from the regex groups basever, suffix, revision onward)
     portage/atom/baseAtom.go       SetSlotAndSubslot
     portage/atom/use.go            NewUseFlagSetFromIUSE, SetFlagsFromUSE, flagStateByIndex
     portage/atom/useDependencies.go FlagsMatch
     portage/depend/atom.go         makeDA, makeVersionComparer, VersionAndSlotMatch, FilterAtoms
     portage/vdb/get_list.go        setAtom (the flag set and the slot of an installed package as
                                    loaded from /var/db/pkg), readFirstFile, readFileIfExists
     portage/atom/use.go            GetMap (ParentUseFlags of vdb/solution.go)
   Executable definitions only; proofs live in Proofs/AtomMatchP.v.
   Go strings are [bytes]; Go's [<] on strings is [Lex.ltb].  The two interning tables
   (use-flag index, use-dependency index) are injective maps and are modelled by the
   names / records themselves. *)
From LC Require Import Lib.Bytes Lib.Lex Lib.Fields.
Open Scope N_scope.

Inductive outcome (A : Type) := Val (a : A) | Diverge.
Arguments Val {A} a.
Arguments Diverge {A}.

Definition sp : ascii := nb 32.
Definition zero : ascii := nb 48.
Definition c_z : ascii := nb 122.
Definition is_digit (c : ascii) : bool := (48 <=? bn c) && (bn c <=? 57).

(* ---------------- compare.go ---------------- *)

(* padNumericSegment, numericVersionSegmentWidth = 5 *)
Definition seg_width : nat := 5.
Definition pad_seg (seg : bytes) : bytes := repeat zero (seg_width - length seg) ++ seg.

(* makeComparable: maximal digit runs are zero-padded, everything else is copied.
   [run] is the current digit run, reversed. *)
Definition flush (run : bytes) : bytes := match run with [] => [] | _ => pad_seg (rev run) end.
Fixpoint mkcomp_go (run : bytes) (s : bytes) : bytes :=
  match s with
  | [] => flush run
  | c :: r => if is_digit c then mkcomp_go (c :: run) r else flush run ++ c :: mkcomp_go [] r
  end.
Definition make_comparable (s : bytes) : bytes := mkcomp_go [] s.

(* incrementDecimal on a digit run given in reverse (least significant digit first);
   None = overflow (every digit was 9).  [The "could be a date" special case was removed
   by the repair recorded in KNOWN_FINDINGS.] *)
Fixpoint incr_rev (r : bytes) : option bytes :=
  match r with
  | [] => None
  | c :: r' =>
    if (bn c + 1 <=? 57) then Some (nb (bn c + 1) :: r')
    else match incr_rev r' with Some x => Some (zero :: x) | None => None end
  end.

(* strings.TrimRight(version, ".-") on the reversed string *)
Fixpoint trim_dots (r : bytes) : bytes :=
  match r with
  | c :: r' => if (bn c =? 46) || (bn c =? 45) then trim_dots r' else r
  | [] => []
  end.
(* the trailing digit run: (run reversed, what is left, reversed) *)
Fixpoint span_digits (r : bytes) : bytes * bytes :=
  match r with
  | c :: r' => if is_digit c then let '(d, rest) := span_digits r' in (c :: d, rest) else ([], r)
  | [] => ([], [])
  end.

(* the inner loop of MakeNextVer (last character is not a digit), on the reversed string *)
Inductive inner_res := IVal (v : bytes) | ICont (rest : bytes).
Fixpoint strip_z (r : bytes) (n : nat) : inner_res :=
  match r with
  | [] => IVal []                                       (* not reached: called on non-empty strings *)
  | c :: rest =>
    if (bn c =? 45) || (bn c =? 95) || (bn c =? 46) then ICont rest
    else if (bn c <? 122) then
      let c' := if (bn c =? 90) then 96 else bn c in    (* 'Z' -> 'a'-1 *)
      IVal (rev rest ++ [nb (c' + 1)])
    else
      match rest with
      | [] => IVal (repeat c_z (S n))
      | d :: _ => if is_digit d then IVal (rev rest ++ repeat c_z (S n)) else strip_z rest (S n)
      end
  end.

Definition max_alpha : bytes := repeat c_z 5.            (* maxAlphaVersion = "zzzzz" *)

(* MakeNextVer; [r] is the version reversed.  Every [continue versionSegmentLoop] shortens the
   string, so fuel = length + 1 suffices (Proofs: next_ver_total). *)
Fixpoint next_rev (fuel : nat) (r : bytes) : outcome bytes :=
  match fuel with
  | O => Diverge
  | S f =>
    match trim_dots r with
    | [] => Val max_alpha
    | (c :: _) as r1 =>
      if is_digit c then
        let '(run, rest) := span_digits r1 in
        match incr_rev run with
        | Some run' => Val (rev rest ++ rev run')
        | None => next_rev f rest                       (* overflow: drop the segment, carry on *)
        end
      else
        match strip_z r1 0 with
        | IVal v => Val v
        | ICont rest => next_rev f rest
        end
    end
  end.
Definition make_next_ver (version : bytes) : outcome bytes :=
  next_rev (S (length version)) (rev version).

(* ---------------- parse.go: version and slot normalisation ---------------- *)
Definition Relop_none : N := 0.   Definition Relop_lt : N := 1.   Definition Relop_le : N := 2.
Definition Relop_eq : N := 3.     Definition Relop_ge : N := 4.   Definition Relop_gt : N := 5.
Definition Relop_range : N := 6.

(* strings.ReplaceAll for a non-empty [old]; [skip] = bytes of a match still to be dropped *)
Fixpoint replace_go (old new : bytes) (skip : nat) (s : bytes) : bytes :=
  match s with
  | [] => []
  | c :: r =>
    match skip with
    | S k => replace_go old new k r
    | O => if prefixb old s then new ++ replace_go old new (length old - 1) r
           else c :: replace_go old new 0 r
    end
  end.
Definition replace_all (old new s : bytes) : bytes := replace_go old new 0 s.

Definition suffix_norm (suffix : bytes) : bytes :=
  let s := replace_all (bs "_alpha") (bs "_a") suffix in
  let s := replace_all (bs "_beta") (bs "_b") s in
  let s := replace_all (bs "_pre") (bs "_c") s in
  let s := replace_all (bs "_rc") (bs "_d") s in
  make_comparable s.

(* lines 192-199: a trailing letter is set off by a space *)
Definition base_comparable (basever : bytes) : bytes :=
  let b := make_comparable basever in
  match rev b with
  | c :: r => if is_digit c then b else rev r ++ [sp; c]
  | [] => b
  end.

Definition suffix_normal : bytes := bs "_n".          (* releaseSuffixNormal *)
Definition default_revision : bytes := bs "r00000".   (* defaultRevision *)

(* lines 192-227; [basever] is non-empty.  Returns CompVer. *)
Definition comp_ver (relop : N) (basever suffix revision : bytes) : bytes :=
  let base := base_comparable basever in
  let range := (relop =? Relop_range) in
  let '(suf, ext1) := match suffix with
                      | [] => (suffix_normal, negb range)
                      | _ => (suffix_norm suffix, true)
                      end in
  let cv1 := if ext1 then base ++ sp :: suf else base in
  let '(rv, ext2) := match revision with
                     | [] => (default_revision, ext1 && negb range)
                     | _ => (make_comparable revision, ext1)
                     end in
  if ext2 then cv1 ++ sp :: rv else cv1.

(* lines 248-258 and baseAtom.go SetSlotAndSubslot *)
Definition slot_comparable (slot : bytes) : bytes :=
  make_comparable (match slot with [] => [zero] | _ => slot end).
Definition subslot_comparable (slot subslot : bytes) : bytes :=
  match subslot with [] => slot_comparable slot | _ => make_comparable subslot end.

(* what RawParseAtomAtCursor hands to makeDA, as far as matching is concerned *)
Record parsed := MkParsed {
  pa_compver : bytes; pa_verrelop : N;
  pa_slot : bytes; pa_subslot : bytes; pa_slotrelop : N; pa_anyslot : bool;
  pa_usedeps : list (N * N * bytes) }.       (* Type, FlagDefault, flag name *)

(* [has_ver]: the name-version text matched pkgVerRE; [relop]: the operator read from the
   prefix; [wildcard]: regex group 5; slot/subslot/slotop as returned by TakeSlot *)
Definition raw_parse (relop : N) (has_ver : bool) (basever suffix revision : bytes) (wildcard : bool)
    (slot subslot slotop : bytes) (usedeps : list (N * N * bytes)) : parsed :=
  let relop1 := if has_ver && wildcard then Relop_range else relop in
  let cv := if has_ver then comp_ver relop1 basever suffix revision else [] in
  let vrel := if has_ver then (if relop1 =? Relop_none then Relop_eq else relop1) else Relop_none in
  let srel0 := match slot with [] => Relop_none | _ => Relop_eq end in
  let is_star := beq slotop [nb 42] in
  let is_eq := beq slotop [nb 61] in
  let srel := if is_star then (match slot with [] => srel0 | _ => Relop_range end) else srel0 in
  let anyslot := (is_star || is_eq) && (match slot with [] => true | _ => false end) in
  if anyslot then MkParsed cv vrel [] [] srel true usedeps
  else MkParsed cv vrel (slot_comparable slot) (subslot_comparable slot subslot) srel false usedeps.

(* ---------------- depend/atom.go ---------------- *)
Definition leb (a b : bytes) : bool := negb (ltb b a).

(* makeVersionComparer relop comparison, applied to tstval *)
Definition ver_compare (relop : N) (comparison tst : bytes) : outcome bool :=
  if relop =? Relop_lt then Val (ltb tst comparison)
  else if relop =? Relop_le then Val (leb tst comparison)
  else if relop =? Relop_eq then Val (beq tst comparison)
  else if relop =? Relop_ge then Val (leb comparison tst)
  else if relop =? Relop_gt then Val (ltb comparison tst)
  else if relop =? Relop_range then
    match make_next_ver comparison with
    | Val asymptote => Val (leb comparison tst && ltb tst asymptote)
    | Diverge => Diverge
    end
  else Val true.

(* ---------------- use.go ---------------- *)
Definition flagset := list (bytes * bool).     (* flag name, state; in slice order *)

Definition strip_pm (name : bytes) : bytes :=
  match name with c :: r => if (bn c =? 43) || (bn c =? 45) then r else name | [] => name end.
Definition has_flag (n : bytes) (f : flagset) : bool := existsb (fun e => beq n (fst e)) f.

(* NewUseFlagSetFromIUSE: strings.Split(group, " "), empty names skipped, duplicates skipped *)
Definition new_from_iuse (group : bytes) : flagset :=
  fold_left (fun f tok =>
    match tok with
    | [] => f
    | _ => let n := strip_pm tok in if has_flag n f then f else f ++ [(n, false)]
    end) (split sp group) [].

Fixpoint set_first (n : bytes) (f : flagset) : flagset :=
  match f with
  | [] => []
  | (k, b) :: r => if beq n k then (k, true) :: r else (k, b) :: set_first n r
  end.
(* SetFlagsFromUSE: strings.Fields(group); a leading + or - is dropped, the flag is switched on *)
Definition set_from_use (f : flagset) (group : bytes) : flagset :=
  fold_left (fun f tok => set_first (strip_pm tok) f) (fields group) f.

(* flagStateByIndex *)
Fixpoint flag_state (n : bytes) (f : flagset) : option bool :=
  match f with [] => None | (k, b) :: r => if beq n k then Some b else flag_state n r end.

(* ---------------- useDependencies.go ---------------- *)
Fixpoint ctx_lookup (n : bytes) (ctx : list (bytes * bool)) : bool :=     (* contextFlags[name] *)
  match ctx with [] => false | (k, b) :: r => if beq n k then b else ctx_lookup n r end.

(* one iteration of the loop in FlagsMatch: None = "return false, err" *)
Definition dep_eval (tp def : N) (st : option bool) (ctx : bool) : option bool :=
  let st' := match st with
             | Some s => Some s
             | None => if def =? 1 then Some true else if def =? 2 then Some false else None
             end in
  match st' with
  | None => None
  | Some state =>
    Some (if tp =? 0 then state                               (* Use_dep_enabled *)
          else if tp =? 1 then Bool.eqb state ctx             (* Use_dep_same *)
          else if tp =? 2 then negb (Bool.eqb state ctx)      (* Use_dep_opposite *)
          else if tp =? 3 then negb (ctx && negb state)       (* Use_dep_set_only_if *)
          else if tp =? 4 then negb (ctx && state)            (* Use_dep_unset_only_if *)
          else negb state)                                    (* default: Use_dep_disabled *)
  end.

Definition flags_match (deps : list (N * N * bytes)) (f : flagset) (ctx : list (bytes * bool)) : bool :=
  forallb (fun d => let '(tp, def, name) := d in
                    match dep_eval tp def (flag_state name f) (ctx_lookup name ctx) with
                    | Some true => true | _ => false end) deps.

(* ---------------- VersionAndSlotMatch / FilterAtoms ---------------- *)
Record depatom := MkDA {
  da_compver : bytes; da_slot : bytes; da_subslot : bytes;
  da_ver : bytes -> bool;        (* versionComparer *)
  da_slotc : bytes -> bool;      (* slotComparer *)
  da_usedeps : list (N * N * bytes) }.

(* makeDA: both comparers are built eagerly, so a non-terminating MakeNextVer hangs the constructor *)
Definition make_da (p : parsed) : outcome depatom :=
  match ver_compare (pa_verrelop p) (pa_compver p) [] with
  | Diverge => Diverge
  | Val _ =>
    match (if pa_anyslot p then Val true else ver_compare (pa_slotrelop p) (pa_slot p) []) with
    | Diverge => Diverge
    | Val _ =>
      Val (MkDA (pa_compver p) (pa_slot p) (pa_subslot p)
             (fun t => match ver_compare (pa_verrelop p) (pa_compver p) t with Val b => b | Diverge => false end)
             (fun t => if pa_anyslot p then true
                       else match ver_compare (pa_slotrelop p) (pa_slot p) t with Val b => b | Diverge => false end)
             (pa_usedeps p))
    end
  end.

Definition version_and_slot_match (d : depatom) (tst_compver tst_slot : bytes) : bool :=
  da_slotc d tst_slot && da_ver d tst_compver.
Definition filter_one (d : depatom) (tst_compver tst_slot : bytes) (f : flagset) (ctx : list (bytes * bool)) : bool :=
  version_and_slot_match d tst_compver tst_slot && flags_match (da_usedeps d) f ctx.

(* ---------------- vdb/get_list.go: setAtom ---------------- *)
(* A VDB entry as far as setAtom reads it: the contents of the files IUSE_EFFECTIVE, IUSE, USE
   and SLOT, None = the file does not exist. *)
(* readFirstFile(names...): the TrimSpace'd content of the first file that exists, "" if none does
   (readFileIfExists of a missing file is "", false, nil) *)
Fixpoint read_first (files : list (option bytes)) : bytes :=
  match files with
  | [] => []
  | Some content :: _ => trim content
  | None :: r => read_first r
  end.

(* ca.UseFlags = NewUseFlagSetFromIUSE(readFirstFile("IUSE_EFFECTIVE", "IUSE"));
   ca.UseFlags.SetFlagsFromUSE(readFileIfExists("USE")) *)
Definition vdb_flags (eff iuse use : option bytes) : flagset :=
  set_from_use (new_from_iuse (read_first [eff; iuse])) (read_first [use]).

(* slot = TrimSpace(SLOT); cut at the first "/" (strings.Index); SetSlotAndSubslot(slot, "") *)
Fixpoint before_slash (s : bytes) : bytes :=
  match s with [] => [] | c :: r => if (bn c =? 47) then [] else c :: before_slash r end.
Definition vdb_slot (slotfile : bytes) : bytes := before_slash (trim slotfile).

(* UseFlagSet.GetMap: a Go map flag name -> state; the names of a flag set are distinct
   (NewUseFlagSetFromIUSE skips duplicates), so the insertion order is immaterial and the map is
   represented by the association list itself; contextFlags[name] is [ctx_lookup] *)
Definition get_map (f : flagset) : list (bytes * bool) := f.
