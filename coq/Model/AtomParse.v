(* Model of portage/parse/atomCursor.go, fns.MakeCharTypeMap, and of portage/atom/parse.go
   (RawParseAtomAtCursor, parseUseDependencies, the two regular expressions as hand-written
   matchers) plus the normalisation helpers of portage/atom/compare.go that RawParseAtom
   applies to the pieces it cut out (makeComparable, padNumericSegment).
   Executable definitions only; proofs live in Proofs/AtomParseP.v.

   The cursor (Slice, Pos, Last) is modelled by the remaining suffix of the input: every
   Take* function returns what it read and the rest.  Peek past the end returns byte 0 exactly
   as AtomCursor.Peek does; no character class contains byte 0 (lemma classes_no_nul), so
   "end of input" and a NUL byte stop every scanning loop alike and Pos never passes Last+1. *)
From LC Require Import Lib.Bytes Gen.Consts.
Open Scope list_scope.
Open Scope N_scope.

(* ---- characters ---- *)
Definition is (n : N) (c : ascii) : bool := bn c =? n.
Definition is_digit (c : ascii) : bool := (48 <=? bn c) && (bn c <=? 57).
Definition is_lower (c : ascii) : bool := (97 <=? bn c) && (bn c <=? 122).
Definition is_upper (c : ascii) : bool := (65 <=? bn c) && (bn c <=? 90).
(* Go regexp \w = [0-9A-Za-z_], \d = [0-9] (ASCII only) *)
Definition is_word (c : ascii) : bool := is_digit c || is_lower c || is_upper c || is 95 c.

(* fns.MakeCharTypeMap: "x-y" is a range when a further byte follows the hyphen, every other
   byte stands for itself *)
Fixpoint in_class (setup : bytes) (x : ascii) : bool :=
  match setup with
  | [] => false
  | c :: r =>
    match r with
    | d :: e :: r' =>
      if is 45 d then ((bn c <=? bn x) && (bn x <=? bn e)) || in_class r' x
      else Ascii.eqb c x || in_class r x
    | _ => Ascii.eqb c x || in_class r x
    end
  end.

Definition is_namever (c : ascii) : bool := in_class PP_isNameVerChar c.
Definition is_slot_start (c : ascii) : bool := in_class PP_isSlotNameStartChar c.
Definition is_slot_mid (c : ascii) : bool := in_class PP_isSlotNameMidChar c.
Definition is_repo_char (c : ascii) : bool := in_class PP_isRepoNameChar c.
Definition is_usedep_char (c : ascii) : bool := in_class PP_isUseDepChar c.
Definition is_useflag_char (c : ascii) : bool := in_class PP_IsUseFlagChar c.

(* ---- cursor primitives on the remaining suffix ---- *)
Definition peek (s : bytes) : ascii := match s with [] => nb 0 | c :: _ => c end.
Definition peek1 (s : bytes) : ascii := match s with _ :: c :: _ => c | _ => nb 0 end.
Definition peek2 (s : bytes) : ascii := match s with _ :: _ :: c :: _ => c | _ => nb 0 end.

Fixpoint span (p : ascii -> bool) (s : bytes) : bytes * bytes :=
  match s with
  | [] => ([], [])
  | c :: r => if p c then let '(a, b) := span p r in (c :: a, b) else ([], s)
  end.

Definition isnil (s : bytes) : bool := match s with [] => true | _ => false end.

(* text between two cursor positions: Slice[start:Pos] where [s] is the suffix at start and
   [r] the suffix at Pos *)
Definition consumed (s r : bytes) : bytes := firstn (length s - length r) s.

(* AtomCursor.NextWhitespace / RemainingToken: white space is every byte <= ' ' *)
Definition is_ws (c : ascii) : bool := bn c <=? 32.
Definition not_ws (c : ascii) : bool := negb (is_ws c).

(* AtomCursor.TakeSlot: (slot, subslot, slotop, rest) *)
Definition slot_op (slot sub r : bytes) : bytes * bytes * bytes * bytes :=
  if is 42 (peek r) || is 61 (peek r) then (slot, sub, [peek r], tl r) else (slot, sub, [], r).

Definition take_slot (s : bytes) : bytes * bytes * bytes * bytes :=
  if negb (is 58 (peek s)) || is 58 (peek1 s) then ([], [], [], s) else
  let s1 := tl s in
  if negb (is_slot_start (peek s1)) then slot_op [] [] s1 else
  let '(w1, r1) := span is_slot_mid (tl s1) in
  let slot := peek s1 :: w1 in
  if negb (is 47 (peek r1)) then slot_op slot [] r1 else
  let s2 := tl r1 in
  if negb (is_slot_start (peek s2)) then slot_op slot [] s2 else
  let '(w2, r2) := span is_slot_mid (tl s2) in
  let sub := peek s2 :: w2 in
  if negb (is 47 (peek r2)) then slot_op slot sub r2 else
  let s3 := tl r2 in
  if negb (is_slot_start (peek s3)) then slot_op slot sub s3 else
  (* a third name is read and dropped *)
  let '(_, r3) := span is_slot_mid (tl s3) in slot_op slot sub r3.

(* AtomCursor.TakeRepo *)
Definition take_repo (s : bytes) : bytes * bytes :=
  if is 58 (peek s) && is 58 (peek1 s) then
    let s2 := tl (tl s) in
    if negb (is_repo_char (peek s2)) || is 45 (peek s2) then ([], s2) else span is_repo_char s2
  else ([], s).

(* AtomCursor.TakeUseDependencyString: None = nil result, cursor unchanged *)
Definition take_usedep (s : bytes) : option bytes * bytes :=
  if is 91 (peek s) then
    let '(inner, r) := span is_usedep_char (tl s) in
    if is 93 (peek r) && negb (isnil inner) then (Some inner, tl r) else (None, s)
  else (None, s).

(* ---- USE dependencies ---- *)
Record usedep := MkUse { u_type : N; u_default : N; u_flag : bytes }.
Definition usedep_beq (a b : usedep) : bool :=
  (u_type a =? u_type b) && (u_default a =? u_default b) && beq (u_flag a) (u_flag b).

(* prefixSuffixMap; prefix / suffix are byte values, 0 = absent *)
Definition use_type (prefix suffix : N) : option N :=
  if prefix =? 0 then
    (if suffix =? 0 then Some 0 else if suffix =? 61 then Some 1 else if suffix =? 63 then Some 3 else None)
  else if prefix =? 33 then
    (if suffix =? 61 then Some 2 else if suffix =? 63 then Some 4 else None)
  else if prefix =? 45 then
    (if suffix =? 0 then Some 5 else None)
  else None.

Inductive ures := UOk (l : list usedep) | UErr | UDiverge.

Definition use_prefix (s : bytes) : N * bytes :=
  let c := peek s in if is 33 c || is 45 c then (bn c, tl s) else (0, s).
Definition use_suffix (s : bytes) : N * bytes :=
  let c := peek s in if is 61 c || is 63 c then (bn c, tl s) else (0, s).
(* "(+)" / "(-)": None = unknown USE-default character *)
Definition use_default (s : bytes) : option (N * bytes) :=
  if is 40 (peek s) && is 41 (peek2 s) then
    (if is 43 (peek1 s) then Some (1, tl (tl (tl s)))
     else if is 45 (peek1 s) then Some (2, tl (tl (tl s)))
     else None)
  else Some (0, s).
(* one iteration of the loop of parseUseDependencies up to the separator: the suffix may
   stand before the default, flag=(+), or after it, flag(+)= (PMS) *)
Definition parse_use1 (s : bytes) : option (usedep * bytes) :=
  let '(prefix, s1) := use_prefix s in
  if negb (is_useflag_char (peek s1)) then None else
  let '(flag, s2) := span is_useflag_char s1 in
  let '(suffix1, s3) := use_suffix s2 in
  match use_default s3 with
  | None => None
  | Some (d, s4) =>
    let '(suffix, s5) := if suffix1 =? 0 then use_suffix s4 else (suffix1, s4) in
    match use_type prefix suffix with
    | None => None
    | Some tp => Some (MkUse tp d flag, s5)
    end
  end.

(* parseUseDependencies: one loop iteration per fuel unit *)
Fixpoint parse_use_deps (fuel : nat) (s : bytes) : ures :=
  match fuel with
  | O => UDiverge
  | S f =>
    match parse_use1 s with
    | None => UErr
    | Some (dep, s5) =>
      if is 0 (peek s5) then UOk [dep]
      else if negb (is 44 (peek s5)) then UErr
      else match parse_use_deps f (tl s5) with
           | UOk l => UOk (dep :: l)
           | e => e
           end
    end
  end.

(* ---- the two regular expressions ---- *)
(* \d+(?:\.\d+)* started on a digit: a dot is taken only when a digit follows *)
Fixpoint scan_nums (s : bytes) : bytes * bytes :=
  match s with
  | [] => ([], [])
  | c :: r =>
    if is_digit c || (is 46 c && is_digit (peek r))
    then let '(a, b) := scan_nums r in (c :: a, b)
    else ([], s)
  end.

(* (?:_(?:alpha|beta|pre|rc|p)\d* )+ : the length of the suffix name the text starts with, in the
   order of the alternation ("pre" before "p"; after "_p" no letter can follow, so the
   first alternative that matches is the only one that can lead to a match) *)
Definition kind_len (s : bytes) : option nat :=
  if prefixb (bs "alpha") s then Some 5%nat
  else if prefixb (bs "beta") s then Some 4%nat
  else if prefixb (bs "pre") s then Some 3%nat
  else if prefixb (bs "rc") s then Some 2%nat
  else if prefixb (bs "p") s then Some 1%nat
  else None.
(* one walk over the suffixes: [skip] letters of a recognised suffix name are still to be
   passed; [insuf] = a suffix name has been passed, so digits may follow *)
Fixpoint suf_walk (skip : nat) (insuf : bool) (s : bytes) : bytes * bytes :=
  match s with
  | [] => ([], [])
  | c :: r =>
    match skip with
    | S k => let '(a, b) := suf_walk k true r in (c :: a, b)
    | O =>
      if is 95 c then
        match kind_len r with
        | Some n => let '(a, b) := suf_walk n true r in (c :: a, b)
        | None => ([], s)
        end
      else if insuf && is_digit c then let '(a, b) := suf_walk O true r in (c :: a, b)
      else ([], s)
    end
  end.

Record vertail := MkVT { vt_ver : bytes; vt_suf : bytes; vt_rev : bytes; vt_glob : bool }.

(* the version part of pkgVerRE (source text pinned as PA_pkgVerRE): numbers, optional letter,
   optional PMS suffixes, optional -r revision, optional star, end of text -- every part is
   deterministic: what follows a greedy part can never start with a character that part
   accepts *)
Definition take_letter (r : bytes) : bytes * bytes :=
  if is_lower (peek r) then ([peek r], tl r) else ([], r).
Definition take_rev (r : bytes) : bytes * bytes :=
  if is 45 (peek r) && is 114 (peek1 r) && is_digit (peek2 r)
  then let '(d, r') := span is_digit (tl (tl r)) in (peek1 r :: d, r') else ([], r).
Definition take_glob (r : bytes) : bool * bytes :=
  if is 42 (peek r) then (true, tl r) else (false, r).
Definition ver_tail (s : bytes) : option vertail :=
  if negb (is_digit (peek s)) then None else
  let '(nums, r1) := scan_nums s in
  let '(letter, r2) := take_letter r1 in
  let '(suf, r3) := suf_walk O false r2 in
  let '(rev, r4) := take_rev r3 in
  let '(glob, r5) := take_glob r4 in
  if isnil r5 then Some (MkVT (nums ++ letter) suf rev glob) else None.

(* pkgVerRE = ^(.*?)-(...)$ : the lazy prefix ends at the leftmost hyphen from which the
   rest is a version; '.' does not match a newline *)
Fixpoint ver_split (s : bytes) : option (bytes * vertail) :=
  match s with
  | [] => None
  | c :: r =>
    if is 10 c then None else
    match (if is 45 c then ver_tail r else None) with
    | Some t => Some ([], t)
    | None => match ver_split r with Some (p, t) => Some (c :: p, t) | None => None end
    end
  end.

(* pkgCatNameRE (source text pinned as PA_pkgCatNameRE): an optional category \w[\w+.-]* followed by a slash, then the name \w[\w+-]* up to the end *)
Definition is_cat_mid (c : ascii) : bool := is_word c || is 43 c || is 46 c || is 45 c.
Definition is_name_mid (c : ascii) : bool := is_word c || is 43 c || is 45 c.
Definition is_cat (a : bytes) : bool :=
  match a with c :: t => is_word c && forallb is_cat_mid t | [] => false end.
Definition is_pkgname (a : bytes) : bool :=
  match a with c :: t => is_word c && forallb is_name_mid t | [] => false end.
Definition catname_match (s : bytes) : option (bytes * bytes) :=
  let '(a, r) := span (fun c => negb (is 47 c)) s in
  match r with
  | [] => if is_pkgname a then Some ([], a) else None
  | _ :: b => if is_cat a && is_pkgname b then Some (a, b) else None
  end.

(* ---- normalisation applied to the pieces (compare.go) ---- *)
Definition pad_segment (d : bytes) : bytes :=
  repeat (nb 48) (N.to_nat PA_numericVersionSegmentWidth - length d) ++ d.
Definition flush_run (run : bytes) : bytes := match run with [] => [] | _ => pad_segment (rev run) end.
(* makeComparable: every maximal digit run is left-padded with zeros to the segment width *)
Fixpoint mc_go (run : bytes) (s : bytes) : bytes :=
  match s with
  | [] => flush_run run
  | c :: r => if is_digit c then mc_go (c :: run) r else flush_run run ++ c :: mc_go [] r
  end.
Definition make_comparable (s : bytes) : bytes := mc_go [] s.

(* strings.ReplaceAll for a non-empty pattern *)
Fixpoint repl_go (pat rep : bytes) (skip : nat) (s : bytes) : bytes :=
  match s with
  | [] => []
  | c :: r =>
    match skip with
    | S k => repl_go pat rep k r
    | O => if prefixb pat s then rep ++ repl_go pat rep (length pat - 1) r else c :: repl_go pat rep O r
    end
  end.
Definition replace_all (pat rep s : bytes) : bytes := repl_go pat rep O s.

Definition norm_basever (v : bytes) : bytes :=
  let b := make_comparable v in
  match rev b with
  | c :: t => if is_digit c then b else rev t ++ [nb 32; c]
  | [] => b
  end.
Definition norm_suffix (suf : bytes) : bytes :=
  make_comparable
    (replace_all (bs "_rc") PA_releaseSuffixRc
      (replace_all (bs "_pre") PA_releaseSuffixPre
        (replace_all (bs "_beta") PA_releaseSuffixBeta
          (replace_all (bs "_alpha") PA_releaseSuffixAlpha suf)))).

(* ---- the parse result ---- *)
Record parsed := MkParsed {
  p_atom : bytes; p_cat : bytes; p_name : bytes;
  p_basever : bytes; p_suffix : bytes; p_revision : bytes; p_compver : bytes;
  p_slot : bytes; p_subslot : bytes; p_repo : bytes;
  p_verrelop : N; p_slotrelop : N;
  p_anyslot : bool; p_sameslot : bool; p_blocker : bool; p_hardblock : bool;
  p_use : list usedep }.

Definition parsed_beq (a b : parsed) : bool :=
  beq (p_atom a) (p_atom b) && beq (p_cat a) (p_cat b) && beq (p_name a) (p_name b)
  && beq (p_basever a) (p_basever b) && beq (p_suffix a) (p_suffix b)
  && beq (p_revision a) (p_revision b) && beq (p_compver a) (p_compver b)
  && beq (p_slot a) (p_slot b) && beq (p_subslot a) (p_subslot b) && beq (p_repo a) (p_repo b)
  && (p_verrelop a =? p_verrelop b) && (p_slotrelop a =? p_slotrelop b)
  && Bool.eqb (p_anyslot a) (p_anyslot b) && Bool.eqb (p_sameslot a) (p_sameslot b)
  && Bool.eqb (p_blocker a) (p_blocker b) && Bool.eqb (p_hardblock a) (p_hardblock b)
  && list_beq usedep_beq (p_use a) (p_use b).

(* Relop_* *)
Definition R_none := 0. Definition R_lt := 1. Definition R_le := 2. Definition R_eq := 3.
Definition R_ge := 4. Definition R_gt := 5. Definition R_range := 6.

(* the version fields as RawParseAtomAtCursor fills them from the three pieces and the
   operator: (BaseVer, Suffix, Revision, CompVer) *)
Definition sp1 : bytes := [nb 32].
Definition version_fields (ver suf rev : bytes) (relop : N) : bytes * bytes * bytes * bytes :=
  let basever := norm_basever ver in
  let range := relop =? R_range in
  let suffix := if isnil suf then PA_releaseSuffixNormal else norm_suffix suf in
  let ext1 := if isnil suf then negb range else true in
  let cv1 := if ext1 then basever ++ sp1 ++ suffix else basever in
  let revision := if isnil rev then PA_defaultRevision else make_comparable rev in
  let ext2 := if isnil rev then ext1 && negb range else ext1 in
  let cv2 := if ext2 then cv1 ++ sp1 ++ revision else cv1 in
  (basever, suffix, revision, cv2).

(* slot fields: (Slot, Subslot, SlotRelop, AnySlot, SameSlot) *)
Definition slot_fields (slot sub op : bytes) : bytes * bytes * N * bool * bool :=
  let relop0 := if isnil slot then R_none else R_eq in
  let star := beq op [nb 42] in
  let same := beq op [nb 61] in
  let relop := if star && negb (isnil slot) then R_range else relop0 in
  let anyslot := (star || same) && isnil slot in
  if anyslot then ([], [], relop, true, same)
  else
    let sl := make_comparable (if isnil slot then [nb 48] else slot) in
    (sl, (if isnil sub then sl else make_comparable sub), relop, false, same).

Inductive ares := AOk (p : parsed) | AErr | APanic | ADiverge.
Inductive upart := AOk' (uses : list usedep) (rest : bytes) | AErr' | ADiverge'.

(* leading "!" / "!!": (blocker, hardblock, rest) *)
Definition take_block (s : bytes) : bool * bool * bytes :=
  if is 33 (peek s) then (if is 33 (peek1 s) then (true, true, tl (tl s)) else (true, false, tl s))
  else (false, false, s).
(* the version operator: (relop, rest); "=" is never followed by a second operator character *)
Definition take_op (s1 : bytes) : N * bytes :=
  let c := peek s1 in
  if is 126 c then (R_range, tl s1)
  else if is 61 c then (R_eq, tl s1)
  else if is 60 c then (if is 61 (peek1 s1) then (R_le, tl (tl s1)) else (R_lt, tl s1))
  else if is 62 c then (if is 61 (peek1 s1) then (R_ge, tl (tl s1)) else (R_gt, tl s1))
  else (R_none, s1).
Definition take_prefix (s : bytes) : bool * bool * N * bytes :=
  let '(bl, hb, s1) := take_block s in
  let '(relop, s2) := take_op s1 in
  (bl, hb, relop, s2).

(* the USE-dependency part (asDependencyAtom) or the check that nothing follows the atom *)
Definition use_part (asdep : bool) (s5 : bytes) : upart :=
  if asdep then
    match take_usedep s5 with
    | (Some inner, r) =>
      match parse_use_deps (S (length inner)) inner with
      | UOk l => AOk' l r
      | UErr => AErr'
      | UDiverge => ADiverge'
      end
    | (None, r) => AOk' [] r
    end
  else if isnil s5 then AOk' [] s5 else AErr'.

(* the name/version split and the checks on the operator: (category/name text, version
   pieces, operator) or None = error *)
Definition atom_header (namever : bytes) (relop : N) (vnr : bool) : option (bytes * option vertail * N) :=
  match ver_split namever with
  | Some (pre, t) =>
    if (relop =? R_none) && vnr then None
    else Some (pre, Some t, if vt_glob t then R_range else relop)
  | None => if relop =? R_none then Some (namever, None, relop) else None
  end.

Definition finish (atom : bytes) (bl hb : bool) (relop : N) (namever slot sub slotop repo : bytes)
                  (uses : list usedep) (vnr : bool) : ares :=
  match atom_header namever relop vnr with
  | None => AErr
  | Some (catname, vt, relop') =>
    match catname_match catname with
    | None => AErr
    | Some (cat, name) =>
      let '(basever, suffix, revision, compver, verrelop) :=
        match vt with
        | Some t =>
          let '(b, sf, rv, cv) := version_fields (vt_ver t) (vt_suf t) (vt_rev t) relop' in
          (b, sf, rv, cv, if relop' =? R_none then R_eq else relop')
        | None => ([], [], [], [], R_none)
        end in
      let '(sl, sb, slrel, anys, sames) := slot_fields slot sub slotop in
      AOk (MkParsed atom cat name basever suffix revision compver sl sb repo verrelop slrel
                    anys sames bl hb uses)
    end
  end.

(* RawParseAtomAtCursor: result and the rest of the input after the atom *)
Definition raw_parse_at (s : bytes) (vnr asdep : bool) : ares * bytes :=
  let '(bl, hb, relop, s2) := take_prefix s in
  let '(namever, s3) := span is_namever s2 in
  let '(slot, sub, slotop, s4) := take_slot s3 in
  let '(repo, s5) := take_repo s4 in
  match use_part asdep s5 with
  | AErr' => (AErr, s5)
  | ADiverge' => (ADiverge, s5)
  | AOk' uses s6 => (finish (consumed s s6) bl hb relop namever slot sub slotop repo uses vnr, s6)
  end.
