(* Model of how stagemaker -generate picks the compression method
   (cmd/stagemaker/stagemaker.go main, paths.go decodeCompressionInput / decodeFilenameExtension),
   and the DOCUMENTED choice (doc/stagemaker_manpage.adoc: -o, -compress, recipe "compress"). *)
From LC Require Import Lib.Bytes Lib.Fields Gen.Consts Model.StageLine.
Open Scope N_scope.

(* methods: 0 none, 1 gzip, 2 bzip2, 3 xz *)
Definition lower (c : ascii) : ascii := if (65 <=? bn c) && (bn c <=? 90) then nb (bn c + 32) else c.

(* decodeCompressionInput: strings longer than one byte are lower-cased first *)
Definition decode_input (s : bytes) : option N :=
  let v := match s with _ :: _ :: _ => map lower s | _ => s end in
  if memb v [bs "gzip"; bs "gz"; bs "z"] then Some 1
  else if memb v [bs "bzip2"; bs "bzip"; bs "bz2"; bs "bz"; bs "j"] then Some 2
  else if memb v [bs "xz"; bs "J"] then Some 3
  else if memb v [bs "none"; bs "no"; bs "0"] then Some 0
  else None.

Definition suffixb (suf s : bytes) : bool := prefixb (rev suf) (rev s).
(* decodeFilenameExtension: first table row with a matching suffix *)
Definition ext_table : list (N * bytes) :=
  [(1, D_GzipExtensions); (2, D_BzipExtensions); (3, D_XzExtensions); (0, D_NoCompressExtension)].
Fixpoint decode_ext_rows (rows : list (N * bytes)) (p : bytes) : option N :=
  match rows with
  | [] => None
  | (m, exts) :: r => if existsb (fun e => suffixb e p) (fields exts) then Some m else decode_ext_rows r p
  end.
Definition decode_ext (p : bytes) : option N := decode_ext_rows ext_table p.

(* main: the -compress switch, else the -o extension (falling back to the recipe when the
   extension is not recognised), else the recipe, else none.  [recipe]: the values of the
   recipe's compress lines in order (the first one is kept).  None = the run fails *)
Definition gen_method (sw out : bytes) (recipe : list bytes) : option N :=
  let rc := hd [] recipe in
  match sw with
  | _ :: _ => decode_input sw
  | [] =>
    match out with
    | _ :: _ => match decode_ext out with
                | Some m => Some m
                | None => match rc with _ :: _ => decode_input rc | [] => None end
                end
    | [] => match rc with _ :: _ => decode_input rc | [] => Some 0 end
    end
  end.

(* ---- documented ---- *)
(* "-compress method: overrides any setting inferred via the -o switch";  "-o path: the filename
   extension determines the file-compression mode";  recipe "compress mode: the -o and -compress
   command-line switches override this".  Method names of the manual: gzip, bzip2, xz, none
   (case-insensitive); extensions of the table above. *)
Inductive dgen := DGFail | DGOpen | DGMethod (m : N).
Definition doc_name_method (s : bytes) : dgen :=
  let v := map lower s in
  if beq v (bs "gzip") then DGMethod 1 else if beq v (bs "bzip2") then DGMethod 2
  else if beq v (bs "xz") then DGMethod 3 else if beq v (bs "none") then DGMethod 0
  else DGOpen.      (* other spellings: nothing is said (the tool knows abbreviations) *)
Definition doc_gen (sw out : bytes) (recipe : list bytes) : dgen :=
  match sw with
  | _ :: _ => doc_name_method sw
  | [] =>
    match out, decode_ext out with
    | _ :: _, Some m => DGMethod m
    | _, _ =>
      match recipe with
      | [v] => doc_name_method v
      | [] => match out with [] => DGMethod 0 | _ => DGFail end   (* "-compress is required when ... cannot be recognized" *)
      | _ => DGOpen
      end
    end
  end.

Definition gen_spec (sw out : bytes) (recipe : list bytes) (r : option N) : bool :=
  match doc_gen sw out recipe, r with
  | DGOpen, _ => true
  | DGFail, None => true
  | DGFail, Some _ => false
  | DGMethod m, Some m' => m =? m'
  | DGMethod _, None => false
  end.
