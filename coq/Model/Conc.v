(* C20: two layercake invocations against one kernel mount table.
   Each invocation is abstracted to the sequence of its interactions with the kernel: reading
   the mount table (fs.ProbeMounts: getLayers and every refreshMountInfo) and the mount /
   umount system calls, with the decisions taken in between on the CACHED table -- exactly
   the structure of manage.Layerdefs.Mount / mountOne / unmountLayer (see Model/Layers.v
   mount_one, unmount_layer).  The kernel is abstracted to the list of mountpoints (imports
   in C20 cases are non-recursive, so a mount adds exactly its target).  A schedule says which
   process performs its next kernel interaction.  Definitions only. *)
From LC Require Import Lib.Bytes Lib.Lex Lib.Fields Lib.PathM Model.FsTree.

Definition ktab := list bytes.                     (* mountpoints, attachment order, repeats = stacked *)

Inductive instr :=
| IProbe                                           (* read the mount table into the cache *)
| IMountIf (p : bytes) (reprobe : bool)            (* mount p unless the cache shows it mounted; then re-read *)
| IUmountLayer (bld : bytes)                       (* unmountLayer: fails if the cache shows nothing mounted *)
| IUmountOne (p : bytes)                           (* one umount(2) of the list computed by IUmountLayer *)
| IFail.                                           (* the command gives up *)

Inductive call := KProbe | KMount (p : bytes) | KUmount (p : bytes) (ok : bool).

Record proc := MkProc { pc_code : list instr; pc_cache : ktab; pc_failed : bool; pc_calls : list call }.

Definition mem_path (p : bytes) (t : ktab) : bool := existsb (beq p) t.
Fixpoint remove_last (p : bytes) (t : ktab) : ktab :=           (* the topmost mount at p *)
  match t with
  | [] => []
  | x :: r => if beq x p && negb (mem_path p r) then r else x :: remove_last p r
  end.
(* a mountpoint is hidden when, after its last line, something was mounted on one of its ancestor
   directories (Model/Kernel.v: hidden_at, the same rule on mountpoints only): umount(2) of the
   path fails until that cover is gone.  E.g. a second overlay mounted on a build root (known
   finding 1: two stacked mounts) covers the imports mounted inside the first. *)
Definition hidden_abs (t : ktab) (p : bytes) : bool :=
  fold_left (fun h q => if beq q p then false else if under q p then true else h) t false.
Definition kumount_abs (t : ktab) (p : bytes) : option ktab :=
  if mem_path p t && negb (hidden_abs t p || existsb (fun q => under p q) t) then Some (remove_last p t) else None.

(* no line of the table has a LATER line mounted on one of its ancestor directories: no mountpoint
   is hidden or can become hidden by unmounting what is stacked on it *)
Fixpoint ncov (k : ktab) : bool :=
  match k with [] => true | p :: r => forallb (fun q => negb (under q p)) r && ncov r end.

Definition at_or_below (d q : bytes) : bool := beq q d || under d q.

(* advance over instructions that need no kernel interaction; perform at most ONE interaction *)
Fixpoint step_proc (fuel : nat) (k : ktab) (p : proc) : ktab * proc * bool :=   (* bool: an interaction happened *)
  match fuel with
  | O => (k, p, false)
  | S fuel' =>
    if pc_failed p then (k, p, false) else
    match pc_code p with
    | [] => (k, p, false)
    | IProbe :: r => (k, MkProc r k false (pc_calls p ++ [KProbe]), true)
    | IMountIf t reprobe :: r =>
      if mem_path t (pc_cache p) then step_proc fuel' k (MkProc r (pc_cache p) false (pc_calls p))
      else (k ++ [t], MkProc (if reprobe then IProbe :: r else r) (pc_cache p) false (pc_calls p ++ [KMount t]), true)
    | IUmountLayer bld :: r =>
      match rev (Lex.sort (filter (at_or_below bld) (pc_cache p))) with
      | [] => (k, MkProc [] (pc_cache p) true (pc_calls p), false)          (* "was not mounted" *)
      | l => step_proc fuel' k (MkProc (map IUmountOne l ++ IProbe :: r) (pc_cache p) false (pc_calls p))
      end
    | IUmountOne t :: r =>
      match kumount_abs k t with
      | Some k' => (k', MkProc r (pc_cache p) false (pc_calls p ++ [KUmount t true]), true)
      | None => (k, MkProc [] (pc_cache p) true (pc_calls p ++ [KUmount t false]), true)
      end
    | IFail :: _ => (k, MkProc [] (pc_cache p) true (pc_calls p), false)
    end
  end.

Definition code_fuel (p : proc) : nat := S (S (length (pc_code p) + length (pc_cache p) + length (pc_cache p))).
Definition step1 (k : ktab) (p : proc) : ktab * proc * bool := step_proc (code_fuel p) k p.
Definition finished (p : proc) : bool := pc_failed p || match pc_code p with [] => true | _ => false end.

(* what happened during an interleaved run *)
Record trace := MkTr {
  tr_picks : list bool;        (* who moved at each step (true = first process) *)
  tr_stacked : bool }.         (* some mount(2) landed on a mountpoint that was already mounted *)

Definition landed_on_mounted (k : ktab) (before after_ : proc) : bool :=
  match skipn (length (pc_calls before)) (pc_calls after_) with
  | KMount t :: _ => mem_path t k
  | _ => false
  end.

(* run both to completion; the schedule picks who moves (true = first); when it is exhausted
   or names a finished process, the other / the first unfinished one moves *)
Fixpoint interleave (fuel : nat) (s : list bool) (k : ktab) (a b : proc) (tr : trace)
  : ktab * proc * proc * trace :=
  match fuel with
  | O => (k, a, b, tr)
  | S fuel' =>
    if finished a && finished b then (k, a, b, tr) else
    let pick_a := match s with
                  | x :: _ => if x then negb (finished a) else finished b
                  | [] => negb (finished a)
                  end in
    let s' := match s with _ :: r => r | [] => [] end in
    if pick_a then
      let '(k', a', _) := step1 k a in
      interleave fuel' s' k' a' b (MkTr (tr_picks tr ++ [true]) (tr_stacked tr || landed_on_mounted k a a'))
    else
      let '(k', b', _) := step1 k b in
      interleave fuel' s' k' a b' (MkTr (tr_picks tr ++ [false]) (tr_stacked tr || landed_on_mounted k b b'))
  end.

Definition start (code : list instr) : proc := MkProc code [] false [].
Definition run_fuel (a b : list instr) : nat := 4 * (length a + length b) + 64.
Definition run_sched (s : list bool) (k : ktab) (ca cb : list instr) : ktab * proc * proc * trace :=
  interleave (run_fuel ca cb + 8 * length k) s k (start ca) (start cb) (MkTr [] false).
Definition serial_ab (k : ktab) (ca cb : list instr) : ktab :=
  let '(k1, _, _, _) := run_sched [] k ca [] in
  let '(k2, _, _, _) := run_sched [] k1 cb [] in k2.

(* the picks are all of one process and then all of the other *)
Fixpoint all_eq (x : bool) (l : list bool) : bool :=
  match l with [] => true | y :: r => Bool.eqb x y && all_eq x r end.
Fixpoint serial_picks (l : list bool) : bool :=
  match l with
  | [] => true
  | x :: r => match r with
              | [] => true
              | y :: _ => if Bool.eqb x y then serial_picks r else all_eq y r
              end
  end.

(* the table as a multiset: sorted *)
Definition canon (k : ktab) : ktab := Lex.sort k.
Definition ktab_eq (a b : ktab) : bool := list_beq beq (canon a) (canon b).

(* stacking: some mountpoint carries two mounts *)
Fixpoint has_dup (k : ktab) : bool :=
  match k with [] => false | x :: r => mem_path x r || has_dup r end.

(* "... so one later umount fully unmounts the layer": a later, undisturbed umount by a fresh
   invocation, as IUmountLayer / IUmountOne perform it on a table it has just read.
   fs.Mounts.GetMountAndSubmounts lists EVERY mount line at or below the build directory
   (a mountpoint carrying two mounts is listed twice), sort.Stable orders the list by Go's
   string [<], and manage.unmountLayer walks it from the end: deepest first, one umount(2)
   per listed line; the first failing umount ends the command and leaves the table as it is
   at that point. *)
Fixpoint umount_seq (k : ktab) (l : list bytes) : ktab :=
  match l with
  | [] => k
  | p :: r => match kumount_abs k p with
              | Some k' => umount_seq k' r
              | None => k
              end
  end.
(* every mountpoint of the table (umount -all over layers that cover the table).  The real command
   goes layer by layer; as long as no call fails that is the same set of calls.  With a covered
   line ([ncov k] false) a call fails, and WHERE the command stops depends on the order of the
   layers, which this machine does not have: the correspondence (Cases/C20.v: later_corr) holds
   the code to [later_umount_all] on tables without covered lines only. *)
Definition later_umount_all (k : ktab) : ktab := umount_seq k (rev (Lex.sort k)).
(* one layer: the mount lines at or below its build directory *)
Definition later_umount_layer (bld : bytes) (k : ktab) : ktab :=
  umount_seq k (rev (Lex.sort (filter (at_or_below bld) k))).
