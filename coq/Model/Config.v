(* Executable model of config/config.go (Load, readConfigFile, mergeSettingSetup, patchPaths)
   over an abstract file system (clean absolute path -> regular file | directory) and an
   abstract process environment (switches, LAYERROOT, LAYERCONF, HOME, os.Args[0], cwd).
   Definitions only; the proofs are in Proofs/ConfigP.v.

   Go library functions modelled here (not verified): strings.TrimSpace (Unicode-exact on
   bytes), strings.SplitN(_, "=", 2), bufio.ScanLines (lines shorter than the 64 KiB token limit), path.Clean /
   IsAbs / Join / Dir (Lib/PathM.v), stat(2)/open(2) path resolution without symbolic links. *)
From LC Require Import Lib.Bytes Lib.Fields Lib.PathM Gen.Consts.
Close Scope string_scope.
Open Scope list_scope.
Open Scope N_scope.

(* ------------------------------------------------------------------ strings.TrimSpace *)
(* the two- and three-byte UTF-8 encodings of the Unicode White_Space runes:
   U+0085 U+00A0 | U+1680 U+2000..U+200A U+2028 U+2029 U+202F U+205F U+3000 *)
Definition sp2 (a b : N) : bool := (a =? 194) && ((b =? 133) || (b =? 160)).
Definition sp3 (a b c : N) : bool :=
  ((a =? 225) && (b =? 154) && (c =? 128))
  || ((a =? 226) && (b =? 128) && (((128 <=? c) && (c <=? 138)) || (c =? 168) || (c =? 169) || (c =? 175)))
  || ((a =? 226) && (b =? 129) && (c =? 159))
  || ((a =? 227) && (b =? 128) && (c =? 128)).

(* leading white space (forward UTF-8 decoding) *)
Fixpoint ldrop (s : bytes) : bytes :=
  match s with
  | [] => []
  | a :: r =>
    if is_sp a then ldrop r else
    match r with
    | [] => s
    | b :: r2 =>
      if sp2 (bn a) (bn b) then ldrop r2 else
      match r2 with
      | [] => s
      | c :: r3 => if sp3 (bn a) (bn b) (bn c) then ldrop r3 else s
      end
    end
  end.
(* trailing white space, on the reversed string (backward UTF-8 decoding) *)
Fixpoint rdrop (s : bytes) : bytes :=
  match s with
  | [] => []
  | a :: r =>
    if is_sp a then rdrop r else
    match r with
    | [] => s
    | b :: r2 =>
      if sp2 (bn b) (bn a) then rdrop r2 else
      match r2 with
      | [] => s
      | c :: r3 => if sp3 (bn c) (bn b) (bn a) then rdrop r3 else s
      end
    end
  end.
Definition utrim (s : bytes) : bytes := rev (rdrop (rev (ldrop s))).

(* ------------------------------------------------------------------ asciiUpper *)
(* config.asciiUpper: the ASCII letters a..z are upper-cased, every other byte is kept *)
Definition up1 (c : ascii) : ascii :=
  let n := bn c in if (97 <=? n) && (n <=? 122) then nb (n - 32) else c.
Definition upper_key (s : bytes) : bytes := map up1 s.

(* ------------------------------------------------------------------ settings *)
Definition smap := N -> bytes.                     (* Go: map[int]string, missing = "" *)
Definition sempty : smap := fun _ => [].
Definition sset (m : smap) (k : N) (v : bytes) : smap := fun k' => if k' =? k then v else m k'.
Definition isempty (b : bytes) : bool := match b with [] => true | _ => false end.
(* mergeSettingSetup: a key of [source] is copied where [target] has the empty string *)
Definition merge (target source : smap) : smap :=
  fun k => if isempty (target k) then source k else target k.

Definition cf_entry := (N * N * N * bytes * bytes)%type.
Definition e_key (e : cf_entry) : N := let '(k, _, _, _, _) := e in k.
Definition e_type (e : cf_entry) : N := let '(_, t, _, _, _) := e in t.
Definition e_rel (e : cf_entry) : N := let '(_, _, r, _, _) := e in r.
Definition e_default (e : cf_entry) : bytes := let '(_, _, _, d, _) := e in d.
Definition e_ckey (e : cf_entry) : bytes := let '(_, _, _, _, c) := e in c.

Definition key_lookup (tbl : list cf_entry) (u : bytes) : option N :=
  match find (fun e => beq u (e_ckey e)) tbl with Some e => Some (e_key e) | None => None end.

(* defaultSettingSetup *)
Definition defaults_of (tbl : list cf_entry) : smap :=
  fold_left (fun m e => sset m (e_key e) (e_default e)) tbl sempty.

(* ------------------------------------------------------------------ readConfigFile *)
Inductive lres := LSkip | LSet (k : N) (v : bytes) | LBad.

Definition is_comment (l : bytes) : bool :=
  match l with
  | a :: r => (bn a =? 35) || ((bn a =? 47) && match r with b :: _ => bn b =? 47 | [] => false end)
  | [] => false
  end.

Definition parse_line (tbl : list cf_entry) (raw : bytes) : lres :=
  let l := utrim raw in
  if isempty l || is_comment l then LSkip else
  let '(k, ov) := split2 (nb 61) l in
  let v := match ov with Some x => utrim x | None => [] end in
  match key_lookup tbl (upper_key (utrim k)) with
  | Some id => if isempty v then LSkip else LSet id v
  | None => LBad
  end.

(* the loop of readConfigFile over the scanner's lines; None = "Unrecognized setting" *)
Fixpoint parse_lines (tbl : list cf_entry) (ls : list bytes) (m : smap) : option smap :=
  match ls with
  | [] => Some m
  | l :: r =>
    match parse_line tbl l with
    | LSkip => parse_lines tbl r m
    | LSet k v => parse_lines tbl r (sset m k v)
    | LBad => None
    end
  end.
Definition lines_of (content : bytes) : list bytes := split (nb 10) content.
Definition parse_file (tbl : list cf_entry) (content : bytes) : option smap :=
  parse_lines tbl (lines_of content) sempty.

(* ------------------------------------------------------------------ file system *)
Inductive node := NFile (content : bytes) | NDir.
Definition fsmap := list (bytes * node).          (* keys: clean absolute paths; "/" is a directory *)

Fixpoint fs_get (fs : fsmap) (p : bytes) : option node :=
  match fs with
  | [] => None
  | (q, n) :: r => if beq p q then Some n else fs_get r p
  end.

Definition path_of (rcur : list bytes) : bytes := sl :: pjoin (rev rcur).
Definition is_dir (o : option node) : bool := match o with Some NDir => true | _ => false end.

(* component-wise resolution as the kernel does it (no symbolic links): every component is
   looked up in an existing directory; "" and "." stay, ".." goes to the parent *)
Fixpoint walk (fs : fsmap) (rcur : list bytes) (cs : list bytes) : option (bytes * node) :=
  match cs with
  | [] => match fs_get fs (path_of rcur) with Some n => Some (path_of rcur, n) | None => None end
  | c :: r =>
    if is_dir (fs_get fs (path_of rcur)) then
      if beq c [] || beq c dot then walk fs rcur r
      else if beq c dotdot then walk fs (tl rcur) r
      else walk fs (c :: rcur) r
    else None
  end.
Definition comps (p : bytes) : list bytes := filter (fun c => negb (beq c [])) (psplit p).
Definition resolve (fs : fsmap) (cwd : bytes) (p : bytes) : option (bytes * node) :=
  match p with
  | [] => None
  | _ => if is_rooted p then walk fs [] (psplit p) else walk fs (rev (comps cwd)) (psplit p)
  end.
(* fs.IsFile: stat succeeds and the object is a regular file *)
Definition is_file (fs : fsmap) (cwd p : bytes) : bool :=
  match resolve fs cwd p with Some (_, NFile _) => true | _ => false end.

(* ------------------------------------------------------------------ result classes *)
Inductive errclass := ELoop | EUnknown | ENoAbs | EIO.
Inductive outcome :=
  | OOk (vals : list bytes)      (* the eleven ConfigType strings, in field order *)
  | OErr (e : errclass)
  | OPanic
  | OTimeout.                    (* model: fuel exhausted (never, see load_terminates) *)

(* readConfigFile on a path *)
Inductive rres := RMap (m : smap) | RErr (e : errclass).
Definition read_config (tbl : list cf_entry) (fs : fsmap) (cwd p : bytes) : rres :=
  match resolve fs cwd p with
  | None => RErr EIO                     (* open fails *)
  | Some (_, NDir) => RErr EIO           (* open succeeds, read fails with EISDIR *)
  | Some (_, NFile content) =>
    match parse_file tbl content with Some m => RMap m | None => RErr EUnknown end
  end.

(* ------------------------------------------------------------------ patchPaths *)
Definition patch_entry (m : smap) (e : cf_entry) : option smap :=
  let value := m (e_key e) in
  if (negb (e_type e =? CF_ss_dir) && negb (e_type e =? CF_ss_file)) || isempty value then Some m
  else
    let value := clean value in
    if is_abs value then Some (sset m (e_key e) value)
    else
      let relTo := m (e_rel e) in
      if isempty relTo || negb (is_abs relTo) then None
      else Some (sset m (e_key e) (pathjoin [relTo; value])).
Fixpoint patch_paths (es : list cf_entry) (m : smap) : option smap :=
  match es with
  | [] => Some m
  | e :: r => match patch_entry m e with Some m' => patch_paths r m' | None => None end
  end.

(* ------------------------------------------------------------------ Load *)
Record env := MkEnv {
  sw_conf : bytes;  sw_base : bytes;               (* -config, -basepath ("" = not given) *)
  layerroot : bytes; layerconf : bytes; home : bytes;   (* environment ("" = unset or empty) *)
  argv0 : bytes;                                   (* os.Args[0] *)
  cwd : bytes;                                     (* working directory, clean absolute *)
  files : fsmap }.

Definition candidates (e : env) : list bytes :=
  (if isempty (layerconf e) then [] else [layerconf e])
  ++ (if isempty (home e) then [] else [home e ++ bs "/.layercake"%string])
  ++ (let pd := pathdir (pathdir (argv0 e)) in
      if isempty pd then [] else [pd ++ bs "/etc/layercake.conf"%string])
  ++ [bs "/etc/layercake.conf"%string].
Definition first_file (e : env) (l : list bytes) : bytes :=
  match find (fun p => is_file (files e) (cwd e) p) l with Some p => p | None => [] end.
Definition start_file (e : env) : bytes :=
  if isempty (sw_conf e) then first_file e (candidates e) else sw_conf e.

Inductive cres := CDone (m : smap) | CErr (e : errclass) | CDiverge.
(* the loop  for len(configfile) > 0 { … }  with its visited set *)
Fixpoint chain (tbl : list cf_entry) (e : env) (fuel : nat) (visited : list bytes) (cf : bytes) (m : smap) : cres :=
  if isempty cf then CDone m else
  match fuel with
  | O => CDiverge
  | S fuel' =>
    if existsb (beq cf) visited then CErr ELoop else
    match read_config tbl (files e) (cwd e) cf with
    | RErr x => CErr x
    | RMap fm => chain tbl e fuel' (cf :: visited) (fm CF_cfKey_configfile) (merge m fm)
    end
  end.

(* ConfigType field order *)
Definition out_keys : list N :=
  [CF_cfKey_basepath; CF_cfKey_layerdirs; CF_cfKey_buildroot; CF_cfKey_binpkgdir; CF_cfKey_gendir;
   CF_cfKey_workdir; CF_cfKey_upperdir; CF_cfKey_exportroot; CF_cfKey_exportpkgdir; CF_cfKey_exportgendir;
   CF_cfKey_chrootexec].

Definition load_fuel (e : env) : nat := S (S (length (files e))).

Definition load_with (tbl : list cf_entry) (e : env) : outcome :=
  let base0 := if isempty (sw_base e) then layerroot e else sw_base e in
  match chain tbl e (load_fuel e) [] (start_file e) (sset sempty CF_cfKey_basepath base0) with
  | CDiverge => OTimeout
  | CErr x => OErr x
  | CDone m =>
    match patch_paths tbl (merge m (defaults_of tbl)) with
    | None => OErr ENoAbs
    | Some m2 => OOk (map m2 out_keys)
    end
  end.
Definition load (e : env) : outcome := load_with CF_settingSetup e.

(* ------------------------------------------------------------------ what `layercake status` shows *)
(* With the three directories absent, the binary prints them as missing items. *)
Inductive binview := BErr | BDirs (base layers exports : bytes) | BOther
| BRunOK.   (* observation only: the configuration loaded and not all three directories were reported
               missing (some exist on the machine), so their names were not all shown *)
Definition bin_view (o : outcome) : binview :=
  match o with
  | OOk vals => BDirs (nth 0%nat vals []) (nth 1%nat vals []) (nth 7%nat vals [])
  | OErr _ => BErr
  | _ => BOther
  end.

(* ------------------------------------------------------------------ path predicate (used by wf and specs) *)
(* clean absolute path, said without path.Clean: "/" followed by plain components
   (non-empty, neither "." nor "..", no slash) separated by single slashes *)
Definition is_clean_abs (p : bytes) : bool :=
  match p with
  | c :: r => Ascii.eqb c sl && (isempty r || forallb plainb (psplit r))
  | [] => false
  end.
