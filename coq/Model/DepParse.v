(* Model of portage/depend/tokenizer.go (_getToken), portage/depend/depend.go
   (DecodeDependencies, decodeDependency, ConditionalPackageDependency.String) and of the part
   of portage/depend/atom.go that turns a parsed atom into a DependAtom (makeDA).
   Executable definitions only; proofs live in Proofs/DepParseP.v.
   Go run-time failures are the explicit outcome RPanic (the repaired decoder guards every
   method call and type assertion, so only the atom parser could hand one up), running out of
   fuel is RDiverge. *)
From LC Require Import Lib.Bytes Gen.Consts Model.AtomParse.
Open Scope list_scope.
Open Scope N_scope.

(* what a DependAtom keeps of the parsed atom (BaseAtom + blockers + USE dependencies) *)
Record leaf := MkLeaf {
  l_atom : bytes; l_cat : bytes; l_name : bytes; l_compver : bytes;
  l_slot : bytes; l_subslot : bytes; l_repo : bytes;
  l_blocker : bool; l_hardblock : bool; l_use : list usedep }.

Definition make_da (p : parsed) : leaf :=
  MkLeaf (p_atom p) (p_cat p) (p_name p) (p_compver p) (p_slot p) (p_subslot p) (p_repo p)
         (p_blocker p) (p_hardblock p) (p_use p).

Definition leaf_beq (a b : leaf) : bool :=
  beq (l_atom a) (l_atom b) && beq (l_cat a) (l_cat b) && beq (l_name a) (l_name b)
  && beq (l_compver a) (l_compver b) && beq (l_slot a) (l_slot b) && beq (l_subslot a) (l_subslot b)
  && beq (l_repo a) (l_repo b) && Bool.eqb (l_blocker a) (l_blocker b)
  && Bool.eqb (l_hardblock a) (l_hardblock b) && list_beq usedep_beq (l_use a) (l_use b).

(* Pkg_dep_*: 0 atom, 1 all, 2 any_of, 3 exactly_one_of, 4 at_most_one_of, 5 when_use_set,
   6 when_use_unset *)
Inductive dep := DAtom (a : leaf) | DGroup (ty : N) (flag : bytes) (ds : list dep).

Fixpoint dep_beq (a b : dep) {struct a} : bool :=
  match a, b with
  | DAtom x, DAtom y => leaf_beq x y
  | DGroup t f l, DGroup t' f' l' =>
    (t =? t') && beq f f' &&
    (fix lb (l l' : list dep) {struct l} : bool :=
       match l, l' with
       | [], [] => true
       | x :: r, y :: r' => dep_beq x y && lb r r'
       | _, _ => false
       end) l l'
  | _, _ => false
  end.

(* ---- tokenizer ---- *)
Inductive token :=
| TEof | TErr
| TOpen (rest : bytes) | TClose (rest : bytes)
| TGroup (ty : N) (rest : bytes)                 (* "||" 2, "^^" 3, "??" 4 *)
| TUse (ty : N) (flag : bytes) (rest : bytes)    (* "flag?" 5, "!flag?" 6 *)
| TAtom (at_ : bytes).                           (* cursor left at the start of the token *)

Fixpoint drop_ws (s : bytes) : bytes :=
  match s with [] => [] | c :: r => if is_ws c then drop_ws r else s end.

Definition last_byte (s : bytes) : ascii := peek (rev s).

Definition get_token (s : bytes) : token :=
  match drop_ws s with
  | [] => TEof
  | (c0 :: _) as s1 =>
    let '(tok, rest) := span not_ws s1 in
    let toklen := length tok in
    let take := if is 40 c0 || is 41 c0 then 1%nat
                else if is 124 c0 || is 94 c0 || is 63 c0 then 2%nat else 0%nat in
    if negb (Nat.eqb take 0) then
      if negb (Nat.eqb toklen take) || (Nat.ltb 1 take && negb (Ascii.eqb (peek1 s1) c0)) then TErr
      else if is 40 c0 then TOpen rest
      else if is 41 c0 then TClose rest
      else if is 124 c0 then TGroup 2 rest
      else if is 94 c0 then TGroup 3 rest
      else TGroup 4 rest
    else
      let neg := is 33 c0 in
      let tok' := if neg then tl tok else tok in
      if Nat.ltb 1 (length tok') && is 63 (last_byte tok) then
        let flag := removelast tok' in
        if forallb is_useflag_char flag then TUse (if neg then 6 else 5) flag rest else TErr
      else TAtom s1
  end.

(* ---- recursive descent ---- *)
Inductive dres (A : Type) := ROk (a : A) | RErr | RPanic | RDiverge.
Arguments ROk {A} a. Arguments RErr {A}. Arguments RPanic {A}. Arguments RDiverge {A}.

(* decodeDependency: ROk (None, rest) is Go's (nil, nil), the end of the current group -- end
   of input at depth 0, a closing parenthesis inside a group.  [decode_seq] is the loop that
   collects dependencies until the first nil (the "(" case and DecodeDependencies). *)
Fixpoint decode_dep (fuel : nat) (depth : nat) (s : bytes) {struct fuel} : dres (option dep * bytes) :=
  match fuel with
  | O => RDiverge
  | S f =>
    match get_token s with
    | TEof => match depth with O => ROk (None, []) | S _ => RErr end
    | TClose rest => match depth with O => RErr | S _ => ROk (None, rest) end
    | TErr => RErr
    | TOpen rest =>
      match decode_seq f (S depth) rest with
      | ROk (l, r) => ROk (Some (DGroup 1 [] l), r)
      | RErr => RErr | RPanic => RPanic | RDiverge => RDiverge
      end
    | TUse ty flag rest =>
      match decode_dep f depth rest with
      | ROk (None, _) => RErr
      | ROk (Some (DAtom a), r) => ROk (Some (DGroup ty flag [DAtom a]), r)
      | ROk (Some (DGroup t _ l), r) => if t =? 1 then ROk (Some (DGroup ty flag l), r) else RErr
      | RErr => RErr | RPanic => RPanic | RDiverge => RDiverge
      end
    | TGroup ty rest =>
      match decode_dep f depth rest with
      | ROk (None, _) => RErr
      | ROk (Some (DAtom _), _) => RErr
      | ROk (Some (DGroup t fl l), r) => if t =? 1 then ROk (Some (DGroup ty fl l), r) else RErr
      | RErr => RErr | RPanic => RPanic | RDiverge => RDiverge
      end
    | TAtom s1 =>
      match raw_parse_at s1 true true with
      | (AOk p, r) => if not_ws (peek r) then RErr else ROk (Some (DAtom (make_da p)), r)
      | (AErr, _) => RErr
      | (APanic, _) => RPanic
      | (ADiverge, _) => RDiverge
      end
    end
  end
with decode_seq (fuel : nat) (depth : nat) (s : bytes) {struct fuel} : dres (list dep * bytes) :=
  match fuel with
  | O => RDiverge
  | S f =>
    match decode_dep f depth s with
    | ROk (None, r) => ROk ([], r)
    | ROk (Some d, r) =>
      match decode_seq f depth r with
      | ROk (l, r') => ROk (d :: l, r')
      | e => e
      end
    | RErr => RErr | RPanic => RPanic | RDiverge => RDiverge
    end
  end.

Definition decode_fuel (s : bytes) : nat := 2 * length s + 4.

(* DecodeDependencies *)
Definition decode (s : bytes) : dres (list dep) :=
  match decode_seq (decode_fuel s) O s with
  | ROk (l, _) => ROk l
  | RErr => RErr | RPanic => RPanic | RDiverge => RDiverge
  end.

(* ---- String() ---- *)
Definition lparen : bytes := [nb 40].
Definition group_intro (ty : N) (flag : bytes) : bytes :=
  if ty =? 5 then flag ++ [nb 63; nb 32; nb 40]
  else if ty =? 6 then nb 33 :: flag ++ [nb 63; nb 32; nb 40]
  else if ty =? 1 then lparen
  else if ty =? 2 then [nb 124; nb 124; nb 32; nb 40]
  else if ty =? 3 then [nb 94; nb 94; nb 32; nb 40]
  else if ty =? 4 then [nb 63; nb 63; nb 32; nb 40]
  else [].
Fixpoint dep_string (d : dep) : bytes :=
  match d with
  | DAtom a => l_atom a
  | DGroup ty flag ds =>
    group_intro ty flag ++
    (fix go (l : list dep) : bytes :=
       match l with [] => [] | x :: r => nb 32 :: dep_string x ++ go r end) ds
    ++ [nb 32; nb 41]
  end.
