(* Model of the command dispatch of cmd/layercake/layercake.go: which entry point of package
   manage a command line reaches, with which arguments and under which options.  main() parses
   the global flag set, picks the command function by the first word; each command function
   declares its local switches, calls getArgs(min, max) (ParseArgsSetFlags, arity check, padding
   with "" up to max, installation of the pretender) and hands the words and local switches to
   one method of Layerdefs.  [parse_main] (Model/Args.v) is the parsing; this file is the step
   from its result to a [command] of Model/Layers.v and the options part of its [env].
   Definitions only. *)
From LC Require Import Lib.Bytes Model.Args Model.Layers.
Open Scope N_scope.

(* flag.BoolVar / flag.StringVar: the last assignment on the command line is the value *)
Definition local_bool (l : list assign) (n : bytes) : bool :=
  match filter (fun a => beq (fst a) n) (rev l) with
  | a :: _ => beq (snd a) (bs "true")
  | [] => false
  end.
Definition local_str (l : list assign) (n : bytes) : bytes :=
  match filter (fun a => beq (fst a) n) (rev l) with
  | a :: _ => snd a
  | [] => []
  end.

(* getArgs pads the words with "" up to the maximum *)
Definition word (args : list bytes) (k : nat) : bytes := nth k args [].

(* the method of Layerdefs (or manage function) a command function calls.  `list` prints the
   table of the probed layers (CProbe: start-up probe and nothing else); `status` and `shell`
   are not modelled (status without a layer name does not even read the layers) *)
Definition command_of (cmd : bytes) (args : list bytes) (l : list assign) : option command :=
  let is := beq cmd in
  if is (bs "init") then Some CInit
  else if is (bs "list") then Some CProbe
  else if is (bs "add") then Some (CAdd (word args 0) (word args 1) (local_str l (bs "configfile")))
  else if is (bs "remove") then Some (CRemove (word args 0) (local_bool l (bs "files")))
  else if is (bs "rename") then Some (CRename (word args 0) (word args 1))
  else if is (bs "rebase") then Some (CRebase (word args 0) (word args 1))
  else if is (bs "mkdirs") then Some (CMkdirs (word args 0))
  else if is (bs "mount") then Some (CMount (word args 0))
  else if is (bs "unmount") || is (bs "umount") then Some (CUmount (word args 0) (local_bool l (bs "all")))
  else if is (bs "chroot") then Some (CChroot (word args 0))
  else if is (bs "shake") then Some CShake
  else None.

(* the whole command line: options and command, or nothing (usage message / not modelled) *)
Definition dispatch (argv : list bytes) : option (opts * command) :=
  match parse_main argv with
  | MUsage => None
  | MRun o cmd args l =>
    match command_of cmd args l with
    | Some c => Some (o, c)
    | None => None
    end
  end.

Definition command_beq (a b0 : command) : bool :=
  match a, b0 with
  | CInit, CInit | CShake, CShake | CProbe, CProbe => true
  | CAdd n1 b1 c1, CAdd n2 b2 c2 => beq n1 n2 && beq b1 b2 && beq c1 c2
  | CRemove n1 f1, CRemove n2 f2 => beq n1 n2 && Bool.eqb f1 f2
  | CRename a1 b1, CRename a2 b2 => beq a1 a2 && beq b1 b2
  | CRebase a1 b1, CRebase a2 b2 => beq a1 a2 && beq b1 b2
  | CMkdirs a1, CMkdirs a2 => beq a1 a2
  | CMount a1, CMount a2 => beq a1 a2
  | CUmount a1 f1, CUmount a2 f2 => beq a1 a2 && Bool.eqb f1 f2
  | CChroot a1, CChroot a2 => beq a1 a2
  | CKMount s1 t1 y1 f1 d1, CKMount s2 t2 y2 f2 d2 => beq s1 s2 && beq t1 t2 && beq y1 y2 && (f1 =? f2) && beq d1 d2
  | CKUmount t1, CKUmount t2 => beq t1 t2
  | CEdit p1 x1, CEdit p2 x2 => beq p1 p2 && beq x1 x2
  | _, _ => false
  end.

(* a step that was run as the command line [argv] is the step (e, c) of the command model iff
   the dispatch of argv is c under the options of e (fault plan and iteration oracle of e come
   from outside the command line) *)
Definition dispatch_is (argv : list bytes) (e : env) (c : command) : bool :=
  match dispatch argv with
  | Some (o, c') =>
    command_beq c' c && Bool.eqb (o_p o) (e_pretend e) && Bool.eqb (o_force o) (e_force e)
    && Bool.eqb (o_v o) (e_verbose e)
  | None => false
  end.
