(* File-system model used by the layercake command model: a finite map from clean absolute
   paths to nodes.  Models os.MkdirAll / RemoveAll / Rename / Symlink / OpenFile+Write as
   layercake's fs wrappers use them, on one local file system.  Symbolic links are resolved
   for the final path component only (intermediate symlinked directories are outside wf). *)
From LC Require Import Lib.Bytes Lib.Lex Lib.Fields Lib.PathM.

Inductive node := Dir | File (c : bytes) | Link (t : bytes).
Definition fsT := list (bytes * node).

Definition node_beq (a b : node) : bool :=
  match a, b with
  | Dir, Dir => true
  | File x, File y => beq x y
  | Link x, Link y => beq x y
  | _, _ => false
  end.

Fixpoint fs_get (fs : fsT) (p : bytes) : option node :=
  match fs with
  | [] => None
  | (q, n) :: r => if beq q p then Some n else fs_get r p
  end.

Fixpoint fs_set (fs : fsT) (p : bytes) (n : node) : fsT :=
  match fs with
  | [] => [(p, n)]
  | (q, m) :: r => if beq q p then (q, n) :: r else (q, m) :: fs_set r p n
  end.

Definition root : bytes := [sl].

(* q strictly below directory d *)
Definition under (d q : bytes) : bool :=
  if beq d root then is_abs q && negb (beq q root) else prefixb (d ++ [sl]) q.
Definition at_or_under (d q : bytes) : bool := beq q d || under d q.

(* suffix of q after d (q at or under d): "" or "/x/y" *)
Definition rel_suffix (d q : bytes) : bytes :=
  if beq d root then (if beq q root then [] else q) else skipn (length d) q.

Definition lstat (fs : fsT) (p : bytes) : option node := fs_get fs p.

Definition link_target (p t : bytes) : bytes :=
  if is_abs t then clean t else pathjoin [pathdir p; t].

Fixpoint stat_fuel (n : nat) (fs : fsT) (p : bytes) : option node :=
  match fs_get fs p with
  | Some (Link t) => match n with O => None | S n' => stat_fuel n' fs (link_target p t) end
  | x => x
  end.
Definition stat (fs : fsT) (p : bytes) : option node := stat_fuel 8 fs p.

Definition is_dir (fs : fsT) (p : bytes) : bool := match stat fs p with Some Dir => true | _ => false end.
Definition is_file (fs : fsT) (p : bytes) : bool := match stat fs p with Some (File _) => true | _ => false end.
Definition exists_ (fs : fsT) (p : bytes) : bool := match lstat fs p with Some _ => true | None => false end.
Definition is_symlink (fs : fsT) (p : bytes) : bool := match lstat fs p with Some (Link _) => true | _ => false end.
Definition readlink (fs : fsT) (p : bytes) : option bytes := match lstat fs p with Some (Link t) => Some t | _ => None end.
Definition read_file (fs : fsT) (p : bytes) : option bytes := match stat fs p with Some (File c) => Some c | _ => None end.

(* names of the direct children of directory d *)
Definition children (fs : fsT) (d : bytes) : list bytes :=
  map (fun e => pathbase (fst e))
      (filter (fun e => under d (fst e) && beq (pathdir (fst e)) d) fs).
Definition has_children (fs : fsT) (d : bytes) : bool := existsb (fun e => under d (fst e)) fs.

(* all the proper and improper prefixes of a clean absolute path, shortest first (without "/") *)
Fixpoint prefixes_acc (cur : bytes) (cs : list bytes) : list bytes :=
  match cs with
  | [] => []
  | c :: r => let q := cur ++ sl :: c in q :: prefixes_acc q r
  end.
Definition prefixes (p : bytes) : list bytes :=
  prefixes_acc [] (filter (fun c => negb (beq c [])) (psplit p)).

Inductive fres := FOk (fs : fsT) | FErr.

(* NAME_MAX: no path component longer than 255 bytes can be created *)
Definition name_max : nat := 255.
Definition names_fit (p : bytes) : bool := forallb (fun c => (length c <=? name_max)%nat) (psplit p).

(* os.MkdirAll *)
Fixpoint mkdir_prefixes (fs : fsT) (ps : list bytes) : fres :=
  match ps with
  | [] => FOk fs
  | q :: r =>
    match stat fs q with
    | Some Dir => mkdir_prefixes fs r
    | Some _ => FErr
    | None => match lstat fs q with
              | Some _ => FErr                       (* dangling symlink *)
              | None => mkdir_prefixes (fs ++ [(q, Dir)]) r
              end
    end
  end.
Definition mkdir_all (fs : fsT) (p : bytes) : fres :=
  if is_dir fs p then FOk fs
  else if names_fit p then mkdir_prefixes fs (prefixes p) else FErr.

(* os.RemoveAll *)
Definition remove_all (fs : fsT) (p : bytes) : fres :=
  if beq p root then FErr else FOk (filter (fun e => negb (at_or_under p (fst e))) fs).

(* os.Rename *)
Definition move_entry (a b : bytes) (e : bytes * node) : bytes * node :=
  if at_or_under a (fst e) then (b ++ rel_suffix a (fst e), snd e) else e.
Definition rename (fs : fsT) (a b : bytes) : fres :=
  match lstat fs a with
  | None => FErr
  | Some na =>
    if negb (is_dir fs (pathdir b)) || negb (names_fit b) then FErr
    else if at_or_under a b then (if beq a b then FOk fs else FErr)
    else
      let moved := fun fs' => FOk (map (move_entry a b) fs') in
      match lstat fs b with
      | None => moved fs
      | Some Dir =>
        match na with
        | Dir => if has_children fs b then FErr
                 else moved (filter (fun e => negb (beq (fst e) b)) fs)
        | _ => FErr
        end
      | Some _ =>
        match na with
        | Dir => FErr
        | _ => moved (filter (fun e => negb (beq (fst e) b)) fs)
        end
      end
  end.

(* os.Symlink(target, link) *)
Definition symlink (fs : fsT) (link target : bytes) : fres :=
  match lstat fs link with
  | Some _ => FErr
  | None => if is_dir fs (pathdir link) && names_fit link then FOk (fs ++ [(link, Link target)]) else FErr
  end.

(* fs.WriteTextFile: O_RDWR|O_CREATE, no truncation *)
Definition write_text (fs : fsT) (p c : bytes) : fres :=
  match lstat fs p with
  | None => if is_dir fs (pathdir p) && names_fit p then FOk (fs ++ [(p, File c)]) else FErr
  | Some (File old) => FOk (fs_set fs p (File (c ++ skipn (length c) old)))
  | Some _ => FErr
  end.

(* open with O_TRUNC|O_CREATE *)
Definition open_trunc (fs : fsT) (p : bytes) : fres :=
  match lstat fs p with
  | None => if is_dir fs (pathdir p) && names_fit p then FOk (fs ++ [(p, File [])]) else FErr
  | Some (File _) => FOk (fs_set fs p (File []))
  | Some _ => FErr
  end.
Definition append_file (fs : fsT) (p c : bytes) : fsT :=
  match lstat fs p with
  | Some (File old) => fs_set fs p (File (old ++ c))
  | _ => fs
  end.

(* canonical form for comparison: sorted by path *)
Fixpoint ins_entry (e : bytes * node) (l : fsT) : fsT :=
  match l with
  | [] => [e]
  | x :: r => if ltb (fst x) (fst e) then x :: ins_entry e r else e :: l
  end.
Definition fs_canon (fs : fsT) : fsT := fold_right ins_entry [] fs.
Definition entry_beq (a b : bytes * node) : bool := beq (fst a) (fst b) && node_beq (snd a) (snd b).
Definition fs_beq (a b : fsT) : bool := list_beq entry_beq (fs_canon a) (fs_canon b).
