(* Model of fs/inuse.go (FindLayerUsers, isNumeric, isLinkToLayer,
   SameDirectoryOrDescendant), fs.Readlink, the busy classification loop of
   manage/probe.go (ProbeAllLayerstate), manage/describeUsers.go and
   Layerinfo.DescribeUsage -- over an abstract /proc snapshot in which every
   read may be failed by an oracle (a process that vanishes mid-scan).
   Executable definitions only; proofs live in Proofs/InUseP.v. *)
From LC Require Import Lib.Bytes Lib.Lex Lib.Fields Lib.PathM.

(* ---- the abstract /proc ---- *)
Inductive err := ENOENT | ESRCH | EACCES | EOTHER.
Definition err_beq (a b : err) : bool :=
  match a, b with
  | ENOENT, ENOENT | ESRCH, ESRCH | EACCES, EACCES | EOTHER, EOTHER => true
  | _, _ => false
  end.

(* one system-call site of the scan, per /proc entry:
   the lstat done by os.File.Readdir on /proc, readlink exe (program name),
   readlink cwd, root, exe (second read, by isLinkToLayer), stat fd, open fd,
   getdents on fd, lstat of the j-th fd entry (Readdir), readlink of the j-th fd entry;
   and the two calls on /proc itself *)
Inductive rid :=
  | RTopOpen | RTopReaddir
  | RLstat | RExe | RCwd | RRoot | RExe2 | RFdStat | RFdOpen | RFdReaddir
  | RFdLstat (j : nat) | RFdLink (j : nat).
Definition rid_beq (a b : rid) : bool :=
  match a, b with
  | RTopOpen, RTopOpen | RTopReaddir, RTopReaddir | RLstat, RLstat | RExe, RExe | RCwd, RCwd
  | RRoot, RRoot | RExe2, RExe2 | RFdStat, RFdStat | RFdOpen, RFdOpen | RFdReaddir, RFdReaddir => true
  | RFdLstat i, RFdLstat j => Nat.eqb i j
  | RFdLink i, RFdLink j => Nat.eqb i j
  | _, _ => false
  end.

(* the vanish oracle: entry index in readdir order -> call site -> injected errno *)
Definition oracle := nat -> rid -> option err.
Definition no_faults : oracle := fun _ _ => None.

Record fault := MkFault { f_proc : nat; f_rid : rid; f_err : err }.
Fixpoint orc_of (fs : list fault) : oracle :=
  fun i r =>
    match fs with
    | [] => None
    | f :: rest => if Nat.eqb (f_proc f) i && rid_beq (f_rid f) r then Some (f_err f) else orc_of rest i r
    end.

(* truth about one entry of /proc (None = the link / directory does not exist) *)
Record fdent := MkFd { fd_name : bytes; fd_tgt : option bytes }.   (* None: not a symlink *)
Record proc := MkProc {
  p_name : bytes; p_isdir : bool;
  p_exe : option bytes; p_cwd : option bytes; p_root : option bytes;
  p_fds : option (list fdent) }.

(* ---- results ---- *)
(* UsedAs_root = 0, UsedAs_cwd = 1, UsedAs_exec = 2, UsedAs_open = 3 *)
Definition K_root : N := 0.  Definition K_cwd : N := 1.
Definition K_exec : N := 2.  Definition K_open : N := 3.
Record user := MkUser { u_pid : N; u_kind : N; u_prog : bytes; u_file : bytes }.
Definition user_beq (a b : user) : bool :=
  N.eqb (u_pid a) (u_pid b) && N.eqb (u_kind a) (u_kind b) && beq (u_prog a) (u_prog b)
  && beq (u_file a) (u_file b).
(* InUseLayerMap as an association list kept sorted by key (Go map: the harness sorts the keys) *)
Definition umap := list (bytes * list user).
Inductive scan_res := SPanic | SErr | SOk (m : umap).

(* out[layername] = append(out[layername], entry); a new key is inserted in key order *)
Fixpoint has_key (m : umap) (k : bytes) : bool :=
  match m with
  | [] => false
  | (k', _) :: r => beq k' k || has_key r k
  end.
Fixpoint upd (m : umap) (k : bytes) (u : user) : umap :=
  match m with
  | [] => []
  | (k', us) :: r => if beq k' k then (k', us ++ [u]) :: r else (k', us) :: upd r k u
  end.
Fixpoint ins (m : umap) (k : bytes) (u : user) : umap :=
  match m with
  | [] => [(k, [u])]
  | (k', us) :: r => if ltb k k' then (k, [u]) :: m else (k', us) :: ins r k u
  end.
Definition add_user (m : umap) (k : bytes) (u : user) : umap :=
  if has_key m k then upd m k u else ins m k u.
Fixpoint get (m : umap) (k : bytes) : list user :=
  match m with
  | [] => []
  | (k', us) :: r => if beq k' k then us else get r k
  end.

(* ---- strings ---- *)
Definition slc : ascii := nb 47.
Fixpoint strip_prefix (p s : bytes) : option bytes :=
  match p, s with
  | [], _ => Some s
  | x :: p', y :: s' => if Ascii.eqb x y then strip_prefix p' s' else None
  | _ :: _, [] => None
  end.

(* fs.SameDirectoryOrDescendant(path, prefix); None = Go panic (prefix[-1] on an empty prefix) *)
Definition sdod (path prefix : bytes) : option bool :=
  match rev prefix with
  | [] => None
  | lastc :: _ =>
    Some (match strip_prefix prefix path with
          | None => false
          | Some rest =>
            Ascii.eqb lastc slc
            || match rest with [] => true | c :: _ => Ascii.eqb c slc end
          end)
  end.

(* fs.Readlink: what reaches the caller of a link whose target is t (the buffer is grown
   until the target fits; before the repair this was [firstn 256 t]) *)
Definition readlink_buf (t : bytes) : bytes := t.

(* isLinkToLayer once the target is read; None = panic, Some None = not a link into the layers *)
Definition link_to_layer (prefix target : bytes) : option (option (bytes * bytes)) :=
  match sdod target prefix with
  | None => None
  | Some false => Some None
  | Some true =>
    match split2 slc (skipn (length prefix) target) with
    | (name, Some tail) => Some (Some (name, tail))
    | (name, None) => Some (Some (name, []))
    end
  end.

Definition is_digit (c : ascii) : bool := (48 <=? bn c)%N && (bn c <=? 57)%N.
Definition is_numeric (s : bytes) : bool := forallb is_digit s.
Definition max_u64 : N := 18446744073709551615.
(* strconv.ParseUint(s, 10, 64) with the error ignored: saturates *)
Definition pid_of (s : bytes) : N :=
  N.min (fold_left (fun acc c => (acc * 10 + (bn c - 48))%N) s 0%N) max_u64.

Definition fix_prefix (p : bytes) : bytes :=
  match rev p with
  | c :: _ :: _ => if Ascii.eqb c slc then p else p ++ [slc]
  | _ => p
  end.

(* ---- the scan ---- *)
Definition read_link (f : option err) (truth : option bytes) (missing : err) : bytes + err :=
  match f with
  | Some e => inr e
  | None => match truth with Some t => inl (readlink_buf t) | None => inr missing end
  end.

Definition attribute (prefix : bytes) (pid : N) (prog : bytes) (st : option umap)
    (it : N * (bytes + err)) : option umap :=
  match st with
  | None => None
  | Some m =>
    match snd it with
    | inr _ => Some m
    | inl t =>
      match link_to_layer prefix t with
      | None => None
      | Some None => Some m
      | Some (Some (name, tail)) => Some (add_user m name (MkUser pid (fst it) prog tail))
      end
    end
  end.
Definition scan_links (prefix : bytes) (pid : N) (prog : bytes) (items : list (N * (bytes + err)))
    (m : umap) : option umap :=
  fold_left (attribute prefix pid prog) items (Some m).

(* os.File.Readdir: getdents, then lstat of every name; an entry whose lstat says ENOENT is
   dropped silently, any other lstat error is the error of the whole Readdir *)
Fixpoint readdir_lstat {A} (o : nat -> option err) (i : nat) (l : list A) : option (list (nat * A)) :=
  match l with
  | [] => Some []
  | x :: r =>
    match o i with
    | Some ENOENT => readdir_lstat o (S i) r
    | Some _ => None
    | None => option_map (cons (i, x)) (readdir_lstat o (S i) r)
    end
  end.

Inductive step := Cont (m : umap) | Fail | Pan.

Definition anon : bytes := bs "[anon]".

(* the readlink calls on /proc/<pid>/fd/*; no descriptor is looked at when fd is not a
   directory (stat), cannot be opened, or Readdir(-1) fails (getdents, or an lstat with an
   error other than ENOENT): the process is skipped (fs/inuse.go:81-95; before the repair a
   failing Readdir made the whole scan fail) *)
Definition fd_items (o : rid -> option err) (p : proc) : list (N * (bytes + err)) :=
  match o RFdStat, p_fds p with
  | None, Some fds =>
    match o RFdOpen with
    | Some _ => []
    | None =>
      match o RFdReaddir with
      | Some _ => []
      | None =>
        match readdir_lstat (fun j => o (RFdLstat j)) 0 fds with
        | None => []
        | Some ents =>
          map (fun jf => (K_open, read_link (o (RFdLink (fst jf))) (fd_tgt (snd jf)) EOTHER)) ents
        end
      end
    end
  | _, _ => []
  end.

(* all reads the scan makes of one entry of /proc, in order (they do not depend on what has
   been attributed so far): skipped, fatal, or program name and link reads *)
Inductive preads := PSkip | PFail | PReads (prog : bytes) (items : list (N * (bytes + err))).
Definition proc_reads (o : rid -> option err) (p : proc) : preads :=
  if negb (p_isdir p) || negb (is_numeric (p_name p)) then PSkip else
  let items := [(K_cwd, read_link (o RCwd) (p_cwd p) ENOENT);
                (K_root, read_link (o RRoot) (p_root p) ENOENT);
                (K_exec, read_link (o RExe2) (p_exe p) ENOENT)] ++ fd_items o p in
  match read_link (o RExe) (p_exe p) ENOENT with
  | inr EACCES | inr ESRCH => PSkip      (* inaccessible, or gone since /proc was listed *)
  | inr ENOENT => PReads anon items
  | inr _ => PFail
  | inl t => PReads (pathbase t) items
  end.

Definition scan_proc (prefix : bytes) (o : rid -> option err) (p : proc) (m : umap) : step :=
  match proc_reads o p with
  | PSkip => Cont m
  | PFail => Fail
  | PReads prog items =>
    match scan_links prefix (pid_of (p_name p)) prog items m with
    | None => Pan
    | Some m' => Cont m'
    end
  end.

Fixpoint scan_loop (prefix : bytes) (orc : oracle) (es : list (nat * proc)) (m : umap) : scan_res :=
  match es with
  | [] => SOk m
  | (i, p) :: r =>
    match scan_proc prefix (orc i) p m with
    | Cont m' => scan_loop prefix orc r m'
    | Fail => SErr
    | Pan => SPanic
    end
  end.

Definition find_layer_users (layersdir : bytes) (orc : oracle) (ps : list proc) : scan_res :=
  let prefix := fix_prefix layersdir in
  match orc 0%nat RTopOpen with
  | Some _ => SErr
  | None =>
    match orc 0%nat RTopReaddir with
    | Some _ => SErr
    | None =>
      match readdir_lstat (fun i => orc i RLstat) 0 ps with
      | None => SErr
      | Some es => scan_loop prefix orc es []
      end
    end
  end.

(* ---- manage/probe.go:164-183 ---- *)
Record flags := MkFlags { fl_mb : bool; fl_nmb : bool; fl_chroot : bool }.
Definition flags_beq (a b : flags) : bool :=
  Bool.eqb (fl_mb a) (fl_mb b) && Bool.eqb (fl_nmb a) (fl_nmb b) && Bool.eqb (fl_chroot a) (fl_chroot b).
Definition no_flags : flags := MkFlags false false false.

Definition class_step (u : user) (st : option flags) (mpath : bytes) : option flags :=
  match st with
  | None => None
  | Some f =>
    match sdod (u_file u) mpath with
    | None => None
    | Some b =>
      let f1 := if b then MkFlags true (fl_nmb f) (fl_chroot f) else MkFlags (fl_mb f) true (fl_chroot f) in
      Some (if N.eqb (u_kind u) K_root then MkFlags (fl_mb f1) (fl_nmb f1) true else f1)
    end
  end.
(* mountdirs = [LayerBuildRoot; LayerOvfsWorkdir; LayerOvfsUpperdir]; None = panic *)
Definition classify (mountdirs : list bytes) (users : list user) : option flags :=
  fold_left (fun st u => fold_left (class_step u) mountdirs st) users (Some no_flags).

(* Layerinfo.DescribeUsage without overlay mounts: 1 active chroot, 2 busy, 4 busy; may be
   unmounted, 5 idle *)
Definition usage (f : flags) : N :=
  if fl_chroot f then 1 else if fl_mb f then 2 else if fl_nmb f then 4 else 5.

(* ---- manage/describeUsers.go ---- *)
Record drow := MkRow { r_prog : bytes; r_pid : N; r_mode : N; r_cwd : bytes; r_files : list bytes }.
Definition drow_beq (a b : drow) : bool :=
  beq (r_prog a) (r_prog b) && N.eqb (r_pid a) (r_pid b) && N.eqb (r_mode a) (r_mode b)
  && beq (r_cwd a) (r_cwd b) && list_beq beq (r_files a) (r_files b).

Definition user_le (a b : user) : bool :=
  (u_pid a <? u_pid b)%N || ((u_pid a =? u_pid b)%N && (u_kind a <=? u_kind b)%N).
Fixpoint uinsert (x : user) (l : list user) : list user :=
  match l with
  | [] => [x]
  | y :: r => if user_le x y then x :: l else y :: uinsert x r
  end.
Definition usort (l : list user) : list user := fold_right uinsert [] l.

Record pdata := MkPD { pd_pid : N; pd_chroot : bool; pd_inlayer : bool; pd_cmd : bytes;
                       pd_cwd : bytes; pd_files : list bytes }.
Definition pd0 : pdata := MkPD 0 false false [] [] [].
(* r_mode: 1 running in chroot; 2 running in layer directory; 3 opened files only.
   The order of a process's open files depends on sort.Slice (not stable): compared sorted *)
Definition pd_flush (p : pdata) : list drow :=
  if (pd_pid p <? 1)%N then []
  else [MkRow (pd_cmd p) (pd_pid p)
          (if pd_chroot p then 1 else if pd_inlayer p then 2 else 3)%N
          (pd_cwd p) (Lex.sort (pd_files p))].
Definition pd_step (st : list drow * pdata) (u : user) : list drow * pdata :=
  let '(acc, pd) := st in
  let '(acc1, pd1) :=
    if negb (u_pid u =? pd_pid pd)%N
    then (acc ++ pd_flush pd, MkPD (u_pid u) false false (u_prog u) [] [])
    else (acc, pd) in
  (acc1,
   if (u_kind u =? K_root)%N then MkPD (pd_pid pd1) true (pd_inlayer pd1) (pd_cmd pd1) (pd_cwd pd1) (pd_files pd1)
   else if (u_kind u =? K_cwd)%N then MkPD (pd_pid pd1) (pd_chroot pd1) true (pd_cmd pd1) (u_file u) (pd_files pd1)
   else if (u_kind u =? K_open)%N then MkPD (pd_pid pd1) (pd_chroot pd1) (pd_inlayer pd1) (pd_cmd pd1) (pd_cwd pd1) (pd_files pd1 ++ [u_file u])
   else pd1).
Definition describe (us : list user) : list drow :=
  let '(acc, pd) := fold_left pd_step (usort us) ([], pd0) in acc ++ pd_flush pd.
