(* Executable model of the kernel's mount table as layercake sees it: mount(2) for bind,
   recursive bind, overlay, other file systems, remount and propagation changes; umount(2);
   the table is the list of mountinfo lines (Model.MountInfo.kline) in attachment order.
   This is also the specification of the Go simulated kernel of the harness (harness/simk),
   which is compared with it after every command, and it is refereed against the real kernel
   in the thorough tier.  Assumptions: one mount namespace, all mounts private; see [hidden_at] for mounts
   covered by a later mount. *)
From LC Require Import Lib.Bytes Lib.Lex Lib.Fields Lib.PathM Model.MountInfo Model.FsTree.
Open Scope N_scope.

Fixpoint dec_fuel (f : nat) (n : N) (acc : bytes) : bytes :=
  match f with
  | O => acc
  | S f' => let acc' := nb (48 + n mod 10) :: acc in
            if n / 10 =? 0 then acc' else dec_fuel f' (n / 10) acc'
  end.
Definition dec (n : N) : bytes := dec_fuel 24 n [].

Record kstate := MkKS { ks_tab : list kline; ks_nextid : N; ks_nextdev : N }.

Definition MS_REMOUNT : N := 32.
Definition MS_BIND : N := 4096.
Definition MS_REC : N := 16384.
Definition MS_SLAVE : N := 524288.
Definition MNT_FORCE : N := 1.

(* the mount that contains path p: longest mountpoint at or above p; the later one on ties *)
Definition covering (tab : list kline) (p : bytes) : option kline :=
  fold_left (fun best k =>
    if at_or_under (k_mp k) p then
      match best with
      | Some b0 => if (length (k_mp b0) <=? length (k_mp k))%nat then Some k else best
      | None => Some k
      end
    else best) tab None.

(* the topmost mount whose mountpoint is exactly p *)
Definition top_at (tab : list kline) (p : bytes) : option kline :=
  fold_left (fun best k => if beq (k_mp k) p then Some k else best) tab None.

Definition parent_id (tab : list kline) (p : bytes) : bytes :=
  match covering tab p with Some k => k_id k | None => bs "1" end.

Definition join_root (croot rel : bytes) : bytes :=
  if beq croot root then (match rel with [] => root | _ => rel end) else croot ++ rel.

Definition default_opts : bytes := bs "rw,relatime".

(* a bind of [src] (inside mount c) onto [tgt] *)
Definition bind_line (id : N) (tab : list kline) (c : kline) (src tgt : bytes) : kline :=
  MkK (dec id) (parent_id tab tgt) (k_dev c) (join_root (k_root c) (rel_suffix (k_mp c) src)) tgt
      default_opts [] (k_fstype c) (k_source c) (k_sopts c).

(* copies of the mounts strictly below src, re-rooted under tgt (recursive bind) *)
Fixpoint rbind_copies (id : N) (tab : list kline) (subs : list kline) (src tgt : bytes)
  : list kline * N :=
  match subs with
  | [] => (tab, id)
  | m :: r =>
    let mp' := tgt ++ rel_suffix src (k_mp m) in
    let line := MkK (dec id) (parent_id tab mp') (k_dev m) (k_root m) mp' (k_opts m) []
                    (k_fstype m) (k_source m) (k_sopts m) in
    rbind_copies (id + 1) (tab ++ [line]) r src tgt
  end.

Definition has_flag (flags f : N) : bool := negb (N.land flags f =? 0).

Definition parse_data (data : bytes) : list (bytes * option bytes) :=
  match data with
  | [] => []
  | _ => map (fun part => match split2 eqc part with (k, v) => (k, v) end) (split comma data)
  end.
Definition data_get (key : bytes) (kvs : list (bytes * option bytes)) : bytes := last_opt key kvs [].

Inductive kres := KOk (ks : kstate) | KErr.

Definition kmount (fs : fsT) (ks : kstate) (src tgt fstype : bytes) (flags : N) (data : bytes) : kres :=
  let tab := ks_tab ks in
  if has_flag flags MS_REMOUNT then
    match top_at tab tgt with Some _ => KOk ks | None => KErr end
  else if has_flag flags MS_SLAVE then
    match top_at tab tgt with Some _ => KOk ks | None => KErr end
  else if negb (exists_ fs tgt) then KErr
  else if has_flag flags MS_BIND then
    if negb (exists_ fs src) then KErr else
    match covering tab src with
    | None => KErr
    | Some c =>
      let id := ks_nextid ks in
      let tab1 := tab ++ [bind_line id tab c src tgt] in
      if has_flag flags MS_REC then
        let subs := filter (fun m => under src (k_mp m)) tab in
        let '(tab2, id2) := rbind_copies (id + 1) tab1 subs src tgt in
        KOk (MkKS tab2 id2 (ks_nextdev ks))
      else KOk (MkKS tab1 (id + 1) (ks_nextdev ks))
    end
  else if beq fstype overlay then
    let kvs := parse_data data in
    let lo := data_get (bs "lowerdir") kvs in
    let up := data_get (bs "upperdir") kvs in
    let wk := data_get (bs "workdir") kvs in
    if is_dir fs lo && is_dir fs up && is_dir fs wk && is_dir fs tgt then
      let line := MkK (dec (ks_nextid ks)) (parent_id tab tgt) (bs "0:" ++ dec (ks_nextdev ks)) root tgt
                      default_opts [] overlay src
                      [(bs "rw", None); (bs "lowerdir", Some lo); (bs "upperdir", Some up);
                       (bs "workdir", Some wk)] in
      KOk (MkKS (tab ++ [line]) (ks_nextid ks + 1) (ks_nextdev ks + 1))
    else KErr
  else
    match fstype with
    | [] => KErr
    | _ =>
      let line := MkK (dec (ks_nextid ks)) (parent_id tab tgt) (bs "0:" ++ dec (ks_nextdev ks)) root tgt
                      default_opts [] fstype src [(bs "rw", None)] in
      KOk (MkKS (tab ++ [line]) (ks_nextid ks + 1) (ks_nextdev ks + 1))
    end.

(* remove the last line whose id is [id] *)
Definition remove_id (tab : list kline) (id : bytes) : list kline :=
  filter (fun k => negb (beq (k_id k) id)) tab.

(* Hidden mounts.  A mount stays in the table (and in /proc/self/mountinfo) when a LATER mount is
   made on one of the ancestor directories of its mountpoint: import at <build>/var/db/repos, then
   a tmpfs (or a non-recursive bind) on <build>/var/db.  The later mount covers the directory tree
   the mountpoint lies in; path resolution of <build>/var/db/repos now goes through the cover and
   never reaches the dentry the older mount is attached to.  The older mount is hidden: still
   listed, not reachable by its path.  umount(2) of the path fails -- ENOENT when the directory
   is absent in the cover (empty tmpfs), EINVAL when it is present (then it is a plain directory,
   "not a mountpoint") -- until the cover has been unmounted.

   The rule: [hidden_at tab p] = after the LAST line whose mountpoint is p there is a line whose
   mountpoint is a strict ancestor directory of p.
   * Only later lines count.  Lines are in attachment order, so a line at an ancestor that is
     EARLIER than the line at p is part of p's own parent chain (the overlay on <build>, then the
     import inside it) and hides nothing.
   * Stacked mounts on one mountpoint: the rule looks at the topmost (last) line at p, the one
     umount(2) would detach.  With [Y at /a/b/c; Z at /a/b; Y2 at /a/b; W at /a/b/c] the first
     umount of /a/b/c detaches W (nothing later lies above it), the second fails: Y is now the
     last line at /a/b/c and Z, Y2 come after it.
   * Copies carried by a recursive bind keep the relative order of their originals
     (rbind_copies), so a hidden original gives a hidden copy, as on Linux (copy_tree clones hidden
     children too).
   Validated on Linux 6.18 in a private mount namespace (tmpfs on a/b, tmpfs on a: umount a/b
   fails, after umount a it succeeds; the stacked case and the rbind case above) and refereed by
   harness/cdom/referee.go.
   Approximations: (1) the file tree of this model is not affected by mounts, so whether the
   cover contains the directory is not known; both errno values are the one outcome KErr.
   (2) mount(2) is not aware of covers: [covering] and the submount selection of a recursive bind
   go by path prefixes, so a mount onto, or a recursive bind from, a path at or below a hidden
   mountpoint is outside the validated domain (the generators make covers only as the last
   disturbance before umount / probe steps). *)
Definition hidden_at (tab : list kline) (p : bytes) : bool :=
  fold_left (fun h k => if beq (k_mp k) p then false else if under (k_mp k) p then true else h) tab false.

(* [nocov P tab]: no line selected by P has a LATER line mounted on a strict ancestor directory of
   its mountpoint, i.e. none of them is hidden or can become hidden by unmounting what is stacked
   on it. *)
Fixpoint nocov (P : kline -> bool) (tab : list kline) : bool :=
  match tab with
  | [] => true
  | k :: r => (negb (P k) || forallb (fun m => negb (under (k_mp m) (k_mp k))) r) && nocov P r
  end.

Definition kumount (ks : kstate) (tgt : bytes) (flags : N) : kres :=
  match top_at (ks_tab ks) tgt with
  | None => KErr
  | Some k =>
    if hidden_at (ks_tab ks) tgt then KErr
    else if existsb (fun m => beq (k_parent m) (k_id k) && negb (beq (k_id m) (k_id k))) (ks_tab ks)
    then KErr
    else KOk (MkKS (remove_id (ks_tab ks) (k_id k)) (ks_nextid ks) (ks_nextdev ks))
  end.

Definition kline_beq (a b : kline) : bool :=
  beq (k_id a) (k_id b) && beq (k_parent a) (k_parent b) && beq (k_dev a) (k_dev b)
  && beq (k_root a) (k_root b) && beq (k_mp a) (k_mp b) && beq (k_opts a) (k_opts b)
  && list_beq beq (k_optional a) (k_optional b) && beq (k_fstype a) (k_fstype b)
  && beq (k_source a) (k_source b)
  && list_beq (fun x y => beq (fst x) (fst y) && opt_beq beq (snd x) (snd y)) (k_sopts a) (k_sopts b).
Definition ktab_beq (a b : list kline) : bool := list_beq kline_beq a b.
