(* Executable model of package manage (layers.go, probe.go, layerinfo.go, normalizeOrder.go,
   exports.go, layerfile.go, init.go), of the fs wrappers it bottoms out in (fs/move.go,
   fs/directories.go, fs/outputFileCursor.go, fs/pretender.go, fs/pathadjust.go) and of one
   whole invocation (FindLayers + ProbeAllLayerstate + command) as cmd/layercake runs it.
   A state monad threads the world (file tree + kernel table), the count and log of mutating
   operations, and the fault plan (none / k-th operation fails / crash before the k-th).
   Definitions only. *)
From LC Require Import Lib.Bytes Lib.Lex Lib.Fields Lib.PathM Gen.Consts
  Model.MountInfo Model.FsTree Model.Kernel.
Open Scope N_scope.

(* ------------------------------------------------------------------ configuration *)
Record cfgT := MkCfg {
  c_base : bytes; c_layers : bytes; c_buildroot : bytes; c_binpkg : bytes; c_gen : bytes;
  c_work : bytes; c_upper : bytes; c_exports : bytes; c_exp_binpkg : bytes; c_exp_gen : bytes }.

(* ------------------------------------------------------------------ layers *)
Record nmount := MkNM { nm_mount : bytes; nm_source : bytes; nm_fstype : bytes }.
Definition nmount_beq (a b : nmount) : bool :=
  beq (nm_mount a) (nm_mount b) && beq (nm_source a) (nm_source b) && beq (nm_fstype a) (nm_fstype b).

Definition st_empty : N := 0.        Definition st_error : N := 1.
Definition st_incomplete : N := 2.   Definition st_complete : N := 3.
Definition st_inhabited : N := 4.    Definition st_mountable : N := 5.
Definition st_partial : N := 6.      Definition st_mounted : N := 7.
Definition st_mounted_busy : N := 8.

Record layer := MkL {
  l_name : bytes; l_base : bytes; l_mounts : list nmount; l_exports : list nmount;
  l_path : bytes; l_state : N;
  l_mbusy : bool; l_nmbusy : bool; l_overlain : bool; l_chroot : bool;
  l_kmounts : list bytes }.          (* mountpoints of Layerinfo.Mounts, sorted, stacked ones repeated *)

Definition set_state (l : layer) (s : N) : layer :=
  MkL (l_name l) (l_base l) (l_mounts l) (l_exports l) (l_path l) s
      (l_mbusy l) (l_nmbusy l) (l_overlain l) (l_chroot l) (l_kmounts l).
Definition set_kmounts (l : layer) (m : list bytes) : layer :=
  MkL (l_name l) (l_base l) (l_mounts l) (l_exports l) (l_path l) (l_state l)
      (l_mbusy l) (l_nmbusy l) (l_overlain l) (l_chroot l) m.
Definition set_busy (l : layer) (mb nb ch : bool) : layer :=
  MkL (l_name l) (l_base l) (l_mounts l) (l_exports l) (l_path l) (l_state l)
      mb nb (l_overlain l) ch (l_kmounts l).
Definition set_overlain (l : layer) (o : bool) : layer :=
  MkL (l_name l) (l_base l) (l_mounts l) (l_exports l) (l_path l) (l_state l)
      (l_mbusy l) (l_nmbusy l) o (l_chroot l) (l_kmounts l).
Definition set_base (l : layer) (b0 : bytes) : layer :=
  MkL (l_name l) b0 (l_mounts l) (l_exports l) (l_path l) (l_state l)
      (l_mbusy l) (l_nmbusy l) (l_overlain l) (l_chroot l) (l_kmounts l).
Definition set_name_path (l : layer) (n p : bytes) : layer :=
  MkL n (l_base l) (l_mounts l) (l_exports l) p (l_state l)
      (l_mbusy l) (l_nmbusy l) (l_overlain l) (l_chroot l) (l_kmounts l).

(* layermap: association list, at most one entry per name *)
Definition lmap := list layer.
Fixpoint lm_get (m : lmap) (n : bytes) : option layer :=
  match m with [] => None | l :: r => if beq (l_name l) n then Some l else lm_get r n end.
Fixpoint lm_set (m : lmap) (l : layer) : lmap :=
  match m with
  | [] => [l]
  | x :: r => if beq (l_name x) (l_name l) then l :: r else x :: lm_set r l
  end.
Definition lm_del (m : lmap) (n : bytes) : lmap := filter (fun l => negb (beq (l_name l) n)) m.

Record ldefs := MkLD { ld_map : lmap; ld_order : list bytes; ld_probe : probe_res }.

(* ------------------------------------------------------------------ effects *)
Inductive op :=
| OMkdir (p : bytes) | OWriteText (p : bytes) | OOpen (p : bytes) | OAppend (p : bytes)
| ORename (a b0 : bytes) | ORemove (p : bytes) | OSymlink (link target : bytes)
| OMount (src tgt fstype : bytes) (flags : N) (data : bytes) | OUmount (tgt : bytes) (flags : N).

Definition op_beq (x y : op) : bool :=
  match x, y with
  | OMkdir a, OMkdir b0 => beq a b0
  | OWriteText a, OWriteText b0 => beq a b0
  | OOpen a, OOpen b0 => beq a b0
  | OAppend a, OAppend b0 => beq a b0
  | ORename a a2, ORename b0 b2 => beq a b0 && beq a2 b2
  | ORemove a, ORemove b0 => beq a b0
  | OSymlink a a2, OSymlink b0 b2 => beq a b0 && beq a2 b2
  | OMount s t f fl d, OMount s2 t2 f2 fl2 d2 =>
      beq s s2 && beq t t2 && beq f f2 && (fl =? fl2) && beq d d2
  | OUmount t fl, OUmount t2 fl2 => beq t t2 && (fl =? fl2)
  | _, _ => false
  end.

Inductive fault := NoFault | FailAt (k : nat) | CrashAt (k : nat).
Record env := MkEnv {
  e_pretend : bool; e_fault : fault; e_force : bool; e_verbose : bool;
  e_order : list bytes }.            (* oracle: the order in which Go's map iteration visited children *)

Record world := MkW { w_fs : fsT; w_ks : kstate }.
Record mst := MkSt { s_w : world; s_n : nat; s_log : list op }.   (* log reversed *)

Inductive outcome (A : Type) := Ret (a : A) | Fail | Crashed | Diverged | Panicked.
Arguments Ret {A}. Arguments Fail {A}. Arguments Crashed {A}. Arguments Diverged {A}. Arguments Panicked {A}.

Definition M (A : Type) := mst -> outcome A * mst.
Definition ret {A} (a : A) : M A := fun s => (Ret a, s).
Definition fail {A} : M A := fun s => (Fail, s).
Definition diverge {A} : M A := fun s => (Diverged, s).
Definition panic {A} : M A := fun s => (Panicked, s).
Definition bind {A B} (m : M A) (f : A -> M B) : M B := fun s =>
  match m s with
  | (Ret a, s') => f a s'
  | (Fail, s') => (Fail, s')
  | (Crashed, s') => (Crashed, s')
  | (Diverged, s') => (Diverged, s')
  | (Panicked, s') => (Panicked, s')
  end.
Notation "x <- m ;; f" := (bind m (fun x => f)) (at level 61, m at next level, right associativity).
Notation "m ;;; f" := (bind m (fun _ => f)) (at level 61, right associativity).

Definition get_fs : M fsT := fun s => (Ret (w_fs (s_w s)), s).
Definition get_ks : M kstate := fun s => (Ret (w_ks (s_w s)), s).
Definition put_fs (f : fsT) : M unit := fun s => (Ret tt, MkSt (MkW f (w_ks (s_w s))) (s_n s) (s_log s)).
Definition put_ks (k : kstate) : M unit := fun s => (Ret tt, MkSt (MkW (w_fs (s_w s)) k) (s_n s) (s_log s)).

(* every mutating primitive: skipped entirely under -p (fs.WriteOK), else counted, logged,
   subject to the fault plan, then applied *)
Definition apply_op (o : op) : M unit :=
  f <- get_fs ;; k <- get_ks ;;
  let on_f (r : fres) : M unit := match r with FOk f' => put_fs f' | FErr => fail end in
  match o with
  | OMkdir p => on_f (mkdir_all f p)
  | OWriteText p => ret tt                      (* content applied by the caller (needs the bytes) *)
  | OOpen p => on_f (open_trunc f p)
  | OAppend p => ret tt
  | ORename a b0 => on_f (rename f a b0)
  | ORemove p => on_f (remove_all f p)
  | OSymlink l t => on_f (symlink f l t)
  | OMount s t ty fl d => match kmount f k s t ty fl d with KOk k' => put_ks k' | KErr => fail end
  | OUmount t fl => match kumount k t fl with KOk k' => put_ks k' | KErr => fail end
  end.

Definition mutate (e : env) (o : op) (act : M unit) : M unit := fun s =>
  if e_pretend e then (Ret tt, s) else
  let n := s_n s in
  let hit k := Nat.eqb n k in
  match e_fault e with
  | CrashAt k => if hit k then (Crashed, s) else act (MkSt (s_w s) (S n) (o :: s_log s))
  | FailAt k => if hit k then (Fail, MkSt (s_w s) (S n) (o :: s_log s))
                else act (MkSt (s_w s) (S n) (o :: s_log s))
  | NoFault => act (MkSt (s_w s) (S n) (o :: s_log s))
  end.
Definition do_op (e : env) (o : op) : M unit := mutate e o (apply_op o).

(* fs wrappers *)
Definition fs_mkdir e p := do_op e (OMkdir p).
Definition fs_rename e a b0 := do_op e (ORename a b0).
Definition fs_remove e p := do_op e (ORemove p).
Definition fs_symlink e link target := do_op e (OSymlink link target).
Definition fs_write_text e p c :=
  mutate e (OWriteText p)
    (f <- get_fs ;; match write_text f p c with FOk f' => put_fs f' | FErr => fail end).

Definition mount_flags (fstype : bytes) : N :=
  if beq fstype (bs "bind") then MS_BIND
  else if beq fstype (bs "rbind") then MS_BIND + MS_REC
  else if beq fstype (bs "remount") then MS_REMOUNT
  else 0.
Definition propagation_sources : list bytes := [bs "/dev"; bs "/sys"; bs "/run"].
(* fs.Mount *)
Definition fs_mount e (src tgt fstype data : bytes) : M unit :=
  do_op e (OMount src tgt fstype (mount_flags fstype) data) ;;;
  if memb src propagation_sources
  then do_op e (OMount [] tgt [] (MS_SLAVE + MS_REC) data)
  else ret tt.
Definition fs_unmount e (tgt : bytes) : M unit :=
  do_op e (OUmount tgt (if e_force e then MNT_FORCE else 0)).

(* ------------------------------------------------------------------ layerconfig files *)
Definition nl : ascii := nb 10.
Definition cr : ascii := nb 13.
Definition strip_cr (l : bytes) : bytes :=
  match rev l with c :: r => if Ascii.eqb c cr then rev r else l | [] => l end.
(* bufio.ScanLines *)
Definition scan_lines (s : bytes) : list bytes :=
  match s with
  | [] => []
  | _ => let ls := split nl s in
         map strip_cr (match rev ls with [] :: r => rev r | _ => ls end)
  end.
Definition is_comment (t : bytes) : bool :=
  match t with
  | [] => true
  | c :: r => (bn c =? 35) || (match r with d :: _ => (bn c =? 47) && (bn d =? 47) | [] => false end)
  end.

Record lfile := MkLF { lf_base : bytes; lf_mounts : list nmount; lf_exports : list nmount; lf_errors : nat }.

Definition lf_step (st : lfile) (line : bytes) : lfile :=
  let t := trim line in
  if is_comment t then st else
  match fields t with
  | [] => st
  | kw :: args =>
    let err := MkLF (lf_base st) (lf_mounts st) (lf_exports st) (S (lf_errors st)) in
    if beq kw (bs "base") then
      match args with
      | [] => err
      | b0 :: _ => match lf_base st with
                   | [] => MkLF b0 (lf_mounts st) (lf_exports st) (lf_errors st)
                   | old => if beq old b0 then st else err
                   end
      end
    else if beq kw (bs "import") then
      match args with
      | ty :: src :: mnt :: _ =>
        MkLF (lf_base st) (lf_mounts st ++ [MkNM (clean (sl :: mnt)) (clean src) ty]) (lf_exports st) (lf_errors st)
      | _ => err
      end
    else if beq kw (bs "export") then
      match args with
      | ty :: src :: mnt :: _ =>
        MkLF (lf_base st) (lf_mounts st) (lf_exports st ++ [MkNM (clean mnt) (clean src) ty]) (lf_errors st)
      | _ => err
      end
    else err
  end.
Definition read_layerfile (content : bytes) : lfile :=
  fold_left lf_step (scan_lines content) (MkLF [] [] [] 0).

(* the chunks WriteLayerfile hands to Printf, in order *)
Definition spc : ascii := nb 32.
Definition lf_line (kw : bytes) (m : nmount) : bytes :=
  kw ++ spc :: nm_fstype m ++ spc :: nm_source m ++ spc :: nm_mount m ++ [nl].
Definition layerfile_chunks (base : bytes) (mounts exports : list nmount) : list bytes :=
  (match base with [] => [] | _ => [bs "base " ++ base ++ [nl; nl]] end)
  ++ map (lf_line (bs "import")) mounts
  ++ (match exports with [] => [] | _ => [[nl]] end)
  ++ map (lf_line (bs "export")) exports.

Definition tmp_suffix : bytes := bs ".tmp".

(* TextOutputFileCursor on a named file: write a temporary file, rename it into place on Close;
   the first failing write stops further writes and Close reports it after removing the
   temporary file *)
Fixpoint cursor_writes e (tmp : bytes) (chunks : list bytes) : M unit :=
  match chunks with
  | [] => ret tt
  | c :: r =>
    mutate e (OAppend tmp) (f <- get_fs ;; put_fs (append_file f tmp c)) ;;;
    cursor_writes e tmp r
  end.
Definition drop_tmp (tmp : bytes) : M unit :=
  f <- get_fs ;; put_fs (filter (fun x => negb (beq (fst x) tmp)) f).
Definition write_file_atomically e (p : bytes) (chunks : list bytes) : M unit := fun s =>
  let tmp := p ++ tmp_suffix in
  match do_op e (OOpen tmp) s with
  | (Ret _, s1) =>
    match cursor_writes e tmp chunks s1 with
    | (Ret _, s2) =>
      match do_op e (ORename tmp p) s2 with
      | (Fail, s3) => (match drop_tmp tmp s3 with (_, s4) => (Fail, s4) end)
      | r => r
      end
    | (Fail, s2) => (match drop_tmp tmp s2 with (_, s3) => (Fail, s3) end)
    | r => r
    end
  | r => r
  end.

(* ------------------------------------------------------------------ paths *)
Definition layer_path (c : cfgT) (n : bytes) : bytes := pathjoin [c_layers c; n].
Definition layerconfig_path (l : layer) : bytes := pathjoin [l_path l; D_LayerconfigFile].
Definition build_path (c : cfgT) (l : layer) : bytes := pathjoin [l_path l; c_buildroot c].
Definition work_path (c : cfgT) (l : layer) : bytes := pathjoin [l_path l; c_work c].
Definition upper_path (c : cfgT) (l : layer) : bytes := pathjoin [l_path l; c_upper c].

Definition write_layerfile e (l : layer) : M unit :=
  write_file_atomically e (layerconfig_path l) (layerfile_chunks (l_base l) (l_mounts l) (l_exports l)).

(* ------------------------------------------------------------------ names *)
(* isLegalLayerName: Go decodes the name as UTF-8 runes and accepts every Unicode letter
   (category L), every decimal digit (Nd), '_', and '-' except at byte position 0.
   Modelled here: the ASCII letters and digits, '_', '-', and the two-byte UTF-8 sequences
   (lead byte, continuation byte 0x80..0xBF) whose code point lies in one of the ranges
       U+00C0..U+00D6  U+00D8..U+00F6  U+00F8..U+02AF  U+0410..U+044F
   (Latin-1 letters without U+00D7 and U+00F7, Latin Extended-A/B, IPA extensions, basic
   Cyrillic).  Every code point of these ranges is of category L and none is white space
   (checked against Go's unicode tables, docs/proofs-C02.md).  Any other byte >= 128 (a
   sequence outside the ranges, a stray continuation byte, a truncated sequence, a longer
   sequence) makes the functions below answer false; such names are outside the modelled
   domain (LC.wf excludes them by [name_bytes_ok], which is built on the same decoder). *)
Definition is_alnum (c : ascii) : bool :=
  let n := bn c in ((48 <=? n) && (n <=? 57)) || ((65 <=? n) && (n <=? 90)) || ((97 <=? n) && (n <=? 122)).
(* code point of the two-byte sequence a b (meaningful when 0xC2 <= a <= 0xDF, 0x80 <= b <= 0xBF) *)
Definition utf2_cp (a b : ascii) : N := (bn a - 192) * 64 + (bn b - 128).
Definition letter_cp (n : N) : bool :=
  ((192 <=? n) && (n <=? 214)) || ((216 <=? n) && (n <=? 246)) || ((248 <=? n) && (n <=? 687))
  || ((1040 <=? n) && (n <=? 1103)).
Definition utf2_letter (a b : ascii) : bool :=
  (194 <=? bn a) && (bn a <=? 223) && (128 <=? bn b) && (bn b <=? 191) && letter_cp (utf2_cp a b).
(* characters allowed after the first position / in the first position, one byte long *)
Definition legal_char (c : ascii) : bool := is_alnum c || (bn c =? 95) || (bn c =? 45).
Definition legal_char1 (c : ascii) : bool := is_alnum c || (bn c =? 95).
Fixpoint legal_rest (s : bytes) : bool :=
  match s with
  | [] => true
  | c :: r =>
    if legal_char c then legal_rest r
    else match r with
         | d :: r' => utf2_letter c d && legal_rest r'
         | [] => false
         end
  end.
Definition legal_name (s : bytes) : bool :=
  match s with
  | [] => true
  | c :: r =>
    if legal_char1 c then legal_rest r
    else match r with
         | d :: r' => utf2_letter c d && legal_rest r'
         | [] => false
         end
  end.

(* the byte strings of the modelled domain (LC.wf): every byte >= 128 belongs to a well-formed
   two-byte sequence of the ranges above *)
Fixpoint name_bytes_ok (s : bytes) : bool :=
  match s with
  | [] => true
  | c :: r =>
    if bn c <? 128 then name_bytes_ok r
    else match r with
         | d :: r' => utf2_letter c d && name_bytes_ok r'
         | [] => false
         end
  end.

Inductive ntest := NNeed | NFree | NOptNeed.
Definition test_name (m : lmap) (n : bytes) (t : ntest) : bool :=     (* true = passes *)
  match n with
  | [] => match t with NOptNeed => true | _ => false end
  | _ => legal_name n &&
         match t with
         | NFree => match lm_get m n with Some _ => false | None => true end
         | _ => match lm_get m n with Some _ => true | None => false end
         end
  end.

(* ------------------------------------------------------------------ FindLayers *)
Definition load_layer (c : cfgT) (f : fsT) (n : bytes) : option layer :=
  let p := layer_path c n in
  match (if is_file f (pathjoin [p; D_LayerconfigFile]) then read_file f (pathjoin [p; D_LayerconfigFile]) else None) with
  | None => None
  | Some content =>
    let lf := read_layerfile content in
    Some (MkL n (lf_base lf) (lf_mounts lf) (lf_exports lf) p
              (match lf_errors lf with O => st_empty | _ => st_error end)
              false false false false [])
  end.

Fixpoint insert_name (x : bytes) (l : list bytes) : list bytes :=
  match l with [] => [x] | y :: r => if ltb y x then y :: insert_name x r else x :: l end.

Definition read_layer_files (c : cfgT) (f : fsT) : lmap :=
  fold_right (fun n acc => if legal_name n then
                             match load_layer c f n with Some l => l :: acc | None => acc end
                           else acc)
             [] (Lex.sort (children f (c_layers c))).

(* checkInheritance: every base chain ends without revisiting a layer *)
Fixpoint chain_ok (fuel : nat) (m : lmap) (visited : list bytes) (base : bytes) : bool :=
  match base with
  | [] => true
  | _ =>
    match fuel with
    | O => false
    | S fuel' =>
      match lm_get m base with
      | None => false
      | Some l => if memb (l_name l) visited then false
                  else chain_ok fuel' m (l_name l :: visited) (l_base l)
      end
    end
  end.
Definition check_inheritance (m : lmap) : bool :=
  forallb (fun l => chain_ok (S (length m)) m [l_name l] (l_base l)) m.

(* normalizeOrder: sort names by "/"-joined ancestor chain; None = the walk does not end *)
Fixpoint sort_key (fuel : nat) (m : lmap) (l : layer) (s : bytes) : option bytes :=
  match fuel with
  | O => None
  | S fuel' =>
    let s' := l_base l ++ sl :: s in
    match l_base l with
    | [] => Some s'
    | b0 => match lm_get m b0 with
            | None => None
            | Some p => sort_key fuel' m p s'
            end
    end
  end.
Fixpoint keyed_insert (x : bytes * bytes) (l : list (bytes * bytes)) : list (bytes * bytes) :=
  match l with [] => [x] | y :: r => if ltb (fst y) (fst x) then y :: keyed_insert x r else x :: l end.
Definition normalize_order (m : lmap) : option (list bytes) :=
  let keyed := map (fun l => match sort_key (S (length m)) m l (l_name l) with
                             | Some k => Some (k, l_name l) | None => None end) m in
  if forallb (fun x => match x with Some _ => true | None => false end) keyed then
    Some (map snd (fold_right keyed_insert []
                     (flat_map (fun x => match x with Some kv => [kv] | None => [] end) keyed)))
  else None.

(* ------------------------------------------------------------------ probing *)
Definition pr_mounts (p : probe_res) : list mount := match p with POk ms _ => ms | PPanic => [] end.
Definition pr_devs (p : probe_res) : list device := match p with POk _ ds => ds | PPanic => [] end.

(* GetMountAndSubmounts: every mount (stacked ones included) at or below p, sorted by mountpoint *)
Definition mounts_at_or_below (p : probe_res) (d : bytes) : list bytes :=
  Lex.sort (filter (MountInfo.at_or_below d) (map m_mp (pr_mounts p))).

Definition probe_of (k : kstate) : probe_res := probe (render (ks_tab k)).

Definition refresh_mounts (c : cfgT) (ld : ldefs) : M ldefs :=
  k <- get_ks ;;
  let p := probe_of k in
  match p with
  | PPanic => panic
  | POk ms _ =>
    let lows := map m_source (filter (fun m => beq (m_fstype m) overlay) ms) in
    ret (MkLD (map (fun l => set_overlain l (memb (build_path c l) lows)) (ld_map ld)) (ld_order ld) p)
  end.

(* fs.AdjustPrefixedPath with relativeTo = "" *)
Definition is_sigil (ch : ascii) : bool := (bn ch =? 126) || (bn ch =? 36).
Fixpoint span_while (f : ascii -> bool) (s : bytes) : bytes * bytes :=
  match s with
  | [] => ([], [])
  | ch :: r => if f ch then let '(a, b0) := span_while f r in (ch :: a, b0) else ([], s)
  end.
Definition adjust_prefixed (p : bytes) (callback : bytes -> option bytes) : option bytes :=
  match p with
  | [] => Some []
  | _ =>
    let '(sigil, rest) := span_while is_sigil p in
    let '(name, tail) := span_while (fun ch => negb (Ascii.eqb ch sl)) rest in
    let newpath :=
      match sigil with
      | [] => Some p
      | _ => if beq sigil (bs "$$") then
               match callback name with Some pre => Some (pathjoin [pre; tail]) | None => None end
             else None          (* "~user" needs the password database: outside the model; others illegal *)
      end in
    match newpath with
    | Some (ch :: r) => if Ascii.eqb ch sl then Some (ch :: r) else None
    | Some [] => Some []
    | None => None
    end
  end.

Record xmount := MkX { x_mount : bytes; x_source : bytes; x_fstype : bytes; x_umount : bytes }.

Fixpoint find_layer_base (fuel : nat) (m : lmap) (l : layer) : option layer :=
  match l_base l with
  | [] => Some l
  | b0 => match fuel with
          | O => None
          | S f' => match lm_get m b0 with Some p => find_layer_base f' m p | None => None end
          end
  end.

Fixpoint map_opt {A B} (f : A -> option B) (l : list A) : option (list B) :=
  match l with
  | [] => Some []
  | x :: r => match f x, map_opt f r with Some y, Some ys => Some (y :: ys) | _, _ => None end
  end.

Definition expand_config_mounts (c : cfgT) (m : lmap) (l : layer) : option (list xmount) :=
  let cb := fun name =>
    if beq name (bs "base") then
      match find_layer_base (S (length m)) m l with Some b0 => Some (l_path b0) | None => None end
    else if beq name (bs "self") then Some (l_path l) else None in
  map_opt (fun nm => match adjust_prefixed (nm_source nm) cb with
                     | Some src => Some (MkX (pathjoin [build_path c l; nm_mount nm]) src (nm_fstype nm) (nm_mount nm))
                     | None => None end) (l_mounts l).

Definition expand_config_exports (c : cfgT) (l : layer) : option (list xmount) :=
  let cb := fun name =>
    if beq name (bs "package_export") then Some (pathjoin [c_exports c; c_exp_binpkg c; l_name l])
    else if beq name (bs "file_export") then Some (pathjoin [c_exports c; c_exp_gen c; l_name l])
    else None in
  map_opt (fun nm => match adjust_prefixed (nm_mount nm) cb with
                     | Some tgt => Some (MkX tgt (pathjoin [l_path l; c_buildroot c; nm_source nm]) (nm_fstype nm) (nm_mount nm))
                     | None => None end) (l_exports l).

(* inAnyLayerDirectory *)
Fixpoint in_any_layer_dir (fuel : nat) (rootdir p : bytes) : bool :=
  if (length p <? length rootdir)%nat then false
  else if beq p rootdir then true
  else match fuel with O => false | S f' => in_any_layer_dir f' rootdir (pathdir p) end.

Definition minimal_dirs_present (f : fsT) (buildroot : bytes) : bool :=
  forallb (fun n => is_dir f (pathjoin [buildroot; n])) (split spc D_MinimalBuildDirs).

(* fs.IsDescendant(dir, test) through filepath.Rel of two clean absolute paths *)
Definition is_descendant (d t : bytes) : bool :=
  under d t && match rel_suffix d t with _ :: ch :: _ => negb (bn ch =? 46) | _ => false end.

(* findLayerstate *)
Definition find_layerstate (c : cfgT) (f : fsT) (ld : ldefs) (l : layer) : layer :=
  let builddir := build_path c l in
  let l := set_kmounts l (mounts_at_or_below (ld_probe ld) builddir) in
  if l_state l <? st_complete then l else
  let ms := pr_mounts (ld_probe ld) in
  let ds := pr_devs (ld_probe ld) in
  let l := set_state l st_complete in
  let derived := match l_base l with [] => false | _ => true end in
  let stage1 : option (layer * N) :=        (* None = stop with l as is; Some (l, numMounted) = go on *)
    if derived then
      match lm_get (ld_map ld) (l_base l) with
      | None => None
      | Some bl =>
        if l_state bl <? st_mountable then None else
        match get_mount ms builddir with
        | None => None
        | Some mnt => Some (l, 1)
        end
      end
    else if minimal_dirs_present f builddir then Some (l, 0) else None in
  (* the derived-layer branch has several distinct exits; spell them out *)
  let derived_exit : option layer :=
    if derived then
      match lm_get (ld_map ld) (l_base l) with
      | None => Some l
      | Some bl =>
        if l_state bl <? st_mountable then Some l else
        match get_mount ms builddir with
        | None => Some (set_state l st_mountable)
        | Some mnt =>
          if negb (beq (m_fstype mnt) overlay) then Some (set_state l st_error)
          else if negb (beq (m_source mnt) (build_path c bl)) || negb (beq (m_source2 mnt) (upper_path c l))
                  || negb (beq (m_workdir mnt) (work_path c l)) then Some (set_state l st_error)
          else if negb (minimal_dirs_present f builddir) then Some l
          else None
        end
      end
    else if minimal_dirs_present f builddir then None else Some l in
  match derived_exit with
  | Some l' => l'
  | None =>
    let num0 : N := if derived then 1 else 0 in
    let l := set_state l st_inhabited in
    match expand_config_mounts c (ld_map ld) l with
    | None => l
    | Some xs =>
      (* (numMounted, incorrect, missing) *)
      let step := fun (acc : N * bool * bool) (x : xmount) =>
        let '(num, bad, missing) := acc in
        if negb (exists_ f (x_mount x)) then (num, bad, true)
        else if is_abs (x_source x) && negb (exists_ f (x_source x))
                && negb (in_any_layer_dir 64 (c_layers c) (x_source x))
        then (num, bad || match get_mount ms (x_mount x) with Some _ => true | None => false end, true)
        else match get_mount ms (x_mount x) with
             | None => acc
             | Some mnt =>
               let is_bind := beq (x_fstype x) (bs "bind") || beq (x_fstype x) (bs "rbind") in
               (num + 1,
                bad || negb (source_is_expected ds mnt (x_source x))
                    || (negb is_bind && negb (beq (m_fstype mnt) (x_fstype x))),
                missing)
             end in
      let '(num, bad, missing) := fold_left step xs (num0, false, false) in
      let estep := fun (acc : bool * bool) (x : xmount) =>
        let '(bad, missing) := acc in
        if negb (is_descendant builddir (x_source x)) && negb (beq builddir (x_source x)) then (true, missing)
        else if negb (exists_ f (x_source x)) then (bad, true)
        else if is_symlink f (x_mount x) then
          match readlink f (x_mount x) with
          | Some t => (bad || negb (beq (x_source x) t), missing)
          | None => (true, missing)
          end
        else acc in
      let '(bad, missing) :=
        match expand_config_exports c l with
        | None => (true, missing)
        | Some es => fold_left estep es (bad, missing)
        end in
      if bad then set_state l st_error
      else if missing then l
      else if num =? 0 then set_state l st_mountable
      else if num <? N.of_nat (length (l_mounts l)) + num0 then set_state l st_partial
      else if l_mbusy l || l_overlain l then set_state l st_mounted_busy
      else set_state l st_mounted
    end
  end.

(* users of a layer as fs.FindLayerUsers reports them: (UsedAs = root?, File) *)
Record user := MkU { u_root : bool; u_file : bytes }.
Definition users_map := list (bytes * list user).
Fixpoint users_of (um : users_map) (n : bytes) : list user :=
  match um with [] => [] | (k, v) :: r => if beq k n then v else users_of r n end.

(* fs.SameDirectoryOrDescendant(path, prefix) *)
Definition same_dir_or_desc (p prefix : bytes) : bool :=
  prefixb prefix p &&
  (match rev prefix with ch :: _ => Ascii.eqb ch sl | [] => false end
   || (length p =? length prefix)%nat
   || match skipn (length prefix) p with ch :: _ => Ascii.eqb ch sl | [] => false end).

Definition classify_users (c : cfgT) (l : layer) (us : list user) : layer :=
  let dirs := [c_buildroot c; c_work c; c_upper c] in
  let mb := existsb (fun u => existsb (fun d => same_dir_or_desc (u_file u) d) dirs) us in
  let nb0 := existsb (fun u => existsb (fun d => negb (same_dir_or_desc (u_file u) d)) dirs) us in
  let ch := existsb u_root us in
  set_busy l mb nb0 ch.

(* ProbeAllLayerstate: users and mounts are classified for every layer, then the state *)
Definition probe_layer (c : cfgT) (f : fsT) (um : users_map) (ld : ldefs) (n : bytes) : ldefs :=
  match lm_get (ld_map ld) n with
  | None => ld
  | Some l =>
    let l := classify_users c l (users_of um n) in
    let l := set_kmounts l (mounts_at_or_below (ld_probe ld) (build_path c l)) in
    let derived := match l_base l with [] => false | _ => true end in
    let l' :=
      if l_state l =? st_error then l
      else if negb (is_dir f (build_path c l)) then set_state l st_incomplete
      else if derived && (negb (is_dir f (work_path c l)) || negb (is_dir f (upper_path c l)))
      then set_state l st_incomplete
      else find_layerstate c f ld (set_state l st_complete) in
    MkLD (lm_set (ld_map ld) l') (ld_order ld) (ld_probe ld)
  end.

Definition probe_all (c : cfgT) (um : users_map) (ld : ldefs) : M ldefs :=
  ld <- refresh_mounts c ld ;;
  f <- get_fs ;;
  ret (fold_left (probe_layer c f um) (ld_order ld) ld).

Definition find_layers (c : cfgT) : M ldefs :=
  f <- get_fs ;;
  if negb (is_dir f (c_layers c)) then fail else
  let m := read_layer_files c f in
  if negb (check_inheritance m) then fail else
  match normalize_order m with
  | None => diverge
  | Some o => ret (MkLD m o (POk [] []))
  end.

Definition get_layers (c : cfgT) (um : users_map) : M ldefs :=
  ld <- find_layers c ;; probe_all c um ld.

(* ------------------------------------------------------------------ commands *)
Definition set_layer (ld : ldefs) (l : layer) : ldefs := MkLD (lm_set (ld_map ld) l) (ld_order ld) (ld_probe ld).
Definition renormalize (ld : ldefs) : M ldefs :=
  match normalize_order (ld_map ld) with
  | Some o => ret (MkLD (ld_map ld) o (ld_probe ld))
  | None => diverge
  end.
Definition guard (b0 : bool) : M unit := if b0 then ret tt else fail.

Definition error_if_busy (l : layer) (altering : bool) : bool :=      (* true = refused *)
  (if altering then (match l_kmounts l with [] => false | _ => true end) || l_mbusy l || l_nmbusy l
   else l_mbusy l) || l_overlain l.
Definition has_child (m : lmap) (n : bytes) : bool := existsb (fun l => beq (l_base l) n) m.

(* getDefaultLayerinfo *)
Definition has_ext (p : bytes) : bool :=       (* filepath.Ext(p) != "" : a '.' in the last element *)
  existsb (fun ch => bn ch =? 46) (pathbase p) && negb (beq p []).
Definition default_layerinfo (c : cfgT) (f : fsT) (filename : bytes) : option lfile :=
  let fn0 := match filename with [] => pathjoin [c_base c; D_SkeletonLayerconfigFile] | _ => filename end in
  let fn1 :=
    if is_file f fn0 then fn0 else
    let j := pathjoin [c_base c; fn0] in
    if negb (is_file f j) && negb (existsb (fun ch => bn ch =? 46) (pathbase j)) then j ++ D_SkeletonLayerconfigFileExt else j in
  match (if is_file f fn1 then read_file f fn1 else None) with
  | None => None
  | Some content => let lf := read_layerfile content in
                    match lf_errors lf with O => Some lf | _ => None end
  end.

Definition automated_exports (c : cfgT) (l : layer) : list (bytes * bytes) :=     (* (link, target) *)
  [(pathjoin [c_exports c; c_exp_binpkg c; l_name l], pathjoin [l_path l; c_binpkg c]);
   (pathjoin [c_exports c; c_exp_gen c; l_name l], pathjoin [l_path l; c_gen c])].

Definition make_symlink_in_dir e (source target : bytes) : M unit :=
  f <- get_fs ;;
  let fresh :=
    f1 <- get_fs ;;
    (if is_dir f1 (pathdir target) then ret tt else fs_mkdir e (pathdir target)) ;;;
    fs_symlink e target source in
  if is_symlink f target then
    match readlink f target with
    | Some t => if beq t source then ret tt else fs_remove e target ;;; fresh
    | None => fs_remove e target ;;; fresh
    end
  else fresh.

Fixpoint mapM_ {A} (f : A -> M unit) (l : list A) : M unit :=
  match l with [] => ret tt | x :: r => f x ;;; mapM_ f r end.

Definition make_export_symlinks e (c : cfgT) (l : layer) : M unit :=
  match expand_config_exports c l with
  | None => fail
  | Some es =>
    mapM_ (fun x => make_symlink_in_dir e (x_source x) (x_mount x)) es ;;;
    mapM_ (fun lt => if memb (fst lt) (map x_mount es) then ret tt else
                     f <- get_fs ;;
                     if exists_ f (snd lt) then make_symlink_in_dir e (snd lt) (fst lt)
                     else if is_symlink f (fst lt) then fs_remove e (fst lt) else ret tt)
          (automated_exports c l)
  end.

Definition remove_export_links e (c : cfgT) (l : layer) : M unit :=
  mapM_ (fun lt => f <- get_fs ;;
                   if negb (exists_ f (fst lt)) then ret tt
                   else if negb (is_symlink f (fst lt)) then fail
                   else fs_remove e (fst lt))
        (automated_exports c l).

Definition add_layer e (c : cfgT) (ld : ldefs) (name base configfile : bytes) : M ldefs :=
  guard (test_name (ld_map ld) name NFree && test_name (ld_map ld) base NOptNeed) ;;;
  guard (negb (beq base name) || beq base []) ;;;
  f <- get_fs ;;
  let from_parent := match base with [] => None | _ => lm_get (ld_map ld) base end in
  let use_file := negb (beq configfile []) || beq base [] in
  let basis : option (list nmount * list nmount) :=
    if use_file then
      match default_layerinfo c f configfile with
      | Some lf => Some (lf_mounts lf, lf_exports lf) | None => None end
    else match from_parent with Some p => Some (l_mounts p, l_exports p) | None => None end in
  match basis with
  | None => fail
  | Some (ms, es) =>
    let l := MkL name base ms es (layer_path c name) st_empty false false false false [] in
    fs_mkdir e (l_path l) ;;;
    write_layerfile e l ;;;
    fs_mkdir e (build_path c l) ;;;
    (match base with
     | [] => let rootuser := pathjoin [build_path c l; bs "root"] in
             fs_mkdir e rootuser ;;;
             fs_write_text e (pathjoin [rootuser; bs ".bashrc"]) D_BaseLayerRootBashrc
     | _ => fs_mkdir e (work_path c l) ;;; fs_mkdir e (upper_path c l)
     end) ;;;
    renormalize (set_layer ld l)
  end.

(* what `layercake add` itself creates in a layer directory: nothing else makes a tree pristine *)
Definition pristine_tree (c : cfgT) (f : fsT) (l : layer) : bool :=
  let d := l_path l in
  let allowed_dirs :=
    [d; build_path c l] ++
    (match l_base l with
     | [] => [pathjoin [build_path c l; bs "root"]]
     | _ => prefixes (work_path c l) ++ prefixes (upper_path c l)
     end) in
  forallb (fun ent =>
    if at_or_under d (fst ent) then
      match snd ent with
      | Dir => memb (fst ent) allowed_dirs || memb (fst ent) (prefixes (build_path c l))
      | File x => beq (fst ent) (layerconfig_path l)
                  || (match l_base l with
                      | [] => beq (fst ent) (pathjoin [build_path c l; bs "root"; bs ".bashrc"])
                              && beq x D_BaseLayerRootBashrc
                      | _ => false end)
      | Link _ => false
      end
    else true) f.

Definition remove_layer e (c : cfgT) (ld : ldefs) (name : bytes) (files : bool) : M ldefs :=
  guard (test_name (ld_map ld) name NNeed) ;;;
  match lm_get (ld_map ld) name with
  | None => panic
  | Some l =>
    guard (negb (l_state l =? st_error)) ;;;
    guard (negb (has_child (ld_map ld) name)) ;;;
    guard (negb (error_if_busy l true)) ;;;
    remove_export_links e c l ;;;
    f <- get_fs ;;
    (if files || pristine_tree c f l then fs_remove e (l_path l)
     else let newname := l_path l ++ D_RemovedLayerSuffix in
          if exists_ f newname then fail else fs_rename e (l_path l) newname) ;;;
    renormalize (MkLD (lm_del (ld_map ld) name) (ld_order ld) (ld_probe ld))
  end.

(* the children of [name] in the order Go's map iteration produced (oracle), others appended *)
Definition children_in_order e (m : lmap) (name : bytes) : list layer :=
  let kids := filter (fun l => beq (l_base l) name) m in
  let first := flat_map (fun n => match lm_get kids n with Some l => [l] | None => [] end) (e_order e) in
  first ++ filter (fun l => negb (memb (l_name l) (e_order e))) kids.

Definition rename_layer e (c : cfgT) (ld : ldefs) (oldname newname : bytes) : M ldefs :=
  guard (test_name (ld_map ld) oldname NNeed && test_name (ld_map ld) newname NFree) ;;;
  match lm_get (ld_map ld) oldname with
  | None => panic
  | Some l =>
    guard (negb (l_state l =? st_error)) ;;;
    guard (negb (error_if_busy l true)) ;;;
    let kids := children_in_order e (ld_map ld) oldname in
    guard (negb (existsb (fun k => error_if_busy k true) kids)) ;;;
    remove_export_links e c l ;;;
    let newpath := layer_path c newname in
    fs_rename e (l_path l) newpath ;;;
    mapM_ (fun k => write_layerfile e (set_base k newname)) kids ;;;
    let l' := set_name_path l newname newpath in
    let m1 := fold_left (fun m k => lm_set m (set_base k newname)) kids (lm_del (ld_map ld) oldname) in
    ld' <- renormalize (MkLD (m1 ++ [l']) (ld_order ld) (ld_probe ld)) ;;
    write_layerfile e l' ;;;
    ret ld'
  end.

Definition rebase_layer e (c : cfgT) (ld : ldefs) (name newbase : bytes) : M ldefs :=
  guard (test_name (ld_map ld) name NNeed && test_name (ld_map ld) newbase NOptNeed) ;;;
  match lm_get (ld_map ld) name with
  | None => panic
  | Some l =>
    guard (negb (l_state l =? st_error)) ;;;
    guard (negb (error_if_busy l true)) ;;;
    let l' := set_base l newbase in
    let m' := lm_set (ld_map ld) l' in
    guard (check_inheritance m') ;;;
    guard (negb (existsb (fun k => beq (l_base k) name && error_if_busy k true) (ld_map ld))) ;;;
    ld' <- renormalize (MkLD m' (ld_order ld) (ld_probe ld)) ;;
    write_layerfile e l' ;;;
    ret ld'
  end.

Definition makedirs e (c : cfgT) (ld : ldefs) (name : bytes) : M ldefs :=
  guard (test_name (ld_map ld) name NNeed) ;;;
  match lm_get (ld_map ld) name with
  | None => panic
  | Some l =>
    guard (negb (l_state l =? st_error)) ;;;
    if l_state l <? st_complete then
      f <- get_fs ;;
      let need := filter (fun d => negb (is_dir f d))
                    ([build_path c l] ++ match l_base l with [] => [] | _ => [work_path c l; upper_path c l] end) in
      mapM_ (fs_mkdir e) need ;;;
      f' <- get_fs ;;
      let l1 := if (l_state l =? st_incomplete) && negb (e_pretend e) then set_state l st_complete else l in
      ret (set_layer ld (find_layerstate c f' ld l1))
    else ret ld
  end.

Fixpoint ancestors_and_self (fuel : nat) (m : lmap) (n : bytes) (acc : list layer) : option (list layer) :=
  match n with
  | [] => Some acc
  | _ => match fuel with
         | O => None
         | S f' => match lm_get m n with
                   | None => None
                   | Some l => ancestors_and_self f' m (l_base l) (l :: acc)
                   end
         end
  end.

Definition mount_one e (c : cfgT) (ld : ldefs) (name : bytes) : M ldefs :=
  match lm_get (ld_map ld) name with
  | None => panic
  | Some l =>
    guard (negb (l_state l <? st_mountable)) ;;;
    let builddir := build_path c l in
    let ms := pr_mounts (ld_probe ld) in
    ld <- (match l_base l with
           | [] => ret ld
           | b0 =>
             match get_mount ms builddir with
             | Some _ => ret ld
             | None =>
               match lm_get (ld_map ld) b0 with
               | None => panic
               | Some bl =>
                 fs_mount e overlay builddir overlay
                   (bs "lowerdir=" ++ build_path c bl ++ bs ",upperdir=" ++ upper_path c l
                    ++ bs ",workdir=" ++ work_path c l) ;;;
                 refresh_mounts c ld
               end
             end
           end) ;;
    match expand_config_mounts c (ld_map ld) l with
    | None => fail
    | Some xs =>
      ld0 <- (fix go (xs : list xmount) (ld : ldefs) : M ldefs :=
                match xs with
                | [] => ret ld
                | x :: r =>
                  match get_mount (pr_mounts (ld_probe ld)) (x_mount x) with
                  | Some mnt =>
                    if source_is_expected (pr_devs (ld_probe ld)) mnt (x_source x) then go r ld else fail
                  | None =>
                    f <- get_fs ;;
                    (if exists_ f (x_source x) then ret tt
                     else if in_any_layer_dir 64 (c_layers c) (x_source x) then fs_mkdir e (x_source x)
                     else fail) ;;;
                    fs_mount e (x_source x) (x_mount x) (x_fstype x) [] ;;;
                    ld' <- refresh_mounts c ld ;;
                    go r ld'
                  end
                end) xs ld ;;
      ld1 <- refresh_mounts c ld0 ;;
      f <- get_fs ;;
      match lm_get (ld_map ld1) name with
      | None => panic
      | Some l1 =>
        let l2 := find_layerstate c f ld1 l1 in
        guard (negb (l_state l2 =? st_error)) ;;;
        ret (set_layer ld1 l2)
      end
    end
  end.

Fixpoint foldM {A} (f : ldefs -> A -> M ldefs) (l : list A) (ld : ldefs) : M ldefs :=
  match l with [] => ret ld | x :: r => ld' <- f ld x ;; foldM f r ld' end.

Definition mount_layer e (c : cfgT) (ld : ldefs) (name : bytes) : M ldefs :=
  guard (test_name (ld_map ld) name NNeed) ;;;
  match lm_get (ld_map ld) name with
  | None => panic
  | Some l =>
    guard (negb (l_state l =? st_error)) ;;;
    match ancestors_and_self (S (length (ld_map ld))) (ld_map ld) name [] with
    | None => diverge
    | Some chain =>
      ld1 <- foldM (fun ld x => makedirs e c ld (l_name x)) chain ld ;;
      ld2 <- foldM (fun ld x => mount_one e c ld (l_name x)) chain ld1 ;;
      mapM_ (fun x => make_export_symlinks e c x) chain ;;;
      ret ld2
    end
  end.

Inductive ustatus := UOk | UNotMounted | UBusy.

Definition unmount_layer e (c : cfgT) (ld : ldefs) (name : bytes) : M (ustatus * ldefs) :=
  match lm_get (ld_map ld) name with
  | None => panic
  | Some l =>
    if error_if_busy l false then ret (UBusy, ld)
    else match l_kmounts l with
         | [] => ret (UNotMounted, ld)
         | ms =>
           mapM_ (fs_unmount e) (rev ms) ;;;
           ld1 <- refresh_mounts c ld ;;
           f <- get_fs ;;
           match lm_get (ld_map ld1) name with
           | None => panic
           | Some l1 => ret (UOk, set_layer ld1 (find_layerstate c f ld1 l1))
           end
         end
  end.

Definition unmount e (c : cfgT) (ld : ldefs) (name : bytes) (all : bool) : M ldefs :=
  match name with
  | _ :: _ =>
    if all then fail else
    guard (test_name (ld_map ld) name NNeed) ;;;
    r <- unmount_layer e c ld name ;;
    match fst r with UOk => ret (snd r) | _ => fail end
  | [] =>
    if negb all then fail else
    r <- (fix go (names : list bytes) (ld : ldefs) (busy : bool) : M (bool * ldefs) :=
            match names with
            | [] => ret (busy, ld)
            | n :: rest =>
              r <- unmount_layer e c ld n ;;
              go rest (snd r) (busy || match fst r with UBusy => true | _ => false end)
            end) (rev (ld_order ld)) ld false ;;
    if fst r then fail else ret (snd r)
  end.

Definition shake e (c : cfgT) (ld : ldefs) : M ldefs :=
  mapM_ (fun n => match lm_get (ld_map ld) n with
                  | None => ret tt
                  | Some l => match l_base l with
                              | [] => ret tt
                              | _ => if st_mounted <=? l_state l
                                     then fs_mount e [] (build_path c l) (bs "remount") []
                                     else ret tt
                              end
                  end) (ld_order ld) ;;;
  ret ld.

(* chroot up to (not including) the exec: mount unless mounted and ready *)
Definition chroot_prepare e (c : cfgT) (ld : ldefs) (name : bytes) : M ldefs :=
  guard (test_name (ld_map ld) name NNeed) ;;;
  match lm_get (ld_map ld) name with
  | None => panic
  | Some l => if l_state l <? st_mounted then mount_layer e c ld name else ret ld
  end.

(* InitLayercakeBase *)
Definition skeleton_text (c : cfgT) : bytes :=
  (* fns.Template(SkeletonLayerconfig, {pkgdir}) : the only placeholder is {pkgdir} *)
  let pat := bs "{pkgdir}" in
  (fix go (fuel : nat) (s : bytes) : bytes :=
     match fuel with O => s | S f' =>
       match s with
       | [] => []
       | ch :: r => if prefixb pat s then c_binpkg c ++ go f' (skipn (length pat) s) else ch :: go f' r
       end end) (S (length D_SkeletonLayerconfig)) D_SkeletonLayerconfig.

Definition init_base e (c : cfgT) : M unit :=
  f <- get_fs ;;
  let paths := [c_base c; c_layers c; c_exports c] in
  let missing := filter (fun p => negb (is_dir f p)) paths in
  let non_base := negb (under (c_base c) (c_layers c)) || negb (under (c_base c) (c_exports c)) in
  match missing with
  | _ :: _ => if non_base then fail else ret tt
  | [] => ret tt
  end ;;;
  mapM_ (fs_mkdir e) missing ;;;
  let files := [(pathjoin [c_base c; D_SkeletonLayerconfigFile], skeleton_text c);
                (pathjoin [c_exports c; D_ExportIndexHtmlName], D_ExportIndexHtml)] in
  let need := filter (fun pc => negb (is_file f (fst pc))) files in
  let have := filter (fun pc => is_file f (fst pc)) files in
  mapM_ (fun pc => fs_write_text e (fst pc) (snd pc)) need ;;;
  match have with
  | _ :: _ => fail
  | [] => match missing, need with [], [] => fail | _, _ => ret tt end
  end.

(* CheckBaseSetUp: the three directories and the skeleton file *)
Definition base_set_up (c : cfgT) (f : fsT) : bool :=
  is_dir f (c_base c) && is_dir f (c_layers c) && is_dir f (c_exports c)
  && is_file f (pathjoin [c_base c; D_SkeletonLayerconfigFile]).

Inductive command :=
| CInit | CAdd (name base configfile : bytes) | CRemove (name : bytes) (files : bool)
| CRename (a b0 : bytes) | CRebase (a b0 : bytes) | CMkdirs (a : bytes) | CMount (a : bytes)
| CUmount (a : bytes) (all : bool) | CShake | CChroot (a : bytes) | CProbe
(* not layercake: somebody mounts / unmounts by hand (used to build prior states) *)
| CKMount (src tgt fstype : bytes) (flags : N) (data : bytes) | CKUmount (tgt : bytes)
| CEdit (p content : bytes).          (* somebody overwrites a file by hand *)

Definition run_command e (c : cfgT) (um : users_map) (cmd : command) : M (option ldefs) :=
  match cmd with
  | CInit => init_base e c ;;; ret None
  | CKMount s t ty fl d => apply_op (OMount s t ty fl d) ;;; ret None
  | CKUmount t => apply_op (OUmount t 0) ;;; ret None
  | CEdit p x => f <- get_fs ;;
                 match open_trunc f p with
                 | FOk f' => put_fs (append_file f' p x) ;;; ret None
                 | FErr => fail
                 end
  | _ =>
    f <- get_fs ;;
    guard (base_set_up c f) ;;;
    ld <- get_layers c um ;;
    ld' <- match cmd with
           | CAdd n b0 cf => add_layer e c ld n b0 cf
           | CRemove n fl => remove_layer e c ld n fl
           | CRename a b0 => rename_layer e c ld a b0
           | CRebase a b0 => rebase_layer e c ld a b0
           | CMkdirs a => makedirs e c ld a
           | CMount a => mount_layer e c ld a
           | CUmount a all => unmount e c ld a all
           | CShake => shake e c ld
           | CChroot a => chroot_prepare e c ld a
           | CProbe => ret ld
           | _ => ret ld
           end ;;
    ret (Some ld')
  end.

Inductive rclass := ROk | RFail | RCrash | RDiverge | RPanic.
Definition rclass_of {A} (o : outcome A) : rclass :=
  match o with Ret _ => ROk | Fail => RFail | Crashed => RCrash | Diverged => RDiverge | Panicked => RPanic end.

Definition run (e : env) (c : cfgT) (um : users_map) (cmd : command) (w : world)
  : outcome (option ldefs) * mst :=
  run_command e c um cmd (MkSt w 0 []).
