(* Model of fs/mounts.go: unescape, ProbeMounts, GetMount, GetMountAndSubmounts,
   GetMountSources, MountSourceIsExpected, GetOverlayLowerdirs -- and of the
   kernel side: show_mountinfo's rendering with octal mangling.
   Executable definitions only; proofs live in Proofs/MountInfoP.v. *)
From LC Require Import Lib.Bytes Lib.Lex Lib.Fields Lib.PathM Gen.Consts.
Open Scope N_scope.

Definition bsl : ascii := nb 92.       (* backslash *)
Definition sp  : ascii := nb 32.
Definition comma : ascii := nb 44.
Definition eqc : ascii := nb 61.
Definition slash : ascii := nb 47.

Definition isoct (c : ascii) : bool := (48 <=? bn c) && (bn c <=? 55).
Definition octv (c : ascii) : N := bn c - 48.

(* fs.unescape: a backslash followed by exactly three octal digits is one byte *)
Fixpoint unescape (s : bytes) : bytes :=
  match s with
  | [] => []
  | c :: r =>
    if Ascii.eqb c bsl then
      match r with
      | d1 :: d2 :: d3 :: r' =>
        if isoct d1 && isoct d2 && isoct d3
        then nb ((octv d1 * 64 + octv d2 * 8 + octv d3) mod 256) :: unescape r'
        else c :: unescape r
      | _ => c :: unescape r
      end
    else c :: unescape r
  end.

(* the kernel's mangle()/seq_escape(): bytes of the escape set become \ooo *)
Definition octdig (n : N) : ascii := nb (48 + n).
Definition mangle1 (esc : ascii -> bool) (c : ascii) : bytes :=
  if esc c then [bsl; octdig (bn c / 64); octdig ((bn c / 8) mod 8); octdig (bn c mod 8)]
  else [c].
Definition mangle (esc : ascii -> bool) (s : bytes) : bytes := flat_map (mangle1 esc) s.

(* escape sets used by show_mountinfo: paths " \t\n\\"; options of overlayfs ", \t\n\\" *)
Definition esc_path (c : ascii) : bool :=
  let n := bn c in (n =? 32) || (n =? 9) || (n =? 10) || (n =? 92).
Definition esc_opt (c : ascii) : bool := esc_path c || (bn c =? 44).

(* ---- records ---- *)
Record mount := MkMount {
  m_source : bytes; m_mp : bytes; m_source2 : bytes; m_workdir : bytes;
  m_fstype : bytes; m_options : bytes; m_shadow : bool; m_dev : bytes; m_root : bytes }.
Record device := MkDev { d_dev : bytes; d_name : bytes; d_roots : list bytes;
                         d_subroots : list (bytes * bytes) }.     (* (root, mountpoint) of mounts of subtrees *)

Definition mount_beq (a b : mount) : bool :=
  beq (m_source a) (m_source b) && beq (m_mp a) (m_mp b) && beq (m_source2 a) (m_source2 b)
  && beq (m_workdir a) (m_workdir b) && beq (m_fstype a) (m_fstype b)
  && beq (m_options a) (m_options b) && Bool.eqb (m_shadow a) (m_shadow b)
  && beq (m_dev a) (m_dev b) && beq (m_root a) (m_root b).
Definition device_beq (a b : device) : bool :=
  beq (d_dev a) (d_dev b) && beq (d_name a) (d_name b) && list_beq beq (d_roots a) (d_roots b)
  && list_beq (fun x y => beq (fst x) (fst y) && beq (snd x) (snd y)) (d_subroots a) (d_subroots b).

(* ---- one line ---- *)
Definition overlay : bytes := bs "overlay".
Definition dash : bytes := bs "-".

Record rawline := MkRaw {
  r_id : bytes; r_parent : bytes; r_dev : bytes; r_root : bytes; r_mp : bytes; r_opts : bytes;
  r_fstype : bytes; r_fsname : bytes; r_lower : bytes; r_upper : bytes; r_work : bytes }.

Inductive lineres := LSkip | LPanic | LOk (r : rawline).

Fixpoint after_dash (l : list bytes) : option (list bytes) :=
  match l with
  | [] => None
  | x :: r => if beq x dash then Some r else after_dash r
  end.

(* overlay super options: last lowerdir= / upperdir= / workdir= wins *)
Definition ovl_step (st : bytes * bytes * bytes) (part : bytes) : bytes * bytes * bytes :=
  let '(lo, up, wk) := st in
  match split2 eqc part with
  | (k, Some v) =>
    if beq k (bs "lowerdir") then (unescape v, up, wk)
    else if beq k (bs "upperdir") then (lo, unescape v, wk)
    else if beq k (bs "workdir") then (lo, up, unescape v)
    else st
  | (_, None) => st
  end.
Definition ovl_parse (sopts : bytes) : bytes * bytes * bytes :=
  fold_left ovl_step (split comma sopts) ([], [], []).

Definition parse_line (line : bytes) : lineres :=
  let segs := split sp line in
  if (length segs <? 10)%nat then LSkip else
  match segs with
  | id :: par :: dev :: root :: mp :: opts :: rest =>
    match after_dash rest with
    | None => LPanic
    | Some (fstype :: fsname :: tl) =>
      if beq fstype overlay then
        match tl with
        | sopts :: _ =>
          let '(lo, up, wk) := ovl_parse sopts in
          LOk (MkRaw id par dev (unescape root) (unescape mp) opts fstype (unescape fsname) lo up wk)
        | [] => LPanic
        end
      else LOk (MkRaw id par dev (unescape root) (unescape mp) opts fstype (unescape fsname) [] [] [])
    | Some _ => LPanic
    end
  | _ => LSkip
  end.

(* ---- the fold over lines (ProbeMounts) ---- *)
Definition memb (x : bytes) (l : list bytes) : bool := existsb (beq x) l.

Record pstate := MkP {
  p_mounts : list mount;          (* reversed *)
  p_devs : list device;           (* in order of first appearance *)
  p_shadow : list bytes }.        (* mount IDs that are shadowing parents *)

Definition shadow_types : list bytes := fields D_ShadowingFsTypes.

Fixpoint dev_add (devs : list device) (dev name root mp : bytes) : list device :=
  let is_root := beq root [slash] in
  match devs with
  | [] => [MkDev dev name (if is_root then [mp] else []) (if is_root then [] else [(root, mp)])]
  | d :: r =>
    if beq (d_dev d) dev
    then MkDev (d_dev d) (d_name d) (if is_root then d_roots d ++ [mp] else d_roots d)
               (if is_root then d_subroots d else d_subroots d ++ [(root, mp)]) :: r
    else d :: dev_add r dev name root mp
  end.

Definition pstep (st : pstate) (r : rawline) : pstate :=
  let is_sh := memb (r_fstype r) shadow_types in
  let par_sh := memb (r_parent r) (p_shadow st) in
  let shadow' := if is_sh || par_sh then r_id r :: p_shadow st else p_shadow st in
  let inshadow := negb is_sh && par_sh in
  let m := MkMount (r_lower r) (r_mp r) (r_upper r) (r_work r) (r_fstype r) (r_opts r) inshadow
                   (r_dev r) (r_root r) in
  MkP (m :: p_mounts st)
      (dev_add (p_devs st) (r_dev r) (r_fsname r) (r_root r) (r_mp r))
      shadow'.

Inductive probe_res := PPanic | POk (ms : list mount) (ds : list device).

Fixpoint probe_lines (st : pstate) (lines : list bytes) : probe_res :=
  match lines with
  | [] => POk (rev (p_mounts st)) (p_devs st)
  | l :: r =>
    match parse_line l with
    | LSkip => probe_lines st r
    | LPanic => PPanic
    | LOk raw => probe_lines (pstep st raw) r
    end
  end.
Definition probe (lines : list bytes) : probe_res := probe_lines (MkP [] [] []) lines.

(* ---- queries on the probed table ---- *)
(* GetMount: the map is keyed by mountpoint; a later line overwrites an earlier one *)
Fixpoint get_mount (ms : list mount) (p : bytes) : option mount :=
  match ms with
  | [] => None
  | m :: r => match get_mount r p with Some x => Some x | None => if beq (m_mp m) p then Some m else None end
  end.

Definition mountpoints (ms : list mount) : list bytes := map m_mp ms.

Fixpoint dedup (l : list bytes) : list bytes :=
  match l with [] => [] | x :: r => if memb x r then dedup r else x :: dedup r end.

(* GetMountAndSubmounts: the mountpoint of every mount (stacked ones repeated) at [p] or below it, sorted *)
Definition at_or_below (p q : bytes) : bool := beq q p || prefixb (p ++ [slash]) q.
Definition get_mount_and_submounts (ms : list mount) (p : bytes) : list bytes :=
  sort (filter (at_or_below p) (mountpoints ms)).

Fixpoint find_dev (ds : list device) (dev : bytes) : option device :=
  match ds with [] => None | d :: r => if beq (d_dev d) dev then Some d else find_dev r dev end.

(* GetMountSources *)
Inductive src_res := SPanic | SOk (l : list bytes).
Definition mount_sources (ds : list device) (m : mount) : src_res :=
  match find_dev ds (m_dev m) with
  | None => SPanic
  | Some d =>
    let is_root := beq (m_root m) [slash] in
    match (if is_root then m_source m else []) with
    | _ :: _ => SOk [m_source m]
    | [] =>
      let root := if is_root then [] else m_root m in
      SOk ((if is_root then [d_name d] else []) ++
           filter (fun s => negb (beq s (m_mp m))) (map (fun mp => pathjoin2 mp root) (d_roots d)) ++
           filter (fun s => negb (beq s (m_mp m)))
             (flat_map (fun sr => if beq (m_root m) (fst sr) || prefixb (fst sr ++ [slash]) (m_root m)
                                  then [pathjoin2 (snd sr) (skipn (length (fst sr)) (m_root m))] else [])
                       (d_subroots d)))
    end
  end.
Definition source_is_expected (ds : list device) (m : mount) (test : bytes) : bool :=
  match mount_sources ds m with SOk l => memb test l | SPanic => false end.

Definition overlay_lowerdirs (ms : list mount) : list bytes :=
  sort (dedup (map m_source (filter (fun m => beq (m_fstype m) overlay) ms))).

(* ---- the kernel side: structured table and its rendering ---- *)
Record kline := MkK {
  k_id : bytes; k_parent : bytes; k_dev : bytes; k_root : bytes; k_mp : bytes; k_opts : bytes;
  k_optional : list bytes; k_fstype : bytes; k_source : bytes;
  k_sopts : list (bytes * option bytes) }.   (* super options: key[=value], values unmangled *)

Definition render_sopt (kv : bytes * option bytes) : bytes :=
  match kv with
  | (k, None) => mangle esc_opt k
  | (k, Some v) => mangle esc_opt k ++ eqc :: mangle esc_opt v
  end.
Definition render_line (k : kline) : bytes :=
  join sp ([k_id k; k_parent k; k_dev k; mangle esc_path (k_root k); mangle esc_path (k_mp k);
            k_opts k] ++ k_optional k ++
           [dash; k_fstype k; mangle esc_path (k_source k); join comma (map render_sopt (k_sopts k))]).
Definition render (T : list kline) : list bytes := map render_line T.

(* what the kernel guarantees about one line *)
Definition nospace (s : bytes) : bool := nosepb sp s.
Definition plainopt (s : bytes) : bool :=       (* option keys: no byte that would be mangled, no '=' *)
  negb (existsb (fun c => esc_opt c || Ascii.eqb c eqc) s).
Definition wf_kline (k : kline) : bool :=
  nospace (k_id k) && nospace (k_parent k) && nospace (k_dev k) && nospace (k_opts k)
  && forallb (fun f => nospace f && negb (beq f dash)) (k_optional k)
  && nospace (k_fstype k)
  && forallb (fun kv => plainopt (fst kv)) (k_sopts k)
  && negb (beq (k_fstype k) overlay && match k_sopts k with [] => true | _ => false end).
Definition wf_table (T : list kline) : bool := forallb wf_kline T.

(* the abstract content of one line: what ProbeMounts must recover *)
Fixpoint last_opt (key : bytes) (l : list (bytes * option bytes)) (acc : bytes) : bytes :=
  match l with
  | [] => acc
  | (k, Some v) :: r => last_opt key r (if beq k key then v else acc)
  | (_, None) :: r => last_opt key r acc
  end.
Definition view_line (k : kline) : rawline :=
  let ov := beq (k_fstype k) overlay in
  MkRaw (k_id k) (k_parent k) (k_dev k) (k_root k) (k_mp k) (k_opts k) (k_fstype k) (k_source k)
        (if ov then last_opt (bs "lowerdir") (k_sopts k) [] else [])
        (if ov then last_opt (bs "upperdir") (k_sopts k) [] else [])
        (if ov then last_opt (bs "workdir") (k_sopts k) [] else []).
Definition view (T : list kline) : probe_res :=
  let st := fold_left pstep (map view_line T) (MkP [] [] []) in
  POk (rev (p_mounts st)) (p_devs st).

Definition probe_res_beq (a b : probe_res) : bool :=
  match a, b with
  | PPanic, PPanic => true
  | POk m1 d1, POk m2 d2 => list_beq mount_beq m1 m2 && list_beq device_beq d1 d2
  | _, _ => false
  end.
