(* cmd/stagemaker/paths.go writeTarFile: the file named by -o.

     fileWriter, err = os.Create(data.outputPath)

   os.Create(path) = open(path, O_RDWR|O_CREATE|O_TRUNC, 0666): whatever the path held before
   (nothing, a stage written by an earlier run, anything else), the file is empty after the
   open.  The archive -- or, with a compressor, the child's standard output, which IS this
   descriptor -- is then written sequentially from offset 0.

   A regular file is its byte string; write(2) at an offset overwrites in place and extends
   the file (a hole reads as zeros).  The open flags are a parameter of the low-level
   functions so that the role of O_TRUNC can be stated; [out_file] is what the code does.
   Definitions only. *)
From LC Require Import Lib.Bytes.
From Coq Require Import List NArith.
Import ListNotations.
Open Scope N_scope.

(* what the path holds before the run: None = no such file *)
Definition prior := option bytes.

Inductive oflags := OCreateTrunc      (* O_CREATE|O_TRUNC  (os.Create) *)
                  | OCreateKeep.      (* O_CREATE alone: an existing file keeps its content *)

(* content of the file right after open(2) *)
Definition open_out (fl : oflags) (p : prior) : bytes :=
  match fl, p with
  | OCreateKeep, Some b => b
  | _, _ => []
  end.

(* pwrite(2) *)
Definition pwrite (f : bytes) (off : nat) (d : bytes) : bytes :=
  firstn off f ++ repeat (nb 0) (off - length f) ++ d ++ skipn (off + length d) f.

(* sequential writes of a descriptor whose offset starts at [off] *)
Fixpoint write_seq (f : bytes) (off : nat) (chunks : list bytes) : bytes :=
  match chunks with
  | [] => f
  | c :: r => write_seq (pwrite f off c) (off + length c) r
  end.

Definition write_out (fl : oflags) (p : prior) (chunks : list bytes) : bytes :=
  write_seq (open_out fl p) 0 chunks.

(* writeTarFile with -o: os.Create, then everything MakeTar / the compressor writes *)
Definition out_file (p : prior) (chunks : list bytes) : bytes := write_out OCreateTrunc p chunks.

(* the same on lengths alone (what a case carries: archives are too long to be shipped) *)
Definition open_len (fl : oflags) (p : option N) : N :=
  match fl, p with
  | OCreateKeep, Some n => n
  | _, _ => 0
  end.
Definition write_len (fl : oflags) (p : option N) (n : N) : N := N.max (open_len fl p) n.
Definition out_len (p : option N) (n : N) : N := write_len OCreateTrunc p n.
