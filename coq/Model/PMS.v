(* Reference semantics of the Package Manager Specification, written from the
   specification text (PMS ch. 3.2/3.3 "version comparison", Algorithms 3.1-3.7;
   ch. 8.3.1 operators, 8.3.3 slot dependencies, 8.3.4 USE dependencies) as
   transcribed in DESIGN.md Appendix D; the flags of an installed package (7.2 IUSE and
   its prefixes, 11.1.1 USE / IUSE_EFFECTIVE) at the end of the file.  Nothing in this file is derived from the
   Go code.  Definitions only. *)
From LC Require Import Lib.Bytes.
Open Scope N_scope.

Module PMS.

(* ---- structured versions:  num(.num)* [a-z]? (_suffix[num])* (-r num)? ---- *)
Inductive skind := SAlpha | SBeta | SPre | SRc | SP.
Record ver := MkVer {
  v_nums : list bytes;                      (* digit strings, at least one *)
  v_letter : option ascii;
  v_sufs : list (skind * option bytes);     (* suffix kind and optional integer part *)
  v_rev : option bytes }.                   (* -r integer *)

Definition is_digit (c : ascii) : bool := (48 <=? bn c) && (bn c <=? 57).
Definition is_lower (c : ascii) : bool := (97 <=? bn c) && (bn c <=? 122).
Definition digitsb (s : bytes) : bool := match s with [] => false | _ => forallb is_digit s end.

Definition wf_ver (v : ver) : bool :=
  match v_nums v with [] => false | _ => forallb digitsb (v_nums v) end
  && match v_letter v with None => true | Some l => is_lower l end
  && forallb (fun s => match snd s with None => true | Some d => digitsb d end) (v_sufs v)
  && match v_rev v with None => true | Some d => digitsb d end.

(* integer value of a digit string *)
Definition dv (c : ascii) : N := bn c - 48.
Fixpoint val_acc (acc : N) (ds : bytes) : N :=
  match ds with [] => acc | d :: r => val_acc (acc * 10 + dv d) r end.
Definition val (ds : bytes) : N := val_acc 0 ds.
Definition ncmp (a b : bytes) : comparison := (val a ?= val b).

(* "ASCII stringwise comparison" *)
Fixpoint scmp (a b : bytes) : comparison :=
  match a, b with
  | [], [] => Eq
  | [], _ :: _ => Lt
  | _ :: _, [] => Gt
  | x :: a', y :: b' => match (bn x ?= bn y) with Eq => scmp a' b' | c => c end
  end.

Definition starts0 (a : bytes) : bool := match a with c :: _ => (bn c =? 48) | [] => false end.
Fixpoint drop0 (r : bytes) : bytes :=
  match r with c :: r' => if (bn c =? 48) then drop0 r' else r | [] => [] end.
Definition strip_tz (a : bytes) : bytes := rev (drop0 (rev a)).    (* trailing zeros removed *)

(* Algorithm 3.3: a number component after the first *)
Definition comp_cmp (a b : bytes) : comparison :=
  if starts0 a || starts0 b then scmp (strip_tz a) (strip_tz b) else ncmp a b.

Fixpoint rest_cmp (a b : list bytes) : comparison :=
  match a, b with
  | [], [] => Eq
  | [], _ :: _ => Lt                 (* all shared components equal: more components is greater *)
  | _ :: _, [] => Gt
  | x :: a', y :: b' => match comp_cmp x y with Eq => rest_cmp a' b' | c => c end
  end.

(* Algorithm 3.2 *)
Definition nums_cmp (a b : list bytes) : comparison :=
  match a, b with
  | x :: a', y :: b' => match ncmp x y with Eq => rest_cmp a' b' | c => c end
  | [], [] => Eq | [], _ => Lt | _, [] => Gt
  end.

(* Algorithm 3.4: a missing letter is the empty string *)
Definition letter_cmp (a b : option ascii) : comparison :=
  match a, b with
  | None, None => Eq | None, Some _ => Lt | Some _, None => Gt
  | Some x, Some y => (bn x ?= bn y)
  end.

Definition krank (k : skind) : N :=
  match k with SAlpha => 0 | SBeta => 1 | SPre => 2 | SRc => 3 | SP => 4 end.
Definition optval (d : option bytes) : N := match d with None => 0 | Some x => val x end.

(* Algorithm 3.6 *)
Definition suf_cmp (a b : skind * option bytes) : comparison :=
  match (krank (fst a) ?= krank (fst b)) with
  | Eq => (optval (snd a) ?= optval (snd b))
  | c => c
  end.
Definition is_p (k : skind) : bool := match k with SP => true | _ => false end.

(* Algorithm 3.5 *)
Fixpoint sufs_cmp (a b : list (skind * option bytes)) : comparison :=
  match a, b with
  | [], [] => Eq
  | x :: _, [] => if is_p (fst x) then Gt else Lt
  | [], y :: _ => if is_p (fst y) then Lt else Gt
  | x :: a', y :: b' => match suf_cmp x y with Eq => sufs_cmp a' b' | c => c end
  end.

(* Algorithm 3.7 *)
Definition rev_cmp (a b : option bytes) : comparison := (optval a ?= optval b).

(* Algorithm 3.1 *)
Definition vercmp (a b : ver) : comparison :=
  match nums_cmp (v_nums a) (v_nums b) with
  | Eq => match letter_cmp (v_letter a) (v_letter b) with
          | Eq => match sufs_cmp (v_sufs a) (v_sufs b) with
                  | Eq => rev_cmp (v_rev a) (v_rev b)
                  | c => c end
          | c => c end
  | c => c
  end.

(* ---- 8.3.1 operators ---- *)
Inductive vop := OpLt | OpLe | OpEq | OpGe | OpGt | OpTilde | OpGlob.

Definition is_eq (c : comparison) : bool := match c with Eq => true | _ => false end.
Definition is_lt (c : comparison) : bool := match c with Lt => true | _ => false end.
Definition is_gt (c : comparison) : bool := match c with Gt => true | _ => false end.

Definition norev (v : ver) : ver := MkVer (v_nums v) (v_letter v) (v_sufs v) None.

(* "=...*": only the given version components are compared, the asterisk is a wildcard
   for any further components.  The components of a version, in order: the number
   components, the letter, each suffix, the revision.  The atom's components must be an
   initial segment of the candidate's, compared with the component rules above. *)
Fixpoint rest_prefix (a v : list bytes) : bool :=
  match a, v with
  | [], _ => true
  | _ :: _, [] => false
  | x :: a', y :: v' => is_eq (comp_cmp x y) && rest_prefix a' v'
  end.
Definition nums_prefix (a v : list bytes) : bool :=
  match a, v with
  | x :: a', y :: v' => is_eq (ncmp x y) && rest_prefix a' v'
  | [], _ => true
  | _ :: _, [] => false
  end.
Fixpoint sufs_prefix (a v : list (skind * option bytes)) : bool :=
  match a, v with
  | [], _ => true
  | _ :: _, [] => false
  | x :: a', y :: v' => is_eq (suf_cmp x y) && sufs_prefix a' v'
  end.
Definition glob_match (a v : ver) : bool :=
  match v_rev a, v_sufs a, v_letter a with
  | Some _, _, _ => is_eq (vercmp a v)
  | None, _ :: _, _ =>
      is_eq (nums_cmp (v_nums a) (v_nums v)) && is_eq (letter_cmp (v_letter a) (v_letter v))
      && sufs_prefix (v_sufs a) (v_sufs v)
  | None, [], Some _ =>
      is_eq (nums_cmp (v_nums a) (v_nums v)) && is_eq (letter_cmp (v_letter a) (v_letter v))
  | None, [], None => nums_prefix (v_nums a) (v_nums v)
  end.

(* does candidate version [v] satisfy "<op> a" *)
Definition ver_match (op : vop) (a v : ver) : bool :=
  match op with
  | OpLt => is_lt (vercmp v a)
  | OpLe => negb (is_gt (vercmp v a))
  | OpEq => is_eq (vercmp v a)
  | OpGe => negb (is_lt (vercmp v a))
  | OpGt => is_gt (vercmp v a)
  | OpTilde => is_eq (vercmp (norev a) (norev v))      (* any revision of exactly that version *)
  | OpGlob => glob_match a v
  end.

(* ---- 8.3.3 slot dependencies ---- *)
Inductive slotdep :=
  | SNone                                   (* no slot restriction *)
  | SAnyStar                                (* :*  *)
  | SAnyEq                                  (* :=  *)
  | SSlot (s : bytes) (ss : option bytes) (eqop : bool).   (* :s  :s/ss  :s=  :s/ss= *)

(* a package without an explicit sub-slot has its slot as sub-slot *)
Definition slot_match (d : slotdep) (pslot : bytes) (psub : option bytes) : bool :=
  match d with
  | SNone | SAnyStar | SAnyEq => true
  | SSlot s None _ => beq s pslot
  | SSlot s (Some ss) _ => beq s pslot && beq ss (match psub with Some x => x | None => pslot end)
  end.

(* ---- 8.3.4 USE dependencies ---- *)
Inductive uform := UEnabled | UDisabled | USame | UOpposite | UIf | UIfNot.
                 (* [f]       [-f]        [f=]    [!f=]       [f?]  [!f?]  *)
Inductive udefault := DNone | DPlus | DMinus.

(* the state the candidate's flag is required to have, None = unconstrained *)
Definition use_req (f : uform) (parent : bool) : option bool :=
  match f with
  | UEnabled => Some true
  | UDisabled => Some false
  | USame => Some parent
  | UOpposite => Some (negb parent)
  | UIf => if parent then Some true else None
  | UIfNot => if parent then None else Some false
  end.

(* [cand] = None: the flag is not in the candidate's IUSE_EFFECTIVE.  Result None: the
   dependency is in error (missing flag, no 4-style default); an erroneous dependency is
   never satisfied. *)
Definition use_dep_ok (f : uform) (d : udefault) (cand : option bool) (parent : bool) : option bool :=
  let eff := match cand with
             | Some s => Some s
             | None => match d with DPlus => Some true | DMinus => Some false | DNone => None end
             end in
  match eff with
  | None => None
  | Some s => Some (match use_req f parent with None => true | Some r => Bool.eqb s r end)
  end.

Record usedep := MkUD { u_form : uform; u_flag : bytes; u_def : udefault }.

Fixpoint lookup (k : bytes) (l : list (bytes * bool)) : option bool :=
  match l with [] => None | (k', b) :: r => if beq k k' then Some b else lookup k r end.

(* [cand]: the candidate's IUSE_EFFECTIVE with each flag's state; [parent]: the flags of the
   package that has the dependency (a flag it does not have enabled is disabled) *)
Definition use_match (deps : list usedep) (cand parent : list (bytes * bool)) : bool :=
  forallb (fun d =>
    match use_dep_ok (u_form d) (u_def d) (lookup (u_flag d) cand)
                     (match lookup (u_flag d) parent with Some b => b | None => false end) with
    | Some true => true | _ => false end) deps.

(* ---- the USE flags of an *installed* package (PMS 7.2 IUSE, 11.1.1 USE / IUSE_EFFECTIVE; the
   installed-package database records, per package, the files IUSE, IUSE_EFFECTIVE (EAPI 5 and
   later) and USE) ----
   IUSE lists the flags the ebuild declares; a flag may carry a "+" or "-" prefix, which states
   the *default* the package manager uses when it builds the package and the user has expressed
   no preference.  IUSE_EFFECTIVE is IUSE without prefixes plus the implicit flags; it is what
   USE dependencies are checked against; a package recorded without it (EAPI 4 and older) has
   only its IUSE.  USE is the outcome of the build: exactly the flags that were enabled.  Once
   USE is recorded the prefixes have done their work: an installed package has a flag enabled
   iff the flag is declared and listed in USE.
   [eff]: the flags of the IUSE_EFFECTIVE file, None = no such file; [iuse]: the tokens of the
   IUSE file as (prefix, flag) with prefix 0 none / 1 "+" / 2 "-"; [use]: the words of USE. *)
Definition mem (x : bytes) (l : list bytes) : bool := existsb (beq x) l.

Definition declared_flags (iuse : option (list (N * bytes))) (eff : option (list bytes)) : list bytes :=
  match eff with
  | Some l => l
  | None => match iuse with Some l => map snd l | None => [] end
  end.

(* every declared flag with its state *)
Definition installed_flags (iuse : option (list (N * bytes))) (eff : option (list bytes))
                           (use : option (list bytes)) : list (bytes * bool) :=
  let on := match use with Some l => l | None => [] end in
  map (fun f => (f, mem f on)) (declared_flags iuse eff).

End PMS.
