(* Reference side of C14: the PMS grammar of package dependency specifications (PMS 3.1
   names, 3.2 version syntax, 8.2 dependency strings, 8.3 atoms) as abstract syntax with a
   printer, a well-formedness predicate and the denotation -- the parse result the
   documentation of atom.ParsedAtom / depend.PackageDependency promises for what was written.
   Written from the specification and the field documentation, not from the parser.
   Definitions only.

   The *normal forms* of version, revision and slot strings (makeComparable etc.) are shared
   with Model/AtomParse.v on purpose: C14 is about cutting the text at the right places; whether
   the normal form orders versions as PMS does is property C13. *)
From LC Require Import Lib.Bytes Lib.Fields Gen.Consts Model.AtomParse Model.DepParse.
Open Scope list_scope.
Open Scope N_scope.

(* ---- abstract syntax ---- *)
(* suffix kinds: 0 _alpha, 1 _beta, 2 _pre, 3 _rc, 4 _p *)
Record version_ast := MkVer {
  v_nums : list bytes;            (* number components, each a non-empty digit string *)
  v_letter : option ascii;        (* optional lower-case letter *)
  v_sufs : list (N * bytes);      (* suffixes: kind and optional digits *)
  v_rev : option bytes }.         (* -r<digits> *)

Inductive slot_ast :=
| SNone                                               (* no slot part *)
| SAny                                                (* colon star *)
| SSame                                               (* :=  *)
| SSlot (slot : bytes) (sub : option bytes) (eq : bool).   (* :slot[/sub][=] *)

(* USE dependency: prefix 0 none, 33 '!', 45 '-'; default 0 none, 1 (+), 2 (-);
   suffix 0 none, 61 '=', 63 '?' *)
Record use_ast := MkU { ua_prefix : N; ua_flag : bytes; ua_default : N; ua_suffix : N }.

(* operator: 0 none, 1 <, 2 <=, 3 =, 4 >=, 5 >, 6 ~   (the Relop_* numbering) *)
Record atom_ast := MkA {
  a_block : N;                    (* 0, 1 "!", 2 "!!" *)
  a_op : N;
  a_cat : option bytes;
  a_name : bytes;
  a_ver : option version_ast;
  a_glob : bool;                  (* trailing star of =cat/pkg-1.2* , a version glob *)
  a_slot : slot_ast;
  a_repo : option bytes;
  a_use : list use_ast }.

(* dependency items: kind 1 all-of, 2 any-of, 3 exactly-one-of, 4 at-most-one-of,
   5 flag?, 6 !flag?  (the Pkg_dep_* numbering) *)
Inductive dast := TA (a : atom_ast) | TG (kind : N) (flag : bytes) (l : list dast).

(* ---- printer ---- *)
Definition suf_name (k : N) : bytes :=
  if k =? 0 then bs "alpha" else if k =? 1 then bs "beta" else if k =? 2 then bs "pre"
  else if k =? 3 then bs "rc" else bs "p".
Definition print_suf (s : N * bytes) : bytes := nb 95 :: suf_name (fst s) ++ snd s.
Definition opt_char (o : option ascii) : bytes := match o with Some c => [c] | None => [] end.
Definition print_ver_main (v : version_ast) : bytes := join (nb 46) (v_nums v) ++ opt_char (v_letter v).
Definition print_sufs (v : version_ast) : bytes := flat_map print_suf (v_sufs v).
Definition print_rev (v : version_ast) : bytes := match v_rev v with Some d => nb 114 :: d | None => [] end.
Definition print_version (v : version_ast) : bytes :=
  print_ver_main v ++ print_sufs v ++ match v_rev v with Some d => nb 45 :: nb 114 :: d | None => [] end.

Definition print_block (b : N) : bytes := if b =? 0 then [] else if b =? 1 then [nb 33] else [nb 33; nb 33].
Definition print_op (o : N) : bytes :=
  if o =? 1 then [nb 60] else if o =? 2 then [nb 60; nb 61] else if o =? 3 then [nb 61]
  else if o =? 4 then [nb 62; nb 61] else if o =? 5 then [nb 62] else if o =? 6 then [nb 126] else [].
Definition print_cat (c : option bytes) : bytes := match c with Some x => x ++ [nb 47] | None => [] end.
Definition print_verpart (a : atom_ast) : bytes :=
  match a_ver a with
  | Some v => nb 45 :: print_version v ++ (if a_glob a then [nb 42] else [])
  | None => []
  end.
Definition print_slot (s : slot_ast) : bytes :=
  match s with
  | SNone => []
  | SAny => [nb 58; nb 42]
  | SSame => [nb 58; nb 61]
  | SSlot sl sub eq =>
    nb 58 :: sl ++ (match sub with Some b => nb 47 :: b | None => [] end) ++ (if eq then [nb 61] else [])
  end.
Definition print_repo (r : option bytes) : bytes := match r with Some x => nb 58 :: nb 58 :: x | None => [] end.
Definition print_use1 (u : use_ast) : bytes :=
  (if ua_prefix u =? 0 then [] else [nb (ua_prefix u)]) ++ ua_flag u
  ++ (if ua_default u =? 1 then bs "(+)" else if ua_default u =? 2 then bs "(-)" else [])
  ++ (if ua_suffix u =? 0 then [] else [nb (ua_suffix u)]).
Definition print_use (l : list use_ast) : bytes :=
  match l with [] => [] | _ => nb 91 :: join (nb 44) (map print_use1 l) ++ [nb 93] end.
(* category/name, the text the name-version scanner sees *)
Definition print_catname (a : atom_ast) : bytes := print_cat (a_cat a) ++ a_name a.
Definition print_atom (a : atom_ast) : bytes :=
  print_block (a_block a) ++ print_op (a_op a) ++ print_catname a ++ print_verpart a
  ++ print_slot (a_slot a) ++ print_repo (a_repo a) ++ print_use (a_use a).

Definition group_tok (kind : N) (flag : bytes) : list bytes :=
  if kind =? 1 then [] else if kind =? 2 then [bs "||"] else if kind =? 3 then [bs "^^"]
  else if kind =? 4 then [bs "??"] else if kind =? 5 then [flag ++ [nb 63]]
  else [nb 33 :: flag ++ [nb 63]].
(* the token sequence of a dependency item; any white space may separate tokens *)
Fixpoint print_toks (t : dast) : list bytes :=
  match t with
  | TA a => [print_atom a]
  | TG k f l => group_tok k f ++ [bs "("] ++ flat_map print_toks l ++ [bs ")"]
  end.

(* ---- well-formedness (PMS 3.1, 3.2, 8.3) ---- *)
Definition alnum (c : ascii) : bool := is_digit c || is_lower c || is_upper c.
Definition nonempty_digits (d : bytes) : bool := negb (isnil d) && forallb is_digit d.

(* 3.2 version syntax, recognised on text: num(.num)*[a-z]?(_(alpha|beta|pre|rc|p)num?)*(-rnum)? *)
Definition is_suf_chunk (c : bytes) : bool :=
  existsb (fun k => prefixb k c && forallb is_digit (skipn (length k) c))
          [bs "alpha"; bs "beta"; bs "pre"; bs "rc"; bs "p"].
Definition is_last_num (c : bytes) : bool :=
  let '(d, l) := span is_digit c in
  negb (isnil d) && match l with [] => true | [x] => is_lower x | _ => false end.
Fixpoint is_nums (cs : list bytes) : bool :=
  match cs with
  | [] => false
  | [c] => is_last_num c
  | c :: r => nonempty_digits c && is_nums r
  end.
Definition is_pms_version (s : bytes) : bool :=
  let '(body, r) := split2 (nb 45) s in
  (match r with
   | None => true
   | Some rv => match rv with c :: d => is 114 c && nonempty_digits d | [] => false end
   end)
  && match split (nb 95) body with
     | main :: chunks => is_nums (split (nb 46) main) && forallb is_suf_chunk chunks
     | [] => false
     end.
(* the texts that follow each hyphen of [s] *)
Fixpoint hyphen_tails (s : bytes) : list bytes :=
  match s with [] => [] | c :: r => if is 45 c then r :: hyphen_tails r else hyphen_tails r end.

(* 3.1.2 package names: [A-Za-z0-9+_-]+, not beginning with a hyphen or a plus sign, not
   ending in a hyphen followed by anything matching the version syntax *)
Definition pkg_char (c : ascii) : bool := alnum c || is 43 c || is 95 c || is 45 c.
Definition wf_name (n : bytes) : bool :=
  match n with c :: _ => alnum c || is 95 c | [] => false end
  && forallb pkg_char n
  && forallb (fun t => negb (is_pms_version t)) (hyphen_tails n).
(* 3.1.1 category names: [A-Za-z0-9+_.-]+, not beginning with a hyphen, a dot or a plus sign *)
Definition wf_cat (n : bytes) : bool :=
  match n with c :: _ => alnum c || is 95 c | [] => false end
  && forallb (fun c => pkg_char c || is 46 c) n.
(* 3.1.3 slot names: as category names *)
Definition wf_slotname (n : bytes) : bool := wf_cat n.
(* 3.1.5 repository names: [A-Za-z0-9_-]+, not beginning with a hyphen, and a valid package name *)
Definition wf_repo (n : bytes) : bool :=
  forallb (fun c => alnum c || is 95 c || is 45 c) n && wf_name n.
(* 3.1.4 USE flag names: [A-Za-z0-9+_@-]+ beginning with an alphanumeric character *)
Definition wf_flag (n : bytes) : bool :=
  match n with c :: _ => alnum c | [] => false end
  && forallb (fun c => alnum c || is 43 c || is 95 c || is 64 c || is 45 c) n.

Definition wf_version (v : version_ast) : bool :=
  negb (match v_nums v with [] => true | _ => false end) && forallb nonempty_digits (v_nums v)
  && match v_letter v with Some c => is_lower c | None => true end
  && forallb (fun s => (fst s <=? 4) && forallb is_digit (snd s)) (v_sufs v)
  && match v_rev v with Some d => nonempty_digits d | None => true end.

(* 8.3.4: [opt] [opt=] [!opt=] [opt?] [!opt?] [-opt], each optionally with (+) or (-) after the name *)
Definition use_kind (u : use_ast) : option N :=
  let p := ua_prefix u in let s := ua_suffix u in
  if (p =? 0) && (s =? 0) then Some 0          (* Use_dep_enabled *)
  else if (p =? 0) && (s =? 61) then Some 1    (* Use_dep_same *)
  else if (p =? 33) && (s =? 61) then Some 2   (* Use_dep_opposite *)
  else if (p =? 0) && (s =? 63) then Some 3    (* Use_dep_set_only_if *)
  else if (p =? 33) && (s =? 63) then Some 4   (* Use_dep_unset_only_if *)
  else if (p =? 45) && (s =? 0) then Some 5    (* Use_dep_disabled *)
  else None.
Definition wf_use (u : use_ast) : bool :=
  wf_flag (ua_flag u) && (ua_default u <=? 2) && match use_kind u with Some _ => true | None => false end.

Definition wf_slot (s : slot_ast) : bool :=
  match s with
  | SSlot sl sub _ => wf_slotname sl && match sub with Some b => wf_slotname b | None => true end
  | _ => true
  end.

(* [vnr]: a version demands an operator (dependency atoms); without it a bare
   category/package-version is allowed too.  [asdep]: USE dependencies are allowed. *)
Definition wf_atom (vnr asdep : bool) (a : atom_ast) : bool :=
  (a_block a <=? 2) && (a_op a <=? 6)
  && match a_cat a with Some c => wf_cat c | None => true end
  && wf_name (a_name a)
  && match a_ver a with
     | Some v => wf_version v && (negb (a_op a =? 0) || negb vnr) && (negb (a_glob a) || (a_op a =? 3))
     | None => (a_op a =? 0) && negb (a_glob a)
     end
  && wf_slot (a_slot a)
  && match a_repo a with Some r => wf_repo r | None => true end
  && forallb wf_use (a_use a)
  && (asdep || match a_use a with [] => true | _ => false end).

Fixpoint wf_dast (t : dast) : bool :=
  match t with
  | TA a => wf_atom true true a
  | TG k f l =>
    (1 <=? k) && (k <=? 6) && (if (k =? 5) || (k =? 6) then wf_flag f else isnil f)
    && forallb wf_dast l
  end.

(* ---- denotation: the parse result promised for what was written ---- *)
Definition denote_use (u : use_ast) : usedep :=
  MkUse (match use_kind u with Some k => k | None => 0 end) (ua_default u) (ua_flag u).

Definition denote (a : atom_ast) : parsed :=
  let range := a_glob a || (a_op a =? 6) in
  let '(bv, sf, rv, cv, vr) :=
    match a_ver a with
    | None => ([], [], [], [], 0)
    | Some v =>
      let bv := norm_basever (print_ver_main v) in
      let has_suf := match v_sufs v with [] => false | _ => true end in
      let has_rev := match v_rev v with Some _ => true | None => false end in
      let sf := if has_suf then norm_suffix (print_sufs v) else PA_releaseSuffixNormal in
      let rv := if has_rev then make_comparable (print_rev v) else PA_defaultRevision in
      (* CompVer: "concatenation of BaseVer, Suffix, and Revision as appropriate": all three,
         except that a range comparison (tilde or glob) stops before the first part not written *)
      let cv := if range then
                  (if negb has_suf then bv
                   else if negb has_rev then bv ++ sp1 ++ sf
                   else bv ++ sp1 ++ sf ++ sp1 ++ rv)
                else bv ++ sp1 ++ sf ++ sp1 ++ rv in
      (bv, sf, rv, cv, if range then 6 else if a_op a =? 0 then 3 else a_op a)
    end in
  let '(sl, sb, slrel, anys, sames) :=
    match a_slot a with
    | SNone => let z := make_comparable [nb 48] in (z, z, 0, false, false)
    | SAny => ([], [], 0, true, false)
    | SSame => ([], [], 0, true, true)
    | SSlot s sub eq =>
      let z := make_comparable s in
      (z, match sub with Some b => make_comparable b | None => z end, 3, false, eq)
    end in
  MkParsed (print_atom a)
           (match a_cat a with Some c => c | None => [] end) (a_name a)
           bv sf rv cv sl sb (match a_repo a with Some r => r | None => [] end)
           vr slrel anys sames (1 <=? a_block a) (2 <=? a_block a) (map denote_use (a_use a)).

Fixpoint denote_dast (t : dast) : dep :=
  match t with
  | TA a => DAtom (make_da (denote a))
  | TG k f l => DGroup k f (map denote_dast l)
  end.

(* ---- reading a parsed tree back as PMS text ---- *)
Fixpoint dep_toks (d : dep) : list bytes :=
  match d with
  | DAtom a => [l_atom a]
  | DGroup k f l => group_tok k f ++ [bs "("] ++ flat_map dep_toks l ++ [bs ")"]
  end.

(* dependency strings are split at white space (space, \t \n \v \f \r) *)
Definition ptokens (s : bytes) : list bytes := fields s.

(* ---- the two known deviations of the dependency decoder, as classes of inputs ---- *)
(* a USE-conditional token "flag?" / "!flag?" directly followed by something other than "(" *)
Definition is_use_tok (t : bytes) : bool :=
  match get_token t with TUse _ _ _ => true | _ => false end.
Fixpoint bare_use (ts : list bytes) : bool :=
  match ts with
  | t :: ((u :: _) as r) => (is_use_tok t && negb (beq u (bs "("))) || bare_use r
  | _ => false
  end.
(* bytes 0x00-0x08 and 0x0e-0x1f: not white space, yet below the space character *)
Definition ctrl_byte (c : ascii) : bool := is_ws c && negb (is_sp c).
