(* Executable model of
     portage/profile/read_system_set.go   ReadSystemSet, readProfileDirectory, readProfileFile, readParentFile
     portage/depend/userEnteredAtoms.go   UserEnteredDependencies.Add
     cmd/stagemaker/paths.go              addAtomListToSystemSet
   over an abstract profile tree: directories with an optional `packages` and `parent` file
   (as lists of lines) and symbolic links.  The kernel's path resolution (stat, and
   filepath.EvalSymlinks which repeats it) is an executable stand-in ([walk]); atom parsing is the dictionary [dict]
   (string -> what depend.NewDependencyAtom returned).  Definitions only, no proofs. *)
From LC Require Import Lib.Bytes Lib.Lex Lib.Fields Lib.PathM Model.Resolve.

Inductive pnode :=
| PDir (packages : option (list bytes)) (parent : option (list bytes))
| PLink (target : bytes).
Definition pfs := list (bytes * pnode).          (* absolute clean path -> node *)

Section FS.
Variable fs : pfs.

Definition lookup (p : bytes) : option pnode :=
  match find (fun x => beq (fst x) p) fs with Some (_, n) => Some n | None => None end.
(* a directory that exists only because something listed lives below it *)
Definition implicit_dir (p : bytes) : bool :=
  let pre := match p with [c] => if Ascii.eqb c sl then p else p ++ [sl] | _ => p ++ [sl] end in
  existsb (fun x => prefixb pre (fst x)) fs.

Definition render (comps : list bytes) : bytes := sl :: pjoin comps.

(* path_walk of the kernel: components left to right, symbolic links expanded in place *)
Fixpoint walk (fuel : nat) (stack comps : list bytes) : option (list bytes) :=
  match fuel with
  | O => None                      (* ELOOP *)
  | S f =>
    match comps with
    | [] => Some stack
    | c :: rest =>
      if beq c [] || beq c dot then walk f stack rest
      else if beq c dotdot then walk f (removelast stack) rest
      else
        let p := render (stack ++ [c]) in
        match lookup p with
        | Some (PLink t) =>
          if is_rooted t then walk f [] (psplit t ++ rest)
          else walk f stack (psplit t ++ rest)
        | Some (PDir _ _) => walk f (stack ++ [c]) rest
        | None => if implicit_dir p then walk f (stack ++ [c]) rest else None
        end
    end
  end.
Definition walk_fuel : nat := 400.
(* physical path of an existing object: what stat(2) resolves, filepath.EvalSymlinks returns *)
Definition realpath (p : bytes) : option bytes :=
  match walk walk_fuel [] (psplit p) with Some st => Some (render st) | None => None end.

(* fs.IsDir (stat) *)
Definition is_dir (p : bytes) : bool :=
  match realpath p with
  | Some q => match lookup q with Some (PDir _ _) => true | Some (PLink _) => false | None => implicit_dir q end
  | None => false
  end.
Definition dir_node (p : bytes) : option pnode :=
  match realpath p with
  | Some q => match lookup q with Some (PDir a b) => Some (PDir a b) | _ => None end
  | None => None
  end.
(* the lines of <dir>/packages and <dir>/parent when they are regular files *)
Definition packages_of (dir : bytes) : option (list bytes) :=
  match dir_node dir with Some (PDir pk _) => pk | _ => None end.
Definition parent_of (dir : bytes) : option (list bytes) :=
  match dir_node dir with Some (PDir _ pa) => pa | _ => None end.
End FS.

(* ---- UserEnteredDependencies *)
Definition dict := list (bytes * option uatom).
Definition dict_get (d : dict) (s : bytes) : option (option uatom) :=
  match find (fun x => beq (fst x) s) d with Some (_, r) => Some r | None => None end.
Definition ued := list (bytes * uatom).           (* Atoms with the string they were entered as *)

(* Add: a string already entered is kept once; unparsable -> error.  Remove: by string *)
Definition ued_add (d : dict) (s : bytes) (u : ued) : res ued :=
  if memb s (map fst u) then ROk u
  else match dict_get d s with
       | Some (Some a) => ROk (u ++ [(s, a)])
       | Some None => RFailed
       | None => RFailed           (* string outside the dictionary: excluded by wf *)
       end.

Definition ued_remove (s : bytes) (u : ued) : ued := filter (fun x => negb (beq (fst x) s)) u.

Section Read.
Variable fs : pfs.
Variable d : dict.

(* readProfileFile *)
Fixpoint read_packages (lines : list bytes) (u : ued) : res ued :=
  match lines with
  | [] => ROk u
  | l :: r =>
    match l with
    | c :: a => if Nat.ltb 2 (length l) && Ascii.eqb c (nb 42)
                then match ued_add d a u with ROk u' => read_packages r u' | e => e end
                else match a with
                     | c2 :: a2 => if Nat.ltb 3 (length l) && Ascii.eqb c (nb 45) && Ascii.eqb c2 (nb 42)
                                   then read_packages r (ued_remove a2 u)
                                   else read_packages r u
                     | [] => read_packages r u
                     end
    | [] => read_packages r u
    end
  end.

(* readProfileDirectory / readParentFile, fuel = recursion depth *)
Fixpoint read_dir (fuel : nat) (dir : bytes) (u : ued) : res ued :=
  match fuel with
  | O => RDiverge
  | S f =>
    if negb (is_dir fs dir) then RFailed
    else
      let r1 :=
        match parent_of fs dir with
        | Some ls =>
          match realpath fs dir with           (* filepath.EvalSymlinks *)
          | None => RFailed
          | Some pp =>
            (fix parents (ls : list bytes) (u : ued) {struct ls} : res ued :=
               match ls with
               | [] => ROk u
               | l :: r =>
                 if isnil l then parents r u
                 else match read_dir f (pathjoin2 pp l) u with
                      | ROk u' => parents r u'
                      | e => e
                      end
               end) ls u
          end
        | None => ROk u
        end in
      match r1 with
      | ROk u1 => match packages_of fs dir with Some ls => read_packages ls u1 | None => ROk u1 end
      | e => e
      end
  end.
End Read.

(* addAtomListToSystemSet *)
Fixpoint add_atoms (d : dict) (ws : list bytes) (u : ued) : res ued :=
  match ws with
  | [] => ROk u
  | w :: r => match ued_add d w u with ROk u' => add_atoms d r u' | e => e end
  end.

(* setUpStageData (profile part) + -atoms: fuel = number of nodes + 1 levels of parents *)
Definition system_set (fs : pfs) (d : dict) (profile : bytes) (atoms : list bytes) : res ued :=
  if negb (is_dir fs profile) then RFailed
  else match read_dir fs d (S (length fs)) profile [] with
       | ROk u => add_atoms d atoms u
       | e => e
       end.
