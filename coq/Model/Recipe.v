(* Model of cmd/stagemaker/stagemaker.go: the recipe loop of main (lines 113-166),
   parseRecipeLine, and as much of "stagemaker -list system" as is needed to see what the
   recipe did: setUpStageData's directory checks, the atoms files, the atoms list, the
   printed system set.  The file system is an abstract environment given with the case
   (which directories are build roots / profiles, which atoms files exist). *)
From LC Require Import Lib.Bytes Lib.Fields Lib.PathM Model.StageLine Model.StageWild.
Open Scope N_scope.

(* ------------------------------------------------------------------ parseRecipeLine *)
(* first strings.Fields field of a trimmed, non-empty line: up to the first space rune *)
Fixpoint take_key (fuel : nat) (s : bytes) (acc : bytes) : bytes * bytes :=
  match fuel with
  | O => (rev acc, s)
  | S f =>
    match s with
    | [] => (rev acc, [])
    | c :: r =>
      if is_sp c then (rev acc, s)
      else match strip_one_prefix uni_spaces s with
           | Some _ => (rev acc, s)
           | None => take_key f r (c :: acc)
           end
    end
  end.
Definition parse_recipe_line (raw : bytes) : bytes * bytes :=
  let line := go_trim raw in
  let '(key, rest) := take_key (length line) line [] in
  (key, go_trim rest).

(* ------------------------------------------------------------------ the loop *)
Record rsettings := MkRS {
  rs_root : bytes; rs_profile : bytes; rs_atoms : bytes; rs_atomfiles : list bytes;
  rs_addfiles : list bytes; rs_compress : bytes; rs_nobdeps : bool; rs_novdb : bool;
  rs_emptydev : bool; rs_err : bool }.

Definition kw (s : string) := bs s.

Definition recipe_step (root_sw profile_sw : bool) (st : rsettings) (raw : bytes) : rsettings :=
  if is_comment (go_trim raw) then st
  else
    let '(key, value) := parse_recipe_line raw in
    let noval := match value with [] => true | _ => false end in
    let '(MkRS rt pf at_ afs adds cmp nb nv ed er) := st in
    if beq key (kw "root") then MkRS (if root_sw then rt else value) pf at_ afs adds cmp nb nv ed (er || noval)
    else if beq key (kw "profile") then MkRS rt (if profile_sw then pf else value) at_ afs adds cmp nb nv ed (er || noval)
    else if beq key (kw "atoms") then MkRS rt pf (value ++ c_sp :: at_) afs adds cmp nb nv ed (er || noval)
    else if beq key (kw "atomsfile") then MkRS rt pf at_ (afs ++ [value]) adds cmp nb nv ed (er || noval)
    else if beq key (kw "addfiles") then MkRS rt pf at_ afs (adds ++ [value]) cmp nb nv ed (er || noval)
    else if beq key (kw "compress") then MkRS rt pf at_ afs adds (match cmp with [] => value | _ => cmp end) nb nv ed (er || noval)
    else if beq key (kw "nobdeps") then MkRS rt pf at_ afs adds cmp true nv ed er
    else if beq key (kw "novdb") then MkRS rt pf at_ afs adds cmp nb true ed er
    else if beq key (kw "emptydev") then MkRS rt pf at_ afs adds cmp nb nv true er
    else MkRS rt pf at_ afs adds cmp nb nv ed true.

(* the command line: -root -profile -atoms -atomsfile (empty = not given) *)
Record rcmd := MkRC { rc_root : bytes; rc_profile : bytes; rc_atoms : bytes; rc_atomsfile : bytes }.

Definition recipe_loop (cmd : rcmd) (lines : list bytes) : rsettings :=
  let root_sw := match rc_root cmd with [] => false | _ => true end in
  let profile_sw := match rc_profile cmd with [] => false | _ => true end in
  fold_left (recipe_step root_sw profile_sw)
            lines (MkRS (rc_root cmd) (rc_profile cmd) (rc_atoms cmd) [] [] [] false false false false).

(* ------------------------------------------------------------------ -list system *)
(* environment: cwd; build roots (absolute, clean) ; profile directories with the atoms of
   their packages file; atoms files with their atoms *)
Record renv := MkEnv { en_cwd : bytes; en_roots : list bytes;
                       en_profiles : list (bytes * list bytes); en_afiles : list (bytes * list bytes) }.

Definition abs_path (cwd p : bytes) : bytes := if is_abs p then clean p else pathjoin2 cwd p.
Fixpoint lookup_b {A} (k : bytes) (l : list (bytes * A)) : option A :=
  match l with [] => None | (a, b) :: r => if beq a k then Some b else lookup_b k r end.

Fixpoint add_atoms (seen : list bytes) (atoms : list bytes) : option (list bytes) :=
  match atoms with
  | [] => Some seen
  | a :: r => if memb a seen then add_atoms seen r      (* an atom entered twice is harmless: the first entry stays *)
              else add_atoms (seen ++ [a]) r
  end.
Fixpoint add_afiles (env : renv) (seen : list bytes) (files : list bytes) : option (list bytes) :=
  match files with
  | [] => Some seen
  | f :: r =>
    match lookup_b (abs_path (en_cwd env) f) (en_afiles env) with
    | None => None
    | Some atoms => match add_atoms seen atoms with Some s => add_afiles env s r | None => None end
    end
  end.

(* result class: the printed system set, a failure whose every message names the recipe
   file and a line, or another failure *)
Inductive rres := RROk (atoms : list bytes) | RRRecipeErr | RRFail.

Definition list_system (env : renv) (cmd : rcmd) (lines : list bytes) : rres :=
  let st := recipe_loop cmd lines in
  if rs_err st then RRRecipeErr
  else
    let root := match rs_root st with [] => en_cwd env | r => abs_path (en_cwd env) r end in
    if negb (memb root (en_roots env)) then RRFail
    else
      let pdir := match rs_profile st with
                  | [] => pathjoin2 root (bs "/etc/portage/make.profile")
                  | p => abs_path (en_cwd env) p
                  end in
      match lookup_b pdir (en_profiles env) with
      | None => RRFail
      | Some patoms =>
        match add_atoms [] patoms with
        | None => RRFail
        | Some s1 =>
          let files := rs_atomfiles st ++ match rc_atomsfile cmd with [] => [] | f => [f] end in
          match add_afiles env s1 files with
          | None => RRFail
          | Some s2 =>
            match add_atoms s2 (fields (rs_atoms st)) with
            | None => RRFail
            | Some s3 => RROk s3
            end
          end
        end
      end.

Definition rres_beq (a b : rres) : bool :=
  match a, b with
  | RROk x, RROk y => list_beq beq x y
  | RRRecipeErr, RRRecipeErr => true
  | RRFail, RRFail => true
  | _, _ => false
  end.
