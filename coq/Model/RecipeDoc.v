(* The DOCUMENTED meaning of a recipe file (doc/stagemaker_manpage.adoc, RECIPE-FILE FORMAT),
   over structured lines "directive <arguments>", observed through "stagemaker -list system". *)
From LC Require Import Lib.Bytes Lib.Fields Lib.PathM Model.StageLine Model.StageWild Model.Recipe.
Open Scope N_scope.

Record rline := MkQ { q_lead : bytes; q_key : bytes; q_sep : bytes; q_val : bytes; q_trail : bytes }.
Inductive ritem := RComment (raw : bytes) | RLine (l : rline).

Definition rline_render (l : rline) : bytes := q_lead l ++ q_key l ++ q_sep l ++ q_val l ++ q_trail l.
Definition ritem_render (it : ritem) : bytes :=
  match it with RComment b => b | RLine l => rline_render l end.

Definition no_uni (s : bytes) : bool := negb (existsb uni_lead s).
Definition no_nl (s : bytes) : bool := negb (existsb (fun c => Ascii.eqb c (nb 10)) s).
Definition last_ok (s : bytes) : bool := match rev s with c :: _ => negb (is_sp c) | [] => true end.
(* an argument is the rest of the line without the white space around it: it neither starts nor
   ends with a white-space character -- ASCII, or one of the multi-byte Unicode spaces that
   strings.TrimSpace takes off.  INSIDE it any bytes may stand (runs of blanks, tabs, \v \f \r,
   NBSP, NEL, EM SPACE ...): they belong to the value. *)
Definition val_edges_ok (v : bytes) : bool :=
  match strip_one_prefix uni_spaces v with None => true | Some _ => false end
  && match strip_one_prefix (map (@rev ascii) uni_spaces) (rev v) with None => true | Some _ => false end.
Definition rline_ok (l : rline) : bool :=
  forallb is_blank (q_lead l) && forallb is_blank (q_sep l) && forallb is_blank (q_trail l)
  && match q_key l with [] => false | _ => true end
  && forallb (fun c => negb (is_sp c)) (q_key l) && no_uni (q_key l)
  && negb (is_comment (q_key l))
  && val_edges_ok (q_val l) && no_nl (q_val l) && last_ok (q_val l)
  && match q_val l with
     | [] => true
     | c :: _ => negb (is_sp c) && match q_sep l with [] => false | _ => true end
     end.
Definition ritem_ok (it : ritem) : bool :=
  match it with RComment b => is_comment (go_trim b) && no_nl b | RLine l => rline_ok l end.

Definition valued_keys : list bytes := [kw "root"; kw "profile"; kw "atoms"; kw "atomsfile"; kw "addfiles"; kw "compress"].
Definition flag_keys : list bytes := [kw "nobdeps"; kw "novdb"; kw "emptydev"].

(* a line the manual does not allow: unknown directive, or a directive without its argument *)
Definition rline_bad (l : rline) : bool :=
  if memb (q_key l) valued_keys then match q_val l with [] => true | _ => false end
  else negb (memb (q_key l) flag_keys).
(* a line the manual says nothing about: an argument after a flag directive *)
Definition rline_open (l : rline) : bool :=
  memb (q_key l) flag_keys && match q_val l with [] => false | _ => true end.

Definition lines_of (items : list ritem) : list rline :=
  flat_map (fun it => match it with RLine l => [l] | RComment _ => [] end) items.
Definition vals_of (key : bytes) (ls : list rline) : list bytes :=
  map q_val (filter (fun l => beq (q_key l) key) ls).

Inductive drres := DRRecipeErr | DRFail | DRUnk | DROk (atoms : list bytes).

Fixpoint nodupb (l : list bytes) : bool :=
  match l with [] => true | x :: r => negb (memb x r) && nodupb r end.

Definition doc_recipe (env : renv) (cmd : rcmd) (items : list ritem) : drres :=
  let ls := lines_of items in
  if existsb rline_bad ls then DRRecipeErr
  else if existsb rline_open ls then DRUnk
  else
    (* the switch overrides the recipe; two settings in the recipe: nothing is said *)
    let pick (sw : bytes) (key : bytes) : option (option bytes) :=
      match sw with
      | _ :: _ => Some (Some sw)
      | [] => match vals_of key ls with [] => Some None | [v] => Some (Some v) | _ => None end
      end in
    match pick (rc_root cmd) (kw "root"), pick (rc_profile cmd) (kw "profile") with
    | Some r, Some p =>
      let root := match r with Some v => abs_path (en_cwd env) v | None => en_cwd env end in
      if negb (memb root (en_roots env)) then DRFail
      else
        let pdir := match p with Some v => abs_path (en_cwd env) v
                                 | None => pathjoin2 root (bs "/etc/portage/make.profile") end in
        match lookup_b pdir (en_profiles env) with
        | None => DRFail
        | Some patoms =>
          let files := vals_of (kw "atomsfile") ls ++ match rc_atomsfile cmd with [] => [] | f => [f] end in
          let fatoms := map (fun f => lookup_b (abs_path (en_cwd env) f) (en_afiles env)) files in
          if existsb (fun o => match o with None => true | Some _ => false end) fatoms then DRFail
          else
            let all := patoms ++ flat_map (fun o => match o with Some a => a | None => [] end) fatoms
                       ++ flat_map fields (vals_of (kw "atoms") ls) ++ fields (rc_atoms cmd) in
            if nodupb all then DROk all else DRUnk
        end
    | _, _ => DRUnk
    end.

Definition same_set (a b : list bytes) : bool :=
  forallb (fun x => memb x b) a && forallb (fun x => memb x a) b.

(* the property on one recipe run *)
Definition recipe_spec (env : renv) (cmd : rcmd) (items : list ritem) (r : rres) : bool :=
  match doc_recipe env cmd items, r with
  | DRRecipeErr, RRRecipeErr => true
  | DRRecipeErr, _ => false
  | DRFail, RROk _ => false
  | DRFail, _ => true
  | DRUnk, _ => true
  | DROk a, RROk b => same_set a b
  | DROk _, _ => false
  end.
