(* Executable model of the stagemaker dependency resolver:
     portage/atom/atom.go           AtomSet (Add, GetByName, SortedAtoms)
     portage/vdb/get_list.go        GetInstalledPackageList / setAtom (IUSE_EFFECTIVE|IUSE, USE)
     portage/vdb/solution.go        ResolveUserDeps, findPackageCategory, findDependencies,
                                    ResolveAtom, ResolveEach, ResolveSomeOf
     portage/depend/resolver.go     Resolver.Resolve
   over an abstract VDB.  Atom parsing (C14) and atom matching (C13) are not modelled here:
   every atom carries the package name the real parser gave it and the list of installed
   packages the real matcher (DependAtom.FilterAtoms, in the owning package's USE context)
   accepts.  Definitions only, no proofs. *)
From LC Require Import Lib.Bytes Lib.Lex Lib.Fields.

(* ---- outcomes: Go errors, panics and exhausted fuel are explicit *)
Inductive res (A : Type) : Type := ROk (a : A) | RFailed | RPanic | RDiverge.
Arguments ROk {A} a. Arguments RFailed {A}. Arguments RPanic {A}. Arguments RDiverge {A}.
Definition rbind {A B} (r : res A) (f : A -> res B) : res B :=
  match r with ROk a => f a | RFailed => RFailed | RPanic => RPanic | RDiverge => RDiverge end.

(* ---- the abstract VDB *)
Record atomr := MkAtom {
  a_pn : bytes;          (* PackageName(): category/name *)
  a_blk : bool;          (* blocker (! or !!) *)
  a_match : list N }.    (* oracle: ids of the installed packages passing VersionAndSlotMatch and FlagsMatch *)
Inductive gkind := GAll | GAny | GOne | GMost | GUse (f : bytes) | GNuse (f : bytes).
Inductive dep := DAtom (a : atomr) | DGrp (k : gkind) (l : list dep).
(* a dependency file: absent, not decodable (DecodeDependencies error / panic), or its parse tree *)
Inductive dfile := FNone | FBad | FPanic | FDeps (l : list dep).
Record pkg := MkPkg {
  p_cat : bytes;                 (* directory var/db/pkg/<cat> *)
  p_pf : bytes;                  (* directory <name>-<version> *)
  p_pn : bytes;                  (* PackageName(): category "/" name, the name being PF without its version.  In a case:
                                    cut by the harness, re-checked by C05.name_tied -- not the loader's answer *)
  p_slot : bytes;                (* GetSlot(): comparable slot key, sub-slot stripped.  In a case: C05.slot_key of the
                                    SLOT text the harness wrote -- not the loader's answer *)
  p_iuse_eff : option bytes;     (* file contents *)
  p_iuse : option bytes;
  p_use : option bytes;
  p_bdep : dfile; p_dep : dfile; p_rdep : dfile; p_pdep : dfile }.

Definition memN (i : N) (l : list N) : bool := existsb (N.eqb i) l.
Definition memb (x : bytes) (l : list bytes) : bool := existsb (beq x) l.
Definition isnil {A} (l : list A) : bool := match l with [] => true | _ => false end.
Definition c_sl : ascii := nb 47.
Definition pkg_str (p : pkg) : bytes := p_cat p ++ c_sl :: p_pf p.        (* String() *)

(* ---- USE flags of an installed package: setAtom + UseFlagSet.GetMap *)
Definition strip_sign (n : bytes) : bytes :=
  match n with
  | c :: r => if Ascii.eqb c (nb 43) || Ascii.eqb c (nb 45) then r else n
  | [] => []
  end.
Fixpoint dedup (l : list bytes) (seen : list bytes) : list bytes :=
  match l with
  | [] => []
  | x :: r => if memb x seen then dedup r seen else x :: dedup r (x :: seen)
  end.
Definition iuse_line (p : pkg) : bytes :=
  match p_iuse_eff p with
  | Some s => trim s
  | None => match p_iuse p with Some s => trim s | None => [] end
  end.
(* NewUseFlagSetFromIUSE: strings.Split(group, " "), empty names skipped, one sign stripped, first wins *)
Definition iuse_names (p : pkg) : list bytes :=
  dedup (map strip_sign (filter (fun n => negb (isnil n)) (split (nb 32) (iuse_line p)))) [].
(* SetFlagsFromUSE: strings.Fields, one sign stripped; only declared flags can be set *)
Definition use_words (p : pkg) : list bytes :=
  match p_use p with Some s => map strip_sign (fields (trim s)) | None => [] end.
Definition use_on (p : pkg) (f : bytes) : bool := memb f (iuse_names p) && memb f (use_words p).

(* ---- AtomSet (GroupBySlot).  The Go map name -> slice is kept as an association list sorted
        by name (its canonical image: the code only looks names up or sorts them). *)
Definition entry := (bytes * N)%type.            (* grouping key (slot), package id *)
Definition aset := list (bytes * list entry).

(* the scan of AtomSet.Add: None = key present (no change); Some pos = where to insert
   (None inside = append): before the first item with a smaller key. *)
Fixpoint scan_slice (key : bytes) (sl : list entry) (i : nat) (pos : option nat) : option (option nat) :=
  match sl with
  | [] => Some pos
  | (k, _) :: r => if beq k key then None
                   else scan_slice key r (S i)
                          (match pos with None => if ltb k key then Some i else None | Some _ => pos end)
  end.
Definition slice_add (key : bytes) (id : N) (sl : list entry) : list entry :=
  match scan_slice key sl 0 None with
  | None => sl
  | Some None => sl ++ [(key, id)]
  | Some (Some p) => firstn p sl ++ (key, id) :: skipn p sl
  end.
Fixpoint aset_upd (nm : bytes) (f : list entry -> list entry) (s : aset) : aset :=
  match s with
  | [] => [(nm, f [])]
  | (n, sl) :: r => if beq n nm then (n, f sl) :: r
                    else if ltb nm n then (nm, f []) :: s
                    else (n, sl) :: aset_upd nm f r
  end.
Definition aset_add (s : aset) (nm key : bytes) (id : N) : aset := aset_upd nm (slice_add key id) s.
Definition get_by_name (s : aset) (nm : bytes) : list entry :=
  match find (fun x => beq (fst x) nm) s with Some (_, sl) => sl | None => [] end.
(* SortedAtoms: names sorted, each slice from its end to its start *)
Definition sorted_atoms (s : aset) : list N := flat_map (fun x => rev (map snd (snd x))) s.

(* ---- resolution state *)
Record gstate := MkG { g_added : list N; g_blocked : list N; g_res : aset }.
Definition rstate := (gstate * list N)%type.      (* marks and Resolution; data.resolved *)

Section Resolver.
Variable vdb : list pkg.
Variable inst : aset.           (* Solution.Installed *)
Variable bdeps : bool.          (* IncludeBdepend *)

Definition pkg_at (i : N) : option pkg := nth_error vdb (N.to_nat i).

(* GetByName + FilterAtoms *)
Definition candidates (a : atomr) : list N :=
  filter (fun i => memN i (a_match a)) (map snd (get_by_name inst (a_pn a))).

Fixpoint block_loop (cs : list N) (g : gstate) : res gstate :=
  match cs with
  | [] => ROk g
  | c :: r => if memN c (g_added g) then RFailed
              else block_loop r (MkG (g_added g) (c :: g_blocked g) (g_res g))
  end.

(* installedResolverData.ResolveAtom *)
Definition resolve_atom (cond : bool) (a : atomr) (st : rstate) : res rstate :=
  let '(g, rs) := st in
  let cs := candidates a in
  if a_blk a then
    match block_loop cs g with ROk g' => ROk (g', rs) | RFailed => RFailed | RPanic => RPanic | RDiverge => RDiverge end
  else match cs with
       | [] => if cond then ROk st else RFailed
       | _ => ROk (g, rs ++ cs)
       end.

Section Inner.
(* mark Added, add to the Resolution, findDependencies -- supplied by the fuel level below *)
Variable visit : N -> gstate -> res gstate.

(* the loop at the end of ResolveEach *)
Fixpoint each_loop (cond : bool) (rs : list N) (g : gstate) : res gstate :=
  match rs with
  | [] => ROk g
  | i :: r => if memN i (g_blocked g) then RFailed
              else if memN i (g_added g) || cond then each_loop cond r g
              else match visit i g with
                   | ROk g' => each_loop cond r g'
                   | e => e
                   end
  end.

(* one element of the loop of Resolver.Resolve; [children] is Resolver.Resolve on a list *)
Fixpoint resolve_dep (use : bytes -> bool) (cond : bool) (d : dep) (st : rstate) {struct d} : res rstate :=
  match d with
  | DAtom a => resolve_atom cond a st
  | DGrp k l =>
    let children :=
      fix go (cnd : bool) (l : list dep) (st : rstate) {struct l} : res rstate :=
        match l with
        | [] => ROk st
        | c :: r => match resolve_dep use cnd c st with ROk st' => go cnd r st' | e => e end
        end in
    (* ResolveSomeOf: sub-resolver in conditional mode with its own resolved list *)
    let some_of (minN maxN : nat) :=
      match children true l (fst st, []) with
      | ROk (g', sub) => if Nat.ltb (length sub) minN then RFailed
                         else ROk (g', snd st ++ firstn maxN sub)
      | e => e
      end in
    match k with
    | GAll => (* ResolveEach *)
      match children cond l st with
      | ROk (g, rs) => match each_loop cond rs g with
                       | ROk g' => ROk (g', rs)
                       | RFailed => RFailed | RPanic => RPanic | RDiverge => RDiverge
                       end
      | e => e
      end
    | GAny => some_of 1%nat (length l)
    | GOne => some_of 1%nat 1%nat
    | GMost => some_of 0%nat 1%nat
    | GUse f => if use f then children cond l st else ROk st
    | GNuse f => if use f then ROk st else children cond l st
    end
  end.
End Inner.

Definition dep_files (p : pkg) : list dfile :=
  if bdeps then [p_bdep p; p_dep p; p_rdep p; p_pdep p] else [p_rdep p; p_pdep p].
Fixpoint collect (fs : list dfile) (acc : list dep) : res (list dep) :=
  match fs with
  | [] => ROk acc
  | FNone :: r => collect r acc
  | FBad :: _ => RFailed
  | FPanic :: _ => RPanic
  | FDeps l :: r => collect r (acc ++ l)
  end.

(* ia.Added = true; Resolution.Add(ia); findDependencies(ia) *)
Fixpoint visit_pkg (n : nat) (i : N) (g : gstate) : res gstate :=
  match n with
  | O => RDiverge
  | S n' =>
    match pkg_at i with
    | None => RPanic
    | Some p =>
      let g1 := MkG (i :: g_added g) (g_blocked g) (aset_add (g_res g) (p_pn p) (p_slot p) i) in
      match collect (dep_files p) [] with
      | ROk [] => ROk g1
      | ROk deps =>
        match resolve_dep (visit_pkg n') (use_on p) false (DGrp GAll deps) (g1, []) with
        | ROk (g', _) => ROk g'
        | RFailed => RFailed | RPanic => RPanic | RDiverge => RDiverge
        end
      | RFailed => RFailed | RPanic => RPanic | RDiverge => RDiverge
      end
    end
  end.

(* ---- ResolveUserDeps *)
Record uatom := MkU { u_cat : bytes; u_nm : bytes; u_blk : bool; u_match : list N }.

(* findPackageCategory: strings.Split(fqname, "/"), parts[1] == name -> parts[0]; None = index panic *)
Fixpoint find_cats (s : aset) (nm : bytes) : option (list bytes) :=
  match s with
  | [] => Some []
  | (fq, _) :: r =>
    let parts := split c_sl fq in
    match nth_error parts 1, find_cats r nm with
    | Some n, Some cs => Some (if beq n nm then hd [] parts :: cs else cs)
    | _, _ => None
    end
  end.

Definition mk_atom (cat : bytes) (u : uatom) : atomr := MkAtom (cat ++ c_sl :: u_nm u) (u_blk u) (u_match u).

Fixpoint classify (us : list uatom) (wanted blockers : list atomr) : res (list atomr * list atomr) :=
  match us with
  | [] => ROk (wanted, blockers)
  | u :: r =>
    let push (a : atomr) :=
      if u_blk u then classify r wanted (blockers ++ [a]) else classify r (wanted ++ [a]) blockers in
    if isnil (u_nm u) then RFailed
    else if isnil (u_cat u) then
      match find_cats inst (u_nm u) with
      | None => RPanic
      | Some [c] => push (mk_atom c u)
      | Some [] => if u_blk u then classify r wanted blockers else RFailed
      | Some _ => RFailed
      end
    else push (mk_atom (u_cat u) u)
  end.

Definition g0 : gstate := MkG [] [] [].

Definition resolve_user (fuel : nat) (us : list uatom) : res gstate :=
  match classify us [] [] with
  | ROk (wanted, blockers) =>
    match resolve_dep (visit_pkg fuel) (fun _ => false) false
                      (DGrp GAll (map DAtom (blockers ++ wanted))) (g0, []) with
    | ROk (g, _) => ROk g
    | RFailed => RFailed | RPanic => RPanic | RDiverge => RDiverge
    end
  | RFailed => RFailed | RPanic => RPanic | RDiverge => RDiverge
  end.
End Resolver.

(* GetInstalledPackageList: AtomSet.Add in enumeration order *)
Definition installed (vdb : list pkg) (enum : list N) : aset :=
  fold_left (fun s i => match pkg_at vdb i with
                        | Some p => aset_add s (p_pn p) (p_slot p) i
                        | None => s
                        end) enum [].

Definition listing (vdb : list pkg) (ids : list N) : list bytes :=
  map (fun i => match pkg_at vdb i with Some p => pkg_str p | None => [] end) ids.

(* generateStageSet: fuel = number of installed packages + 1 *)
Definition stage_set (vdb : list pkg) (enum : list N) (bdeps : bool) (us : list uatom) : res (list bytes) :=
  let inst := installed vdb enum in
  match resolve_user vdb inst bdeps (S (length vdb)) us with
  | ROk g => ROk (listing vdb (sorted_atoms (g_res g)))
  | RFailed => RFailed | RPanic => RPanic | RDiverge => RDiverge
  end.
