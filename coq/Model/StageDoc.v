(* The DOCUMENTED side of property C17, transcribed from doc/stagemaker_manpage.adoc
   (ADD-FILES FORMAT), the format comment of stage/fileList.go and POSIX/GNU chmod(1)
   (DESIGN appendix D) -- not from the code:
     - structured add-files lines, the three documented quoting styles and their rendering;
     - the reference semantics of chmod(1) mode strings;
     - which type/option combinations and which values the manual allows, and what an
       accepted line means.
   Executable definitions only. *)
From LC Require Import Lib.Bytes Lib.Fields Model.StageLine.
Open Scope N_scope.

(* ------------------------------------------------------------------ structured fields *)
(* one character of a name or value as the user means it *)
Inductive ftok :=
  | FLit (c : ascii)      (* this byte, literally (never '*', never NUL) *)
  | FEsc                  (* a literal asterisk, written \* in every style *)
  | FStar.                (* a wildcard asterisk *)

Inductive qstyle := QBare | QSingle | QDouble.

Record sfield := MkF { f_sep : bytes; f_style : qstyle; f_toks : list ftok }.
Record sline := MkSL { sl_fields : list sfield; sl_trail : bytes }.

(* how the tool represents a field internally: a literal asterisk stays escaped *)
Definition tok_value (t : ftok) : bytes :=
  match t with FLit c => [c] | FEsc => [c_bsl; c_star] | FStar => [c_star] end.
Definition fvalue (ts : list ftok) : bytes := flat_map tok_value ts.

(* what the user means: the name with its literal asterisks (wildcards aside) *)
Definition tok_meant (t : ftok) : bytes :=
  match t with FLit c => [c] | FEsc => [c_star] | FStar => [c_star] end.
Definition fmeant (ts : list ftok) : bytes := flat_map tok_meant ts.

Definition needs_esc_bare (c : ascii) : bool := is_blank c || is_quote c || Ascii.eqb c c_bsl.
Definition render_tok_bare (t : ftok) : bytes :=
  match t with
  | FLit c => if needs_esc_bare c then [c_bsl; c] else [c]
  | FEsc => [c_bsl; c_star]
  | FStar => [c_star]
  end.
Definition render_tok_q (q : ascii) (t : ftok) : bytes :=
  match t with
  | FLit c => if Ascii.eqb c q || Ascii.eqb c c_bsl then [c_bsl; c] else [c]
  | FEsc => [c_bsl; c_star]
  | FStar => [c_star]
  end.
Definition render_field (st : qstyle) (ts : list ftok) : bytes :=
  match st with
  | QBare => flat_map render_tok_bare ts
  | QSingle => c_sq :: flat_map (render_tok_q c_sq) ts ++ [c_sq]
  | QDouble => c_dq :: flat_map (render_tok_q c_dq) ts ++ [c_dq]
  end.
Definition render_sfield (f : sfield) : bytes := f_sep f ++ render_field (f_style f) (f_toks f).
Definition render_line (sl : sline) : bytes := flat_map render_sfield (sl_fields sl) ++ sl_trail sl.

Definition tok_ok (t : ftok) : bool :=
  match t with FLit c => negb (Ascii.eqb c c_nul) && negb (Ascii.eqb c c_star) | _ => true end.
(* "backslash escapes" need a first character that is not itself escaped: every documented
   field starts with a keyword letter or a slash *)
Definition first_ok (st : qstyle) (ts : list ftok) : bool :=
  match st, ts with
  | _, [] => false
  | QBare, FLit c :: _ => negb (needs_esc_bare c)
  | _, _ => true
  end.
Definition sfield_ok (first : bool) (f : sfield) : bool :=
  forallb is_blank (f_sep f) && (first || match f_sep f with [] => false | _ => true end)
  && forallb tok_ok (f_toks f) && first_ok (f_style f) (f_toks f).
Fixpoint sfields_ok (first : bool) (l : list sfield) : bool :=
  match l with [] => true | f :: r => sfield_ok first f && sfields_ok false r end.
Definition sline_ok (sl : sline) : bool :=
  sfields_ok true (sl_fields sl) && forallb is_blank (sl_trail sl).

(* ------------------------------------------------------------------ chmod(1) reference *)
(* GNU reading of POSIX chmod: the sticky bit belongs to "o"; an omitted who is "a" with
   umask 0 (stagemaker has no umask notion).  Regular files only (X looks at the x bits). *)
Definition who_mask (c : ascii) : option N :=
  let n := bn c in
  if n =? 117 then Some 2496          (* u: 04700 *)
  else if n =? 103 then Some 1080     (* g: 02070 *)
  else if n =? 111 then Some 519      (* o: 01007 *)
  else if n =? 97 then Some 4095      (* a: 07777 *)
  else None.
Definition perm_mask (c : ascii) (base : N) : option N :=
  let n := bn c in
  if n =? 114 then Some 292           (* r: 0444 *)
  else if n =? 119 then Some 146      (* w: 0222 *)
  else if n =? 120 then Some 73       (* x: 0111 *)
  else if n =? 88 then Some (if N.land base 73 =? 0 then 0 else 73)   (* X *)
  else if n =? 115 then Some 3072     (* s: 06000 *)
  else if n =? 116 then Some 512      (* t: 01000 *)
  else None.
Definition copy_mask (c : ascii) (base : N) : option N :=
  let n := bn c in
  if n =? 117 then Some (((base / 64) mod 8) * 73)
  else if n =? 103 then Some (((base / 8) mod 8) * 73)
  else if n =? 111 then Some ((base mod 8) * 73)
  else None.
Definition is_op (c : ascii) : bool := Ascii.eqb c c_plus || Ascii.eqb c c_minus || Ascii.eqb c c_eq.

Inductive rkind := KFresh | KPerms | KCopied.
Inductive rphase := RWho (w : N) | ROp (sub : bool) (we : N) (k : rkind).
Record rstate := MkR { r_mode : N; r_base : N; r_phase : rphase; r_lenient : bool }.

Definition rkind_fresh (k : rkind) : bool := match k with KFresh => true | _ => false end.
Definition rkind_copied (k : rkind) : bool := match k with KCopied => true | _ => false end.

Definition ref_apply (sub : bool) (m v : N) : N := if sub then N.ldiff m v else N.lor m v.

(* one character.  Two leniencies beyond chmod(1), both marked in [r_lenient]:
   L1 permission letters without an operator mean "+" (stagemaker's test suite pins mod=t);
   L2 an empty clause, or one that only names who, changes nothing. *)
Definition ref_step (st : rstate) (c : ascii) : option rstate :=
  let '(MkR m base ph len) := st in
  match ph with
  | RWho w =>
    match who_mask c with
    | Some wm => Some (MkR m base (RWho (N.lor w wm)) len)
    | None =>
      let we := if w =? 0 then 4095 else w in
      if is_op c then
        Some (MkR (if Ascii.eqb c c_eq then N.ldiff m we else m) m
                  (ROp (Ascii.eqb c c_minus) we KFresh) len)
      else match perm_mask c m with
      | Some pm => Some (MkR (N.lor m (N.land pm we)) m (ROp false we KPerms) true)      (* L1 *)
      | None => if Ascii.eqb c c_comma then Some (MkR m base (RWho 0) true) else None     (* L2 *)
      end
    end
  | ROp sub we k =>
    if is_op c then
      Some (MkR (if Ascii.eqb c c_eq then N.ldiff m we else m) m
                (ROp (Ascii.eqb c c_minus) we KFresh) len)
    else if Ascii.eqb c c_comma then Some (MkR m base (RWho 0) len)
    else match perm_mask c base with
    | Some pm => if rkind_copied k then None
                 else Some (MkR (ref_apply sub m (N.land pm we)) base (ROp sub we KPerms) len)
    | None =>
      match copy_mask c base with
      | Some cm => if rkind_fresh k
                   then Some (MkR (ref_apply sub m (N.land cm we)) base (ROp sub we KCopied) len)
                   else None
      | None => None
      end
    end
  end.

Fixpoint ref_loop (s : bytes) (st : rstate) : option rstate :=
  match s with
  | [] => Some st
  | c :: r => match ref_step st c with Some st' => ref_loop r st' | None => None end
  end.

Definition ref_octal (s : bytes) : option N :=
  match s with
  | [] => None
  | _ => let v := num_val 8 s in if v <=? 4095 then Some v else None
  end.

(* the mode a file of mode [m] has after "chmod s file"; None = not a mode string *)
Definition chmod_ref (s : bytes) (m : N) : option N :=
  if forallb is_oct s then ref_octal s
  else match ref_loop s (MkR m m (RWho 0) false) with
       | Some st => Some (r_mode st)
       | None => None
       end.

(* what chmod(1) itself answers: the same without the two leniencies *)
Definition chmod1 (s : bytes) (m : N) : option N :=
  if forallb is_oct s then ref_octal s
  else match ref_loop s (MkR m m (RWho 0) false) with
       | Some st => match r_phase st with
                    | ROp _ _ _ => if r_lenient st then None else Some (r_mode st)
                    | RWho _ => None
                    end
       | None => None
       end.

(* the subset every implementation of the manual must accept: octal of up to four digits,
   or clauses [ugoa]?[+-][rwxst] separated by commas *)
Definition simple_clause (cl : bytes) : bool :=
  match cl with
  | [w; o; p] => match who_mask w with Some _ => true | None => false end
                 && (Ascii.eqb o c_plus || Ascii.eqb o c_minus)
                 && match perm_mask p 0 with Some _ => negb (bn p =? 88) | None => false end
  | [o; p] => (Ascii.eqb o c_plus || Ascii.eqb o c_minus)
              && match perm_mask p 0 with Some _ => negb (bn p =? 88) | None => false end
  | _ => false
  end.
Definition simple_mode (s : bytes) : bool :=
  if forallb is_oct s then (1 <=? length s)%nat && (length s <=? 4)%nat
  else forallb simple_clause (split c_comma s).

Definition all_modes : list N := map N.of_nat (seq 0 4096).

Definition optN_beq (a b : option N) : bool :=
  match a, b with Some x, Some y => x =? y | None, None => true | _, _ => false end.

(* (andMask, orMask) acts on every mode as chmod(1) s would *)
Definition perm_is_chmod (s : bytes) (a o : N) : bool :=
  forallb (fun m => optN_beq (chmod_ref s m) (Some (apply_perm a o m))) all_modes.

(* ------------------------------------------------------------------ documented lines *)
Inductive status := MustAccept | MustReject | Either | Free.
Definition st_join (a b : status) : status :=
  match a, b with
  | MustReject, _ | _, MustReject => MustReject
  | Free, _ | _, Free => Free
  | Either, _ | _, Either => Either
  | MustAccept, MustAccept => MustAccept
  end.

Fixpoint plain_of (ts : list ftok) : option bytes :=
  match ts with
  | [] => Some []
  | FLit c :: r => match plain_of r with Some b => Some (c :: b) | None => None end
  | _ :: _ => None
  end.
Definition has_star (ts : list ftok) : bool := existsb (fun t => match t with FStar => true | _ => false end) ts.

(* key=value: split at the first '=' *)
Fixpoint split_eq (ts : list ftok) (key : bytes) : option (bytes * list ftok) :=
  match ts with
  | [] => None
  | FLit c :: r => if Ascii.eqb c c_eq then Some (rev key, r) else split_eq r (c :: key)
  | _ :: _ => None          (* an asterisk inside the key: no documented option *)
  end.

(* the type x option table of the manual (dir+src: shown in its examples) *)
Definition doc_allowed (ty key : bytes) : bool :=
  if beq ty t_file then memb key [k_mod; k_uid; k_gid; k_src; k_absent]
  else if beq ty t_dir then memb key [k_mod; k_uid; k_gid; k_src; k_absent]
  else if beq ty t_node then memb key [k_mod; k_uid; k_gid; k_dev; k_src; k_absent]
  else if beq ty t_symlink then memb key [k_targ; k_absent]
  else if beq ty t_tbd then memb key [k_absent]
  else false.
Definition doc_types : list bytes := [t_file; t_dir; t_node; t_symlink; t_tbd; t_omit].
Definition doc_keys : list bytes := [k_mod; k_gid; k_uid; k_src; k_dev; k_targ; k_absent].
Definition doc_type_code (ty : bytes) : N :=
  if beq ty t_file then 2 else if beq ty t_dir then 1 else if beq ty t_node then 5
  else if beq ty t_symlink then 3 else 0.

(* what an accepted line must mean *)
Record dexp := MkX {
  x_gid : option N; x_uid : option N; x_pair : option (N * N); x_mode : option bytes;
  x_dev : option (N * N * N); x_source : bytes; x_target : bytes; x_skip : bool }.
Definition dexp0 : dexp := MkX None None None None None [] [] false.

Definition dec_of (s : bytes) : option N :=
  match s with [] => None | _ => if forallb is_dec s then Some (num_val 10 s) else None end.
Definition is_sign (c : ascii) : bool := Ascii.eqb c c_plus || Ascii.eqb c c_minus.

(* uid/gid "integer ID": 0..2^31-1 must be taken, 2^32 and above and negative numbers must be refused *)
Definition id_status (s : bytes) : status * N :=
  match dec_of s with
  | Some v => if v <=? 2147483647 then (MustAccept, v)
              else if v <=? 4294967295 then (Either, v) else (MustReject, v)
  | None => match s with
            | c :: r => if is_sign c then
                          match dec_of r with
                          | Some w => if Ascii.eqb c c_minus && negb (w =? 0) then (MustReject, 0)   (* negative *)
                                      else (Free, 0)                                              (* +N, -0 *)
                          | None => (MustReject, 0)
                          end
                        else (MustReject, 0)
            | [] => (MustReject, 0)
            end
  end.

(* one option: its status and its contribution to the meaning *)
Definition doc_option (ty : bytes) (name_wild : bool) (x : dexp) (key : bytes) (val : list ftok)
  : status * dexp :=
  if negb (memb key doc_keys) then (MustReject, x)
  else if negb (doc_allowed ty key) then (MustReject, x)
  else
  let pv := plain_of val in
  if beq key k_mod then
    match x_mode x with Some _ => (Free, x) | None =>
    match pv with
    | None => (MustReject, x)
    | Some s => match chmod_ref s 0 with
                | None => (MustReject, x)
                | Some _ => (if simple_mode s then MustAccept else Either,
                             MkX (x_gid x) (x_uid x) (x_pair x) (Some s) (x_dev x) (x_source x) (x_target x) (x_skip x))
                end
    end end
  else if beq key k_gid then
    match x_gid x, x_pair x with
    | None, None =>
      match pv with
      | None => (MustReject, x)
      | Some s => if existsb (fun c => Ascii.eqb c c_colon) s then (Free, x)
                  else let '(st, v) := id_status s in
                       (st, MkX (Some v) (x_uid x) (x_pair x) (x_mode x) (x_dev x) (x_source x) (x_target x) (x_skip x))
      end
    | _, _ => (Free, x)
    end
  else if beq key k_uid then
    match x_uid x, x_pair x, x_gid x with
    | None, None, g =>
      match pv with
      | None => (MustReject, x)
      | Some s =>
        match split2 c_colon s with
        | (a, None) => let '(st, v) := id_status a in
                       (st, MkX (x_gid x) (Some v) (x_pair x) (x_mode x) (x_dev x) (x_source x) (x_target x) (x_skip x))
        | (a, Some b) =>
          match g with Some _ => (Free, x) | None =>
          let '(st1, v1) := id_status a in let '(st2, v2) := id_status b in
          (st_join st1 st2, MkX (x_gid x) (x_uid x) (Some (v1, v2)) (x_mode x) (x_dev x) (x_source x) (x_target x) (x_skip x))
          end
        end
      end
    | _, _, _ => (Free, x)
    end
  else if beq key k_src then
    match x_source x, x_dev x with
    | [], None =>
      if name_wild then (MustReject, x)
      else match val with
           | [] => (Free, x)
           | _ => if has_star val then (Free, x)
                  else (MustAccept, MkX (x_gid x) (x_uid x) (x_pair x) (x_mode x) (x_dev x) (fvalue val) (x_target x) (x_skip x))
           end
    | _, _ => (Free, x)
    end
  else if beq key k_dev then
    match x_source x, x_dev x with
    | [], None =>
      match pv with
      | None => (MustReject, x)
      | Some [] => (MustReject, x)
      | Some (t :: r) =>
        if Ascii.eqb t (nb 98) || Ascii.eqb t (nb 99) then
          match split c_colon r with
          | [a; b] =>
            match dec_of a, dec_of b with
            | Some mj, Some mn =>
              ((if (mj <=? 4294967295) && (mn <=? 4294967295)
                then (if (mj <=? 255) && (mn <=? 255) then MustAccept else Either) else MustReject),
               MkX (x_gid x) (x_uid x) (x_pair x) (x_mode x) (Some (bn t, mj, mn)) (x_source x) (x_target x) (x_skip x))
            | _, _ => (MustReject, x)
            end
          | _ => (MustReject, x)
          end
        else (MustReject, x)
      end
    | _, _ => (Free, x)
    end
  else if beq key k_targ then
    match x_target x with
    | [] => match val with
            | [] => (Free, x)
            | _ => if has_star val then (Free, x)
                   else (MustAccept, MkX (x_gid x) (x_uid x) (x_pair x) (x_mode x) (x_dev x) (x_source x) (fvalue val) (x_skip x))
            end
    | _ => (Free, x)
    end
  else (* absent *)
    match pv with
    | Some s => if beq s (bs "skip")
                then (MustAccept, MkX (x_gid x) (x_uid x) (x_pair x) (x_mode x) (x_dev x) (x_source x) (x_target x) true)
                else (MustReject, x)
    | None => (MustReject, x)
    end.

Definition doc_opt_field (ty : bytes) (name_wild : bool) (acc : status * dexp) (f : sfield) : status * dexp :=
  let '(st, x) := acc in
  match split_eq (f_toks f) [] with
  | None => (MustReject, x)
  | Some ([], _) => (MustReject, x)
  | Some (key, val) => let '(st', x') := doc_option ty name_wild x key val in (st_join st st', x')
  end.

(* the name: absolute, a wildcard only in the last path element *)
Fixpoint star_before_slash (ts : list ftok) (seen : bool) : bool :=
  match ts with
  | [] => false
  | FStar :: r => star_before_slash r true
  | FLit c :: r => if Ascii.eqb c c_slash then (seen || star_before_slash r seen) else star_before_slash r seen
  | FEsc :: r => star_before_slash r seen
  end.
Definition doc_name (ts : list ftok) : status :=
  match ts with
  | FLit c :: r =>
    if Ascii.eqb c c_slash then
      match r with
      | [] => Free                                  (* the root itself: nothing is said *)
      | _ => if star_before_slash ts false then MustReject else MustAccept
      end
    else MustReject
  | _ => MustReject
  end.

(* the line: status, whether it adds, type code, name, wildcard flag, option meaning *)
Record dline := MkD { d_status : status; d_adding : bool; d_type : N; d_name : bytes; d_wild : bool; d_x : dexp }.

Definition doc_line (sl : sline) : dline :=
  match sl_fields sl with
  | [] => MkD MustReject true 0 [] false dexp0
  | ft :: rest =>
    match plain_of (f_toks ft) with
    | None => MkD MustReject true 0 [] false dexp0
    | Some ty =>
      if negb (memb ty doc_types) then MkD MustReject true 0 [] false dexp0
      else match rest with
      | [] => MkD MustReject true 0 [] false dexp0
      | fn :: opts =>
        let nw := has_star (f_toks fn) in
        let '(st, x) := fold_left (doc_opt_field ty nw) opts (doc_name (f_toks fn), dexp0) in
        MkD st (negb (beq ty t_omit)) (doc_type_code ty) (fvalue (f_toks fn)) nw x
      end
    end
  end.

(* an accepted entry has exactly the documented meaning *)
Definition entry_means (d : dline) (adding : bool) (e : entry) : bool :=
  let x := d_x d in
  Bool.eqb adding (d_adding d) && (e_ltype e =? d_type d) && beq (e_name e) (d_name d)
  && Bool.eqb (e_wild e) (d_wild d) && beq (e_source e) (x_source x) && beq (e_target e) (x_target x)
  && Bool.eqb (e_skip e) (x_skip x)
  && match x_pair x with
     | Some (a, b) => e_hasgid e && e_hasuid e
                      && (((e_gid e =? a) && (e_uid e =? b)) || ((e_gid e =? b) && (e_uid e =? a)))
     | None =>
       match x_gid x with Some g => e_hasgid e && (e_gid e =? g) | None => negb (e_hasgid e) && (e_gid e =? 0) end
       && match x_uid x with Some u => e_hasuid e && (e_uid e =? u) | None => negb (e_hasuid e) && (e_uid e =? 0) end
     end
  && match x_mode x with
     | Some s => e_hasperm e && perm_is_chmod s (e_and e) (e_or e)
     | None => negb (e_hasperm e) && (e_and e =? 0) && (e_or e =? 0)
     end
  && match x_dev x with
     | Some (t, mj, mn) => e_hasdev e && (e_devtype e =? t) && (e_major e =? mj) && (e_minor e =? mn)
     | None => negb (e_hasdev e) && (e_devtype e =? 0) && (e_major e =? 0) && (e_minor e =? 0)
     end.

(* the property on one structured line and what the tool did with it *)
Definition line_spec (sl : sline) (r : line_res) : bool :=
  match r with
  | LPanic => false
  | LRes adding ok e =>
    let d := doc_line sl in
    match d_status d with
    | MustAccept => ok && entry_means d adding e
    | MustReject => negb ok
    | Either => if ok then entry_means d adding e else true
    | Free => true
    end
  end.

(* known finding 1: a wildcard asterisk directly after a literal backslash is read as an
   escaped asterisk (the internal form "\*" is shared by both) *)
Fixpoint bsl_then_star (ts : list ftok) : bool :=
  match ts with
  | FLit c :: ((FStar :: _) as r) => Ascii.eqb c c_bsl || bsl_then_star r
  | _ :: r => bsl_then_star r
  | [] => false
  end.
Definition kf_line (sl : sline) : N :=
  if existsb (fun f => bsl_then_star (f_toks f)) (sl_fields sl) then 1 else 0.
