(* Model of stage/fileList.go: parseFields, parseLine, the option processors,
   parseModString, parseUid, parseSource, parseDev, parseAbsent -- and of the four
   lines of stage/expand.go that apply a parsed mod= setting to a file mode.
   Executable definitions only; proofs live in Proofs/StageLineP.v.
   Go run-time failures are explicit: [PFPanic] / [LPanic]. *)
From LC Require Import Lib.Bytes Lib.Fields Gen.Consts.
Open Scope N_scope.

Definition c_nul : ascii := nb 0.
Definition c_tab : ascii := nb 9.
Definition c_sp : ascii := nb 32.
Definition c_dq : ascii := nb 34.
Definition c_sq : ascii := nb 39.
Definition c_star : ascii := nb 42.
Definition c_plus : ascii := nb 43.
Definition c_comma : ascii := nb 44.
Definition c_minus : ascii := nb 45.
Definition c_slash : ascii := nb 47.
Definition c_colon : ascii := nb 58.
Definition c_eq : ascii := nb 61.
Definition c_bsl : ascii := nb 92.

Definition is_blank (c : ascii) : bool := Ascii.eqb c c_sp || Ascii.eqb c c_tab.
Definition is_quote (c : ascii) : bool := Ascii.eqb c c_dq || Ascii.eqb c c_sq.

(* ------------------------------------------------------------------ parseFields *)
(* The Go loop over [p] with its inner [p++]; state = the Go locals
   fields (reversed), field (reversed), quote (0 = none), inField. *)
Inductive pf_res := PFPanic | PFOk (fields : list bytes) (unclosed : bool).

Definition pf_flush (fields : list bytes) (field : bytes) : list bytes :=
  match field with [] => fields | _ => rev field :: fields end.

Definition pf_finish (fields : list bytes) (field : bytes) (quote : ascii) : pf_res :=
  match field with
  | [] => PFOk (rev fields) false
  | _ => if Ascii.eqb quote c_nul then PFOk (rev (rev field :: fields)) false
         else PFOk [] true        (* "unclosed quoted string": nil fields and an error *)
  end.

Fixpoint pf_loop (line : bytes) (fields : list bytes) (field : bytes) (quote : ascii)
                 (inf : bool) {struct line} : pf_res :=
  match line with
  | [] => pf_finish fields field quote
  | c :: rest =>
    if inf then
      if is_blank c && Ascii.eqb quote c_nul then pf_loop rest (pf_flush fields field) [] quote false
      else if Ascii.eqb c quote then pf_loop rest fields field c_nul true
      else if Ascii.eqb c c_bsl then
        match rest with
        | [] => PFOk [] true       (* repaired: a trailing backslash is an error (was: index out of range) *)
        | c2 :: rest' =>
          pf_loop rest' fields (c2 :: (if Ascii.eqb c2 c_star then c :: field else field)) quote true
        end
      else pf_loop rest fields (c :: field) quote true
    else if is_blank c then pf_loop rest fields field quote false
    else if is_quote c then pf_loop rest fields field c true
    else pf_loop rest fields (c :: field) c_nul true
  end.

Definition parse_fields (line : bytes) : pf_res := pf_loop line [] [] c_nul false.

(* ------------------------------------------------------------------ numbers *)
Definition is_dec (c : ascii) : bool := (48 <=? bn c) && (bn c <=? 57).
Definition is_oct (c : ascii) : bool := (48 <=? bn c) && (bn c <=? 55).
Definition dval (c : ascii) : N := bn c - 48.
Definition num_val (base : N) (s : bytes) : N := fold_left (fun acc c => acc * base + dval c) s 0.

(* strconv.ParseUint(s, 10, bits): non-empty, digits only, value <= max *)
Definition parse_uint (max : N) (s : bytes) : option N :=
  match s with
  | [] => None
  | _ => if forallb is_dec s then (let v := num_val 10 s in if v <=? max then Some v else None) else None
  end.

(* strconv.ParseInt(s, 10, 32) followed by the caller's "< 0 is an error" *)
Definition parse_int31_nonneg (s : bytes) : option N :=
  match s with
  | [] => None
  | c :: r =>
    if Ascii.eqb c c_plus then parse_uint 2147483647 r
    else if Ascii.eqb c c_minus then
      match parse_uint 2147483648 r with Some 0 => Some 0 | _ => None end
    else parse_uint 2147483647 s
  end.

(* parseUid: Some (v1, None) single value, Some (v1, Some v2) pair *)
Definition parse_uid (s : bytes) : option (N * option N) :=
  match split2 c_colon s with
  | (a, None) => match parse_int31_nonneg a with Some v => Some (v, None) | None => None end
  | (a, Some b) =>
    match parse_int31_nonneg a, parse_int31_nonneg b with
    | Some v1, Some v2 => Some (v1, Some v2)
    | _, _ => None
    end
  end.

(* parseDev: t MAJOR : MINOR *)
Definition parse_dev (s : bytes) : option (N * N * N) :=
  match s with
  | [] => None
  | t :: r =>
    if Ascii.eqb t (nb 99) || Ascii.eqb t (nb 98) then
      match split c_colon r with
      | [a; b] =>
        match parse_uint 4294967295 a, parse_uint 4294967295 b with
        | Some mj, Some mn => Some (bn t, mj, mn)
        | _, _ => None
        end
      | _ => None
      end
    else None
  end.

(* parseSource: None = error; Some wildcard *)
Fixpoint ps_loop (s : bytes) (wild prevbs : bool) : option bool :=
  match s with
  | [] => Some wild
  | c :: r =>
    if Ascii.eqb c c_slash then (if wild then None else ps_loop r wild false)
    else if Ascii.eqb c c_bsl then ps_loop r wild true
    else if Ascii.eqb c c_star && negb prevbs then ps_loop r true false
    else ps_loop r wild false
  end.
Definition parse_source (s : bytes) : option bool :=
  match s with [] => None | _ => ps_loop s false false end.

(* ------------------------------------------------------------------ parseModString *)
Fixpoint assoc (k : N) (l : list (N * N)) : option N :=
  match l with [] => None | (a, b) :: r => if a =? k then Some b else assoc k r end.
Definition group_mask (c : ascii) : option N := assoc (bn c) S_groupMasks.
Definition setting_mask (c : ascii) : option N := assoc (bn c) S_settingMasks.
Definition perm_bits : N := V_PermBits.

Inductive aor := AorNone | AorAdd | AorSub.
Record mstate := MkM { m_aor : aor; m_and : N; m_or : N; m_group : N; m_setting : N }.

Definition aor_is_none (a : aor) : bool := match a with AorNone => true | _ => false end.

(* one character of the symbolic branch; None = "bad mode setting" *)
Definition mod_step (st : mstate) (c : ascii) : option mstate :=
  let '(MkM a an o g s) := st in
  match group_mask c with
  | Some mask =>
    if (0 <? g) || (0 <? s) || negb (aor_is_none a) then None
    else Some (MkM a an o mask s)
  | None =>
    if Ascii.eqb c c_plus || Ascii.eqb c c_minus then
      let g' := if g =? 0 then match group_mask (nb 97) with Some m => m | None => 0 end else g in
      if (0 <? s) || negb (aor_is_none a) then None
      else Some (MkM (if Ascii.eqb c c_minus then AorSub else AorAdd) an o g' s)
    else match setting_mask c with
    | Some mask =>
      let g' := if g =? 0 then match group_mask (nb 97) with Some m => m | None => 0 end else g in
      let a' := if aor_is_none a then AorAdd else a in
      if 0 <? s then None
      else
        let s' := N.land mask g' in
        match a' with
        | AorSub => Some (MkM a' (N.land an (N.lxor perm_bits s')) (N.ldiff o s') g' s')
        | _ => Some (MkM a' an (N.lor o s') g' s')
        end
    | None =>
      if Ascii.eqb c c_comma then Some (MkM AorNone an o 0 0) else None
    end
  end.

Fixpoint mod_loop (s : bytes) (st : mstate) : option mstate :=
  match s with
  | [] => Some st
  | c :: r => match mod_step st c with Some st' => mod_loop r st' | None => None end
  end.

(* Some (andMask, orMask) or None (error) *)
Definition parse_mod (s : bytes) : option (N * N) :=
  if forallb is_oct s then
    match s with
    | [] => None
    | _ => let v := num_val 8 s in if v <=? perm_bits then Some (0, v) else None
    end
  else
    match mod_loop s (MkM AorNone perm_bits 0 0 0) with
    | Some st => Some (m_and st, m_or st)
    | None => None
    end.

(* stage/expand.go addSingleFile: how a parsed setting acts on the mode of the source *)
Definition apply_perm (andm orm perms : N) : N :=
  if 0 <? andm then N.lor (N.land perms andm) orm else orm.

(* ------------------------------------------------------------------ parseLine *)
Record entry := MkE {
  e_ltype : N; e_name : bytes; e_source : bytes; e_target : bytes;
  e_gid : N; e_uid : N; e_and : N; e_or : N; e_major : N; e_minor : N; e_devtype : N;
  e_wild : bool; e_hasgid : bool; e_hasuid : bool; e_hasdev : bool; e_hasperm : bool; e_skip : bool }.

Definition entry0 : entry := MkE 0 [] [] [] 0 0 0 0 0 0 0 false false false false false false.

Definition t_file := bs "file".
Definition t_dir := bs "dir".
Definition t_node := bs "node".
Definition t_symlink := bs "symlink".
Definition t_tbd := bs "tbd".
Definition t_omit := bs "omit".

Definition memb (x : bytes) (l : list bytes) : bool := existsb (beq x) l.

(* optErrorIf *)
Definition forbidden (ltype : bytes) (l : list bytes) : bool := memb ltype l.

Definition set_name (e : entry) (n : bytes) (w : bool) : entry :=
  MkE (e_ltype e) n (e_source e) (e_target e) (e_gid e) (e_uid e) (e_and e) (e_or e) (e_major e)
      (e_minor e) (e_devtype e) w (e_hasgid e) (e_hasuid e) (e_hasdev e) (e_hasperm e) (e_skip e).
Definition set_ltype (e : entry) (t : N) : entry :=
  MkE t (e_name e) (e_source e) (e_target e) (e_gid e) (e_uid e) (e_and e) (e_or e) (e_major e)
      (e_minor e) (e_devtype e) (e_wild e) (e_hasgid e) (e_hasuid e) (e_hasdev e) (e_hasperm e) (e_skip e).
Definition set_perm (e : entry) (a o : N) : entry :=
  MkE (e_ltype e) (e_name e) (e_source e) (e_target e) (e_gid e) (e_uid e) a o (e_major e)
      (e_minor e) (e_devtype e) (e_wild e) (e_hasgid e) (e_hasuid e) (e_hasdev e) true (e_skip e).
Definition set_gid (e : entry) (g : N) : entry :=
  MkE (e_ltype e) (e_name e) (e_source e) (e_target e) g (e_uid e) (e_and e) (e_or e) (e_major e)
      (e_minor e) (e_devtype e) (e_wild e) true (e_hasuid e) (e_hasdev e) (e_hasperm e) (e_skip e).
Definition set_uid (e : entry) (u : N) : entry :=
  MkE (e_ltype e) (e_name e) (e_source e) (e_target e) (e_gid e) u (e_and e) (e_or e) (e_major e)
      (e_minor e) (e_devtype e) (e_wild e) (e_hasgid e) true (e_hasdev e) (e_hasperm e) (e_skip e).
Definition set_source (e : entry) (s : bytes) (w : bool) : entry :=
  MkE (e_ltype e) (e_name e) s (e_target e) (e_gid e) (e_uid e) (e_and e) (e_or e) (e_major e)
      (e_minor e) (e_devtype e) w (e_hasgid e) (e_hasuid e) (e_hasdev e) (e_hasperm e) (e_skip e).
Definition set_dev (e : entry) (t mj mn : N) : entry :=
  MkE (e_ltype e) (e_name e) (e_source e) (e_target e) (e_gid e) (e_uid e) (e_and e) (e_or e) mj
      mn t (e_wild e) (e_hasgid e) (e_hasuid e) true (e_hasperm e) (e_skip e).
Definition set_target (e : entry) (t : bytes) : entry :=
  MkE (e_ltype e) (e_name e) (e_source e) t (e_gid e) (e_uid e) (e_and e) (e_or e) (e_major e)
      (e_minor e) (e_devtype e) (e_wild e) (e_hasgid e) (e_hasuid e) (e_hasdev e) (e_hasperm e) (e_skip e).
Definition set_skip (e : entry) (b : bool) : entry :=
  MkE (e_ltype e) (e_name e) (e_source e) (e_target e) (e_gid e) (e_uid e) (e_and e) (e_or e) (e_major e)
      (e_minor e) (e_devtype e) (e_wild e) (e_hasgid e) (e_hasuid e) (e_hasdev e) (e_hasperm e) b.

(* each processor: None = an error was logged (the entry is then never used) *)
Definition proc_mod (e : entry) (ltype val : bytes) : option entry :=
  if forbidden ltype [t_symlink; t_omit; t_tbd] then None
  else if e_hasperm e then None
  else match parse_mod val with Some (a, o) => Some (set_perm e a o) | None => None end.

Definition proc_giduid (e : entry) (ltype : bytes) (is_gid : bool) (val : bytes) : option entry :=
  if forbidden ltype [t_symlink; t_omit; t_tbd] then None
  else match parse_uid val with
       | Some (v, None) => Some (if is_gid then set_gid e v else set_uid e v)
       | Some (v1, Some v2) => Some (set_uid (set_gid e v1) v2)
       | None => None
       end.

Definition src_taken (e : entry) : bool :=
  match e_source e with [] => negb (e_devtype e =? 0) | _ => true end.

Definition proc_src (e : entry) (ltype val : bytes) : option entry :=
  if forbidden ltype [t_symlink; t_omit; t_tbd] then None
  else if src_taken e then None
  else if e_wild e then None
  else match parse_source val with Some w => Some (set_source e val w) | None => None end.

Definition proc_dev (e : entry) (ltype val : bytes) : option entry :=
  if forbidden ltype [t_file; t_dir; t_symlink; t_omit; t_tbd] then None
  else if src_taken e then None
  else match parse_dev val with Some (t, mj, mn) => Some (set_dev e t mj mn) | None => None end.

Definition proc_targ (e : entry) (ltype val : bytes) : option entry :=
  if forbidden ltype [t_file; t_dir; t_node; t_omit; t_tbd] then None
  else match parse_source val with
       | Some false => Some (set_target e val)
       | _ => None
       end.

Definition proc_absent (e : entry) (ltype val : bytes) : option entry :=
  if forbidden ltype [t_omit] then None
  else if beq val (bs "skip") then Some (set_skip e true) else None.

Definition k_mod := bs "mod".
Definition k_gid := bs "gid".
Definition k_uid := bs "uid".
Definition k_src := bs "src".
Definition k_dev := bs "dev".
Definition k_targ := bs "targ".
Definition k_absent := bs "absent".

Definition proc_option (e : entry) (ltype key val : bytes) : option entry :=
  if beq key k_mod then proc_mod e ltype val
  else if beq key k_gid then proc_giduid e ltype true val
  else if beq key k_uid then proc_giduid e ltype false val
  else if beq key k_src then proc_src e ltype val
  else if beq key k_dev then proc_dev e ltype val
  else if beq key k_targ then proc_targ e ltype val
  else if beq key k_absent then proc_absent e ltype val
  else None.

(* one option field: the entry and the "an error was logged" flag *)
Definition opt_step (ltype : bytes) (st : entry * bool) (field : bytes) : entry * bool :=
  let '(e, bad) := st in
  match split2 c_eq field with
  | (_, None) => (e, true)
  | ([], Some _) => (e, true)
  | (key, Some val) =>
    match proc_option e ltype key val with
    | Some e' => (e', bad)
    | None => (e, true)
    end
  end.

(* type keyword: Some (ltype code, adding) or None (error) *)
Definition type_of (ltype : bytes) : option (N * bool) :=
  if beq ltype t_file then Some (V_FileType_file, true)
  else if beq ltype t_dir then Some (V_FileType_dir, true)
  else if beq ltype t_node then Some (V_FileType_device, true)
  else if beq ltype t_symlink then Some (V_FileType_symlink, true)
  else if beq ltype t_tbd then Some (V_FileType_none, true)
  else if beq ltype t_omit then Some (0, false)
  else None.

Inductive line_res := LPanic | LRes (adding ok : bool) (e : entry).

Definition name_step (e : entry) (name : bytes) : entry * bool :=
  if (length name <? 2)%nat then (e, true)
  else match name with
       | c :: _ =>
         if Ascii.eqb c c_slash then
           match parse_source name with
           | Some w => (set_name e name w, false)
           | None => (e, true)
           end
         else (e, true)
       | [] => (e, true)
       end.

Definition line_of_fields (fields : list bytes) : line_res :=
  let ltype := nth 0 fields [] in
  let name := nth 1 fields [] in
  let '(e1, adding, bad1) :=
    match type_of ltype with
    | Some (t, a) => (set_ltype entry0 t, a, false)
    | None => (entry0, true, true)
    end in
  let '(e2, bad2) := name_step e1 name in
  let '(e3, bad3) := fold_left (opt_step ltype) (skipn 2 fields) (e2, bad1 || bad2) in
  LRes adding (negb bad3) e3.

Definition parse_line (line : bytes) : line_res :=
  match parse_fields line with
  | PFPanic => LPanic
  | PFOk fields _ => line_of_fields fields
  end.

(* ------------------------------------------------------------------ comparison *)
Definition entry_beq (a b : entry) : bool :=
  (e_ltype a =? e_ltype b) && beq (e_name a) (e_name b) && beq (e_source a) (e_source b)
  && beq (e_target a) (e_target b) && (e_gid a =? e_gid b) && (e_uid a =? e_uid b)
  && (e_and a =? e_and b) && (e_or a =? e_or b) && (e_major a =? e_major b)
  && (e_minor a =? e_minor b) && (e_devtype a =? e_devtype b) && Bool.eqb (e_wild a) (e_wild b)
  && Bool.eqb (e_hasgid a) (e_hasgid b) && Bool.eqb (e_hasuid a) (e_hasuid b)
  && Bool.eqb (e_hasdev a) (e_hasdev b) && Bool.eqb (e_hasperm a) (e_hasperm b)
  && Bool.eqb (e_skip a) (e_skip b).

(* a rejected line's entry is never used by the caller: only the class is compared *)
Definition line_res_beq (a b : line_res) : bool :=
  match a, b with
  | LPanic, LPanic => true
  | LRes ad1 ok1 e1, LRes ad2 ok2 e2 =>
    Bool.eqb ok1 ok2 && (if ok1 then Bool.eqb ad1 ad2 && entry_beq e1 e2 else true)
  | _, _ => false
  end.
