(* Model of the member-set pipeline of stagemaker (property C06):
     cmd/stagemaker/paths.go   getStageFileList
     portage/vdb/contents.go   GetAtomFileInfo / GetInstalledFileInfo (CONTENTS parsing)
     stage/fileList.go         GenerateFileList, ReadUserFileList, parseLine/parseFields (the
                               part that decides names, types and presence), Finalize
     stage/expand.go           addSingleFile (type decision, presence), fixHardlinks
     stage/addRemove.go        addFiles, addFromWildcard, removeFiles, globFiles/expandSubdirs
     stage/exclusions.go       UnstagedFileMap, ExcludeFiles
     stage/supplement.go       RecoverMissingLinks, ultimateSymlinkTarget, AddDirectoriesByName,
                               AddMissingStageDirs
     stage/staticDev.go        InsertStaticDev
     stage/tar.go              MakeTar (member naming and type flags)
   over an abstract build-root tree (path |-> node) and the CONTENTS texts of the installed
   packages.  Executable definitions only; proofs live in Proofs/StageListP.v, Proofs/C06P.v. *)
From Coq Require Import Orders Mergesort.
From LC Require Import Lib.Bytes Lib.Lex Lib.Fields Lib.PathM Gen.Consts.
Open Scope N_scope.
Open Scope list_scope.

(* ---------------------------------------------------------------- outcomes *)
Inductive res (A : Type) : Type := Ok (a : A) | Failed | Panic.
Arguments Ok {A} a.
Arguments Failed {A}.
Arguments Panic {A}.
Definition bind {A B} (r : res A) (f : A -> res B) : res B :=
  match r with Ok a => f a | Failed => Failed | Panic => Panic end.

(* ---------------------------------------------------------------- characters *)
Definition c_sl : ascii := nb 47.
Definition c_nl : ascii := nb 10.
Definition c_sp : ascii := nb 32.
Definition c_tab : ascii := nb 9.
Definition c_bsl : ascii := nb 92.
Definition c_star : ascii := nb 42.
Definition c_dq : ascii := nb 34.
Definition c_sq : ascii := nb 39.
Definition c_eq : ascii := nb 61.
Definition c_colon : ascii := nb 58.
Definition c_hash : ascii := nb 35.
Definition is_digit (c : ascii) : bool := (48 <=? bn c) && (bn c <=? 57).
Definition is_octal (c : ascii) : bool := (48 <=? bn c) && (bn c <=? 55).
Definition is_hex (c : ascii) : bool :=
  is_digit c || ((97 <=? bn c) && (bn c <=? 102)) || ((65 <=? bn c) && (bn c <=? 70)).

(* ---------------------------------------------------------------- equality, association lists *)
(* [beq]/[prefixb] written with if-then-else: under vm_compute (call by value) [a && b] evaluates
   both sides, these stop at the first difference.  feq_beq / fprefix_prefixb: same functions. *)
Fixpoint feq (a b : bytes) : bool :=
  match a, b with
  | [], [] => true
  | x :: a', y :: b' => if Ascii.eqb x y then feq a' b' else false
  | _, _ => false
  end.
Fixpoint fprefix (p s : bytes) : bool :=
  match p, s with
  | [], _ => true
  | x :: p', y :: s' => if Ascii.eqb x y then fprefix p' s' else false
  | _ :: _, [] => false
  end.
Fixpoint assoc {A} (k : bytes) (l : list (bytes * A)) : option A :=
  match l with
  | [] => None
  | (k', v) :: r => if feq k' k then Some v else assoc k r
  end.
Definition keys {A} (l : list (bytes * A)) : list bytes := map fst l.
Fixpoint memb (k : bytes) (l : list bytes) : bool :=
  match l with [] => false | x :: r => if feq k x then true else memb k r end.

(* sort.Slice on distinct names: the stdlib merge sort over Go's string order *)
Module BytesOrder <: Orders.TotalLeBool.
  Definition t := bytes.
  Definition leb (a b : bytes) : bool := negb (ltb b a).
  Theorem leb_total : forall a b, leb a b = true \/ leb b a = true.
  Proof.
    intros a b. unfold leb. destruct (ltb b a) eqn:E; [right|left; reflexivity].
    now rewrite (ltb_asym _ _ E).
  Qed.
End BytesOrder.
Module BSort := Mergesort.Sort BytesOrder.

(* ---------------------------------------------------------------- the build-root tree *)
(* [NFile (Some g)]: a regular file with link count > 1 belonging to inode group g;
   [NFile None]: link count 1.  Keys are absolute paths below the root; "/" is the root. *)
Inductive node := NDir | NFile (g : option N) | NLink (t : bytes) | NDev | NFifo | NSock.
Definition tree := list (bytes * node).

(* lstat(path.Join(root, name)) -- Join cleans the path lexically *)
Definition lstat (t : tree) (name : bytes) : option node := assoc (clean name) t.
Definition is_link (t : tree) (p : bytes) : bool :=
  match lstat t p with Some (NLink _) => true | _ => false end.
Definition is_realdir (t : tree) (p : bytes) : bool :=
  match lstat t p with Some NDir => true | _ => false end.

(* "/a/b": rooted, components non-empty and neither "." nor ".." (never the root itself) *)
Definition abs_cleanb (k : bytes) : bool :=
  match k with c :: r => Ascii.eqb c c_sl && forallb plainb (psplit r) | [] => false end.
Fixpoint drop_to_slash (r : bytes) : option bytes :=
  match r with [] => None | c :: r' => if Ascii.eqb c c_sl then Some r' else drop_to_slash r' end.
(* d[:strings.LastIndexByte(d, '/')] when that index is >= 1 *)
Definition chop (d : bytes) : option bytes :=
  match drop_to_slash (rev d) with
  | Some (c :: r) => Some (rev (c :: r))
  | _ => None
  end.
(* the proper ancestors of a path except the root: "/a/b/c" |-> ["/a/b"; "/a"] *)
Fixpoint chop_chain (fuel : nat) (d : bytes) : list bytes :=
  match fuel with
  | O => []
  | S f => d :: match chop d with Some d' => chop_chain f d' | None => [] end
  end.
Definition nrparents (p : bytes) : list bytes :=
  match chop p with Some d => chop_chain (length p) d | None => [] end.

(* lstat fails with ENOTDIR (not ENOENT) when something that is not a directory is in the way *)
Definition notdir_above (t : tree) (name : bytes) : bool :=
  existsb (fun d => match assoc d t with Some NDir | Some (NLink _) | None => false | Some _ => true end)
          (nrparents (clean name)).

(* ---------------------------------------------------------------- the member map *)
(* what the path property needs of a lineInfo in entryMap: its type and, for regular files,
   the inode group (devino >= 0 exactly for files read from the tree with link count > 1) *)
Inductive entry := EDir | EFile (g : option N) | ESym | EDev.
Definition emap := list (bytes * entry).
Definition find (k : bytes) (m : emap) : option entry := assoc k m.
Definition mem (k : bytes) (m : emap) : bool := match find k m with Some _ => true | None => false end.
Definition del (k : bytes) (m : emap) : emap := filter (fun kv => negb (feq (fst kv) k)) m.
Definition add (k : bytes) (v : entry) (m : emap) : emap := (k, v) :: del k m.

(* ---------------------------------------------------------------- one line's information *)
Inductive ltype := TTbd | TDir | TFile | TSym | TDev.
(* src=: where the contents of a `file` entry come from instead of its own name in the build root.
   [SRoot p]: "$$stageroot" ++ p, i.e. path.Join(root, p) -- a name inside the build root;
   [SAbs p st]: the absolute path p of the host, used verbatim; st is what lstat finds there
   (None = ENOENT).  The parser leaves st empty; [resolve_op] fills it in from the input's table
   of outside files before the script is run (the run does not change those files, so looking
   at them beforehand or at the time of the line is the same). *)
Inductive srcref := SRoot (p : bytes) | SAbs (p : bytes) (st : option node).
Record lineinfo := MkLI {
  li_type : ltype; li_name : bytes; li_wild : bool;
  li_targ : bool;      (* a targ= option was given *)
  li_dev : bool;       (* a dev= option was given *)
  li_skip : bool;      (* absent=skip *)
  li_src : option srcref }.   (* a src= option was given (modelled for type file only) *)

(* stage/expand.go addSingleFile with the source being the name itself *)
Definition add_single (t : tree) (li : lineinfo) (name : bytes) (m : emap) : res emap :=
  match lstat t name with
  | None =>
    if notdir_above t name then Failed else      (* any error other than ENOENT is returned *)
    if li_skip li then Ok m else
    match li_type li with
    | TTbd => Failed
    | TDir => Ok (add name EDir m)
    | TFile => Failed
    | TSym => if li_targ li then Ok (add name ESym m) else Failed
    | TDev => if li_dev li then Ok (add name EDev m) else Failed
    end
  | Some nd =>
    match li_type li with
    | TTbd =>
      match nd with
      | NDir => Ok (add name EDir m)
      | NFile g => Ok (add name (EFile g) m)
      | NLink _ => Ok (add name ESym m)
      | NDev => Ok (add name EDev m)
      | NFifo | NSock => Failed
      end
    | TDir => Ok (add name EDir m)
    | TFile => match nd with NFile g => Ok (add name (EFile g) m) | _ => Failed end
    | TSym => if li_targ li then Ok (add name ESym m)
              else match nd with NLink _ => Ok (add name ESym m) | _ => Failed end
    | TDev => if li_dev li then Ok (add name EDev m)
              else match nd with NDev => Ok (add name EDev m) | _ => Failed end
    end
  end.

(* ---------------------------------------------------------------- globbing *)
(* path.Match / filepath.Glob for patterns whose only metacharacter is '*' (never matching
   '/'); wf keeps '?', '[' and '\' out of patterns *)
Fixpoint pmatch (p : bytes) : bytes -> bool :=
  match p with
  | [] => fun s => match s with [] => true | _ => false end
  | c :: p' =>
    if Ascii.eqb c c_star then
      (fix star (s : bytes) : bool :=
         if pmatch p' s then true else
         match s with
         | [] => false
         | d :: s' => if Ascii.eqb d c_sl then false else star s'
         end)
    else fun s => match s with d :: s' => if Ascii.eqb c d then pmatch p' s' else false | [] => false end
  end.
(* path.Match with the escape: a backslash makes the next byte literal (the line parser leaves a
   backslash in a name only in front of an asterisk); used by removeFiles, whose pattern is the
   parsed name itself.  A pattern ending in a backslash is malformed (ErrBadPattern: no match). *)
Fixpoint pmatch_esc (p : bytes) : bytes -> bool :=
  match p with
  | [] => fun s => match s with [] => true | _ => false end
  | c :: p' =>
    if Ascii.eqb c c_star then
      (fix star (s : bytes) : bool :=
         if pmatch_esc p' s then true else
         match s with
         | [] => false
         | d :: s' => if Ascii.eqb d c_sl then false else star s'
         end)
    else if Ascii.eqb c c_bsl then
      match p' with
      | x :: p'' => fun s => match s with d :: s' => if Ascii.eqb x d then pmatch_esc p'' s' else false | [] => false end
      | [] => fun _ => false
      end
    else fun s => match s with d :: s' => if Ascii.eqb c d then pmatch_esc p' s' else false | [] => false end
  end.
Definition root_path : bytes := [c_sl].
(* filepath.Glob(path.Join(root, pattern)): entries of existing directories; never the root *)
Definition glob (t : tree) (pat : bytes) : list bytes :=
  let cp := clean pat in
  filter (fun k => if feq k root_path then false else pmatch cp k) (keys t).
Definition under (d k : bytes) : bool := fprefix (d ++ [c_sl]) k.
(* globFiles(.., recursive): each match, and everything below a match that is a real directory *)
Definition glob_rec (t : tree) (pat : bytes) : list bytes :=
  let ms := glob t pat in
  let dirs := filter (is_realdir t) ms in
  filter (fun k => if memb k ms then true else existsb (fun m => under m k) dirs) (keys t).
Definition targets_wild (t : tree) (li : lineinfo) : list bytes :=
  match li_type li with TDir => glob_rec t (li_name li) | _ => glob t (li_name li) end.

Fixpoint add_all (t : tree) (li : lineinfo) (names : list bytes) (m : emap) : res emap :=
  match names with
  | [] => Ok m
  | n :: r => match add_single t li n m with Ok m' => add_all t li r m' | x => x end
  end.
Definition as_tbd (li : lineinfo) : lineinfo :=
  MkLI TTbd (li_name li) (li_wild li) (li_targ li) (li_dev li) (li_skip li) None.
(* addFromWildcard (no src=) *)
Definition add_wild (t : tree) (li : lineinfo) (m : emap) : res emap :=
  match targets_wild t li with
  | [] => Failed
  | names => add_all t (as_tbd li) names m
  end.
(* addSingleFile with a source other than the name (type file): nameIsSource is false, so there is
   no type check against the source and -- the point of this branch -- NO registration of the
   source's dev/inode: the entry is a regular file of its own (devino = -1) whatever the link
   count of the source is.  An absent source is an error (ENOENT: "file ... does not exist (source
   of ...)"; any other lstat error is returned as it is). *)
Definition src_lstat (t : tree) (s : srcref) : option node :=
  match s with SRoot p => lstat t p | SAbs _ st => st end.
Definition add_src (t : tree) (li : lineinfo) (s : srcref) (m : emap) : res emap :=
  match src_lstat t s with
  | None => Failed
  | Some _ => Ok (add (li_name li) (EFile None) m)
  end.
Definition add_files (t : tree) (li : lineinfo) (m : emap) : res emap :=
  match li_src li with
  | Some s => if li_wild li then Failed      (* wildcard sources: outside the modelled subset; parse_line
                                                never yields a src= line with li_wild *)
              else add_src t li s m
  | None => if li_wild li then add_wild t li m else add_single t li (li_name li) m
  end.

(* removeFiles *)
Definition del_matching (pat : bytes) (m : emap) : emap :=
  filter (fun kv => negb (pmatch_esc pat (fst kv))) m.
Definition remove_files (name : bytes) (wild : bool) (m : emap) : res emap :=
  if wild then Ok (del_matching name m)       (* path.Match of the pattern against the member names *)
  else if mem name m then Ok (del name m) else Failed.

(* ---------------------------------------------------------------- add-files lines *)
Inductive op :=
| OAdd (li : lineinfo)
| OOmit (name : bytes) (wild : bool)
| OErr          (* the line is reported as an error (the whole run then fails) *)
| OOod.         (* outside the modelled subset of the line syntax (excluded by wf) *)

(* parseFields *)
Record pfst := MkPF { pf_out : list bytes; pf_cur : bytes; pf_quote : option ascii;
                      pf_in : bool; pf_esc : bool }.
Definition is_blank (c : ascii) : bool := Ascii.eqb c c_sp || Ascii.eqb c c_tab.
Definition pf_step (s : pfst) (c : ascii) : pfst :=
  if pf_esc s then
    MkPF (pf_out s) (if Ascii.eqb c c_star then c :: c_bsl :: pf_cur s else c :: pf_cur s)
         (pf_quote s) true false
  else if pf_in s then
    match pf_quote s with
    | None =>
      if is_blank c then
        MkPF (match pf_cur s with [] => pf_out s | cur => rev cur :: pf_out s end) [] None false false
      else if Ascii.eqb c c_bsl then MkPF (pf_out s) (pf_cur s) None true true
      else MkPF (pf_out s) (c :: pf_cur s) None true false
    | Some q =>
      if Ascii.eqb c q then MkPF (pf_out s) (pf_cur s) None true false
      else if Ascii.eqb c c_bsl then MkPF (pf_out s) (pf_cur s) (Some q) true true
      else MkPF (pf_out s) (c :: pf_cur s) (Some q) true false
    end
  else if is_blank c then s
  else if Ascii.eqb c c_dq || Ascii.eqb c c_sq then MkPF (pf_out s) (pf_cur s) (Some c) true false
  else MkPF (pf_out s) (c :: pf_cur s) None true false.
Inductive pfres := PFOk (fs : list bytes) | PFErr | PFOod.
Definition parse_fields (line : bytes) : pfres :=
  let s := fold_left pf_step line (MkPF [] [] None false false) in
  if pf_esc s then PFOod                       (* backslash at the very end: index out of range *)
  else match pf_cur s with
       | [] => PFOk (rev (pf_out s))
       | cur => match pf_quote s with Some _ => PFErr | None => PFOk (rev (rev cur :: pf_out s)) end
       end.

(* parseSource: (has wildcard, error) *)
Definition ps_step (s : bool * bool * bool) (c : ascii) : bool * bool * bool :=
  let '(wild, prevbs, err) := s in
  if Ascii.eqb c c_sl then (wild, false, err || wild)
  else if Ascii.eqb c c_bsl then (wild, true, err)
  else if Ascii.eqb c c_star && negb prevbs then (true, false, err)
  else (wild, false, err).
Definition parse_source (s : bytes) : bool * bool :=
  match s with
  | [] => (false, true)
  | _ => let '(wild, _, err) := fold_left ps_step s (false, false, false) in (wild, err)
  end.

Definition dec_val (s : bytes) : N := fold_left (fun a c => a * 10 + (bn c - 48)) s 0.
Definition oct_val (s : bytes) : N := fold_left (fun a c => a * 8 + (bn c - 48)) s 0.
Definition all_digits (s : bytes) : bool := match s with [] => false | _ => forallb is_digit s end.
(* strconv.ParseUint(s, 10, bits) succeeds *)
Definition uint_ok (s : bytes) (limit : N) : bool := all_digits s && (dec_val s <? limit).

Inductive vres := VOk | VErr | VOod.
(* mod=: octal strings only (symbolic modes are outside the modelled subset) *)
Definition mod_value (v : bytes) : vres :=
  if forallb is_octal v then
    match v with [] => VErr | _ => if oct_val v <? 2147483648 then VOk else VErr end
  else VOod.
Definition id_ok (s : bytes) : bool := uint_ok s 2147483648.
Definition uid_value (v : bytes) : vres :=
  match split2 c_colon v with
  | (a, None) => if id_ok a then VOk else VOod
  | (a, Some b) => if id_ok a && id_ok b then VOk else VOod
  end.
(* parseDev *)
Definition dev_value (v : bytes) : bool :=
  match v with
  | [] => false
  | c :: r =>
    (Ascii.eqb c (nb 99) || Ascii.eqb c (nb 98)) &&
    match split c_colon r with
    | [a; b] => uint_ok a 4294967296 && uint_ok b 4294967296
    | _ => false
    end
  end.

Record ost := MkOS { os_targ : bool; os_dev : bool; os_skip : bool; os_perm : bool;
                     os_err : bool; os_ood : bool; os_src : option srcref }.
Definition os_fail (s : ost) : ost := MkOS (os_targ s) (os_dev s) (os_skip s) (os_perm s) true (os_ood s) (os_src s).
Definition os_outside (s : ost) : ost := MkOS (os_targ s) (os_dev s) (os_skip s) (os_perm s) (os_err s) true (os_src s).
(* the value of src=: "$$stageroot/..." (fs.AdjustPrefixedPath: sigil "$$", name "stageroot", the
   rest from the first slash on is joined to the root) or an absolute path (used verbatim).
   Relative paths (joined to the working directory), "~", other prefix names, a bare "$$stageroot"
   and values with an asterisk or a backslash (wildcard sources, escapes) are outside the
   modelled subset. *)
Definition stageroot_pfx : bytes := bs "$$stageroot".
Definition src_value (v : bytes) : option srcref :=
  if existsb (fun c => Ascii.eqb c c_star || Ascii.eqb c c_bsl) v then None
  else if fprefix stageroot_pfx v then
    match skipn (length stageroot_pfx) v with
    | c :: r => if Ascii.eqb c c_sl then Some (SRoot (c :: r)) else None
    | [] => None
    end
  else match v with
       | c :: _ => if Ascii.eqb c c_sl then Some (SAbs v None) else None
       | [] => None
       end.
Definition t_file := bs "file".   Definition t_dir := bs "dir".   Definition t_node := bs "node".
Definition t_symlink := bs "symlink".   Definition t_tbd := bs "tbd".   Definition t_omit := bs "omit".
Definition opt_step (ty : bytes) (s : ost) (str : bytes) : ost :=
  match split2 c_eq str with
  | (_, None) => os_fail s
  | ([], Some _) => os_fail s
  | (key, Some val) =>
    let forbidden l := memb ty l in
    if feq key (bs "mod") then
      if forbidden [t_symlink; t_tbd; t_omit] then os_fail s
      else if os_perm s then os_fail s
      else match mod_value val with
           | VOk => MkOS (os_targ s) (os_dev s) (os_skip s) true (os_err s) (os_ood s) (os_src s)
           | VErr => os_fail s
           | VOod => os_outside s
           end
    else if feq key (bs "gid") || feq key (bs "uid") then
      if forbidden [t_symlink; t_tbd; t_omit] then os_fail s
      else match uid_value val with VOk => s | VErr => os_fail s | VOod => os_outside s end
    else if feq key (bs "src") then
      (* processSourceOption; modelled for `file` lines (a dir/node source is outside the subset) *)
      if forbidden [t_symlink; t_tbd; t_omit] then os_fail s
      else if forbidden [t_dir; t_node] then os_outside s
      else match os_src s with
           | Some _ => os_fail s                         (* duplicate setting of source *)
           | None =>
             match val with
             | [] => os_fail s                           (* parseSource: empty *)
             | _ => match src_value val with
                    | Some r => MkOS (os_targ s) (os_dev s) (os_skip s) (os_perm s) (os_err s) (os_ood s) (Some r)
                    | None => os_outside s
                    end
             end
           end
    else if feq key (bs "dev") then
      if forbidden [t_file; t_dir; t_symlink; t_tbd; t_omit] then os_fail s
      else if os_dev s then os_fail s
      else if dev_value val then MkOS (os_targ s) true (os_skip s) (os_perm s) (os_err s) (os_ood s) (os_src s)
      else os_fail s
    else if feq key (bs "targ") then
      if forbidden [t_file; t_dir; t_node; t_tbd; t_omit] then os_fail s
      else let '(wild, err) := parse_source val in
           if err || wild then os_fail s
           else MkOS true (os_dev s) (os_skip s) (os_perm s) (os_err s) (os_ood s) (os_src s)
    else if feq key (bs "absent") then
      if forbidden [t_omit] then os_fail s
      else if feq val (bs "skip") then MkOS (os_targ s) (os_dev s) true (os_perm s) (os_err s) (os_ood s) (os_src s)
      else os_fail s
    else os_fail s
  end.

Inductive lkind := KAdd (t : ltype) | KOmit | KBad.
Definition kind_of (ty : bytes) : lkind :=
  if feq ty t_file then KAdd TFile else if feq ty t_dir then KAdd TDir
  else if feq ty t_node then KAdd TDev else if feq ty t_symlink then KAdd TSym
  else if feq ty t_tbd then KAdd TTbd else if feq ty t_omit then KOmit else KBad.

Definition parse_line (line : bytes) : op :=
  match parse_fields line with
  | PFOod => OOod
  | PFErr => OErr
  | PFOk [] => OErr
  | PFOk (ty :: rest) =>
    let name := match rest with n :: _ => n | [] => [] end in
    let opts := match rest with _ :: o => o | [] => [] end in
    let '(wild, nerr) := parse_source name in
    let name_ok := (2 <=? N.of_nat (length name)) &&
                   match name with c :: _ => Ascii.eqb c c_sl | [] => false end && negb nerr in
    let s := fold_left (opt_step ty) opts (MkOS false false false false false false None) in
    let has_src := match os_src s with Some _ => true | None => false end in
    if os_ood s then OOod
    else if os_err s || negb name_ok then OErr
    else if has_src && wild then OErr      (* "filename cannot have wildcard when src= option given" *)
    else if has_src && os_skip s then OOod (* src= with absent=skip: outside the modelled subset *)
    else match kind_of ty with
         | KBad => OErr
         | KOmit => OOmit name wild
         | KAdd t => OAdd (MkLI t name wild (os_targ s) (os_dev s) (os_skip s) (os_src s))
         end
  end.

(* ReadUserFileList: trimmed, non-blank, non-comment lines *)
Definition is_comment (l : bytes) : bool :=
  match l with
  | [] => true
  | c :: r => Ascii.eqb c c_hash ||
              (Ascii.eqb c c_sl && match r with d :: _ => Ascii.eqb d c_sl | [] => false end)
  end.
Definition script_ops (lines : list bytes) : list op :=
  map parse_line (filter (fun l => negb (is_comment l)) (map trim lines)).
Definition text_lines (text : bytes) : list bytes := split c_nl text.
(* the outside files a script refers to: what lstat finds at the absolute path of a src= option *)
Definition resolve_src (ext : list (bytes * node)) (s : srcref) : srcref :=
  match s with SAbs p _ => SAbs p (assoc p ext) | r => r end.
Definition resolve_op (ext : list (bytes * node)) (o : op) : op :=
  match o with
  | OAdd li =>
    match li_src li with
    | Some s => OAdd (MkLI (li_type li) (li_name li) (li_wild li) (li_targ li) (li_dev li) (li_skip li)
                           (Some (resolve_src ext s)))
    | None => o
    end
  | _ => o
  end.

Definition run_op (t : tree) (o : op) (m : emap) : res emap :=
  match o with
  | OAdd li => add_files t li m
  | OOmit n w => remove_files n w m
  | OErr => Failed
  | OOod => Failed
  end.
(* every error is logged and reading goes on; the list is then discarded as a whole, and no
   later line can crash, so stopping at the first error yields the same result class *)
Fixpoint run_ops (t : tree) (ops : list op) (m : emap) : res emap :=
  match ops with
  | [] => Ok m
  | o :: r => match run_op t o m with Ok m' => run_ops t r m' | x => x end
  end.

(* ---------------------------------------------------------------- CONTENTS *)
Definition c_minus : ascii := nb 45.
Definition c_plus : ascii := nb 43.
(* strconv.ParseInt(s, 10, 64) succeeds *)
Definition int64_ok (s : bytes) : bool :=
  match s with
  | c :: r =>
    if Ascii.eqb c c_minus then all_digits r && (dec_val r <=? 9223372036854775808)
    else if Ascii.eqb c c_plus then all_digits r && (dec_val r <? 9223372036854775808)
    else all_digits s && (dec_val s <? 9223372036854775808)
  | [] => false
  end.
Definition hex_ok (s : bytes) : bool := forallb is_hex s && N.even (N.of_nat (length s)).
(* parseOffNonBlankField: split at the last blank whose index is > 0 *)
Fixpoint last_blank (s : bytes) (i : nat) (best : option nat) : option nat :=
  match s with
  | [] => best
  | c :: r => last_blank r (S i) (if Ascii.eqb c c_sp && negb (Nat.eqb i 0) then Some i else best)
  end.
Definition off_field (tail : bytes) : option (bytes * bytes) :=
  match last_blank tail 0 None with
  | None => None
  | Some pos =>
    let right := skipn (S pos) tail in
    match right with [] => None | _ => Some (firstn pos tail, right) end
  end.
(* strings.Index(s, " -> ") *)
Definition arrow : bytes := bs " -> ".
Fixpoint before_arrow (s : bytes) (acc : bytes) : option bytes :=
  match s with
  | [] => None
  | c :: r => if fprefix arrow s then Some (rev acc) else before_arrow r (c :: acc)
  end.
Definition contents_line (line : bytes) : res bytes :=
  if (N.of_nat (length line) <? 4) then Failed       (* "short line" error *)
  else
    let ind := firstn 4 line in
    let tail := skipn 4 line in
    if feq ind (bs "dir ") then Ok tail
    else if feq ind (bs "obj ") then
      match off_field tail with
      | None => Failed
      | Some (tail1, ts) =>
        if negb (int64_ok ts) then Failed else
        match off_field tail1 with
        | None => Failed
        | Some (name, md5) => if hex_ok md5 then Ok name else Failed
        end
      end
    else if feq ind (bs "sym ") then
      match off_field tail with
      | None => Failed
      | Some (tail1, ts) =>
        if negb (int64_ok ts) then Failed else
        match before_arrow tail1 [] with Some name => Ok name | None => Failed end
      end
    else Failed.
Fixpoint contents_lines (ls : list bytes) : res (list bytes) :=
  match ls with
  | [] => Ok []
  | l :: r =>
    match contents_line l with
    | Ok n => match contents_lines r with Ok ns => Ok (n :: ns) | x => x end
    | Failed => Failed
    | Panic => Panic
    end
  end.
(* GetAtomFileInfo: the file is read through strings.TrimSpace *)
Definition parse_contents (blob : bytes) : res (list bytes) :=
  match trim blob with
  | [] => Ok []
  | b => contents_lines (split c_nl b)
  end.

Record pkg := MkPkg { p_dir : bytes; p_sel : bool; p_contents : bytes }.
Fixpoint all_contents (ps : list pkg) : res (list bytes) :=
  match ps with
  | [] => Ok []
  | p :: r =>
    match parse_contents (p_contents p) with
    | Ok ns => match all_contents r with Ok ms => Ok (ns ++ ms) | x => x end
    | Failed => Failed
    | Panic => Panic
    end
  end.

(* ---------------------------------------------------------------- pipeline steps *)
Definition li_pkgfile (n : bytes) : lineinfo := MkLI TTbd n false false false true None.
Definition li_dir (n : bytes) : lineinfo := MkLI TDir n false false false false None.
Definition li_link (n : bytes) : lineinfo := MkLI TSym n false false false false None.
Definition li_devcopy (n : bytes) : lineinfo := MkLI TDev n false false true false None.

(* GenerateFileList *)
Fixpoint add_pkgfiles (t : tree) (ns : list bytes) (m : emap) : res emap :=
  match ns with
  | [] => Ok m
  | n :: r => match add_single t (li_pkgfile n) n m with Ok m' => add_pkgfiles t r m' | x => x end
  end.

(* UnstagedFileMap / ExcludeFiles *)
Definition unstaged (all : list bytes) (m : emap) : list bytes := filter (fun n => negb (mem n m)) all.
Definition exclude (u : list bytes) (m : emap) : emap := fold_left (fun m' n => del n m') u m.

(* RecoverMissingLinks *)
Definition nogo : list bytes := fields D_DoNotTraverse.
Definition is_absb (p : bytes) : bool := match p with c :: _ => Ascii.eqb c c_sl | [] => false end.
Definition nogo_paths : list bytes := filter is_absb nogo.
Definition nogo_names : list bytes := filter (fun p => negb (is_absb p)) nogo.
Definition descend_ok (d : bytes) : bool := negb (memb d nogo_paths) && negb (memb (pathbase d) nogo_names).
(* a directory entry p is looked at iff no directory above it is barred *)
Definition traversed (p : bytes) : bool := negb (memb root_path nogo_paths) && forallb descend_ok (nrparents p).

Definition link_target (rel tg : bytes) : bytes :=
  if is_absb tg then tg else pathjoin2 (pathdir rel) tg.
Fixpoint ultimate (t : tree) (fuel : nat) (count : N) (rel : bytes) : option bytes :=
  match fuel with
  | O => None
  | S f =>
    match lstat t rel with
    | Some (NLink tg) =>
      let target := link_target rel tg in
      if is_link t target then
        if D_MaxSymlinkChain <? count + 1 then None else ultimate t f (count + 1) target
      else Some target
    | _ => None
    end
  end.
Definition chain_fuel : nat := S (N.to_nat D_MaxSymlinkChain).
Fixpoint recover_each (t : tree) (cands : list bytes) (m : emap) : res emap :=
  match cands with
  | [] => Ok m
  | k :: r =>
    if mem k m then recover_each t r m else
    match ultimate t chain_fuel 1 k with
    | None => Failed
    | Some target =>
      if mem target m then
        match add_single t (li_link k) k m with Ok m' => recover_each t r m' | x => x end
      else recover_each t r m
    end
  end.
Definition link_candidates (t : tree) : list bytes :=
  keys (filter (fun kv => match snd kv with NLink _ => traversed (fst kv) | _ => false end) t).
Definition recover_links (t : tree) (m : emap) : res emap := recover_each t (link_candidates t) m.

(* AddDirectoriesByName *)
Definition li_vdb (dir : bytes) : lineinfo := MkLI TDir (dir ++ bs "/*") true false false false None.
Fixpoint add_vdb (t : tree) (dirs : list bytes) (m : emap) : res emap :=
  match dirs with
  | [] => Ok m
  | d :: r => match add_wild t (li_vdb d) m with Ok m' => add_vdb t r m' | x => x end
  end.

(* InsertStaticDev *)
Fixpoint dec_digits (fuel : nat) (n : N) (acc : bytes) : bytes :=
  match fuel with
  | O => acc
  | S f => let d := nb (48 + n mod 10) in
           if n <? 10 then d :: acc else dec_digits f (n / 10) (d :: acc)
  end.
Definition dec_of_N (n : N) : bytes := dec_digits 40 n [].
Definition strip_digit (name : bytes) : bytes :=
  match rev name with c :: r => if is_digit c then rev r else name | [] => name end.
Fixpoint count_up (n : nat) (from : N) : list N :=
  match n with O => [] | S k => from :: count_up k (from + 1) end.
Inductive extline := XSkip | XBad | XExt (template : bytes) (names : list bytes).
Definition ext_line (line : bytes) : extline :=
  match fields line with
  | [name; cnt] =>
    if uint_ok cnt 256 then
      XExt name (map (fun i => strip_digit name ++ dec_of_N i) (count_up (N.to_nat (dec_val cnt)) 1))
    else XBad
  | _ => XSkip
  end.
Fixpoint extend_dev (t : tree) (lines : list bytes) (m : emap) : res emap :=
  match lines with
  | [] => Ok m
  | l :: r =>
    match ext_line l with
    | XSkip => extend_dev t r m
    | XBad => Failed
    | XExt name names =>
      match find name m with
      | Some EDev =>      (* the copied entry is a node line with dev=; other shapes do not occur *)
        match add_all t (li_devcopy name) names m with
        | Ok m' => extend_dev t r m'
        | x => x
        end
      | _ => Failed
      end
    end
  end.
Definition static_dev (t : tree) (m : emap) : res emap :=
  bind (run_ops t (script_ops (text_lines D_DevDirSetup)) m)
       (extend_dev t (text_lines D_DevDirExtend)).

(* AddMissingStageDirs *)
Fixpoint add_chain (fuel : nat) (d : bytes) (m : emap) : emap :=
  match fuel with
  | O => m
  | S f =>
    let m' := if mem d m then m else add d EDir m in
    match chop d with Some d' => add_chain f d' m' | None => m' end
  end.
Definition add_missing_dirs (m : emap) : emap :=
  fold_left (fun m' k => add_chain (S (length k)) (pathdir k) m') (keys m) m.

(* Finalize: sort by name, fixHardlinks; MakeTar: naming and type flags *)
Inductive mkind := KDir | KReg | KSym | KLink | KDevice | KOther.
Record member := MkM { m_name : bytes; m_kind : mkind; m_link : bytes }.
Fixpoint assocN {A} (k : N) (l : list (N * A)) : option A :=
  match l with [] => None | (k', v) :: r => if (k' =? k) then Some v else assocN k r end.
Fixpoint fix_hardlinks (l : list (bytes * entry)) (seen : list (N * bytes)) : list member :=
  match l with
  | [] => []
  | (k, e) :: r =>
    match e with
    | EDir => MkM k KDir [] :: fix_hardlinks r seen
    | ESym => MkM k KSym [] :: fix_hardlinks r seen
    | EDev => MkM k KDevice [] :: fix_hardlinks r seen
    | EFile None => MkM k KReg [] :: fix_hardlinks r seen
    | EFile (Some g) =>
      match assocN g seen with
      | Some targ => MkM k KLink targ :: fix_hardlinks r seen
      | None => MkM k KReg [] :: fix_hardlinks r ((g, k) :: seen)
      end
    end
  end.
Definition sorted_entries (m : emap) : list (bytes * entry) :=
  flat_map (fun k => match find k m with Some e => [(k, e)] | None => [] end) (BSort.sort (keys m)).
Definition finalize (m : emap) : list member := fix_hardlinks (sorted_entries m) [].
Definition dot : ascii := nb 46.
Definition tar_link (targ : bytes) : bytes := if is_absb targ then dot :: targ else targ.
Definition tar_member (x : member) : member :=
  MkM (dot :: m_name x) (m_kind x) (match m_kind x with KLink => tar_link (m_link x) | _ => [] end).

(* ---------------------------------------------------------------- getStageFileList *)
Record input := MkIn { i_tree : tree; i_pkgs : list pkg; i_novdb : bool; i_emptydev : bool;
                       i_script : list bytes;       (* lines of the -addfiles file ([] = none) *)
                       i_ext : list (bytes * node) }.   (* files outside the build root: absolute host
                                                           path |-> what lstat finds (same inode groups
                                                           as i_tree: a link count > 1 may span both) *)
(* the user's script with the outside sources looked up *)
Definition user_script (i : input) : list op := map (resolve_op (i_ext i)) (script_ops (i_script i)).
Definition selected (ps : list pkg) : list pkg := filter p_sel ps.
Definition magic_ops : list op := script_ops (text_lines D_StageMagic).
Definition stddir_ops : list op := script_ops (text_lines D_StandardStageDirs).

Definition stage_map (i : input) : res emap :=
  let t := i_tree i in
  bind (all_contents (selected (i_pkgs i))) (fun sel_names =>
  bind (add_pkgfiles t sel_names []) (fun m1 =>
  bind (all_contents (i_pkgs i)) (fun all_names =>
  let u := unstaged all_names m1 in
  bind (recover_links t m1) (fun m2 =>
  bind (if i_novdb i then Ok m2 else add_vdb t (map p_dir (selected (i_pkgs i))) m2) (fun m3 =>
  bind (if i_emptydev i then Ok m3 else static_dev t m3) (fun m4 =>
  bind (run_ops t magic_ops m4) (fun m5 =>
  let m6 := exclude u m5 in
  bind (run_ops t stddir_ops m6) (fun m7 =>
  let m8 := add_missing_dirs m7 in
  bind (run_ops t (user_script i) m8) (fun m9 =>
  Ok (add_missing_dirs m9)))))))))).

(* Names() of the finalized list, and the members MakeTar writes *)
Definition stage_list (i : input) : res (list member) :=
  match stage_map i with Ok m => Ok (finalize m) | Failed => Failed | Panic => Panic end.

(* ---------------------------------------------------------------- the CONTENTS format (reference)
   What Portage writes, one line per object (PMS leaves the VDB unspecified; this is the format
   vdb/contents.go's comment describes): "dir NAME", "obj NAME MD5 MTIME", "sym NAME -> TARGET MTIME".
   Used only to state that the parser model recovers the names (Properties/C06.v). *)
Inductive centry := CDir (n : bytes) | CObj (n md5 ts : bytes) | CSym (n target ts : bytes).
Definition centry_name (e : centry) : bytes := match e with CDir n | CObj n _ _ | CSym n _ _ => n end.
Definition render_centry (e : centry) : bytes :=
  match e with
  | CDir n => bs "dir " ++ n
  | CObj n md5 ts => bs "obj " ++ n ++ c_sp :: md5 ++ c_sp :: ts
  | CSym n tg ts => bs "sym " ++ n ++ arrow ++ tg ++ c_sp :: ts
  end.
Definition render_contents (es : list centry) : bytes := join c_nl (map render_centry es) ++ [c_nl].
Definition no_nl (s : bytes) : bool := negb (existsb (fun c => Ascii.eqb c c_nl) s).
Definition no_sp (s : bytes) : bool := negb (existsb (fun c => Ascii.eqb c c_sp) s).
Definition ends_nonspace (s : bytes) : bool := match rev s with c :: _ => negb (is_sp c) | [] => false end.
Definition wf_centry (e : centry) : bool :=
  match e with
  | CDir n => no_nl n && ends_nonspace n
  | CObj n md5 ts => no_nl n && negb (feq n []) && hex_ok md5 && negb (feq md5 []) && int64_ok ts
  | CSym n tg ts => no_nl n && no_nl tg && int64_ok ts
                    && match before_arrow (n ++ arrow) [] with Some n' => feq n' n | None => false end
  end.
