(* C10, stagemaker half: -list and -generate write their output as a sequence of chunks to a
   sink; the sink accepts bytes up to a limit and then fails every write (ENOSPC / EFBIG /
   EBADF), or the compressor child fails.  After the repair every write result is looked at:
   the first failing write (or a failing compressor) makes the command fail.  Definitions only. *)
From LC Require Import Lib.Bytes.
Open Scope N_scope.

Inductive sink := SNone | SAlwaysFail | SLimit (k : N) | SBadCompressor.

(* one write(2): all of the chunk or an error (short writes are errors for the callers) *)
Definition write_chunk (s : sink) (written : N) (c : bytes) : option N :=
  let n := N.of_nat (length c) in
  match s with
  | SNone | SBadCompressor => Some (written + n)
  | SAlwaysFail => match c with [] => Some written | _ => None end
  | SLimit k => if written + n <=? k then Some (written + n) else None
  end.

Fixpoint write_all (s : sink) (written : N) (chunks : list bytes) : option N :=
  match chunks with
  | [] => Some written
  | c :: r => match write_chunk s written c with
              | Some w => write_all s w r
              | None => None
              end
  end.

Definition total (chunks : list bytes) : N := N.of_nat (length (concat chunks)).

(* exit status of the command: 0 only if every chunk was written and the compressor succeeded *)
Definition exit_ok (s : sink) (chunks : list bytes) : bool :=
  match write_all s 0 chunks with
  | Some _ => match s with SBadCompressor => false | _ => true end
  | None => false
  end.

(* the same judgement from the size of the complete output alone (what the harness observes) *)
Definition exit_ok_by_size (s : sink) (size : N) : bool :=
  match s with
  | SNone => true
  | SAlwaysFail => size =? 0
  | SLimit k => size <=? k
  | SBadCompressor => false
  end.
