(* Model of the list level of stagemaker's add-files handling:
     stage/fileList.go   GenerateFileList, ReadUserFileList (with strings.TrimSpace and the
                         comment test), unescapeAsterisks, Finalize/Names
     stage/addRemove.go  addFiles, addFromWildcard, removeFiles (path.Match on member names), globFiles, expandSubdirs
     stage/expand.go     addSingleFile as far as it decides membership, type and link target
   over an abstract build root (a list of paths with their kind).  path/filepath.Glob and
   filepath.Match are modelled (not verified) for patterns whose only metacharacters are
   "*" and "\c"; everything else sets the out-of-domain flag.  Of src= only the WILDCARD form below
   the build root ("$$stageroot/<dir>/<pattern>", round 6: add_src_wild) is modelled here; any other
   src= line sets the out-of-domain flag.
   Executable definitions only. *)
From LC Require Import Lib.Bytes Lib.Lex Lib.Fields Lib.PathM Gen.Consts Model.StageLine.
Open Scope N_scope.

(* ------------------------------------------------------------------ strings.TrimSpace *)
(* exact on bytes: the ASCII spaces and the UTF-8 encodings of U+0085 U+00A0 U+1680
   U+2000..U+200A U+2028 U+2029 U+202F U+205F U+3000 *)
Definition uni_spaces : list bytes :=
  [ [nb 194; nb 133]; [nb 194; nb 160]; [nb 225; nb 154; nb 128];
    [nb 226; nb 128; nb 128]; [nb 226; nb 128; nb 129]; [nb 226; nb 128; nb 130]; [nb 226; nb 128; nb 131];
    [nb 226; nb 128; nb 132]; [nb 226; nb 128; nb 133]; [nb 226; nb 128; nb 134]; [nb 226; nb 128; nb 135];
    [nb 226; nb 128; nb 136]; [nb 226; nb 128; nb 137]; [nb 226; nb 128; nb 138];
    [nb 226; nb 128; nb 168]; [nb 226; nb 128; nb 169]; [nb 226; nb 128; nb 175]; [nb 226; nb 129; nb 159];
    [nb 227; nb 128; nb 128] ].

Fixpoint strip_one_prefix (ps : list bytes) (s : bytes) : option bytes :=
  match ps with
  | [] => None
  | p :: r => if prefixb p s then Some (skipn (length p) s) else strip_one_prefix r s
  end.

Fixpoint trim_left_fuel (fuel : nat) (s : bytes) : bytes :=
  match fuel with
  | O => s
  | S f =>
    match s with
    | [] => []
    | c :: r => if is_sp c then trim_left_fuel f r
                else match strip_one_prefix uni_spaces s with
                     | Some s' => trim_left_fuel f s'
                     | None => s
                     end
    end
  end.
Definition trim_left (s : bytes) : bytes := trim_left_fuel (length s) s.
(* from the right the same patterns, reversed *)
Fixpoint trim_left_rev_fuel (fuel : nat) (s : bytes) : bytes :=
  match fuel with
  | O => s
  | S f =>
    match s with
    | [] => []
    | c :: r => if is_sp c then trim_left_rev_fuel f r
                else match strip_one_prefix (map (@rev ascii) uni_spaces) s with
                     | Some s' => trim_left_rev_fuel f s'
                     | None => s
                     end
    end
  end.
Definition go_trim (s : bytes) : bytes :=
  let l := trim_left s in rev (trim_left_rev_fuel (length l) (rev l)).

Definition is_comment (line : bytes) : bool :=
  match line with
  | [] => true
  | c :: r => Ascii.eqb c (nb 35)
              || (Ascii.eqb c c_slash && match r with c2 :: _ => Ascii.eqb c2 c_slash | [] => false end)
  end.

(* ------------------------------------------------------------------ the build root *)
(* kinds are vdb file types: 1 directory, 2 regular file, 3 symbolic link *)
Record tentry := MkT { te_path : bytes; te_kind : N; te_link : bytes }.
Definition tree := list tentry.

Fixpoint tfind (t : tree) (p : bytes) : option tentry :=
  match t with [] => None | e :: r => if beq (te_path e) p then Some e else tfind r p end.

Inductive lres := LAbsent | LNotDir | LFound (e : tentry) | LOod.

(* lstat of root ++ p for a cleaned absolute p: every proper ancestor must be a directory *)
Fixpoint walk (t : tree) (cur : bytes) (comps : list bytes) : lres :=
  match comps with
  | [] => LFound (MkT cur 1 [])
  | [c] => match tfind t (cur ++ c_slash :: c) with Some e => LFound e | None => LAbsent end
  | c :: rest =>
    match tfind t (cur ++ c_slash :: c) with
    | None => LAbsent
    | Some e => if te_kind e =? 1 then walk t (cur ++ c_slash :: c) rest
                else if te_kind e =? 2 then LNotDir else LOod
    end
  end.

Definition has_dotdot (p : bytes) : bool := existsb (beq dotdot) (psplit p).
Definition comps_of (p : bytes) : list bytes := filter (fun c => negb (beq c [])) (psplit p).

(* lstat(path.Join(root, name)) for an absolute name *)
Definition lstat (t : tree) (name : bytes) : lres :=
  if has_dotdot name then LOod
  else let p := clean name in
       match comps_of p with
       | [] => LFound (MkT [c_slash] 1 [])
       | cs => walk t [] cs
       end.

(* a listing of a real directory tree: clean absolute paths below the root, no path twice,
   every parent listed as a directory *)
Fixpoint path_count (t : tree) (p : bytes) : nat :=
  match t with [] => O | e :: r => ((if beq (te_path e) p then 1 else 0) + path_count r p)%nat end.
Definition tentry_ok (t : tree) (e : tentry) : bool :=
  let p := te_path e in
  beq (clean p) p && is_abs p && negb (beq p [c_slash]) && negb (has_dotdot p)
  && (path_count t p =? 1)%nat
  && ((te_kind e =? 1) || (te_kind e =? 2) || (te_kind e =? 3))
  && (let d := pathdir p in
      beq d [c_slash] || match tfind t d with Some pe => te_kind pe =? 1 | None => false end).
Definition tree_ok (t : tree) : bool := forallb (tentry_ok t) t.

(* ------------------------------------------------------------------ filepath.Match / Glob *)
Inductive gtok := GStar | GLit (c : ascii).
Inductive gpat := GBad | GOod | GPat (p : list gtok).

Fixpoint gtokens (s : bytes) : gpat :=
  match s with
  | [] => GPat []
  | c :: r =>
    if Ascii.eqb c c_bsl then
      match r with
      | [] => GBad
      | c2 :: r' => match gtokens r' with GPat p => GPat (GLit c2 :: p) | x => x end
      end
    else if Ascii.eqb c (nb 63) || Ascii.eqb c (nb 91) then GOod
    else match gtokens r with
         | GPat p => GPat ((if Ascii.eqb c c_star then GStar else GLit c) :: p)
         | x => x
         end
  end.

Fixpoint gmatch (p : list gtok) (s : bytes) {struct p} : bool :=
  match p with
  | [] => match s with [] => true | _ => false end
  | GLit c :: p' => match s with x :: s' => Ascii.eqb c x && gmatch p' s' | [] => false end
  | GStar :: p' =>
    (fix star (s : bytes) : bool :=
       gmatch p' s || match s with _ :: s' => star s' | [] => false end) s
  end.

(* literal reading of a pattern without wildcard (the directory part) *)
Fixpoint glit (p : list gtok) : option bytes :=
  match p with
  | [] => Some []
  | GLit c :: r => match glit r with Some b => Some (c :: b) | None => None end
  | GStar :: _ => None
  end.

Definition dir_slash (dir : bytes) : bytes := if beq dir [c_slash] then dir else dir ++ [c_slash].
Definition children (t : tree) (dir : bytes) : list tentry :=
  filter (fun e => let '(d, f) := pathsplit (te_path e) in beq d (dir_slash dir) && negb (beq f [])) t.

Inductive gres := GErr | GOut | GOk (matches : list bytes).

(* filepath.Glob(path.Join(root, name)) with the root prefix removed again; sorted as Glob sorts *)
Definition glob (t : tree) (name : bytes) : gres :=
  if has_dotdot name then GOut
  else
    let p := clean name in
    let '(dpart, fpart) := pathsplit p in
    match gtokens dpart, gtokens fpart with
    | GOod, _ | _, GOod => GOut
    | GBad, _ | _, GBad => GErr
    | GPat dp, GPat fp =>
      match glit dp with
      | None => GOut                       (* parseSource never lets a wildcard into the directory *)
      | Some dlit =>
        let dir := clean dlit in
        match lstat t dir with
        | LOod => GOut
        | LFound e =>
          if te_kind e =? 1
          then GOk (sort (map te_path (filter (fun c => gmatch fp (snd (pathsplit (te_path c)))) (children t dir))))
          else if te_kind e =? 3 then GOut else GOk []
        | _ => GOk []
        end
      end
    end.

(* expandSubdirs: every match and, below a matched real directory, everything *)
Definition below (d p : bytes) : bool := prefixb (d ++ [c_slash]) p.
Definition expand (t : tree) (ms : list bytes) : list bytes :=
  flat_map (fun m => m :: match tfind t m with
                         | Some e => if te_kind e =? 1 then map te_path (filter (fun x => below m (te_path x)) t) else []
                         | None => []
                         end) ms.

(* ------------------------------------------------------------------ the list *)
(* an entry of entryMap as far as the exported list shows it: name, type, link target *)
Record lentry := MkL { l_name : bytes; l_type : N; l_target : bytes }.
Definition flist := list lentry.

Fixpoint fl_has (l : flist) (n : bytes) : bool :=
  match l with [] => false | e :: r => beq (l_name e) n || fl_has r n end.
Fixpoint fl_del (l : flist) (n : bytes) : flist :=
  match l with [] => [] | e :: r => if beq (l_name e) n then fl_del r n else e :: fl_del r n end.
Definition fl_set (l : flist) (e : lentry) : flist := e :: fl_del l (l_name e).

Inductive ares := AErr | AOod | AOk (l : flist).

(* addSingleFile with the name as source *)
Definition add_single (t : tree) (l : flist) (e : entry) : ares :=
  match lstat t (e_name e) with
  | LOod => AOod
  | LNotDir => AErr
  | LAbsent =>
    if e_skip e then AOk l
    else if e_ltype e =? V_FileType_none then AErr
    else if e_ltype e =? V_FileType_dir then AOk (fl_set l (MkL (e_name e) (e_ltype e) (e_target e)))
    else if e_ltype e =? V_FileType_file then AErr
    else if e_ltype e =? V_FileType_symlink then
      match e_target e with [] => AErr | _ => AOk (fl_set l (MkL (e_name e) (e_ltype e) (e_target e))) end
    else if e_ltype e =? V_FileType_device then
      if e_hasdev e then AOk (fl_set l (MkL (e_name e) (e_ltype e) (e_target e))) else AErr
    else AErr
  | LFound te =>
    let actual := te_kind te in
    let need_check :=
      if e_ltype e =? V_FileType_dir then false
      else if e_ltype e =? V_FileType_symlink then match e_target e with [] => true | _ => false end
      else if e_ltype e =? V_FileType_device then negb (e_hasdev e)
      else true in
    if e_ltype e =? V_FileType_none then
      AOk (fl_set l (MkL (e_name e) actual
                         (if actual =? V_FileType_symlink then match e_target e with [] => te_link te | x => x end
                          else e_target e)))
    else if need_check && negb (e_ltype e =? actual) then AErr
    else if e_ltype e =? V_FileType_symlink then
      match e_target e with
      | [] => AOk (fl_set l (MkL (e_name e) (e_ltype e) (te_link te)))
      | x => AOk (fl_set l (MkL (e_name e) (e_ltype e) x))
      end
    else AOk (fl_set l (MkL (e_name e) (e_ltype e) (e_target e)))
  end.

Fixpoint add_each (t : tree) (l : flist) (e : entry) (names : list bytes) : ares :=
  match names with
  | [] => AOk l
  | n :: r =>
    match add_single t l (set_ltype (set_name e n (e_wild e)) V_FileType_none) with
    | AOk l' => add_each t l' e r
    | x => x
    end
  end.

(* ---- round 6: a WILDCARD src= below the build root ("$$stageroot/<dir>/<pattern>") ----
   resolveSourceLocation: sigil "$$", prefix name stageroot, the tail from the first slash on is
   joined to the root; so the tail is a name inside the build root and Glob runs on this tree. *)
Definition stageroot_pfx : bytes := [nb 36; nb 36] ++ D_TreeRootDirPrefixName ++ [c_slash].
Definition stageroot_tail (src : bytes) : option bytes :=
  if prefixb stageroot_pfx src then Some (skipn (length stageroot_pfx - 1) src) else None.

(* addSingleFile with a source that is not the name and type "to be determined" (what
   addFromWildcard hands over): lstat of the SOURCE decides type and link target, the member
   is entered under [name] *)
Definition add_from_source (t : tree) (l : flist) (e : entry) (name src : bytes) : ares :=
  match lstat t src with
  | LOod => AOod
  | LNotDir => AErr
  | LAbsent => if e_skip e then AOk l else AErr
  | LFound te =>
    let actual := te_kind te in
    AOk (fl_set l (MkL name actual
                       (if actual =? V_FileType_symlink then match e_target e with [] => te_link te | x => x end
                        else e_target e)))
  end.

(* addFromWildcard, useSource: every match m is entered as path.Join(name, m[choplen:]) with
   choplen = len(path.Dir(globname)): its path RELATIVE to the globbed source directory *)
Fixpoint add_each_src (t : tree) (l : flist) (e : entry) (chop : nat) (ms : list bytes) : ares :=
  match ms with
  | [] => AOk l
  | m :: r =>
    match add_from_source t l e (clean (e_name e ++ c_slash :: skipn chop m)) m with
    | AOk l' => add_each_src t l' e chop r
    | x => x
    end
  end.

Definition add_src_wild (t : tree) (l : flist) (e : entry) : ares :=
  match stageroot_tail (e_source e) with
  | None => AOod                 (* absolute / relative / ~ sources: not modelled at this level *)
  | Some tail =>
    let dpart := fst (pathsplit (clean tail)) in
    if existsb (fun c => Ascii.eqb c c_bsl) dpart then AOod   (* escapes in the directory part *)
    else
      match glob t tail with
      | GErr => AErr
      | GOut => AOod
      | GOk ms =>
        let ms' := if e_ltype e =? V_FileType_dir then expand t ms else ms in
        let d := clean dpart in
        let chop := if beq d [c_slash] then O else length d in
        match ms' with [] => AErr | _ => add_each_src t l e chop ms' end
      end
  end.

Definition add_files (t : tree) (l : flist) (e : entry) : ares :=
  match e_source e with
  | _ :: _ => if e_wild e then add_src_wild t l e
              else AOod                              (* src= without wildcard: not modelled at this level *)
  | [] =>
    if e_wild e then
      match glob t (e_name e) with
      | GErr => AErr
      | GOut => AOod
      | GOk ms =>
        let ms' := if e_ltype e =? V_FileType_dir then expand t ms else ms in
        match ms' with [] => AErr | _ => add_each t l e ms' end
      end
    else add_single t l e
  end.

(* path.Match(pattern, member name) for patterns of literals and "*": a star does not cross a slash *)
Fixpoint pmatch (p : list gtok) (s : bytes) {struct p} : bool :=
  match p with
  | [] => match s with [] => true | _ => false end
  | GLit c :: p' => match s with x :: s' => Ascii.eqb c x && pmatch p' s' | [] => false end
  | GStar :: p' =>
    (fix star (s : bytes) : bool :=
       pmatch p' s || match s with x :: s' => negb (Ascii.eqb x c_slash) && star s' | [] => false end) s
  end.

(* removeFiles: a wildcard selects MEMBERS of the list (the pattern, as written, against every
   member name); a plain name must be a member *)
Definition remove_files (t : tree) (l : flist) (e : entry) : ares :=
  if e_wild e then
    match gtokens (e_name e) with
    | GPat p => AOk (filter (fun x => negb (pmatch p (l_name x))) l)
    | _ => AOod            (* ? [ or a dangling backslash in the pattern: outside the model *)
    end
  else if fl_has l (e_name e) then AOk (fl_del l (e_name e)) else AErr.

(* strings.ReplaceAll(s, "\*", "*") *)
Fixpoint unesc_star (s : bytes) : bytes :=
  match s with
  | [] => []
  | c :: r =>
    match r with
    | c2 :: r' => if Ascii.eqb c c_bsl && Ascii.eqb c2 c_star then c_star :: unesc_star r' else c :: unesc_star r
    | [] => [c]
    end
  end.
Definition unescape_asterisks (e : entry) : entry :=
  let e1 := set_target e (unesc_star (e_target e)) in
  if negb (e_wild e1) then set_source (set_name e1 (unesc_star (e_name e1)) (e_wild e1)) (unesc_star (e_source e1)) (e_wild e1)
  else match e_source e1 with
       | [] => e1
       | _ => set_name e1 (unesc_star (e_name e1)) (e_wild e1)
       end.

Record rstate_l := MkRL { rl_list : flist; rl_err : bool; rl_ood : bool }.

(* one line of ReadUserFileList; a Go panic would surface as rl_err with no way back, so it is
   a separate outcome of [read_lines] *)
Inductive rl_res := RLPanic | RLDone (st : rstate_l).

Definition read_line (t : tree) (st : rstate_l) (raw : bytes) : rl_res :=
  let line := go_trim raw in
  if is_comment line then RLDone st
  else match parse_line line with
       | LPanic => RLPanic
       | LRes _ false _ => RLDone (MkRL (rl_list st) true (rl_ood st))
       | LRes adding true e0 =>
         let e := unescape_asterisks e0 in
         match (if adding then add_files t (rl_list st) e else remove_files t (rl_list st) e) with
         | AOk l => RLDone (MkRL l (rl_err st) (rl_ood st))
         | AErr => RLDone (MkRL (rl_list st) true (rl_ood st))
         | AOod => RLDone (MkRL (rl_list st) (rl_err st) true)
         end
       end.

Fixpoint read_lines (t : tree) (st : rstate_l) (lines : list bytes) : rl_res :=
  match lines with
  | [] => RLDone st
  | l :: r => match read_line t st l with RLDone st' => read_lines t st' r | RLPanic => RLPanic end
  end.

(* GenerateFileList: every package file that exists, type to be determined *)
Fixpoint gen_list (t : tree) (st : rstate_l) (names : list bytes) : rstate_l :=
  match names with
  | [] => st
  | n :: r =>
    let e := MkE V_FileType_none n [] [] 0 0 0 0 0 0 0 false false false false false true in
    match add_single t (rl_list st) e with
    | AOk l => gen_list t (MkRL l (rl_err st) (rl_ood st)) r
    | AErr => MkRL (rl_list st) true (rl_ood st)        (* GenerateFileList gives up *)
    | AOod => gen_list t (MkRL (rl_list st) (rl_err st) true) r
    end
  end.

(* Finalize + the exported view: sorted by name *)
Fixpoint linsert (x : lentry) (l : flist) : flist :=
  match l with [] => [x] | y :: r => if ltb (l_name y) (l_name x) then y :: linsert x r else x :: l end.
Definition lsort (l : flist) : flist := fold_right linsert [] l.

Inductive list_res := LsPanic | LsErr | LsOk (entries : flist).

(* the whole run: (result, out-of-domain flag).  [pre]: entries already in the list (the
   stagemaker pipeline before the user lists); [init]: package files for GenerateFileList *)
Definition run_list (t : tree) (pre : flist) (init : list bytes) (lines : list bytes) : list_res * bool :=
  let st0 := gen_list t (MkRL pre false false) init in
  if rl_err st0 then (LsErr, rl_ood st0)
  else match read_lines t st0 lines with
       | RLPanic => (LsPanic, false)
       | RLDone st => (if rl_err st then LsErr else LsOk (lsort (rl_list st)), rl_ood st)
       end.

(* stage/supplement.go AddMissingStageDirs, which cmd/stagemaker/paths.go runs once more after the
   user lists: every member's directory (path.Dir) and all its ancestors down to the top-level
   one become members of type dir *)
Fixpoint anc_chain (fuel : nat) (d : bytes) : list bytes :=
  d :: match fuel with
       | O => []
       | S f => match fst (pathsplit d) with
                | [] => []
                | [_] => []
                | dp => anc_chain f (removelast dp)
                end
       end.
Definition dir_entry (d : bytes) : entry :=
  MkE V_FileType_dir d [] [] 0 0 0 0 0 0 0 false false false false false false.
Fixpoint add_dirs (t : tree) (l : flist) (ds : list bytes) : ares :=
  match ds with
  | [] => AOk l
  | d :: r => if fl_has l d then add_dirs t l r
              else match add_single t l (dir_entry d) with AOk l' => add_dirs t l' r | x => x end
  end.
Definition add_missing_dirs (t : tree) (l : flist) : ares :=
  add_dirs t l (flat_map (fun e => let d := pathdir (l_name e) in anc_chain (length d) d) l).

(* the stagemaker pipeline from the user lists on: ReadUserFileList, AddMissingStageDirs, Finalize *)
Definition run_proc (t : tree) (pre : flist) (lines : list bytes) : list_res * bool :=
  match read_lines t (MkRL pre false false) lines with
  | RLPanic => (LsPanic, false)
  | RLDone st =>
    if rl_err st then (LsErr, rl_ood st)
    else match add_missing_dirs t (rl_list st) with
         | AOk l => (LsOk (lsort l), rl_ood st)
         | AErr => (LsErr, rl_ood st)
         | AOod => (LsErr, true)
         end
  end.

Definition lentry_beq (a b : lentry) : bool :=
  beq (l_name a) (l_name b) && (l_type a =? l_type b) && beq (l_target a) (l_target b).
Definition list_res_beq (a b : list_res) : bool :=
  match a, b with
  | LsPanic, LsPanic => true
  | LsErr, LsErr => true
  | LsOk x, LsOk y => list_beq lentry_beq x y
  | _, _ => false
  end.
