(* The DOCUMENTED effect of an add-files script on the member list (names only), from
   doc/stagemaker_manpage.adoc: what each entry type needs in the build root, absent=skip,
   "a wildcard in the base part of a name expands to the matching entries" for the adding
   types and for omit, recursion for type dir.  Written over structured lines; anything
   the manual leaves open makes the answer [DUnk]. *)
From LC Require Import Lib.Bytes Lib.Lex Lib.Fields Lib.PathM Gen.Consts Model.StageLine Model.StageDoc
  Model.StageWild.
Open Scope N_scope.

Inductive sitem := SComment (raw : bytes) | SLine (sl : sline).
Definition item_render (it : sitem) : bytes :=
  match it with SComment b => b | SLine sl => render_line sl end.

(* a structured line keeps its meaning under the reader's TrimSpace: only its own leading
   and trailing blanks go *)
Definition sline_core (sl : sline) : sline :=
  match sl_fields sl with
  | [] => MkSL [] []
  | f :: r => MkSL (MkF [] (f_style f) (f_toks f) :: r) []
  end.
Definition item_ok (it : sitem) : bool :=
  match it with
  | SComment b => is_comment (go_trim b)
  | SLine sl => sline_ok sl && beq (go_trim (render_line sl)) (render_line (sline_core sl))
                && negb (is_comment (render_line (sline_core sl)))
  end.

Definition nmem (n : bytes) (l : list bytes) : bool := existsb (beq n) l.
Definition nadd (n : bytes) (l : list bytes) : list bytes := if nmem n l then l else n :: l.
Definition ndel (n : bytes) (l : list bytes) : list bytes := filter (fun x => negb (beq x n)) l.

(* the name: directory part (up to the last slash) and base pattern *)
Fixpoint split_last_slash (ts : list ftok) (dir cur : list ftok) : list ftok * list ftok :=
  match ts with
  | [] => (rev dir, rev cur)
  | FLit c :: r => if Ascii.eqb c c_slash then split_last_slash r (FLit c :: cur ++ dir) []
                   else split_last_slash r dir (FLit c :: cur)
  | t :: r => split_last_slash r dir (t :: cur)
  end.
Definition tok_pat (t : ftok) : gtok :=
  match t with FLit c => GLit c | FEsc => GLit c_star | FStar => GStar end.
(* characters whose meaning inside a globbed name the manual does not define *)
Definition odd_tok (t : ftok) : bool :=
  match t with FLit c => Ascii.eqb c c_bsl || Ascii.eqb c (nb 63) || Ascii.eqb c (nb 91) | _ => false end.

Inductive dglob := DGUnk | DGOk (ms : list bytes).
Definition doc_glob (t : tree) (name : list ftok) : dglob :=
  if existsb odd_tok name || has_dotdot (fvalue name) || negb (beq (clean (fvalue name)) (fvalue name)) then DGUnk
  else
    let '(dts, bts) := split_last_slash name [] [] in
    match bts with
    | [] => DGUnk
    | _ =>
      let dir := clean (fmeant dts) in
      match lstat t dir with
      | LFound e =>
        if te_kind e =? 1
        then DGOk (map te_path (filter (fun c => gmatch (map tok_pat bts) (snd (pathsplit (te_path c)))) (children t dir)))
        else if te_kind e =? 3 then DGUnk else DGOk []
      | LOod => DGUnk
      | _ => DGOk []
      end
    end.

Inductive dres := DErr | DUnk | DOk (names : list bytes).

Inductive dsingle := DSAdd | DSSkip | DSErr | DSUnk.
Definition doc_single (t : tree) (d : dline) (meant : bytes) : dsingle :=
  let x := d_x d in
  match x_source x with _ :: _ => DSUnk | [] =>
  let ty := d_type d in
  let has_targ := match x_target x with [] => false | _ => true end in
  let has_dev := match x_dev x with Some _ => true | None => false end in
  match lstat t meant with
  | LOod | LNotDir => DSUnk
  | LAbsent =>
    if x_skip x then DSSkip
    else if ty =? 1 then DSAdd
    else if ty =? 3 then (if has_targ then DSAdd else DSErr)
    else if ty =? 5 then (if has_dev then DSAdd else DSErr)
    else DSErr
  | LFound e =>
    let k := te_kind e in
    if ty =? 0 then DSAdd
    else if ty =? 2 then (if k =? 2 then DSAdd else DSUnk)
    else if ty =? 1 then (if k =? 1 then DSAdd else DSUnk)
    else if ty =? 3 then (if has_targ || (k =? 3) then DSAdd else DSUnk)
    else if ty =? 5 then (if has_dev then DSAdd else DSUnk)
    else DSUnk
  end end.

(* ---- round 6: a wildcard in the last element of the src= value ----
   The manual: "src=  Name of source file, directory or device node to use as source data for the
   entry to be created.  Recursively copies source-directory entries if name is of a directory.
   ... Prefix the path with $$stageroot to indicate paths relative to the build root", and for
   asterisks: "If type is dir, globbing applies recursively to that directory.  For other entry
   types, globbing is not recursive."  It has no sentence on an asterisk inside the src= value, so at
   LINE level such a value stays unspecified (status Free: whether the line is taken, and as which
   entry, is read off the parser model, which the line stream compares with the code).  What is
   specified here is the effect on the list of an entry that WAS taken with a wildcard source below
   the build root: the source entries are those the pattern matches in the source directory (with
   everything below them for type dir, only they otherwise), and they are copied as
   source-directory entries are copied: each appears below the line's name at the path it has
   RELATIVE to the source directory -- <name>/<sub>/<file> for <srcdir>/<sub>/<file> -- and nothing
   else changes.  (The set of matches is [StageWild.glob], the matcher characterised by
   C17_gmatch_spec.)  Open (DUnk): sources not below $$stageroot, escapes in the directory part,
   patterns outside the glob model, no match at all. *)
Definition doc_src_wild (t : tree) (names : list bytes) (e : entry) : dres :=
  match stageroot_tail (e_source e) with
  | None => DUnk
  | Some tail =>
    if existsb (fun c => Ascii.eqb c c_bsl) (fst (pathsplit (clean tail))) then DUnk
    else match glob t tail with
         | GOk ms =>
           let ms' := if e_ltype e =? V_FileType_dir then expand t ms else ms in
           let d := clean (fst (pathsplit (clean tail))) in
           let chop := if beq d [c_slash] then O else length d in
           match ms' with
           | [] => DUnk
           | _ => DOk (fold_left (fun l n => nadd n l)
                                 (map (fun m => clean (e_name e ++ c_slash :: skipn chop m)) ms') names)
           end
         | _ => DUnk
         end
  end.
Definition doc_src_step (t : tree) (names : list bytes) (sl : sline) : dres :=
  match sl_fields sl with
  | _ :: fn :: _ =>
    match doc_name (f_toks fn) with
    | MustAccept =>
      match parse_line (render_line (sline_core sl)) with
      | LRes true true e0 =>
        let e := unescape_asterisks e0 in
        match e_source e with
        | _ :: _ => if e_wild e then doc_src_wild t names e else DUnk
        | [] => DUnk
        end
      | _ => DUnk
      end
    | _ => DUnk
    end
  | _ => DUnk
  end.

(* one structured line on the current name set *)
Definition doc_step (t : tree) (names : list bytes) (sl : sline) : dres :=
  let d := doc_line sl in
  match d_status d with
  | MustReject => DErr
  | Either => DUnk
  | Free => doc_src_step t names sl
  | MustAccept =>
    match sl_fields sl with
    | _ :: fn :: _ =>
      let ntoks := f_toks fn in
      if d_wild d then
        if d_adding d then
          (* the matching entries of the build root *)
          match doc_glob t ntoks with
          | DGUnk => DUnk
          | DGOk ms =>
            match x_source (d_x d), ms with
            | _ :: _, _ => DUnk
            | [], [] => DUnk
            | [], _ => DOk (fold_left (fun l n => nadd n l)
                                      (if d_type d =? 1 then expand t ms else ms) names)
            end
          end
        else
          (* omit: the matching entries are those of the list; the name is read as written (the
             directory part literally, the asterisks of the last element standing for any run of
             non-slash bytes) *)
          if existsb odd_tok ntoks then DUnk
          else DOk (filter (fun n => negb (pmatch (map tok_pat ntoks) n)) names)
      else
        let n := fmeant ntoks in
        if d_adding d then
          match doc_single t d n with
          | DSAdd => DOk (nadd n names)
          | DSSkip => DOk names
          | DSErr => DErr
          | DSUnk => DUnk
          end
        else if nmem n names then DOk (ndel n names) else DUnk
    | _ => DUnk
    end
  end.

(* the whole script: an error anywhere is an error of the run; the first thing the manual
   leaves open makes everything after it open *)
Fixpoint doc_items (t : tree) (names : list bytes) (err : bool) (items : list sitem) : dres :=
  match items with
  | [] => if err then DErr else DOk names
  | SComment _ :: r => doc_items t names err r
  | SLine sl :: r =>
    match doc_step t names sl with
    | DUnk => DUnk
    | DErr => doc_items t names true r
    | DOk names' => doc_items t names' err r
    end
  end.

(* package files: those that exist *)
Definition doc_init (t : tree) (init : list bytes) : dres :=
  fold_left (fun acc n =>
    match acc with
    | DOk l => match lstat t n with
               | LFound _ => DOk (nadd n l)
               | LAbsent => DOk l
               | _ => DUnk
               end
    | x => x
    end) init (DOk []).

Definition doc_run (t : tree) (init : list bytes) (items : list sitem) : dres :=
  match doc_init t init with
  | DOk l => doc_items t l false items
  | x => x
  end.

(* observed result against the documented one: names as sets *)
Definition same_names (a b : list bytes) : bool :=
  forallb (fun x => nmem x b) a && forallb (fun x => nmem x a) b.
Definition list_spec (t : tree) (init : list bytes) (items : list sitem) (r : list_res) : bool :=
  match r with
  | LsPanic => false
  | LsErr => match doc_run t init items with DOk _ => false | _ => true end
  | LsOk es => match doc_run t init items with
               | DErr => false
               | DUnk => true
               | DOk names => same_names (map l_name es) names
               end
  end.
