(* Model of the metadata path of stagemaker's tarball generation:
     stage/expand.go    addSingleFile, getXattrs, fixHardlinks
     stage/tar.go       MakeTar (lineInfo -> tar.Header mapping, data size check)
     fs/directories.go  Readlink (buffer loop)
     stage/fileList.go  the option-value parsers that feed addSingleFile:
                        parseModString, the ranges accepted by parseUid / parseDev
     cmd/stagemaker/paths.go  writeTarFile / makeTarWriter control flow
   and of the system calls they sit on (lstat result as data, readlink(2) truncation,
   llistxattr(2)/lgetxattr(2) with ERANGE).
   Executable definitions only; proofs live in Proofs/TarMetaP.v. *)
From LC Require Import Lib.Bytes Lib.Fields Gen.Consts.
From Coq Require Import ZArith.
Open Scope N_scope.

Definition blen (b : bytes) : N := N.of_nat (length b).
Definition NUL : ascii := nb 0.

(* ------------------------------------------------------------------ file types *)
(* vdb.FileType_* *)
Inductive ltype := LNone | LDir | LFile | LSym | LHard | LDev.
Definition ltype_eqb (a b : ltype) : bool :=
  match a, b with
  | LNone, LNone | LDir, LDir | LFile, LFile | LSym, LSym | LHard, LHard | LDev, LDev => true
  | _, _ => false
  end.

(* st_mode type bits (octal 0170000 ...) *)
Definition S_IFMT   := 61440.
Definition S_IFSOCK := 49152.
Definition S_IFLNK  := 40960.
Definition S_IFREG  := 32768.
Definition S_IFBLK  := 24576.
Definition S_IFDIR  := 16384.
Definition S_IFCHR  := 8192.
Definition S_IFIFO  := 4096.
Definition PermBits := 4095.            (* vdb.PermBits = 07777 *)

(* ------------------------------------------------------------------ the world *)
(* what lstat(2) returns, as far as addSingleFile looks at it; st_id identifies the
   (st_dev, st_ino) pair *)
Record stat := MkStat {
  st_mode : N; st_uid : N; st_gid : N; st_mtime : Z; st_size : N; st_rdev : N;
  st_nlink : N; st_id : N }.

Definition xattr := (bytes * bytes)%type.

(* one file-system object: lstat, link target (symlinks), the object's own extended
   attributes, and what reading it yields (length and content; content travels as the
   bytes themselves when short, as a digest otherwise) *)
Record object := MkObj {
  o_st : stat; o_link : bytes; o_xattrs : list xattr; o_dlen : N; o_data : bytes }.

(* outcome of lstat on the source path *)
Inductive srcstate := SAbsent | SLstatErr | SPresent (o : object).

(* ------------------------------------------------------------------ system calls *)
(* readlink(2) copies at most [cap] bytes and truncates silently *)
Definition sys_readlink (target : bytes) (cap : N) : bytes := firstn (N.to_nat cap) target.

Inductive sysres (A : Type) := SysOk (a : A) | SysERANGE | SysErr.
Arguments SysOk {A} a. Arguments SysERANGE {A}. Arguments SysErr {A}.

(* the name list as the kernel lays it out: every name followed by NUL *)
Definition name_buf (xs : list xattr) : bytes := join NUL (map fst xs ++ [[]]).
Definition sys_llistxattr (xs : list xattr) (cap : N) : sysres bytes :=
  if blen (name_buf xs) <=? cap then SysOk (name_buf xs) else SysERANGE.

Fixpoint assoc (k : bytes) (xs : list xattr) : option bytes :=
  match xs with
  | [] => None
  | (n, v) :: r => if beq n k then Some v else assoc k r
  end.
Definition sys_lgetxattr (xs : list xattr) (name : bytes) (cap : N) : sysres bytes :=
  match assoc name xs with
  | None => SysErr                                       (* ENODATA *)
  | Some v => if blen v <=? cap then SysOk v else SysERANGE
  end.

(* ------------------------------------------------------------------ fs.Readlink *)
Inductive loopres (A : Type) := LDone (a : A) | LFail | LDiverge.
Arguments LDone {A} a. Arguments LFail {A}. Arguments LDiverge {A}.

(* for size := 256; ; size *= 2 { n := readlink(buf[size]); if n < size { return buf[:n] } } *)
Fixpoint readlink_loop (fuel : nat) (target : bytes) (cap : N) : loopres bytes :=
  match fuel with
  | O => LDiverge
  | S f => let r := sys_readlink target cap in
           if blen r <? cap then LDone r else readlink_loop f target (2 * cap)
  end.
Definition fs_readlink (target : bytes) : loopres bytes :=
  readlink_loop (S (length target)) target 256.

(* ------------------------------------------------------------------ getXattrs *)
(* namebuf := 256 bytes; doubled while llistxattr says ERANGE; any other error: no xattrs *)
Fixpoint list_loop (fuel : nat) (xs : list xattr) (cap : N) : loopres bytes :=
  match fuel with
  | O => LDiverge
  | S f => match sys_llistxattr xs cap with
           | SysOk b => LDone b
           | SysERANGE => list_loop f xs (2 * cap)
           | SysErr => LFail
           end
  end.

(* one value; the value buffer is shared by all names and keeps its grown size *)
Fixpoint get_loop (fuel : nat) (xs : list xattr) (name : bytes) (cap : N) : loopres (option bytes) * N :=
  match fuel with
  | O => (LDiverge, cap)
  | S f => match sys_lgetxattr xs name cap with
           | SysOk v => (LDone (Some v), cap)
           | SysERANGE => get_loop f xs name (2 * cap)
           | SysErr => (LDone None, cap)                    (* "continue" *)
           end
  end.

Definition is_nil {A} (l : list A) : bool := match l with [] => true | _ => false end.

Fixpoint values_loop (fuel : nat) (xs : list xattr) (names : list bytes) (cap : N) : loopres (list xattr) :=
  match names with
  | [] => LDone []
  | n :: r =>
    if is_nil n then values_loop fuel xs r cap
    else match get_loop fuel xs n cap with
         | (LDone (Some v), cap') =>
           match values_loop fuel xs r cap' with
           | LDone l => LDone ((n, v) :: l)
           | e => e
           end
         | (LDone None, cap') => values_loop fuel xs r cap'
         | (LFail, _) => LFail
         | (LDiverge, _) => LDiverge
         end
  end.

Definition xattr_fuel (xs : list xattr) : nat :=
  S (length (name_buf xs) + fold_right (fun x a => length (snd x) + a)%nat 0%nat xs).

(* result: None = "return nil" (the header then carries no xattr map) *)
Definition get_xattrs (xs : list xattr) : loopres (option (list xattr)) :=
  match list_loop (xattr_fuel xs) xs 256 with
  | LDone buf =>
    match values_loop (xattr_fuel xs) xs (split NUL buf) 1024 with
    | LDone l => LDone (Some l)
    | LFail => LFail
    | LDiverge => LDiverge
    end
  | LFail => LDone None
  | LDiverge => LDiverge
  end.

(* ------------------------------------------------------------------ device numbers *)
(* Linux (glibc) dev_t decoding as written in expand.go *)
Definition dev_major (rdev : N) : N :=
  N.lor (N.land (N.shiftr rdev 32) 4294963200) (N.land (N.shiftr rdev 8) 4095).
Definition dev_minor (rdev : N) : N :=
  N.lor (N.land (N.shiftr rdev 12) 4294967040) (N.land rdev 255).

(* the encoding side (glibc makedev), for the round-trip theorem *)
Definition makedev (ma mi : N) : N :=
  N.lor (N.lor (N.shiftl (N.land ma 4294963200) 32) (N.shiftl (N.land ma 4095) 8))
        (N.lor (N.shiftl (N.land mi 4294967040) 12) (N.land mi 255)).

(* ------------------------------------------------------------------ parseModString *)
Definition c_plus : ascii := nb 43.
Definition c_minus : ascii := nb 45.
Definition c_comma : ascii := nb 44.
Definition is_octal_digit (c : ascii) : bool := (48 <=? bn c) && (bn c <=? 55).

Definition group_mask (c : ascii) : option N :=
  match bn c with
  | 117 => Some 2496        (* 'u': S_IRWXU | S_ISUID = 04700 *)
  | 103 => Some 1080        (* 'g': S_IRWXG | S_ISGID = 02070 *)
  | 111 => Some 7           (* 'o': S_IRWXO *)
  | 97  => Some PermBits    (* 'a' *)
  | _ => None
  end.
Definition setting_mask (c : ascii) : option N :=
  match bn c with
  | 114 => Some 292         (* 'r' 0444 *)
  | 119 => Some 146         (* 'w' 0222 *)
  | 120 => Some 73          (* 'x' 0111 *)
  | 115 => Some 3072        (* 's' 06000 *)
  | 116 => Some 512         (* 't' 01000 *)
  | _ => None
  end.

Record mst := MkMst { ms_aor : Z; ms_group : N; ms_setting : N; ms_and : N; ms_or : N; ms_err : bool }.
Definition mst_fail (s : mst) : mst := MkMst (ms_aor s) (ms_group s) (ms_setting s) (ms_and s) (ms_or s) true.

Definition mod_step (s : mst) (c : ascii) : mst :=
  if ms_err s then s else
  match group_mask c with
  | Some mask =>
    if (0 <? ms_group s) || (0 <? ms_setting s) || negb (Z.eqb (ms_aor s) 0) then mst_fail s
    else MkMst (ms_aor s) mask (ms_setting s) (ms_and s) (ms_or s) false
  | None =>
    if Ascii.eqb c c_plus || Ascii.eqb c c_minus then
      let g := if ms_group s =? 0 then PermBits else ms_group s in
      if (0 <? ms_setting s) || negb (Z.eqb (ms_aor s) 0) then mst_fail s
      else MkMst (if Ascii.eqb c c_minus then (-1)%Z else 1%Z) g (ms_setting s) (ms_and s) (ms_or s) false
    else match setting_mask c with
    | Some mask =>
      let g := if ms_group s =? 0 then PermBits else ms_group s in
      let a := if Z.eqb (ms_aor s) 0 then 1%Z else ms_aor s in
      if 0 <? ms_setting s then mst_fail s
      else let sm := N.land mask g in
           if Z.ltb 0 a then MkMst a g sm (ms_and s) (N.lor (ms_or s) sm) false
           else MkMst a g sm (N.land (ms_and s) (N.lxor PermBits sm)) (N.ldiff (ms_or s) sm) false
    | None =>
      if Ascii.eqb c c_comma then MkMst 0%Z 0 0 (ms_and s) (ms_or s) false
      else mst_fail s
    end
  end.

Definition octal_value (s : bytes) : N := fold_left (fun a c => a * 8 + (bn c - 48)) s 0.

(* (andMask, orMask) or None when the string is rejected *)
Definition parse_mod (s : bytes) : option (N * N) :=
  if forallb is_octal_digit s then
    (* strconv.ParseInt(str, 8, 32) *)
    if is_nil s then None
    else if octal_value s <? 2147483648 then Some (0, octal_value s) else None
  else
    let r := fold_left mod_step s (MkMst 0%Z 0 0 PermBits 0 false) in
    if ms_err r then None else Some (ms_and r, ms_or r).

(* ------------------------------------------------------------------ the add-files line, parsed *)
(* options of one entry after parseLine (the value syntax of uid=/gid=/dev= is decimal
   text; strconv is not modelled, only the accepted ranges are) *)
Record opts := MkOpts {
  p_ltype : ltype;                    (* file/dir/node/symlink/tbd *)
  p_name : bytes;                     (* member name, absolute *)
  p_hassrc : bool;                    (* src= given: the source is another object *)
  p_target : bytes;                   (* targ= value, [] if none *)
  p_mod : option bytes;               (* mod= value *)
  p_uid : option N; p_gid : option N;
  p_dev : option (bool * N * N);      (* dev=: (is char, major, minor) *)
  p_skip : bool }.                    (* absent=skip, or a package-owned entry *)

(* lineInfo as addSingleFile leaves it in entryMap *)
Record entry := MkEntry {
  e_ltype : ltype; e_name : bytes; e_target : bytes; e_fsize : N; e_mtime : Z;
  e_xattrs : option (list xattr); e_gid : N; e_uid : N; e_perms : N;
  e_devino : option N; e_ischar : bool; e_major : N; e_minor : N;
  e_dlen : N; e_data : bytes }.       (* what fs.ReadFile(source) will yield *)

Inductive res (A : Type) := ROk (a : A) | RSkip | RErr | RDiverge.
Arguments ROk {A} a. Arguments RSkip {A}. Arguments RErr {A}. Arguments RDiverge {A}.

Definition uid_ok (v : option N) : bool := match v with Some n => n <? 2147483648 | None => true end.
Definition dev_ok (d : option (bool * N * N)) : bool :=
  match d with Some (_, ma, mi) => (ma <? 4294967296) && (mi <? 4294967296) | None => true end.

Definition has {A} (o : option A) : bool := match o with Some _ => true | None => false end.

(* classification of the lstat result: (actual type, "cannot tar" error pending) or reject *)
Definition classify (mode : N) : option (ltype * bool) :=
  let t := N.land mode S_IFMT in
  if t =? S_IFSOCK then Some (LNone, true)
  else if t =? S_IFLNK then Some (LSym, false)
  else if t =? S_IFREG then Some (LFile, false)
  else if (t =? S_IFBLK) || (t =? S_IFCHR) then Some (LDev, false)
  else if t =? S_IFDIR then Some (LDir, false)
  else if t =? S_IFIFO then Some (LNone, true)
  else None.

Definition default_perms (t : ltype) : N :=
  match t with
  | LDir => N.ldiff 511 D_Umask
  | LSym => 511
  | _ => N.ldiff 438 D_Umask
  end.

(* ---- addSingleFile, piece by piece ---- *)
Definition need_check (p : opts) : bool :=
  match p_ltype p with
  | LDir => false
  | LSym => is_nil (p_target p)
  | LDev => p_hassrc p || negb (has (p_dev p))
  | _ => negb (p_hassrc p)
  end.

(* the entry type: given or taken from the object; None = the line is rejected *)
Definition type_decision (p : opts) (exists_ : bool) (actual : ltype) (pending : bool) : option ltype :=
  match p_ltype p with
  | LNone => if negb exists_ then None else if pending then None else Some actual
  | t => if need_check p
         then (if pending then None
               else if exists_ && negb (ltype_eqb t actual) then None else Some t)
         else Some t
  end.

Definition opt_masks (p : opts) : option (N * N) :=
  match p_mod p with Some m => parse_mod m | None => None end.

Definition perms_of (p : opts) (exists_ : bool) (mode : N) (t : ltype) : N :=
  let perms0 := if exists_ then mode else default_perms t in
  match p_mod p, opt_masks p with
  | Some _, Some (am, om) => if 0 <? am then N.lor (N.land perms0 am) om else om
  | _, _ => perms0
  end.

Definition gid_of (p : opts) (exists_ : bool) (st : stat) : N :=
  match p_gid p with Some g => g | None => if exists_ then st_gid st else D_StageFileGID end.
Definition uid_of (p : opts) (exists_ : bool) (st : stat) : N :=
  match p_uid p with Some u => u | None => if exists_ then st_uid st else D_StageFileUID end.

Definition zero_stat : stat := MkStat 0 0 0 0%Z 0 0 0 0.

(* the final switch on the entry type *)
Definition finish (p : opts) (t : ltype) (ob : option object) (mtime : Z) (xa : option (list xattr))
    (gid uid perms : N) : res entry :=
  let st := match ob with Some o => o_st o | None => zero_stat end in
  let base := MkEntry t (p_name p) (p_target p) 0 mtime xa gid uid perms None false 0 0 0 [] in
  match t with
  | LDir => ROk base
  | LFile =>
    match ob with
    | None => RErr
    | Some o =>
      ROk (MkEntry t (p_name p) (p_target p) (st_size st) mtime xa gid uid perms
             (if negb (p_hassrc p) && (1 <? st_nlink st) then Some (st_id st) else None)
             false 0 0 (o_dlen o) (o_data o))
    end
  | LSym =>
    if is_nil (p_target p) then
      match ob with
      | None => RErr                               (* readlink: ENOENT *)
      | Some o =>
        match fs_readlink (o_link o) with
        | LDone tg => ROk (MkEntry t (p_name p) tg 0 mtime xa gid uid perms None false 0 0 0 [])
        | LFail => RErr
        | LDiverge => RDiverge
        end
      end
    else ROk base
  | LDev =>
    match p_dev p with
    | Some (isc, ma, mi) =>
      ROk (MkEntry t (p_name p) (p_target p) 0 mtime xa gid uid perms None isc ma mi 0 [])
    | None =>
      match ob with
      | None => RErr
      | Some _ =>
        let ft := N.land (st_mode st) S_IFMT in
        if ft =? S_IFCHR then
          ROk (MkEntry t (p_name p) (p_target p) 0 mtime xa gid uid perms None true
                 (dev_major (st_rdev st)) (dev_minor (st_rdev st)) 0 [])
        else if ft =? S_IFBLK then
          ROk (MkEntry t (p_name p) (p_target p) 0 mtime xa gid uid perms None false
                 (dev_major (st_rdev st)) (dev_minor (st_rdev st)) 0 [])
        else RErr
      end
    end
  | _ => RErr                                      (* assertion error: unknown file type *)
  end.

(* the values parseLine refuses before addSingleFile is reached *)
Definition line_ok (p : opts) : bool :=
  negb (has (p_mod p) && negb (has (opt_masks p)))
  && uid_ok (p_uid p) && uid_ok (p_gid p) && dev_ok (p_dev p).

(* addSingleFile; [now] is time.Now().Unix() (used for absent sources only) *)
Definition add_single (p : opts) (s : srcstate) (now : Z) : res entry :=
  if negb (line_ok p) then RErr else
  match s with
  | SLstatErr => RErr
  | SAbsent =>
    if p_skip p then RSkip else
    match type_decision p false LNone false with
    | None => RErr
    | Some t =>
      finish p t None now None (gid_of p false zero_stat) (uid_of p false zero_stat) (perms_of p false 0 t)
    end
  | SPresent o =>
    match classify (st_mode (o_st o)) with
    | None => RErr                                         (* unknown type bits *)
    | Some (actual, pending) =>
      match type_decision p true actual pending with
      | None => RErr
      | Some t =>
        match get_xattrs (o_xattrs o) with
        | LDiverge => RDiverge
        | LFail => RErr
        | LDone xa =>
          finish p t (Some o) (st_mtime (o_st o)) xa (gid_of p true (o_st o)) (uid_of p true (o_st o))
                 (perms_of p true (st_mode (o_st o)) t)
        end
      end
    end
  end.

(* ------------------------------------------------------------------ MakeTar *)
(* tar type flags *)
Definition TypeReg := 48.   Definition TypeLink := 49.  Definition TypeSymlink := 50.
Definition TypeChar := 51.  Definition TypeBlock := 52. Definition TypeDir := 53.

(* the fields of tar.Header that MakeTar sets (as an archive/tar reader gives them back),
   plus the member's data *)
Record header := MkHdr {
  h_name : bytes; h_type : N; h_mode : N; h_uid : N; h_gid : N; h_mtime : Z; h_size : N;
  h_link : bytes; h_major : N; h_minor : N; h_xattrs : list xattr; h_data : bytes }.

Definition dot : ascii := nb 46.
Definition slash : ascii := nb 47.

Inductive tarres := TOk (h : header) | TErr.

Definition mk_header (e : entry) : tarres :=
  let xs := match e_xattrs e with Some l => l | None => [] end in
  let mk ty link ma mi data :=
    MkHdr (dot :: e_name e) ty (e_perms e) (e_uid e) (e_gid e) (e_mtime e) (e_fsize e) link ma mi xs data in
  match e_ltype e with
  | LDir => TOk (mk TypeDir [] 0 0 [])
  | LFile =>
    if 0 <? e_fsize e then
      (* contents := fs.ReadFile(source); the length must equal the lstat size *)
      if e_dlen e =? e_fsize e then TOk (mk TypeReg [] 0 0 (e_data e)) else TErr
    else TOk (mk TypeReg [] 0 0 [])
  | LSym => TOk (mk TypeSymlink (e_target e) 0 0 [])
  | LHard =>
    let tg := match e_target e with
              | c :: _ => if Ascii.eqb c slash then dot :: e_target e else e_target e
              | [] => []
              end in
    TOk (mk TypeLink tg 0 0 [])
  | LDev => TOk (mk (if e_ischar e then TypeChar else TypeBlock) [] (e_major e) (e_minor e) [])
  | LNone => TOk (mk 0 [] 0 0 [])
  end.

(* fixHardlinks over the name-sorted list: later members of an inode group become links
   to the first one (skipped entries are not in the list) *)
Fixpoint group_first (g : N) (seen : list (N * bytes)) : option bytes :=
  match seen with
  | [] => None
  | (g', n) :: r => if g' =? g then Some n else group_first g r
  end.
Definition as_hardlink (e : entry) (tg : bytes) : entry :=
  MkEntry LHard (e_name e) tg (e_fsize e) (e_mtime e) (e_xattrs e) (e_gid e) (e_uid e) (e_perms e)
          (e_devino e) (e_ischar e) (e_major e) (e_minor e) (e_dlen e) (e_data e).
Fixpoint fix_hardlinks (seen : list (N * bytes)) (es : list (option entry)) : list (option entry) :=
  match es with
  | [] => []
  | None :: r => None :: fix_hardlinks seen r
  | Some e :: r =>
    match e_devino e with
    | None => Some e :: fix_hardlinks seen r
    | Some g =>
      match group_first g seen with
      | Some tg => Some (as_hardlink e tg) :: fix_hardlinks seen r
      | None => Some e :: fix_hardlinks (seen ++ [(g, e_name e)]) r
      end
    end
  end.

(* ------------------------------------------------------------------ the run *)
(* one member under test: the parsed line, the state of its source, the clock *)
Record member := MkMember { m_opts : opts; m_src : srcstate; m_now : Z }.

(* RFailed: an entry was rejected, nothing is written.
   RTruncated: MakeTar stopped at a member (writeTarFile drops that error).
   ROutput: per member under test (in the order given, which is name order) the header
   found in the archive, None for a skipped entry *)
Inductive runres := RFailed | RTruncated | RDiverged | ROutput (hs : list (option header)).

Fixpoint add_all (ms : list member) : res (list (option entry)) :=
  match ms with
  | [] => ROk []
  | m :: r =>
    match add_single (m_opts m) (m_src m) (m_now m), add_all r with
    | ROk e, ROk l => ROk (Some e :: l)
    | RSkip, ROk l => ROk (None :: l)
    | RDiverge, _ => RDiverge
    | _, RDiverge => RDiverge
    | _, _ => RErr
    end
  end.

Fixpoint headers (es : list (option entry)) : option (list (option header)) :=
  match es with
  | [] => Some []
  | None :: r => match headers r with Some l => Some (None :: l) | None => None end
  | Some e :: r =>
    match mk_header e, headers r with
    | TOk h, Some l => Some (Some h :: l)
    | _, _ => None
    end
  end.

Definition run (ms : list member) : runres :=
  match add_all ms with
  | RDiverge => RDiverged
  | RErr | RSkip => RFailed
  | ROk es =>
    match headers (fix_hardlinks [] es) with
    | Some hs => ROutput hs
    | None => RTruncated
    end
  end.

(* ------------------------------------------------------------------ writeTarFile / makeTarWriter *)
(* compression methods: 0 none, 1 gzip, 2 bzip2, 3 xz.  The archive bytes go to the file
   directly (none) or through the external filter's stdin, whose stdout is the file. *)
Section Writer.
Variable filter : N -> bytes -> bytes.             (* what the external program writes for its input *)
Definition write_tar_file (method : N) (archive : bytes) : bytes :=
  if method =? 0 then archive else filter method archive.
End Writer.
