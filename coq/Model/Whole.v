(* The whole binary cmd/layercake as one function: from the command line and the file tree to
   the configuration (config.Load: Model/Config.v), the dispatched command and its options
   (Model/Args.v, Model/Dispatch.v) and the run of the command (Model/Layers.v).
   What is assumed about the process environment of a process-level step (the harness arranges
   it): LAYERROOT, LAYERCONF unset, no configuration file outside the modelled tree
   ($HOME/.layercake, <prefix>/etc/layercake.conf, /etc/layercake.conf absent), working
   directory "/".  Definitions only. *)
From LC Require Import Lib.Bytes Lib.PathM Model.FsTree Model.Args Model.Layers Model.Dispatch.
From LC Require Model.Config.
Open Scope N_scope.

(* the value main() holds for a global string switch: last assignment, "" when absent *)
Definition global_str (argv : list bytes) (n : bytes) : bytes :=
  match fparse global_flags argv [] with
  | POk g _ => local_str g n
  | PErr => []
  end.

(* the file tree as config.Load sees it: directories and regular files (a configuration file
   reached through a symbolic link is outside this model: links are left out) *)
Definition to_cfiles (f : fsT) : Config.fsmap :=
  (bs "/", Config.NDir) ::
  flat_map (fun e => match snd e with
                     | Dir => [(fst e, Config.NDir)]
                     | File x => [(fst e, Config.NFile x)]
                     | Link _ => []
                     end) f.

Definition load_env (argv : list bytes) (f : fsT) : Config.env :=
  Config.MkEnv (global_str argv (bs "config")) (global_str argv (bs "basepath")) [] [] []
               (bs "/nonexistent/bin/layercake") (bs "/") (to_cfiles f).

Definition cfg_of_vals (v : list bytes) : cfgT :=
  MkCfg (nth 0 v []) (nth 1 v []) (nth 2 v []) (nth 3 v []) (nth 4 v []) (nth 5 v []) (nth 6 v [])
        (nth 7 v []) (nth 8 v []) (nth 9 v []).

Definition cfg_beq (a b0 : cfgT) : bool :=
  beq (c_base a) (c_base b0) && beq (c_layers a) (c_layers b0) && beq (c_buildroot a) (c_buildroot b0)
  && beq (c_binpkg a) (c_binpkg b0) && beq (c_gen a) (c_gen b0) && beq (c_work a) (c_work b0)
  && beq (c_upper a) (c_upper b0) && beq (c_exports a) (c_exports b0)
  && beq (c_exp_binpkg a) (c_exp_binpkg b0) && beq (c_exp_gen a) (c_exp_gen b0).

(* the configuration the binary works with *)
Definition loaded_cfg (argv : list bytes) (f : fsT) : option cfgT :=
  match Config.load (load_env argv f) with
  | Config.OOk v => Some (cfg_of_vals v)
  | _ => None
  end.

Definition config_is (argv : list bytes) (f : fsT) (c : cfgT) : bool :=
  match loaded_cfg argv f with Some c' => cfg_beq c' c | None => false end.

(* one invocation of the binary: None when it stops before reaching a command of the command
   model (usage message, configuration error, status/shell) *)
Definition run_binary (argv : list bytes) (flt : fault) (order : list bytes) (um : users_map) (w : world)
  : option (cfgT * env * command * (outcome (option ldefs) * mst)) :=
  match loaded_cfg argv (w_fs w), dispatch argv with
  | Some c, Some (o, cmd) =>
    let e := MkEnv (o_p o) flt (o_force o) (o_v o) order in
    Some (c, e, cmd, run e c um cmd w)
  | _, _ => None
  end.
