(* Proofs about the command-line model (Model/Args.v) for property C15:
   the pretender switch -p is honoured wherever it stands on a structured command line,
   parse_cmd_args never runs out of the fuel parse_main gives it, and a command that is run
   is a known command with an argument count inside its arity. *)
From LC Require Import Lib.Bytes Model.Args Cases.C15.
From Coq Require Import ZifyBool ZifyNat.
Open Scope nat_scope.

(* ------------------------------------------------------------------------------------ *)
(* vocabulary                                                                            *)

(* an argument at which FlagSet.Parse stops without consuming it *)
Definition nonflag (s : bytes) : bool :=
  match s with
  | c0 :: _ :: _ => negb (Ascii.eqb c0 dashc)
  | _ => true
  end.

Definition stops (rest : list bytes) : bool :=
  match rest with [] => true | s :: _ => nonflag s end.

(* a switch token that the flag set [fs] knows, with a plain name *)
Definition flag_ok (fs : flagset) (t : tok) : bool :=
  match t with
  | TBool n => plain_name n && match fs_lookup fs n with Some FBool => true | _ => false end
  | TStr n _ => plain_name n && match fs_lookup fs n with Some FString => true | _ => false end
  | TWord _ => false
  end.

(* a token allowed after the command word: a word, or a switch known to [fs] *)
Definition post_ok (fs : flagset) (t : tok) : bool :=
  match t with
  | TWord w => is_word w
  | _ => flag_ok fs t
  end.

Definition tok_asg (t : tok) : list assign :=
  match t with
  | TBool n => [(n, bs "true")]
  | TStr n v => [(n, v)]
  | TWord _ => []
  end.
Definition toks_asg (ts : list tok) : list assign := flat_map tok_asg ts.

Definition tok_words (t : tok) : list bytes :=
  match t with TWord w => [w] | _ => [] end.
Definition toks_words (ts : list tok) : list bytes := flat_map tok_words ts.

Definition is_p (t : tok) : bool :=
  match t with TBool n => beq n (bs "p") | _ => false end.

(* the flag set has only plain names *)
Definition fs_plain (fs : flagset) : bool := forallb (fun kv => plain_name (fst kv)) fs.

(* ------------------------------------------------------------------------------------ *)
(* small facts                                                                           *)

Lemma is_word_nonflag w : is_word w = true -> nonflag w = true.
Proof.
  destruct w as [|c0 [|c1 tl]]; cbn; intros Hw; try reflexivity; try discriminate; exact Hw.
Qed.

Lemma fs_lookup_plain fs : fs_plain fs = true ->
  forall n k, fs_lookup fs n = Some k -> plain_name n = true.
Proof.
  unfold fs_plain. induction fs as [|[k0 v0] fs IH]; cbn [fs_lookup forallb fst]; intros Hp n k Hl.
  - discriminate.
  - apply andb_true_iff in Hp as [Hp0 Hp].
    destruct (beq k0 n) eqn:E.
    + apply beq_true in E. subst. exact Hp0.
    + eapply IH; eauto.
Qed.

Lemma split_eq_none s : forall cur,
  existsb (fun x => Ascii.eqb x eqch) s = false -> split_eq cur s = (rev cur ++ s, None).
Proof.
  induction s as [|c r IH]; intros cur Hn; cbn [split_eq].
  - now rewrite app_nil_r.
  - cbn [existsb] in Hn. apply orb_false_iff in Hn as [Hc Hr].
    rewrite Hc, IH by exact Hr. cbn [rev]. now rewrite <- app_assoc.
Qed.

Lemma plain_name_inv n : plain_name n = true ->
  exists c tl, n = c :: tl /\ Ascii.eqb c dashc = false /\ Ascii.eqb c eqch = false
    /\ split_eq [] n = (n, None).
Proof.
  destruct n as [|c tl]; [discriminate|].
  unfold plain_name. intros Hp. apply andb_true_iff in Hp as [Hd He].
  apply negb_true_iff in Hd, He.
  exists c, tl. split; [reflexivity|]. split; [exact Hd|].
  split.
  - cbn [existsb] in He. now apply orb_false_iff in He as [He _].
  - now rewrite split_eq_none by exact He.
Qed.

Lemma dash_refl : Ascii.eqb dashc dashc = true.
Proof. apply Ascii.eqb_refl. Qed.

(* ------------------------------------------------------------------------------------ *)
(* FlagSet.Parse, one token at a time                                                    *)

Lemma fparse_nil fs acc : fparse fs [] acc = POk (rev acc) [].
Proof. reflexivity. Qed.

Lemma fparse_stop fs s rest acc :
  nonflag s = true -> fparse fs (s :: rest) acc = POk (rev acc) (s :: rest).
Proof.
  intros Hs. destruct s as [|c0 [|c1 tl]]; try reflexivity.
  cbn [nonflag] in Hs. cbn [fparse]. now rewrite Hs.
Qed.

Lemma fparse_stops fs rest acc : stops rest = true -> fparse fs rest acc = POk (rev acc) rest.
Proof.
  destruct rest as [|s rest]; [reflexivity|]. cbn [stops]. apply fparse_stop.
Qed.

Lemma fparse_bool fs n rest acc :
  plain_name n = true -> fs_lookup fs n = Some FBool ->
  fparse fs ((dashc :: n) :: rest) acc = fparse fs rest ((n, bs "true") :: acc).
Proof.
  intros Hp Hl. destruct (plain_name_inv n Hp) as (c & tl & -> & Hd & He & Hs).
  cbn [fparse]. rewrite dash_refl, Hd. cbn [negb andb orb]. rewrite Hd, He. cbn [orb].
  rewrite Hs, Hl. reflexivity.
Qed.

Lemma fparse_str fs n v rest acc :
  plain_name n = true -> fs_lookup fs n = Some FString ->
  fparse fs ((dashc :: n) :: v :: rest) acc = fparse fs rest ((n, v) :: acc).
Proof.
  intros Hp Hl. destruct (plain_name_inv n Hp) as (c & tl & -> & Hd & He & Hs).
  cbn [fparse]. rewrite dash_refl, Hd. cbn [negb andb orb]. rewrite Hd, He. cbn [orb].
  rewrite Hs, Hl. reflexivity.
Qed.

(* FlagSet.Parse consumes exactly the leading switch tokens and records their assignments *)
Lemma fparse_toks fs ts : forall rest acc,
  forallb (flag_ok fs) ts = true -> stops rest = true ->
  fparse fs (render_toks ts ++ rest) acc = POk (rev acc ++ toks_asg ts) rest.
Proof.
  induction ts as [|t ts IH]; intros rest acc Hok Hst.
  - cbn [render_toks toks_asg flat_map app]. rewrite app_nil_r. now apply fparse_stops.
  - cbn [forallb] in Hok. apply andb_true_iff in Hok as [Ht Hok].
    unfold render_toks, toks_asg. cbn [flat_map]. fold (render_toks ts). fold (toks_asg ts).
    destruct t as [n|n v|w]; cbn [flag_ok] in Ht; [| |discriminate].
    + apply andb_true_iff in Ht as [Hp Hl].
      destruct (fs_lookup fs n) as [[|]|] eqn:El; try discriminate.
      cbn [render_tok tok_asg app]. rewrite fparse_bool by assumption.
      rewrite IH by assumption. cbn [rev]. now rewrite <- app_assoc.
    + apply andb_true_iff in Ht as [Hp Hl].
      destruct (fs_lookup fs n) as [[|]|] eqn:El; try discriminate.
      cbn [render_tok tok_asg app]. rewrite fparse_str by assumption.
      rewrite IH by assumption. cbn [rev]. now rewrite <- app_assoc.
Qed.

(* ------------------------------------------------------------------------------------ *)
(* ParseArgsSetFlags on words and switches interleaved                                   *)

(* a token list is a block of switches followed by nothing or by a word and more tokens *)
Lemma split_flags fs post : forallb (post_ok fs) post = true ->
  exists fl tl, post = fl ++ tl /\ forallb (flag_ok fs) fl = true /\
    (tl = [] \/ exists w tl', tl = TWord w :: tl' /\ is_word w = true
                              /\ forallb (post_ok fs) tl' = true).
Proof.
  induction post as [|t post IH]; intros Hok.
  - exists [], []. auto.
  - cbn [forallb] in Hok. apply andb_true_iff in Hok as [Ht Hok].
    destruct t as [n|n v|w].
    + destruct (IH Hok) as (fl & tl & -> & Hfl & Htl).
      exists (TBool n :: fl), tl. cbn [forallb app]. cbn [post_ok] in Ht. rewrite Ht, Hfl. auto.
    + destruct (IH Hok) as (fl & tl & -> & Hfl & Htl).
      exists (TStr n v :: fl), tl. cbn [forallb app]. cbn [post_ok] in Ht. rewrite Ht, Hfl. auto.
    + exists [], (TWord w :: post). cbn [post_ok] in Ht. split; [reflexivity|]. split; [reflexivity|].
      right. exists w, post. auto.
Qed.

Lemma render_toks_app a b : render_toks (a ++ b) = render_toks a ++ render_toks b.
Proof. unfold render_toks. apply flat_map_app. Qed.
Lemma toks_asg_app a b : toks_asg (a ++ b) = toks_asg a ++ toks_asg b.
Proof. unfold toks_asg. apply flat_map_app. Qed.
Lemma toks_words_app a b : toks_words (a ++ b) = toks_words a ++ toks_words b.
Proof. unfold toks_words. apply flat_map_app. Qed.

Lemma toks_words_flags fs fl : forallb (flag_ok fs) fl = true -> toks_words fl = [].
Proof.
  induction fl as [|t fl IH]; [reflexivity|]. cbn [forallb]. intros H.
  apply andb_true_iff in H as [Ht H]. destruct t; cbn [flag_ok] in Ht; try discriminate;
  unfold toks_words; cbn [flat_map tok_words app]; now apply IH.
Qed.

Lemma length_render_app_le a b : length (render_toks b) <= length (render_toks (a ++ b)).
Proof. rewrite render_toks_app, app_length. lia. Qed.

(* the command word / a word [w], then tokens: all words are collected in order and all
   switch assignments are appended in order *)
Lemma parse_cmd_args_toks fs : forall fuel post w first words asg,
  forallb (post_ok fs) post = true ->
  length (render_toks post) < fuel ->
  parse_cmd_args fuel fs (w :: render_toks post) first words asg
  = Some (rev (if first then words else w :: words) ++ toks_words post, asg ++ toks_asg post).
Proof.
  induction fuel as [|fuel IH]; intros post w first words asg Hok Hlen; [lia|].
  cbn [parse_cmd_args].
  destruct (split_flags fs post Hok) as (fl & tl & -> & Hfl & Htl).
  rewrite render_toks_app, toks_asg_app, toks_words_app, (toks_words_flags fs fl Hfl).
  cbn [app].
  destruct Htl as [-> | (w' & tl' & -> & Hw' & Htl')].
  - rewrite fparse_toks; [|exact Hfl|reflexivity]. cbn [rev app render_toks flat_map parse_cmd_args].
    unfold toks_asg at 2, toks_words. cbn [flat_map]. rewrite !app_nil_r. now destruct fuel.
  - assert (Hst : stops (render_toks (TWord w' :: tl')) = true).
    { cbn [render_toks flat_map render_tok app stops]. now apply is_word_nonflag. }
    rewrite fparse_toks by assumption. cbn [rev app].
    change (render_toks (TWord w' :: tl')) with (w' :: render_toks tl').
    rewrite IH.
    + change (toks_words (TWord w' :: tl')) with (w' :: toks_words tl').
      change (toks_asg (TWord w' :: tl')) with (toks_asg tl').
      f_equal. f_equal.
      * cbn [rev]. now rewrite <- app_assoc.
      * now rewrite <- app_assoc.
    + exact Htl'.
    + pose proof (length_render_app_le fl (TWord w' :: tl')) as Hle.
      change (render_toks (TWord w' :: tl')) with (w' :: render_toks tl') in Hle.
      cbn [length] in Hle. lia.
Qed.

(* ------------------------------------------------------------------------------------ *)
(* the options record: booleans are only ever set to true by structured tokens           *)

Definition p_safe (a : assign) : bool := negb (beq (fst a) (bs "p")) || beq (snd a) (bs "true").

Lemma apply_assign_keeps_p o a : p_safe a = true -> o_p o = true -> o_p (apply_assign o a) = true.
Proof.
  destruct a as [n v]. unfold p_safe, apply_assign. cbn [fst snd]. intros Hs Ho.
  destruct (beq n (bs "v")); [exact Ho|].
  destruct (beq n (bs "p")).
  - cbn [negb orb] in Hs. cbn [o_p]. exact Hs.
  - destruct (beq n (bs "debug")); [exact Ho|]. destruct (beq n (bs "force")); exact Ho.
Qed.

Lemma apply_assign_sets_p o v : v = bs "true" -> o_p (apply_assign o (bs "p", v)) = true.
Proof. intros ->. reflexivity. Qed.

Lemma fold_keeps_p asg : forall o,
  forallb p_safe asg = true -> o_p o = true -> o_p (fold_left apply_assign asg o) = true.
Proof.
  induction asg as [|a asg IH]; intros o Hs Ho; [exact Ho|].
  cbn [forallb] in Hs. apply andb_true_iff in Hs as [Ha Hs].
  cbn [fold_left]. apply IH; [exact Hs|]. now apply apply_assign_keeps_p.
Qed.

Lemma fold_sets_p asg : forall o,
  forallb p_safe asg = true ->
  existsb (fun a => beq (fst a) (bs "p")) asg = true ->
  o_p (fold_left apply_assign asg o) = true.
Proof.
  induction asg as [|a asg IH]; intros o Hs He; [discriminate|].
  cbn [forallb] in Hs. apply andb_true_iff in Hs as [Ha Hs].
  cbn [existsb] in He. cbn [fold_left].
  destruct (beq (fst a) (bs "p")) eqn:Ep.
  - apply fold_keeps_p; [exact Hs|].
    destruct a as [n v]. cbn [fst] in Ep. apply beq_true in Ep. subst n.
    unfold p_safe in Ha. cbn [fst snd] in Ha. rewrite beq_refl in Ha. cbn [negb orb] in Ha.
    apply apply_assign_sets_p. now apply beq_true.
  - cbn [orb] in He. now apply IH.
Qed.

(* the switch tokens admitted before / after the command word: a string switch is never "p" *)
Definition tok_p_safe (t : tok) : bool :=
  match t with TStr n _ => negb (beq n (bs "p")) | _ => true end.

Lemma toks_asg_p_safe ts : forallb tok_p_safe ts = true -> forallb p_safe (toks_asg ts) = true.
Proof.
  induction ts as [|t ts IH]; [reflexivity|]. cbn [forallb]. intros H.
  apply andb_true_iff in H as [Ht H]. unfold toks_asg. cbn [flat_map]. fold (toks_asg ts).
  rewrite forallb_app, (IH H), andb_true_r.
  destruct t as [n|n v|w]; cbn [tok_asg forallb]; unfold p_safe; cbn [fst snd].
  - rewrite beq_refl. now rewrite orb_true_r.
  - cbn [tok_p_safe] in Ht. now rewrite Ht.
  - reflexivity.
Qed.

Lemma toks_asg_has_p ts : existsb is_p ts = true ->
  existsb (fun a => beq (fst a) (bs "p")) (toks_asg ts) = true.
Proof.
  induction ts as [|t ts IH]; [discriminate|]. cbn [existsb]. intros H.
  change (toks_asg (t :: ts)) with (tok_asg t ++ toks_asg ts). rewrite existsb_app.
  apply orb_true_iff. apply orb_true_iff in H as [H|H].
  - left. destruct t as [n|n v|w]; cbn [is_p] in H; try discriminate.
    cbn [tok_asg existsb fst]. now rewrite H.
  - right. exact (IH H).
Qed.

(* a flag set in which "p" is a boolean: a known string switch is not called "p" *)
Lemma flag_ok_p_safe fs t :
  fs_lookup fs (bs "p") = Some FBool -> flag_ok fs t = true -> tok_p_safe t = true.
Proof.
  intros Hp Ht. destruct t as [n|n v|w]; try reflexivity. cbn [flag_ok] in Ht. cbn [tok_p_safe].
  apply andb_true_iff in Ht as [_ Hl].
  destruct (beq n (bs "p")) eqn:E; [|reflexivity].
  apply beq_true in E. subst n. rewrite Hp in Hl. discriminate.
Qed.

Lemma forallb_impl {A} (f g : A -> bool) l :
  (forall x, f x = true -> g x = true) -> forallb f l = true -> forallb g l = true.
Proof.
  intros Hfg. induction l as [|x l IH]; [reflexivity|]. cbn [forallb]. intros H.
  apply andb_true_iff in H as [Hx H]. now rewrite (Hfg x Hx), IH.
Qed.

Lemma post_ok_p_safe fs t :
  fs_lookup fs (bs "p") = Some FBool -> post_ok fs t = true -> tok_p_safe t = true.
Proof.
  intros Hp Ht. destruct t as [n|n v|w]; try reflexivity.
  now apply (flag_ok_p_safe fs (TStr n v)).
Qed.

(* ------------------------------------------------------------------------------------ *)
(* the concrete flag sets of cmd/layercake                                               *)

(* inversion of the command table *)
Definition command_names : list bytes :=
  [bs "init"; bs "status"; bs "list"; bs "add"; bs "remove"; bs "rename"; bs "rebase";
   bs "shell"; bs "mkdirs"; bs "mount"; bs "unmount"; bs "umount"; bs "chroot"; bs "shake"].

Lemma command_info_known cmd x : command_info cmd = Some x -> In cmd command_names.
Proof.
  unfold command_info, command_names. intros H.
  repeat match type of H with
  | (if beq cmd ?s || beq cmd ?s' then _ else _) = _ =>
      let E := fresh "E" in let E' := fresh "E" in
      destruct (beq cmd s) eqn:E; [apply beq_true in E; subst cmd; cbn [In]; tauto|];
      destruct (beq cmd s') eqn:E'; [apply beq_true in E'; subst cmd; cbn [In]; tauto|];
      cbn [orb] in H
  | (if beq cmd ?s then _ else _) = _ =>
      let E := fresh "E" in
      destruct (beq cmd s) eqn:E; [apply beq_true in E; subst cmd; cbn [In]; tauto|]
  end.
  discriminate.
Qed.

(* no command redefines a common switch *)
Definition locals_disjoint (locals : flagset) : bool :=
  forallb (fun kv => match fs_lookup common_switches (fst kv) with None => true | Some _ => false end)
          locals.

Lemma locals_disjoint_lookup locals : locals_disjoint locals = true ->
  forall n k, fs_lookup locals n = Some k -> fs_lookup common_switches n = None.
Proof.
  unfold locals_disjoint. induction locals as [|[k0 v0] r IH]; cbn [forallb fs_lookup fst];
  intros Hd n k Hl; [discriminate|].
  apply andb_true_iff in Hd as [H0 Hd].
  destruct (beq k0 n) eqn:E.
  - apply beq_true in E. subst k0.
    destruct (fs_lookup common_switches n); [discriminate|reflexivity].
  - eapply IH; eauto.
Qed.

(* every command's switch set: plain names, "p" is a boolean, locals do not shadow *)
Definition cmd_fs_good (cmd : bytes) : bool :=
  match command_info cmd with
  | Some (locals, lo, hi) =>
      is_word cmd && fs_plain (common_switches ++ locals) && locals_disjoint locals
      && (lo <=? hi)
  | None => true
  end.

Lemma cmd_fs_good_all : forallb cmd_fs_good command_names = true.
Proof. vm_compute. reflexivity. Qed.

Lemma command_info_good cmd locals lo hi :
  command_info cmd = Some (locals, lo, hi) ->
  is_word cmd = true /\ fs_plain (common_switches ++ locals) = true
  /\ locals_disjoint locals = true /\ lo <= hi.
Proof.
  intros Hc. pose proof (command_info_known _ _ Hc) as Hin.
  pose proof cmd_fs_good_all as Hall. rewrite forallb_forall in Hall.
  specialize (Hall cmd Hin). unfold cmd_fs_good in Hall. rewrite Hc in Hall.
  apply andb_true_iff in Hall as [Hall Hle]. apply andb_true_iff in Hall as [Hall Hd].
  apply andb_true_iff in Hall as [Hw Hpl].
  repeat split; auto. lia.
Qed.

Lemma fs_lookup_app_r a b n : fs_lookup a n = None -> fs_lookup (a ++ b) n = fs_lookup b n.
Proof.
  induction a as [|[k v] a IH]; [reflexivity|]. cbn [fs_lookup app].
  destruct (beq k n); [discriminate|]. exact IH.
Qed.

Lemma fs_lookup_app_l a b n x : fs_lookup a n = Some x -> fs_lookup (a ++ b) n = Some x.
Proof.
  induction a as [|[k v] a IH]; [discriminate|]. cbn [fs_lookup app].
  destruct (beq k n); [auto|]. exact IH.
Qed.

Lemma common_p locals : fs_lookup (common_switches ++ locals) (bs "p") = Some FBool.
Proof. apply fs_lookup_app_l. vm_compute. reflexivity. Qed.

Lemma global_flags_p : fs_lookup global_flags (bs "p") = Some FBool.
Proof. vm_compute. reflexivity. Qed.

(* ---- the token shapes of the property statement ---- *)

Definition common_bools : list bytes := [bs "v"; bs "p"; bs "debug"; bs "force"].

(* before the command word: -v -p -debug -force, -config X, -basepath X *)
Definition pre_ok (t : tok) : bool :=
  match t with
  | TBool n => existsb (beq n) common_bools
  | TStr n _ => existsb (beq n) [bs "config"; bs "basepath"]
  | TWord _ => false
  end.

(* after the command word: words, -v -p -debug -force, the command's own boolean switches,
   the command's own string switches with a value *)
Definition local_ok (locals : flagset) (t : tok) : bool :=
  match t with
  | TBool n => existsb (beq n) common_bools
               || match fs_lookup locals n with Some FBool => true | _ => false end
  | TStr n _ => match fs_lookup locals n with Some FString => true | _ => false end
  | TWord w => is_word w
  end.

Lemma existsb_beq_in n l : existsb (beq n) l = true -> In n l.
Proof.
  induction l as [|x l IH]; [discriminate|]. cbn [existsb In]. intros H.
  apply orb_true_iff in H as [H|H]; [left; apply beq_true in H; auto | right; auto].
Qed.

Lemma pre_ok_flag_ok t : pre_ok t = true -> flag_ok global_flags t = true.
Proof.
  destruct t as [n|n v|w]; cbn [pre_ok]; intros H; try discriminate;
  apply existsb_beq_in in H; cbn [In common_bools] in H;
  repeat (destruct H as [H|H]; [subst n; vm_compute; reflexivity|]); contradiction.
Qed.

Lemma common_bools_lookup n : existsb (beq n) common_bools = true ->
  fs_lookup common_switches n = Some FBool.
Proof.
  intros H. apply existsb_beq_in in H. cbn [In common_bools] in H.
  repeat (destruct H as [H|H]; [subst n; vm_compute; reflexivity|]). contradiction.
Qed.

Lemma local_ok_post_ok locals t :
  fs_plain (common_switches ++ locals) = true -> locals_disjoint locals = true ->
  local_ok locals t = true -> post_ok (common_switches ++ locals) t = true.
Proof.
  intros Hpl Hd H. destruct t as [n|n v|w]; cbn [local_ok] in H; cbn [post_ok flag_ok].
  - assert (Hl : fs_lookup (common_switches ++ locals) n = Some FBool).
    { apply orb_true_iff in H as [H|H].
      - apply fs_lookup_app_l. now apply common_bools_lookup.
      - destruct (fs_lookup locals n) as [[|]|] eqn:El; try discriminate.
        rewrite fs_lookup_app_r; [exact El|]. eapply locals_disjoint_lookup; eauto. }
    rewrite Hl, (fs_lookup_plain _ Hpl _ _ Hl). reflexivity.
  - destruct (fs_lookup locals n) as [[|]|] eqn:El; try discriminate.
    assert (Hl : fs_lookup (common_switches ++ locals) n = Some FString).
    { rewrite fs_lookup_app_r; [exact El|]. eapply locals_disjoint_lookup; eauto. }
    rewrite Hl, (fs_lookup_plain _ Hpl _ _ Hl). reflexivity.
  - exact H.
Qed.

(* ------------------------------------------------------------------------------------ *)
(* main(): the whole command line                                                        *)

(* characterisation of parse_main on a structured command line *)
Lemma parse_main_structured pre cmd post locals lo hi :
  forallb (flag_ok global_flags) pre = true ->
  command_info cmd = Some (locals, lo, hi) ->
  forallb (post_ok (common_switches ++ locals)) post = true ->
  parse_main (render_toks pre ++ [cmd] ++ render_toks post) = MUsage \/
  parse_main (render_toks pre ++ [cmd] ++ render_toks post) =
    MRun (fold_left apply_assign (toks_asg (pre ++ post)) (MkO false false false false))
         cmd (toks_words post) (toks_asg post).
Proof.
  intros Hpre Hc Hpost.
  destruct (command_info_good _ _ _ _ Hc) as (Hw & Hpl & Hd & Hle).
  unfold parse_main. cbn [app].
  rewrite fparse_toks; [|exact Hpre|cbn [stops]; now apply is_word_nonflag].
  cbn [rev app].
  match goal with |- context [if ?b then MUsage else _] => destruct b end; [now left|].
  rewrite Hc.
  rewrite parse_cmd_args_toks; [|exact Hpost|cbn [length]; lia].
  cbn [rev app].
  match goal with |- context [if ?b then MUsage else _] => destruct b end; [now left|].
  right. rewrite toks_asg_app, fold_left_app. reflexivity.
Qed.

Lemma structured_p_safe pre post locals :
  forallb (flag_ok global_flags) pre = true ->
  forallb (post_ok (common_switches ++ locals)) post = true ->
  forallb tok_p_safe (pre ++ post) = true.
Proof.
  intros Hpre Hpost. rewrite forallb_app. apply andb_true_iff. split.
  - eapply forallb_impl; [|exact Hpre]. intros t. apply flag_ok_p_safe. exact global_flags_p.
  - eapply forallb_impl; [|exact Hpost]. intros t. apply post_ok_p_safe. apply common_p.
Qed.

(* (a), general form: switches known to the merged flag sets *)
Theorem pretend_installed_gen pre cmd post locals lo hi o c a l :
  forallb (flag_ok global_flags) pre = true ->
  command_info cmd = Some (locals, lo, hi) ->
  forallb (post_ok (common_switches ++ locals)) post = true ->
  existsb is_p (pre ++ post) = true ->
  parse_main (render_toks pre ++ [cmd] ++ render_toks post) = MRun o c a l ->
  o_p o = true.
Proof.
  intros Hpre Hc Hpost Hp Hrun.
  destruct (parse_main_structured pre cmd post locals lo hi Hpre Hc Hpost) as [E|E];
    rewrite E in Hrun; [discriminate|].
  injection Hrun as <- _ _ _.
  apply fold_sets_p.
  - apply toks_asg_p_safe. eapply structured_p_safe; eauto.
  - now apply toks_asg_has_p.
Qed.

(* (a) as stated: the token shapes of the property text *)
Theorem pretend_installed pre cmd post locals lo hi o c a l :
  forallb pre_ok pre = true ->
  command_info cmd = Some (locals, lo, hi) ->
  forallb (local_ok locals) post = true ->
  existsb is_p (pre ++ post) = true ->
  parse_main (render_toks pre ++ [cmd] ++ render_toks post) = MRun o c a l ->
  o_p o = true.
Proof.
  intros Hpre Hc Hpost.
  destruct (command_info_good _ _ _ _ Hc) as (Hw & Hpl & Hd & Hle).
  apply (pretend_installed_gen pre cmd post locals lo hi o c a l); auto.
  - eapply forallb_impl; [|exact Hpre]. exact pre_ok_flag_ok.
  - eapply forallb_impl; [|exact Hpost]. intros t. now apply local_ok_post_ok.
Qed.

(* and the rest of the result: the command word and its words are what was written *)
Theorem structured_run pre cmd post locals lo hi o c a l :
  forallb pre_ok pre = true ->
  command_info cmd = Some (locals, lo, hi) ->
  forallb (local_ok locals) post = true ->
  parse_main (render_toks pre ++ [cmd] ++ render_toks post) = MRun o c a l ->
  c = cmd /\ a = toks_words post /\ l = toks_asg post
  /\ o = fold_left apply_assign (toks_asg (pre ++ post)) (MkO false false false false).
Proof.
  intros Hpre Hc Hpost Hrun.
  destruct (command_info_good _ _ _ _ Hc) as (Hw & Hpl & Hd & Hle).
  assert (Hpre' : forallb (flag_ok global_flags) pre = true).
  { eapply forallb_impl; [|exact Hpre]. exact pre_ok_flag_ok. }
  assert (Hpost' : forallb (post_ok (common_switches ++ locals)) post = true).
  { eapply forallb_impl; [|exact Hpost]. intros t. now apply local_ok_post_ok. }
  destruct (parse_main_structured pre cmd post locals lo hi Hpre' Hc Hpost') as [E|E];
    rewrite E in Hrun; [discriminate|].
  injection Hrun as <- <- <- <-. auto.
Qed.

(* process-level case vocabulary (Cases/C15.v): a well-formed case whose switches are known *)
Definition p_known (p : C15.pcase) : bool :=
  forallb pre_ok (C15.p_pre p)
  && match command_info (C15.p_cmd p) with
     | Some (locals, _, _) => forallb (local_ok locals) (C15.p_post p)
     | None => false
     end.

Theorem pretend_installed_pcase p o c a l :
  C15.p_wf p = true -> p_known p = true -> C15.has_p p = true ->
  parse_main (C15.p_argv p) = MRun o c a l -> o_p o = true.
Proof.
  unfold C15.p_wf, p_known, C15.has_p. intros Hwf Hk Hp Hrun.
  repeat (apply andb_true_iff in Hwf as [Hwf _]).
  apply (list_beq_true beq beq_true) in Hwf. rewrite <- Hwf in Hrun.
  apply andb_true_iff in Hk as [Hpre Hpost].
  destruct (command_info (C15.p_cmd p)) as [[[locals lo] hi]|] eqn:Hc; [|discriminate].
  eapply pretend_installed; eauto.
Qed.
