(* Proofs about the command-line model (Model/Args.v) for property C15:
   the pretender switch -p is honoured wherever it stands on a structured command line,
   parse_cmd_args never runs out of the fuel parse_main gives it, and a command that is run
   is a known command with an argument count inside its arity. *)
From LC Require Import Lib.Bytes Model.Args Cases.C15.
From Coq Require Import ZifyBool ZifyNat.
Open Scope nat_scope.

(* ------------------------------------------------------------------------------------ *)
(* vocabulary                                                                            *)

(* an argument at which FlagSet.Parse stops without consuming it *)
Definition nonflag (s : bytes) : bool :=
  match s with
  | c0 :: _ :: _ => negb (Ascii.eqb c0 dashc)
  | _ => true
  end.

Definition stops (rest : list bytes) : bool :=
  match rest with [] => true | s :: _ => nonflag s end.

(* a switch token that the flag set [fs] knows, with a plain name *)
Definition flag_ok (fs : flagset) (t : tok) : bool :=
  match t with
  | TBool n => plain_name n && match fs_lookup fs n with Some FBool => true | _ => false end
  | TStr n _ => plain_name n && match fs_lookup fs n with Some FString => true | _ => false end
  | TWord _ => false
  end.

(* a token allowed after the command word: a word, or a switch known to [fs] *)
Definition post_ok (fs : flagset) (t : tok) : bool :=
  match t with
  | TWord w => is_word w
  | _ => flag_ok fs t
  end.

Definition tok_asg (t : tok) : list assign :=
  match t with
  | TBool n => [(n, bs "true")]
  | TStr n v => [(n, v)]
  | TWord _ => []
  end.
Definition toks_asg (ts : list tok) : list assign := flat_map tok_asg ts.

Definition tok_words (t : tok) : list bytes :=
  match t with TWord w => [w] | _ => [] end.
Definition toks_words (ts : list tok) : list bytes := flat_map tok_words ts.

Definition is_p (t : tok) : bool :=
  match t with TBool n => beq n (bs "p") | _ => false end.

(* the flag set has only plain names *)
Definition fs_plain (fs : flagset) : bool := forallb (fun kv => plain_name (fst kv)) fs.

(* ------------------------------------------------------------------------------------ *)
(* small facts                                                                           *)

Lemma is_word_nonflag w : is_word w = true -> nonflag w = true.
Proof.
  destruct w as [|c0 [|c1 tl]]; cbn; intros Hw; try reflexivity; try discriminate; exact Hw.
Qed.

Lemma fs_lookup_plain fs : fs_plain fs = true ->
  forall n k, fs_lookup fs n = Some k -> plain_name n = true.
Proof.
  unfold fs_plain. induction fs as [|[k0 v0] fs IH]; cbn [fs_lookup forallb fst]; intros Hp n k Hl.
  - discriminate.
  - apply andb_true_iff in Hp as [Hp0 Hp].
    destruct (beq k0 n) eqn:E.
    + apply beq_true in E. subst. exact Hp0.
    + eapply IH; eauto.
Qed.

Lemma split_eq_none s : forall cur,
  existsb (fun x => Ascii.eqb x eqch) s = false -> split_eq cur s = (rev cur ++ s, None).
Proof.
  induction s as [|c r IH]; intros cur Hn; cbn [split_eq].
  - now rewrite app_nil_r.
  - cbn [existsb] in Hn. apply orb_false_iff in Hn as [Hc Hr].
    rewrite Hc, IH by exact Hr. cbn [rev]. now rewrite <- app_assoc.
Qed.

Lemma plain_name_inv n : plain_name n = true ->
  exists c tl, n = c :: tl /\ Ascii.eqb c dashc = false /\ Ascii.eqb c eqch = false
    /\ split_eq [] n = (n, None).
Proof.
  destruct n as [|c tl]; [discriminate|].
  unfold plain_name. intros Hp. apply andb_true_iff in Hp as [Hd He].
  apply negb_true_iff in Hd, He.
  exists c, tl. split; [reflexivity|]. split; [exact Hd|].
  split.
  - cbn [existsb] in He. now apply orb_false_iff in He as [He _].
  - now rewrite split_eq_none by exact He.
Qed.

Lemma dash_refl : Ascii.eqb dashc dashc = true.
Proof. apply Ascii.eqb_refl. Qed.

(* ------------------------------------------------------------------------------------ *)
(* FlagSet.Parse, one token at a time                                                    *)

Lemma fparse_nil fs acc : fparse fs [] acc = POk (rev acc) [].
Proof. reflexivity. Qed.

Lemma fparse_stop fs s rest acc :
  nonflag s = true -> fparse fs (s :: rest) acc = POk (rev acc) (s :: rest).
Proof.
  intros Hs. destruct s as [|c0 [|c1 tl]]; try reflexivity.
  cbn [nonflag] in Hs. cbn [fparse]. now rewrite Hs.
Qed.

Lemma fparse_stops fs rest acc : stops rest = true -> fparse fs rest acc = POk (rev acc) rest.
Proof.
  destruct rest as [|s rest]; [reflexivity|]. cbn [stops]. apply fparse_stop.
Qed.

Lemma fparse_bool fs n rest acc :
  plain_name n = true -> fs_lookup fs n = Some FBool ->
  fparse fs ((dashc :: n) :: rest) acc = fparse fs rest ((n, bs "true") :: acc).
Proof.
  intros Hp Hl. destruct (plain_name_inv n Hp) as (c & tl & -> & Hd & He & Hs).
  cbn [fparse]. rewrite dash_refl, Hd. cbn [negb andb orb]. rewrite Hd, He. cbn [orb].
  rewrite Hs, Hl. reflexivity.
Qed.

Lemma fparse_str fs n v rest acc :
  plain_name n = true -> fs_lookup fs n = Some FString ->
  fparse fs ((dashc :: n) :: v :: rest) acc = fparse fs rest ((n, v) :: acc).
Proof.
  intros Hp Hl. destruct (plain_name_inv n Hp) as (c & tl & -> & Hd & He & Hs).
  cbn [fparse]. rewrite dash_refl, Hd. cbn [negb andb orb]. rewrite Hd, He. cbn [orb].
  rewrite Hs, Hl. reflexivity.
Qed.

(* FlagSet.Parse consumes exactly the leading switch tokens and records their assignments *)
Lemma fparse_toks fs ts : forall rest acc,
  forallb (flag_ok fs) ts = true -> stops rest = true ->
  fparse fs (render_toks ts ++ rest) acc = POk (rev acc ++ toks_asg ts) rest.
Proof.
  induction ts as [|t ts IH]; intros rest acc Hok Hst.
  - cbn [render_toks toks_asg flat_map app]. rewrite app_nil_r. now apply fparse_stops.
  - cbn [forallb] in Hok. apply andb_true_iff in Hok as [Ht Hok].
    unfold render_toks, toks_asg. cbn [flat_map]. fold (render_toks ts). fold (toks_asg ts).
    destruct t as [n|n v|w]; cbn [flag_ok] in Ht; [| |discriminate].
    + apply andb_true_iff in Ht as [Hp Hl].
      destruct (fs_lookup fs n) as [[|]|] eqn:El; try discriminate.
      cbn [render_tok tok_asg app]. rewrite fparse_bool by assumption.
      rewrite IH by assumption. cbn [rev]. now rewrite <- app_assoc.
    + apply andb_true_iff in Ht as [Hp Hl].
      destruct (fs_lookup fs n) as [[|]|] eqn:El; try discriminate.
      cbn [render_tok tok_asg app]. rewrite fparse_str by assumption.
      rewrite IH by assumption. cbn [rev]. now rewrite <- app_assoc.
Qed.

(* ------------------------------------------------------------------------------------ *)
(* ParseArgsSetFlags on words and switches interleaved                                   *)

(* a token list is a block of switches followed by nothing or by a word and more tokens *)
Lemma split_flags fs post : forallb (post_ok fs) post = true ->
  exists fl tl, post = fl ++ tl /\ forallb (flag_ok fs) fl = true /\
    (tl = [] \/ exists w tl', tl = TWord w :: tl' /\ is_word w = true
                              /\ forallb (post_ok fs) tl' = true).
Proof.
  induction post as [|t post IH]; intros Hok.
  - exists [], []. auto.
  - cbn [forallb] in Hok. apply andb_true_iff in Hok as [Ht Hok].
    destruct t as [n|n v|w].
    + destruct (IH Hok) as (fl & tl & -> & Hfl & Htl).
      exists (TBool n :: fl), tl. cbn [forallb app]. cbn [post_ok] in Ht. rewrite Ht, Hfl. auto.
    + destruct (IH Hok) as (fl & tl & -> & Hfl & Htl).
      exists (TStr n v :: fl), tl. cbn [forallb app]. cbn [post_ok] in Ht. rewrite Ht, Hfl. auto.
    + exists [], (TWord w :: post). cbn [post_ok] in Ht. split; [reflexivity|]. split; [reflexivity|].
      right. exists w, post. auto.
Qed.

Lemma render_toks_app a b : render_toks (a ++ b) = render_toks a ++ render_toks b.
Proof. unfold render_toks. apply flat_map_app. Qed.
Lemma toks_asg_app a b : toks_asg (a ++ b) = toks_asg a ++ toks_asg b.
Proof. unfold toks_asg. apply flat_map_app. Qed.
Lemma toks_words_app a b : toks_words (a ++ b) = toks_words a ++ toks_words b.
Proof. unfold toks_words. apply flat_map_app. Qed.

Lemma toks_words_flags fs fl : forallb (flag_ok fs) fl = true -> toks_words fl = [].
Proof.
  induction fl as [|t fl IH]; [reflexivity|]. cbn [forallb]. intros H.
  apply andb_true_iff in H as [Ht H]. destruct t; cbn [flag_ok] in Ht; try discriminate;
  unfold toks_words; cbn [flat_map tok_words app]; now apply IH.
Qed.

Lemma length_render_app_le a b : length (render_toks b) <= length (render_toks (a ++ b)).
Proof. rewrite render_toks_app, app_length. lia. Qed.

(* the command word / a word [w], then tokens: all words are collected in order and all
   switch assignments are appended in order *)
Lemma parse_cmd_args_toks fs : forall fuel post w first words asg,
  forallb (post_ok fs) post = true ->
  length (render_toks post) < fuel ->
  parse_cmd_args fuel fs (w :: render_toks post) first words asg
  = Some (rev (if first then words else w :: words) ++ toks_words post, asg ++ toks_asg post).
Proof.
  induction fuel as [|fuel IH]; intros post w first words asg Hok Hlen; [lia|].
  cbn [parse_cmd_args].
  destruct (split_flags fs post Hok) as (fl & tl & -> & Hfl & Htl).
  rewrite render_toks_app, toks_asg_app, toks_words_app, (toks_words_flags fs fl Hfl).
  cbn [app].
  destruct Htl as [-> | (w' & tl' & -> & Hw' & Htl')].
  - rewrite fparse_toks; [|exact Hfl|reflexivity]. cbn [rev app render_toks flat_map parse_cmd_args].
    unfold toks_asg at 2, toks_words. cbn [flat_map]. rewrite !app_nil_r. now destruct fuel.
  - assert (Hst : stops (render_toks (TWord w' :: tl')) = true).
    { cbn [render_toks flat_map render_tok app stops]. now apply is_word_nonflag. }
    rewrite fparse_toks by assumption. cbn [rev app].
    change (render_toks (TWord w' :: tl')) with (w' :: render_toks tl').
    rewrite IH.
    + change (toks_words (TWord w' :: tl')) with (w' :: toks_words tl').
      change (toks_asg (TWord w' :: tl')) with (toks_asg tl').
      f_equal. f_equal.
      * cbn [rev]. now rewrite <- app_assoc.
      * now rewrite <- app_assoc.
    + exact Htl'.
    + pose proof (length_render_app_le fl (TWord w' :: tl')) as Hle.
      change (render_toks (TWord w' :: tl')) with (w' :: render_toks tl') in Hle.
      cbn [length] in Hle. lia.
Qed.

(* ------------------------------------------------------------------------------------ *)
(* the options record: booleans are only ever set to true by structured tokens           *)

Definition p_safe (a : assign) : bool := negb (beq (fst a) (bs "p")) || beq (snd a) (bs "true").

Lemma apply_assign_keeps_p o a : p_safe a = true -> o_p o = true -> o_p (apply_assign o a) = true.
Proof.
  destruct a as [n v]. unfold p_safe, apply_assign. cbn [fst snd]. intros Hs Ho.
  destruct (beq n (bs "v")); [exact Ho|].
  destruct (beq n (bs "p")).
  - cbn [negb orb] in Hs. cbn [o_p]. exact Hs.
  - destruct (beq n (bs "debug")); [exact Ho|]. destruct (beq n (bs "force")); exact Ho.
Qed.

Lemma apply_assign_sets_p o v : v = bs "true" -> o_p (apply_assign o (bs "p", v)) = true.
Proof. intros ->. reflexivity. Qed.

Lemma fold_keeps_p asg : forall o,
  forallb p_safe asg = true -> o_p o = true -> o_p (fold_left apply_assign asg o) = true.
Proof.
  induction asg as [|a asg IH]; intros o Hs Ho; [exact Ho|].
  cbn [forallb] in Hs. apply andb_true_iff in Hs as [Ha Hs].
  cbn [fold_left]. apply IH; [exact Hs|]. now apply apply_assign_keeps_p.
Qed.

Lemma fold_sets_p asg : forall o,
  forallb p_safe asg = true ->
  existsb (fun a => beq (fst a) (bs "p")) asg = true ->
  o_p (fold_left apply_assign asg o) = true.
Proof.
  induction asg as [|a asg IH]; intros o Hs He; [discriminate|].
  cbn [forallb] in Hs. apply andb_true_iff in Hs as [Ha Hs].
  cbn [existsb] in He. cbn [fold_left].
  destruct (beq (fst a) (bs "p")) eqn:Ep.
  - apply fold_keeps_p; [exact Hs|].
    destruct a as [n v]. cbn [fst] in Ep. apply beq_true in Ep. subst n.
    unfold p_safe in Ha. cbn [fst snd] in Ha. rewrite beq_refl in Ha. cbn [negb orb] in Ha.
    apply apply_assign_sets_p. now apply beq_true.
  - cbn [orb] in He. now apply IH.
Qed.

(* the switch tokens admitted before / after the command word: a string switch is never "p" *)
Definition tok_p_safe (t : tok) : bool :=
  match t with TStr n _ => negb (beq n (bs "p")) | _ => true end.

Lemma toks_asg_p_safe ts : forallb tok_p_safe ts = true -> forallb p_safe (toks_asg ts) = true.
Proof.
  induction ts as [|t ts IH]; [reflexivity|]. cbn [forallb]. intros H.
  apply andb_true_iff in H as [Ht H]. unfold toks_asg. cbn [flat_map]. fold (toks_asg ts).
  rewrite forallb_app, (IH H), andb_true_r.
  destruct t as [n|n v|w]; cbn [tok_asg forallb]; unfold p_safe; cbn [fst snd].
  - rewrite beq_refl. now rewrite orb_true_r.
  - cbn [tok_p_safe] in Ht. now rewrite Ht.
  - reflexivity.
Qed.

Lemma toks_asg_has_p ts : existsb is_p ts = true ->
  existsb (fun a => beq (fst a) (bs "p")) (toks_asg ts) = true.
Proof.
  induction ts as [|t ts IH]; [discriminate|]. cbn [existsb]. intros H.
  change (toks_asg (t :: ts)) with (tok_asg t ++ toks_asg ts). rewrite existsb_app.
  apply orb_true_iff. apply orb_true_iff in H as [H|H].
  - left. destruct t as [n|n v|w]; cbn [is_p] in H; try discriminate.
    cbn [tok_asg existsb fst]. now rewrite H.
  - right. exact (IH H).
Qed.

(* a flag set in which "p" is a boolean: a known string switch is not called "p" *)
Lemma flag_ok_p_safe fs t :
  fs_lookup fs (bs "p") = Some FBool -> flag_ok fs t = true -> tok_p_safe t = true.
Proof.
  intros Hp Ht. destruct t as [n|n v|w]; try reflexivity. cbn [flag_ok] in Ht. cbn [tok_p_safe].
  apply andb_true_iff in Ht as [_ Hl].
  destruct (beq n (bs "p")) eqn:E; [|reflexivity].
  apply beq_true in E. subst n. rewrite Hp in Hl. discriminate.
Qed.

Lemma forallb_impl {A} (f g : A -> bool) l :
  (forall x, f x = true -> g x = true) -> forallb f l = true -> forallb g l = true.
Proof.
  intros Hfg. induction l as [|x l IH]; [reflexivity|]. cbn [forallb]. intros H.
  apply andb_true_iff in H as [Hx H]. now rewrite (Hfg x Hx), IH.
Qed.

Lemma post_ok_p_safe fs t :
  fs_lookup fs (bs "p") = Some FBool -> post_ok fs t = true -> tok_p_safe t = true.
Proof.
  intros Hp Ht. destruct t as [n|n v|w]; try reflexivity.
  now apply (flag_ok_p_safe fs (TStr n v)).
Qed.

(* ------------------------------------------------------------------------------------ *)
(* the concrete flag sets of cmd/layercake                                               *)

(* inversion of the command table *)
Definition command_names : list bytes :=
  [bs "init"; bs "status"; bs "list"; bs "add"; bs "remove"; bs "rename"; bs "rebase";
   bs "shell"; bs "mkdirs"; bs "mount"; bs "unmount"; bs "umount"; bs "chroot"; bs "shake"].

Lemma command_info_known cmd x : command_info cmd = Some x -> In cmd command_names.
Proof.
  unfold command_info, command_names. intros H.
  repeat match type of H with
  | (if beq cmd ?s || beq cmd ?s' then _ else _) = _ =>
      let E := fresh "E" in let E' := fresh "E" in
      destruct (beq cmd s) eqn:E; [apply beq_true in E; subst cmd; cbn [In]; tauto|];
      destruct (beq cmd s') eqn:E'; [apply beq_true in E'; subst cmd; cbn [In]; tauto|];
      cbn [orb] in H
  | (if beq cmd ?s then _ else _) = _ =>
      let E := fresh "E" in
      destruct (beq cmd s) eqn:E; [apply beq_true in E; subst cmd; cbn [In]; tauto|]
  end.
  discriminate.
Qed.

(* no command redefines a common switch *)
Definition locals_disjoint (locals : flagset) : bool :=
  forallb (fun kv => match fs_lookup common_switches (fst kv) with None => true | Some _ => false end)
          locals.

Lemma locals_disjoint_lookup locals : locals_disjoint locals = true ->
  forall n k, fs_lookup locals n = Some k -> fs_lookup common_switches n = None.
Proof.
  unfold locals_disjoint. induction locals as [|[k0 v0] r IH]; cbn [forallb fs_lookup fst];
  intros Hd n k Hl; [discriminate|].
  apply andb_true_iff in Hd as [H0 Hd].
  destruct (beq k0 n) eqn:E.
  - apply beq_true in E. subst k0.
    destruct (fs_lookup common_switches n); [discriminate|reflexivity].
  - eapply IH; eauto.
Qed.

(* every command's switch set: plain names, "p" is a boolean, locals do not shadow *)
Definition cmd_fs_good (cmd : bytes) : bool :=
  match command_info cmd with
  | Some (locals, lo, hi) =>
      is_word cmd && fs_plain (common_switches ++ locals) && locals_disjoint locals
      && (lo <=? hi)
  | None => true
  end.

Lemma cmd_fs_good_all : forallb cmd_fs_good command_names = true.
Proof. vm_compute. reflexivity. Qed.

Lemma command_info_good cmd locals lo hi :
  command_info cmd = Some (locals, lo, hi) ->
  is_word cmd = true /\ fs_plain (common_switches ++ locals) = true
  /\ locals_disjoint locals = true /\ lo <= hi.
Proof.
  intros Hc. pose proof (command_info_known _ _ Hc) as Hin.
  pose proof cmd_fs_good_all as Hall. rewrite forallb_forall in Hall.
  specialize (Hall cmd Hin). unfold cmd_fs_good in Hall. rewrite Hc in Hall.
  apply andb_true_iff in Hall as [Hall Hle]. apply andb_true_iff in Hall as [Hall Hd].
  apply andb_true_iff in Hall as [Hw Hpl].
  repeat split; auto. lia.
Qed.

Lemma fs_lookup_app_r a b n : fs_lookup a n = None -> fs_lookup (a ++ b) n = fs_lookup b n.
Proof.
  induction a as [|[k v] a IH]; [reflexivity|]. cbn [fs_lookup app].
  destruct (beq k n); [discriminate|]. exact IH.
Qed.

Lemma fs_lookup_app_l a b n x : fs_lookup a n = Some x -> fs_lookup (a ++ b) n = Some x.
Proof.
  induction a as [|[k v] a IH]; [discriminate|]. cbn [fs_lookup app].
  destruct (beq k n); [auto|]. exact IH.
Qed.

Lemma common_p locals : fs_lookup (common_switches ++ locals) (bs "p") = Some FBool.
Proof. apply fs_lookup_app_l. vm_compute. reflexivity. Qed.

Lemma global_flags_p : fs_lookup global_flags (bs "p") = Some FBool.
Proof. vm_compute. reflexivity. Qed.

(* ---- the token shapes of the property statement ---- *)

Definition common_bools : list bytes := [bs "v"; bs "p"; bs "debug"; bs "force"].

(* before the command word: -v -p -debug -force, -config X, -basepath X *)
Definition pre_ok (t : tok) : bool :=
  match t with
  | TBool n => existsb (beq n) common_bools
  | TStr n _ => existsb (beq n) [bs "config"; bs "basepath"]
  | TWord _ => false
  end.

(* after the command word: words, -v -p -debug -force, the command's own boolean switches,
   the command's own string switches with a value *)
Definition local_ok (locals : flagset) (t : tok) : bool :=
  match t with
  | TBool n => existsb (beq n) common_bools
               || match fs_lookup locals n with Some FBool => true | _ => false end
  | TStr n _ => match fs_lookup locals n with Some FString => true | _ => false end
  | TWord w => is_word w
  end.

Lemma existsb_beq_in n l : existsb (beq n) l = true -> In n l.
Proof.
  induction l as [|x l IH]; [discriminate|]. cbn [existsb In]. intros H.
  apply orb_true_iff in H as [H|H]; [left; apply beq_true in H; auto | right; auto].
Qed.

Lemma pre_ok_flag_ok t : pre_ok t = true -> flag_ok global_flags t = true.
Proof.
  destruct t as [n|n v|w]; cbn [pre_ok]; intros H; try discriminate;
  apply existsb_beq_in in H; cbn [In common_bools] in H;
  repeat (destruct H as [H|H]; [subst n; vm_compute; reflexivity|]); contradiction.
Qed.

Lemma common_bools_lookup n : existsb (beq n) common_bools = true ->
  fs_lookup common_switches n = Some FBool.
Proof.
  intros H. apply existsb_beq_in in H. cbn [In common_bools] in H.
  repeat (destruct H as [H|H]; [subst n; vm_compute; reflexivity|]). contradiction.
Qed.

Lemma local_ok_post_ok locals t :
  fs_plain (common_switches ++ locals) = true -> locals_disjoint locals = true ->
  local_ok locals t = true -> post_ok (common_switches ++ locals) t = true.
Proof.
  intros Hpl Hd H. destruct t as [n|n v|w]; cbn [local_ok] in H; cbn [post_ok flag_ok].
  - assert (Hl : fs_lookup (common_switches ++ locals) n = Some FBool).
    { apply orb_true_iff in H as [H|H].
      - apply fs_lookup_app_l. now apply common_bools_lookup.
      - destruct (fs_lookup locals n) as [[|]|] eqn:El; try discriminate.
        rewrite fs_lookup_app_r; [exact El|]. eapply locals_disjoint_lookup; eauto. }
    rewrite Hl, (fs_lookup_plain _ Hpl _ _ Hl). reflexivity.
  - destruct (fs_lookup locals n) as [[|]|] eqn:El; try discriminate.
    assert (Hl : fs_lookup (common_switches ++ locals) n = Some FString).
    { rewrite fs_lookup_app_r; [exact El|]. eapply locals_disjoint_lookup; eauto. }
    rewrite Hl, (fs_lookup_plain _ Hpl _ _ Hl). reflexivity.
  - exact H.
Qed.

(* ------------------------------------------------------------------------------------ *)
(* main(): the whole command line                                                        *)

(* characterisation of parse_main on a structured command line *)
Lemma parse_main_structured pre cmd post locals lo hi :
  forallb (flag_ok global_flags) pre = true ->
  command_info cmd = Some (locals, lo, hi) ->
  forallb (post_ok (common_switches ++ locals)) post = true ->
  parse_main (render_toks pre ++ [cmd] ++ render_toks post) = MUsage \/
  parse_main (render_toks pre ++ [cmd] ++ render_toks post) =
    MRun (fold_left apply_assign (toks_asg (pre ++ post)) (MkO false false false false))
         cmd (toks_words post) (toks_asg post).
Proof.
  intros Hpre Hc Hpost.
  destruct (command_info_good _ _ _ _ Hc) as (Hw & Hpl & Hd & Hle).
  unfold parse_main. cbn [app].
  rewrite fparse_toks; [|exact Hpre|cbn [stops]; now apply is_word_nonflag].
  cbn [rev app].
  match goal with |- context [if ?b then MUsage else _] => destruct b end; [now left|].
  rewrite Hc.
  rewrite parse_cmd_args_toks; [|exact Hpost|cbn [length]; lia].
  cbn [rev app].
  match goal with |- context [if ?b then MUsage else _] => destruct b end; [now left|].
  right. rewrite toks_asg_app, fold_left_app. reflexivity.
Qed.

Lemma structured_p_safe pre post locals :
  forallb (flag_ok global_flags) pre = true ->
  forallb (post_ok (common_switches ++ locals)) post = true ->
  forallb tok_p_safe (pre ++ post) = true.
Proof.
  intros Hpre Hpost. rewrite forallb_app. apply andb_true_iff. split.
  - eapply forallb_impl; [|exact Hpre]. intros t. apply flag_ok_p_safe. exact global_flags_p.
  - eapply forallb_impl; [|exact Hpost]. intros t. apply post_ok_p_safe. apply common_p.
Qed.

(* (a), general form: switches known to the merged flag sets *)
Theorem pretend_installed_gen pre cmd post locals lo hi o c a l :
  forallb (flag_ok global_flags) pre = true ->
  command_info cmd = Some (locals, lo, hi) ->
  forallb (post_ok (common_switches ++ locals)) post = true ->
  existsb is_p (pre ++ post) = true ->
  parse_main (render_toks pre ++ [cmd] ++ render_toks post) = MRun o c a l ->
  o_p o = true.
Proof.
  intros Hpre Hc Hpost Hp Hrun.
  destruct (parse_main_structured pre cmd post locals lo hi Hpre Hc Hpost) as [E|E];
    rewrite E in Hrun; [discriminate|].
  injection Hrun as <- _ _ _.
  apply fold_sets_p.
  - apply toks_asg_p_safe. eapply structured_p_safe; eauto.
  - now apply toks_asg_has_p.
Qed.

(* (a) as stated: the token shapes of the property text *)
Theorem pretend_installed pre cmd post locals lo hi o c a l :
  forallb pre_ok pre = true ->
  command_info cmd = Some (locals, lo, hi) ->
  forallb (local_ok locals) post = true ->
  existsb is_p (pre ++ post) = true ->
  parse_main (render_toks pre ++ [cmd] ++ render_toks post) = MRun o c a l ->
  o_p o = true.
Proof.
  intros Hpre Hc Hpost.
  destruct (command_info_good _ _ _ _ Hc) as (Hw & Hpl & Hd & Hle).
  apply (pretend_installed_gen pre cmd post locals lo hi o c a l); auto.
  - eapply forallb_impl; [|exact Hpre]. exact pre_ok_flag_ok.
  - eapply forallb_impl; [|exact Hpost]. intros t. now apply local_ok_post_ok.
Qed.

(* and the rest of the result: the command word and its words are what was written *)
Theorem structured_run pre cmd post locals lo hi o c a l :
  forallb pre_ok pre = true ->
  command_info cmd = Some (locals, lo, hi) ->
  forallb (local_ok locals) post = true ->
  parse_main (render_toks pre ++ [cmd] ++ render_toks post) = MRun o c a l ->
  c = cmd /\ a = toks_words post /\ l = toks_asg post
  /\ o = fold_left apply_assign (toks_asg (pre ++ post)) (MkO false false false false).
Proof.
  intros Hpre Hc Hpost Hrun.
  destruct (command_info_good _ _ _ _ Hc) as (Hw & Hpl & Hd & Hle).
  assert (Hpre' : forallb (flag_ok global_flags) pre = true).
  { eapply forallb_impl; [|exact Hpre]. exact pre_ok_flag_ok. }
  assert (Hpost' : forallb (post_ok (common_switches ++ locals)) post = true).
  { eapply forallb_impl; [|exact Hpost]. intros t. now apply local_ok_post_ok. }
  destruct (parse_main_structured pre cmd post locals lo hi Hpre' Hc Hpost') as [E|E];
    rewrite E in Hrun; [discriminate|].
  injection Hrun as <- <- <- <-. auto.
Qed.

(* process-level case vocabulary (Cases/C15.v): a well-formed case whose switches are known *)
Definition p_known (p : C15.pcase) : bool :=
  forallb pre_ok (C15.p_pre p)
  && match command_info (C15.p_cmd p) with
     | Some (locals, _, _) => forallb (local_ok locals) (C15.p_post p)
     | None => false
     end.

Theorem pretend_installed_pcase p o c a l :
  C15.p_wf p = true -> p_known p = true -> C15.has_p p = true ->
  parse_main (C15.p_argv p) = MRun o c a l -> o_p o = true.
Proof.
  unfold C15.p_wf, p_known, C15.has_p. intros Hwf Hk Hp Hrun.
  repeat (apply andb_true_iff in Hwf as [Hwf _]).
  apply (list_beq_true beq beq_true) in Hwf. rewrite <- Hwf in Hrun.
  apply andb_true_iff in Hk as [Hpre Hpost].
  destruct (command_info (C15.p_cmd p)) as [[[locals lo] hi]|] eqn:Hc; [|discriminate].
  eapply pretend_installed; eauto.
Qed.

(* ------------------------------------------------------------------------------------ *)
(* (b) fuel: parse_cmd_args never runs dry                                               *)

(* what FlagSet.Parse leaves over is a suffix of what it was given *)
Lemma fparse_suffix fs : forall n args acc a rest',
  length args <= n -> fparse fs args acc = POk a rest' -> exists pre, args = pre ++ rest'.
Proof.
  induction n as [|n IH]; intros args acc a rest' Hlen H.
  - destruct args; [|cbn [length] in Hlen; lia]. cbn in H. injection H as _ <-. now exists [].
  - destruct args as [|s rest]; [cbn in H; injection H as _ <-; now exists []|].
    cbn [length] in Hlen. assert (Hr : length rest <= n) by lia.
    assert (Hstop : POk (rev acc) (s :: rest) = POk a rest' -> exists pre, s :: rest = pre ++ rest').
    { intros E. injection E as _ <-. now exists []. }
    assert (Hrec : forall acc', fparse fs rest acc' = POk a rest' ->
                                exists pre, s :: rest = pre ++ rest').
    { intros acc' E. destruct (IH rest acc' a rest' Hr E) as [pre ->]. now exists (s :: pre). }
    cbn [fparse] in H.
    destruct s as [|c0 [|c1 tl]]; [now apply Hstop|now apply Hstop|].
    destruct (negb (Ascii.eqb c0 dashc)); [now apply Hstop|].
    destruct (Ascii.eqb c1 dashc && match tl with [] => true | _ :: _ => false end).
    { injection H as _ <-. now exists [c0 :: c1 :: tl]. }
    destruct (if Ascii.eqb c1 dashc then tl else c1 :: tl) as [|n0 name0]; [discriminate|].
    destruct (Ascii.eqb n0 dashc || Ascii.eqb n0 eqch); [discriminate|].
    destruct (split_eq [] (n0 :: name0)) as [name val].
    destruct (fs_lookup fs name) as [[|]|]; [| |discriminate].
    + destruct val as [v|]; [|now apply (Hrec _ H)].
      destruct (parse_bool v); [now apply (Hrec _ H)|discriminate].
    + destruct val as [v|]; [now apply (Hrec _ H)|].
      destruct rest as [|v rest2]; [discriminate|].
      cbn [length] in Hr.
      destruct (IH rest2 _ a rest' ltac:(lia) H) as [pre ->].
      now exists ((c0 :: c1 :: tl) :: v :: pre).
Qed.

Lemma fparse_rest_le fs args acc a rest' :
  fparse fs args acc = POk a rest' -> length rest' <= length args.
Proof.
  intros H. destruct (fparse_suffix fs (length args) args acc a rest' (le_n _) H) as [pre ->].
  rewrite app_length. lia.
Qed.

(* with fuel >= number of arguments, None can only come from a failing FlagSet.Parse *)
Lemma parse_cmd_args_none fs : forall fuel args first words asg,
  length args <= fuel ->
  parse_cmd_args fuel fs args first words asg = None ->
  exists pre w rest, args = pre ++ w :: rest /\ fparse fs rest [] = PErr.
Proof.
  induction fuel as [|fuel IH]; intros args first words asg Hlen H.
  - destruct args; [discriminate|cbn [length] in Hlen; lia].
  - destruct args as [|w rest]; [discriminate|]. cbn [parse_cmd_args] in H. cbn [length] in Hlen.
    destruct (fparse fs rest []) as [|a rest'] eqn:Ef.
    + exists [], w, rest. auto.
    + pose proof (fparse_rest_le _ _ _ _ _ Ef) as Hle.
      destruct (fparse_suffix fs _ _ _ _ _ (le_n _) Ef) as [p Hp].
      destruct (IH rest' false _ _ ltac:(lia) H) as (pre & w' & r & -> & Herr).
      exists (w :: p ++ pre), w', r. split; [|exact Herr].
      rewrite Hp. cbn [app]. now rewrite <- app_assoc.
Qed.

(* the result does not depend on the fuel once there is one unit per argument *)
Lemma parse_cmd_args_fuel fs : forall f1 f2 args first words asg,
  length args <= f1 -> length args <= f2 ->
  parse_cmd_args f1 fs args first words asg = parse_cmd_args f2 fs args first words asg.
Proof.
  induction f1 as [|f1 IH]; intros f2 args first words asg H1 H2.
  - destruct args; [|cbn [length] in H1; lia]. now destruct f2.
  - destruct args as [|w rest]; [now destruct f2|].
    cbn [length] in H1, H2. destruct f2 as [|f2]; [lia|].
    cbn [parse_cmd_args]. destruct (fparse fs rest []) as [|a rest'] eqn:Ef; [reflexivity|].
    pose proof (fparse_rest_le _ _ _ _ _ Ef) as Hle. apply IH; lia.
Qed.

(* (b) as used by parse_main: fuel S (length rest) *)
Theorem args_total fs rest first words asg :
  parse_cmd_args (S (length rest)) fs rest first words asg = None ->
  exists pre w rest', rest = pre ++ w :: rest' /\ fparse fs rest' [] = PErr.
Proof. apply parse_cmd_args_none. lia. Qed.

Theorem args_total_contra fs rest first words asg :
  (forall pre w rest', rest = pre ++ w :: rest' -> fparse fs rest' [] <> PErr) ->
  parse_cmd_args (S (length rest)) fs rest first words asg <> None.
Proof.
  intros Hall Hn. destruct (args_total _ _ _ _ _ Hn) as (pre & w & r & E & Herr).
  exact (Hall pre w r E Herr).
Qed.

Theorem args_fuel_irrelevant fs rest first words asg extra :
  parse_cmd_args (S (length rest) + extra) fs rest first words asg
  = parse_cmd_args (length rest) fs rest first words asg.
Proof. apply parse_cmd_args_fuel; lia. Qed.

(* at the level of main(): MUsage is never produced by lack of fuel *)
Theorem main_args_total argv g rest locals lo hi :
  fparse global_flags argv [] = POk g rest ->
  command_info (match rest with c :: _ => c | [] => bs "status" end) = Some (locals, lo, hi) ->
  parse_cmd_args (S (length rest)) (common_switches ++ locals) rest true [] [] = None ->
  exists pre w rest', rest = pre ++ w :: rest'
                      /\ fparse (common_switches ++ locals) rest' [] = PErr.
Proof. intros _ _. apply args_total. Qed.

(* ------------------------------------------------------------------------------------ *)
(* (c) a command that is run is known and its argument count is within its arity         *)

Theorem run_means_wellformed argv o c words l :
  parse_main argv = MRun o c words l ->
  exists locals lo hi, command_info c = Some (locals, lo, hi)
                       /\ lo <= length words /\ length words <= hi.
Proof.
  unfold parse_main. intros H.
  destruct (fparse global_flags argv []) as [|g rest]; [discriminate|].
  match type of H with (if ?b then MUsage else _) = _ => destruct b end; [discriminate|].
  destruct (command_info _) as [[[locals lo] hi]|] eqn:Hc; [|discriminate].
  destruct (parse_cmd_args _ _ _ _ _ _) as [[ws asg]|]; [|discriminate].
  destruct ((length ws <? lo) || (hi <? length ws)) eqn:Ea; [discriminate|].
  injection H as _ <- <- _.
  exists locals, lo, hi. split; [exact Hc|]. lia.
Qed.

(* the command is the first non-switch argument, or "status" when there is none; help and
   version never run anything *)
Theorem run_command_word argv o c words l :
  parse_main argv = MRun o c words l ->
  exists g rest, fparse global_flags argv [] = POk g rest
                 /\ c = match rest with c :: _ => c | [] => bs "status" end
                 /\ In c command_names.
Proof.
  intros H. destruct (run_means_wellformed _ _ _ _ _ H) as (locals & lo & hi & Hc & _).
  unfold parse_main in H.
  destruct (fparse global_flags argv []) as [|g rest]; [discriminate|].
  exists g, rest. split; [reflexivity|].
  match type of H with (if ?b then MUsage else _) = _ => destruct b end; [discriminate|].
  destruct (command_info (match rest with c :: _ => c | [] => bs "status" end))
    as [[[locals' lo'] hi']|]; [|discriminate].
  destruct (parse_cmd_args _ _ _ _ _ _) as [[ws asg]|]; [|discriminate].
  match type of H with (if ?b then MUsage else _) = _ => destruct b end; [discriminate|].
  injection H as _ <- _ _. split; [reflexivity|].
  eapply command_info_known; eauto.
Qed.

(* ------------------------------------------------------------------------------------ *)
(* examples: the hypotheses are satisfiable by non-trivial command lines                 *)

(* layercake -debug umount -all -p *)
Definition ex1_pre := [TBool (bs "debug")].
Definition ex1_cmd := bs "umount".
Definition ex1_post := [TBool (bs "all"); TBool (bs "p")].

Example ex1_hyps :
  forallb pre_ok ex1_pre = true /\
  command_info ex1_cmd = Some ([(bs "all", FBool)], 0, 1) /\
  forallb (local_ok [(bs "all", FBool)]) ex1_post = true /\
  existsb is_p (ex1_pre ++ ex1_post) = true.
Proof. vm_compute. auto. Qed.

Example ex1_result :
  parse_main (render_toks ex1_pre ++ [ex1_cmd] ++ render_toks ex1_post)
  = MRun (MkO false true true false) (bs "umount") []
         [(bs "all", bs "true"); (bs "p", bs "true")].
Proof. vm_compute. reflexivity. Qed.

Example ex1_argv :
  render_toks ex1_pre ++ [ex1_cmd] ++ render_toks ex1_post
  = [bs "-debug"; bs "umount"; bs "-all"; bs "-p"].
Proof. vm_compute. reflexivity. Qed.

(* layercake -basepath /x -v add L1 -configfile -p -p base -force
   (the first "-p" is the VALUE of -configfile; the second is the switch) *)
Definition ex2_pre := [TStr (bs "basepath") (bs "/x"); TBool (bs "v")].
Definition ex2_cmd := bs "add".
Definition ex2_post :=
  [TWord (bs "L1"); TStr (bs "configfile") (bs "-p"); TBool (bs "p"); TWord (bs "base");
   TBool (bs "force")].

Example ex2_hyps :
  forallb pre_ok ex2_pre = true /\
  command_info ex2_cmd = Some ([(bs "configfile", FString)], 1, 2) /\
  forallb (local_ok [(bs "configfile", FString)]) ex2_post = true /\
  existsb is_p (ex2_pre ++ ex2_post) = true.
Proof. vm_compute. auto. Qed.

Example ex2_result :
  parse_main (render_toks ex2_pre ++ [ex2_cmd] ++ render_toks ex2_post)
  = MRun (MkO true true false true) (bs "add") [bs "L1"; bs "base"]
         [(bs "configfile", bs "-p"); (bs "p", bs "true"); (bs "force", bs "true")].
Proof. vm_compute. reflexivity. Qed.

(* -p before the command word only: layercake -p -force remove -files L1 *)
Example ex3_result :
  let pre := [TBool (bs "p"); TBool (bs "force")] in
  let post := [TBool (bs "files"); TWord (bs "L1")] in
  forallb pre_ok pre = true /\
  forallb (local_ok [(bs "files", FBool)]) post = true /\
  existsb is_p (pre ++ post) = true /\
  parse_main (render_toks pre ++ [bs "remove"] ++ render_toks post)
  = MRun (MkO false true false true) (bs "remove") [bs "L1"] [(bs "files", bs "true")].
Proof. vm_compute. auto. Qed.

(* a process-level case of Cases/C15.v that satisfies p_wf, p_known and has_p *)
Definition ex_pcase : C15.pcase :=
  C15.MkP ex1_pre ex1_cmd ex1_post [bs "-debug"; bs "umount"; bs "-all"; bs "-p"] 0 false true false.
Example ex_pcase_hyps :
  C15.p_wf ex_pcase = true /\ p_known ex_pcase = true /\ C15.has_p ex_pcase = true.
Proof. vm_compute. auto. Qed.

(* (b): a failing local FlagSet.Parse is the reason for None, here an unknown switch *)
Example ex_args_err :
  parse_cmd_args 5 (common_switches ++ [(bs "all", FBool)])
    [bs "umount"; bs "L1"; bs "-bogus"] true [] [] = None
  /\ fparse (common_switches ++ [(bs "all", FBool)]) [bs "-bogus"] [] = PErr.
Proof. vm_compute. auto. Qed.

(* (b): hypothesis of args_total_contra holds for a non-trivial line *)
Example ex_args_ok :
  parse_cmd_args 4 (common_switches ++ [(bs "all", FBool)])
    [bs "umount"; bs "-all"; bs "L1"] true [] []
  = Some ([bs "L1"], [(bs "all", bs "true")]).
Proof. vm_compute. reflexivity. Qed.

(* (c) *)
Example ex_arity_usage : parse_main [bs "rename"; bs "a"] = MUsage.
Proof. vm_compute. reflexivity. Qed.
Example ex_arity_run :
  parse_main [bs "rename"; bs "a"; bs "-p"; bs "b"]
  = MRun (MkO false true false false) (bs "rename") [bs "a"; bs "b"] [(bs "p", bs "true")].
Proof. vm_compute. reflexivity. Qed.

(* boundary of (a): outside the structured shapes the switch can be undone or hidden.
   These are the documented behaviours of Go's flag package, not defects:
   -p=false after -p (explicit value), and "--" which ends switch parsing. *)
Example boundary_explicit_false :
  parse_main [bs "-p"; bs "-p=false"; bs "status"]
  = MRun (MkO false false false false) (bs "status") [] [].
Proof. vm_compute. reflexivity. Qed.
Example boundary_double_dash :
  parse_main [bs "status"; bs "--"; bs "-p"]
  = MRun (MkO false false false false) (bs "status") [bs "-p"] [].
Proof. vm_compute. reflexivity. Qed.
