(* Proofs about the model of atom matching (Model/AtomMatch.v) against the PMS reference
   (Model/PMS.v): the comparison string of a version, the order theorem, the operators,
   slots and USE dependencies. *)
From LC Require Import Lib.Bytes Lib.Lex Lib.Fields Model.PMS Model.AtomMatch Cases.C13 Proofs.C13Lex.
From Coq Require Import ZifyBool ZifyNat ZifyN.
Import PMS C13.
Open Scope N_scope.

(* the three digit predicates and the two value functions coincide *)
Lemma is_digit_dig c : AtomMatch.is_digit c = is_dig c. Proof. reflexivity. Qed.
Lemma pms_digit_dig c : PMS.is_digit c = is_dig c. Proof. reflexivity. Qed.
Lemma val_nval_acc ds : forall acc, val_acc acc ds = nval_acc acc ds.
Proof. induction ds as [|d r IH]; intros acc; cbn; auto. Qed.
Lemma val_nval ds : val ds = nval ds.
Proof. apply val_nval_acc. Qed.

(* ---- pad_seg ---- *)
Lemma pad_len d : length (pad_seg d) = Nat.max 5 (length d).
Proof. unfold pad_seg, seg_width. rewrite app_length, repeat_length. lia. Qed.
Lemma pad_dig d : forallb is_dig d = true -> forallb is_dig (pad_seg d) = true.
Proof.
  intros H. unfold pad_seg. rewrite forallb_app, H, andb_true_r.
  apply forallb_repeat. reflexivity.
Qed.
Lemma pad_val d : nval (pad_seg d) = nval d.
Proof. unfold pad_seg. apply nval_repeat0. Qed.
Lemma pad_nonempty d : pad_seg d <> [].
Proof. intros H. apply (f_equal (@length _)) in H. rewrite pad_len in H. change (length (@nil ascii)) with 0%nat in H. lia. Qed.

(* ---- makeComparable on digit blocks ---- *)
Lemma mkcomp_digits ds : forall run s, forallb is_dig ds = true ->
  mkcomp_go run (ds ++ s) = mkcomp_go (rev ds ++ run) s.
Proof.
  induction ds as [|d ds IH]; intros run s H; cbn [app rev]; auto.
  cbn [forallb] in H. apply andb_true_iff in H as [Hd H].
  cbn [mkcomp_go]. rewrite is_digit_dig, Hd. rewrite IH by assumption. now rewrite <- app_assoc.
Qed.

Definition digs (d : bytes) : Prop := d <> [] /\ forallb is_dig d = true.
Lemma digitsb_digs d : digitsb d = true <-> digs d.
Proof.
  unfold digitsb, digs. destruct d; [split; [discriminate|intros [H _]; congruence]|].
  split; [intros H; split; [discriminate|exact H]|intros [_ H]; exact H].
Qed.

Lemma flush_block d : digs d -> flush (rev d) = pad_seg d.
Proof.
  intros [Hn _]. unfold flush. destruct (rev d) eqn:E.
  - apply (f_equal (@rev _)) in E. rewrite rev_involutive in E. cbn in E. congruence.
  - rewrite <- E. now rewrite rev_involutive.
Qed.

(* a digit block followed by a non-digit *)
Lemma mkcomp_block d c s : digs d -> is_dig c = false ->
  mkcomp_go [] (d ++ c :: s) = pad_seg d ++ c :: mkcomp_go [] s.
Proof.
  intros Hd Hc. rewrite mkcomp_digits by apply Hd. rewrite app_nil_r.
  cbn [mkcomp_go]. rewrite is_digit_dig, Hc. now rewrite flush_block.
Qed.
Lemma mkcomp_block_end d : digs d -> mkcomp_go [] d = pad_seg d.
Proof.
  intros Hd. rewrite <- (app_nil_r d) at 1. rewrite mkcomp_digits by apply Hd. rewrite app_nil_r.
  cbn [mkcomp_go]. now apply flush_block.
Qed.
Lemma mkcomp_nondigit c s : is_dig c = false -> mkcomp_go [] (c :: s) = c :: mkcomp_go [] s.
Proof. intros H. cbn [mkcomp_go]. now rewrite is_digit_dig, H. Qed.
Definition nd_start (s : bytes) : Prop := match s with [] => True | c :: _ => is_dig c = false end.
Lemma mkcomp_block_gen d s : digs d -> nd_start s -> mkcomp_go [] (d ++ s) = pad_seg d ++ mkcomp_go [] s.
Proof.
  intros Hd Hs. destruct s as [|c s].
  - rewrite app_nil_r. rewrite mkcomp_block_end by assumption. cbn. now rewrite app_nil_r.
  - rewrite mkcomp_block by assumption. now rewrite (mkcomp_nondigit c s Hs).
Qed.

Definition dotted (xs : list bytes) : bytes := flat_map (fun y => dotc :: y) xs.
Lemma join_dotted xs : forall x, join dotc (x :: xs) = x ++ dotted xs.
Proof.
  induction xs as [|y ys IH]; intros x; cbn [join dotted flat_map].
  - now rewrite app_nil_r.
  - change (x ++ dotc :: join dotc (y :: ys) = x ++ (dotc :: y) ++ dotted ys).
    rewrite IH. reflexivity.
Qed.
Lemma nd_dotted xs s : nd_start s -> nd_start (dotted xs ++ s).
Proof. destruct xs; cbn; auto. Qed.

Lemma mkcomp_dotted xs : forall s, Forall digs xs -> nd_start s ->
  mkcomp_go [] (dotted xs ++ s) = dotted (map pad_seg xs) ++ mkcomp_go [] s.
Proof.
  induction xs as [|y ys IH]; intros s HF Hs; cbn [dotted flat_map map app]; auto.
  inversion HF as [|? ? Hy HF']; subst.
  change ((dotc :: y) ++ flat_map (fun y0 => dotc :: y0) ys) with (dotc :: y ++ dotted ys).
  cbn [app]. rewrite mkcomp_nondigit by reflexivity.
  rewrite <- app_assoc. rewrite mkcomp_block_gen; auto using nd_dotted.
  rewrite IH by assumption.
  change (flat_map (fun y0 => dotc :: y0) (map pad_seg ys)) with (dotted (map pad_seg ys)).
  cbn [app]. now rewrite <- app_assoc.
Qed.

(* the number part followed by anything that does not start with a digit *)
Definition encnums (ns : list bytes) : bytes := join dotc (map pad_seg ns).
Lemma mkcomp_nums x xs s : Forall digs (x :: xs) -> nd_start s ->
  mkcomp_go [] (join dotc (x :: xs) ++ s) = encnums (x :: xs) ++ mkcomp_go [] s.
Proof.
  intros HF Hs. inversion HF as [|? ? Hx HF']; subst.
  unfold encnums. cbn [map]. rewrite !join_dotted. rewrite <- !app_assoc.
  rewrite mkcomp_block_gen; auto using nd_dotted. now rewrite mkcomp_dotted.
Qed.
Definition ends_dig (s : bytes) : Prop := exists r c, s = r ++ [c] /\ is_dig c = true.
Lemma ends_dig_app a b : ends_dig b -> ends_dig (a ++ b).
Proof. intros (r & c & -> & H). exists (a ++ r), c. now rewrite app_assoc. Qed.
Lemma ends_dig_digs d : digs d -> ends_dig d.
Proof.
  intros [Hn Hd]. destruct (exists_last Hn) as (r & c & ->). exists r, c. split; auto.
  rewrite forallb_app in Hd. apply andb_true_iff in Hd as [_ Hd]. cbn in Hd. now rewrite andb_true_r in Hd.
Qed.
Lemma ends_dig_pad d : digs d -> ends_dig (pad_seg d).
Proof. intros H. unfold pad_seg. now apply ends_dig_app, ends_dig_digs. Qed.
Lemma ends_dig_dotted xs : xs <> [] -> Forall digs xs -> ends_dig (dotted (map pad_seg xs)).
Proof.
  induction xs as [|y ys IH]; [congruence|]. intros _ HF. inversion HF; subst.
  cbn [map dotted flat_map]. destruct ys as [|z zs].
  - cbn. rewrite app_nil_r. apply (ends_dig_app [dotc]). now apply ends_dig_pad.
  - apply ends_dig_app. apply IH; [discriminate|assumption].
Qed.
Lemma ends_dig_encnums x xs : Forall digs (x :: xs) -> ends_dig (encnums (x :: xs)).
Proof.
  intros HF. inversion HF; subst. unfold encnums. cbn [map]. rewrite join_dotted.
  destruct xs as [|y ys].
  - cbn. rewrite app_nil_r. now apply ends_dig_pad.
  - apply ends_dig_app. apply (ends_dig_dotted (y :: ys)); [discriminate|assumption].
Qed.

Definition enc_letter (l : option ascii) : bytes := match l with Some c => [sp; c] | None => [] end.

Lemma is_lower_nodig l : is_lower l = true -> is_dig l = false.
Proof.
  unfold is_lower, is_dig. intros H. apply andb_true_iff in H as [H1 H2].
  apply N.leb_le in H1, H2. apply andb_false_iff. right. apply N.leb_gt. lia.
Qed.

Lemma wf_ver_nums v : wf_ver v = true -> exists x xs, v_nums v = x :: xs /\ Forall digs (x :: xs).
Proof.
  unfold wf_ver. intros H. repeat (apply andb_true_iff in H as [H ?]).
  destruct (v_nums v) as [|x xs] eqn:E; [discriminate|]. exists x, xs. split; auto.
  apply Forall_forall. intros d Hd. apply digitsb_digs. rewrite forallb_forall in H. now apply H.
Qed.

Lemma base_comparable_enc v : wf_ver v = true ->
  base_comparable (basever_of v) = encnums (v_nums v) ++ enc_letter (v_letter v).
Proof.
  intros Hwf. destruct (wf_ver_nums v Hwf) as (x & xs & En & HF).
  unfold base_comparable, basever_of, make_comparable. rewrite En.
  destruct (v_letter v) as [l|] eqn:El.
  - assert (Hl : is_dig l = false).
    { apply is_lower_nodig. unfold wf_ver in Hwf. rewrite El in Hwf.
      repeat (apply andb_true_iff in Hwf as [Hwf ?]). assumption. }
    rewrite mkcomp_nums by (auto; exact Hl).
    rewrite mkcomp_nondigit by assumption. cbn [mkcomp_go flush].
    rewrite rev_app_distr. cbn [rev app]. rewrite is_digit_dig, Hl. now rewrite rev_involutive.
  - rewrite app_nil_r. rewrite <- (app_nil_r (join dotc (x :: xs))).
    rewrite mkcomp_nums by (auto; exact I). cbn [mkcomp_go flush]. rewrite !app_nil_r.
    destruct (ends_dig_encnums x xs HF) as (r & c & E & Hc). rewrite E.
    rewrite rev_app_distr. cbn [rev app]. now rewrite is_digit_dig, Hc.
Qed.
(* ---- the suffix group: four ReplaceAll passes, then makeComparable ---- *)
Definition usc : ascii := nb 95.
Definition optnum (o : option bytes) : bytes := match o with Some d => d | None => [] end.
Definition tok (name : skind -> bytes) (s : skind * option bytes) : bytes := name (fst s) ++ optnum (snd s).
Open Scope string_scope.
Definition names1 k := match k with SAlpha => bs "_a" | _ => kind_name k end.
Definition names2 k := match k with SBeta => bs "_b" | _ => names1 k end.
Definition names3 k := match k with SPre => bs "_c" | _ => names2 k end.
Definition names4 k := match k with SRc => bs "_d" | _ => names3 k end.
Close Scope string_scope.

Definition us_start (s : bytes) : Prop := match s with [] => True | c :: _ => c = usc end.
Definition numok (o : option bytes) : Prop := match o with Some d => digs d | None => True end.

Lemma eqb_dig_false c d : is_dig c = false -> is_dig d = true -> Ascii.eqb c d = false.
Proof.
  intros Hc Hd. destruct (Ascii.eqb c d) eqn:E; auto. apply Ascii.eqb_eq in E. subst. congruence.
Qed.

Lemma replace_digits o new ds : forall rest, forallb is_dig ds = true ->
  replace_go (usc :: o) new 0 (ds ++ rest) = ds ++ replace_go (usc :: o) new 0 rest.
Proof.
  induction ds as [|d ds IH]; intros rest H; cbn [app]; auto.
  cbn [forallb] in H. apply andb_true_iff in H as [Hd H].
  cbn [replace_go prefixb]. rewrite (eqb_dig_false usc d) by (auto; reflexivity). cbn [andb].
  now rewrite IH.
Qed.
Lemma replace_optnum o new n rest : numok n ->
  replace_go (usc :: o) new 0 (optnum n ++ rest) = optnum n ++ replace_go (usc :: o) new 0 rest.
Proof. destruct n as [d|]; cbn [optnum]; intros H; [apply replace_digits, H|reflexivity]. Qed.

(* after "_p": what follows is a digit, the next suffix, or the end -- never "re" *)
Lemma no_re n rest : numok n -> us_start rest -> prefixb [nb 114; nb 101] (optnum n ++ rest) = false.
Proof.
  intros Hn Hr. destruct n as [[|d ds]|]; cbn [optnum app].
  - destruct Hn as [Hn _]. congruence.
  - destruct Hn as [_ Hd]. cbn [forallb] in Hd. apply andb_true_iff in Hd as [Hd _].
    cbn [prefixb]. now rewrite (eqb_dig_false (nb 114) d) by (auto; reflexivity).
  - destruct rest as [|c r]; [reflexivity|]. cbn in Hr. subst c. reflexivity.
Qed.

Ltac tokpass :=
  match goal with
  | |- context [replace_go ?o ?n 0 (optnum ?x ++ ?r)] =>
      change o with (usc :: tl o); rewrite (replace_optnum (tl o) n x r) by assumption; reflexivity
  end.

Lemma tok_pass1 s rest : numok (snd s) -> us_start rest ->
  replace_go (bs "_alpha") (bs "_a") 0 (tok kind_name s ++ rest)
  = tok names1 s ++ replace_go (bs "_alpha") (bs "_a") 0 rest.
Proof.
  destruct s as [k n]. unfold tok. cbn [fst snd]. intros Hn Hr. rewrite <- !app_assoc.
  destruct k; cbn; tokpass.
Qed.
Lemma tok_pass2 s rest : numok (snd s) -> us_start rest ->
  replace_go (bs "_beta") (bs "_b") 0 (tok names1 s ++ rest)
  = tok names2 s ++ replace_go (bs "_beta") (bs "_b") 0 rest.
Proof.
  destruct s as [k n]. unfold tok. cbn [fst snd]. intros Hn Hr. rewrite <- !app_assoc.
  destruct k; cbn; tokpass.
Qed.
Lemma tok_pass3 s rest : numok (snd s) -> us_start rest ->
  replace_go (bs "_pre") (bs "_c") 0 (tok names2 s ++ rest)
  = tok names3 s ++ replace_go (bs "_pre") (bs "_c") 0 rest.
Proof.
  destruct s as [k n]. unfold tok. cbn [fst snd]. intros Hn Hr. rewrite <- !app_assoc.
  destruct k; [cbn; tokpass ..|].
  change (names2 SP) with [usc; nb 112]. cbn [app].
  assert (E : prefixb (bs "_pre") (usc :: nb 112 :: optnum n ++ rest) = false).
  { change (prefixb [nb 114; nb 101] (optnum n ++ rest) = false). now apply no_re. }
  cbn [replace_go]. rewrite E.
  change (replace_go (bs "_pre") (bs "_c") 0 (nb 112 :: optnum n ++ rest))
    with (nb 112 :: replace_go (bs "_pre") (bs "_c") 0 (optnum n ++ rest)).
  change (names3 SP) with [usc; nb 112]. cbn [app]. do 2 f_equal.
  change (bs "_pre") with (usc :: tl (bs "_pre")). now rewrite replace_optnum.
Qed.
Lemma tok_pass4 s rest : numok (snd s) -> us_start rest ->
  replace_go (bs "_rc") (bs "_d") 0 (tok names3 s ++ rest)
  = tok names4 s ++ replace_go (bs "_rc") (bs "_d") 0 rest.
Proof.
  destruct s as [k n]. unfold tok. cbn [fst snd]. intros Hn Hr. rewrite <- !app_assoc.
  destruct k; cbn; tokpass.
Qed.
Definition sufs_ok (sufs : list (skind * option bytes)) : Prop := Forall (fun s => numok (snd s)) sufs.

Lemma us_start_toks n sufs : (forall k, exists t, n k = usc :: t) -> us_start (flat_map (tok n) sufs).
Proof.
  intros Hn. destruct sufs as [|[k o] r]; cbn; auto.
  unfold tok. cbn [fst]. destruct (Hn k) as [t ->]. reflexivity.
Qed.

Lemma pass_gen old new n n' :
  (forall s rest, numok (snd s) -> us_start rest ->
     replace_go old new 0 (tok n s ++ rest) = tok n' s ++ replace_go old new 0 rest) ->
  (forall k, exists t, n k = usc :: t) ->
  forall sufs, sufs_ok sufs -> replace_all old new (flat_map (tok n) sufs) = flat_map (tok n') sufs.
Proof.
  intros Htok Hn. unfold replace_all. induction sufs as [|x r IH]; intros HF; [reflexivity|].
  inversion HF; subst. cbn [flat_map]. rewrite Htok; auto using us_start_toks. now rewrite IH.
Qed.

Lemma names_us0 k : exists t, kind_name k = usc :: t. Proof. destruct k; eexists; reflexivity. Qed.
Lemma names_us1 k : exists t, names1 k = usc :: t. Proof. destruct k; eexists; reflexivity. Qed.
Lemma names_us2 k : exists t, names2 k = usc :: t. Proof. destruct k; eexists; reflexivity. Qed.
Lemma names_us3 k : exists t, names3 k = usc :: t. Proof. destruct k; eexists; reflexivity. Qed.

Definition kletter (k : skind) : ascii :=
  match k with SAlpha => nb 97 | SBeta => nb 98 | SPre => nb 99 | SRc => nb 100 | SP => nb 112 end.
Definition enc_suf (s : skind * option bytes) : bytes :=
  usc :: kletter (fst s) :: match snd s with Some d => pad_seg d | None => [] end.
Lemma names4_eq k : names4 k = [usc; kletter k]. Proof. destruct k; reflexivity. Qed.

Lemma us_nd s : us_start s -> nd_start s.
Proof. destruct s; cbn; auto. intros ->. reflexivity. Qed.

Lemma mkcomp_toks sufs : sufs_ok sufs ->
  make_comparable (flat_map (tok names4) sufs) = flat_map enc_suf sufs.
Proof.
  unfold make_comparable. induction sufs as [|[k o] r IH]; intros HF; [reflexivity|].
  inversion HF as [|? ? Ho HF']; subst. cbn [flat_map]. unfold tok at 1. cbn [fst snd] in *.
  rewrite names4_eq. cbn [app].
  rewrite mkcomp_nondigit by reflexivity.
  rewrite mkcomp_nondigit by (destruct k; reflexivity).
  unfold enc_suf at 1. cbn [fst snd app]. do 2 f_equal.
  destruct o as [d|]; cbn [optnum app].
  - rewrite mkcomp_block_gen; auto.
    + now rewrite IH.
    + apply us_nd, us_start_toks. intros k'. rewrite names4_eq. now eexists.
  - now apply IH.
Qed.

Lemma suffix_norm_enc sufs : sufs_ok sufs ->
  suffix_norm (flat_map (tok kind_name) sufs) = flat_map enc_suf sufs.
Proof.
  intros H. unfold suffix_norm.
  rewrite (pass_gen _ _ _ _ tok_pass1 names_us0) by assumption.
  rewrite (pass_gen _ _ _ _ tok_pass2 names_us1) by assumption.
  rewrite (pass_gen _ _ _ _ tok_pass3 names_us2) by assumption.
  rewrite (pass_gen _ _ _ _ tok_pass4 names_us3) by assumption.
  now apply mkcomp_toks.
Qed.

Lemma wf_ver_sufs v : wf_ver v = true -> sufs_ok (v_sufs v).
Proof.
  unfold wf_ver. intros H. repeat (apply andb_true_iff in H as [H ?]).
  apply Forall_forall. intros s Hs. match goal with X : forallb _ (v_sufs v) = true |- _ => rewrite forallb_forall in X; specialize (X s Hs) end.
  destruct (snd s); cbn; auto. now apply digitsb_digs.
Qed.
Lemma wf_ver_rev v : wf_ver v = true -> numok (v_rev v).
Proof.
  unfold wf_ver. intros H. repeat (apply andb_true_iff in H as [H ?]).
  destruct (v_rev v); cbn; auto. now apply digitsb_digs.
Qed.

(* ---- the comparison string of a complete version ---- *)
Definition enc_sufs (sufs : list (skind * option bytes)) : bytes :=
  match sufs with [] => suffix_normal | _ => flat_map enc_suf sufs end.
Definition enc_rev (r : option bytes) : bytes :=
  nb 114 :: pad_seg (match r with Some d => d | None => [zero] end).
Definition enc (v : ver) : bytes :=
  encnums (v_nums v) ++ enc_letter (v_letter v) ++ sp :: enc_sufs (v_sufs v) ++ sp :: enc_rev (v_rev v).

Lemma suffix_of_nil v : suffix_of v = [] <-> v_sufs v = [].
Proof.
  unfold suffix_of. destruct (v_sufs v) as [|[k o] r]; [tauto|]. split; [|discriminate].
  cbn. destruct k; discriminate.
Qed.

Lemma revision_enc v : wf_ver v = true -> v_rev v <> None ->
  make_comparable (revision_of v) = enc_rev (v_rev v).
Proof.
  intros Hwf Hn. pose proof (wf_ver_rev v Hwf) as Hr. unfold revision_of, enc_rev, make_comparable.
  destruct (v_rev v) as [d|]; [|congruence]. cbn in Hr.
  rewrite mkcomp_nondigit by reflexivity. f_equal. now apply mkcomp_block_end.
Qed.

Theorem comp_ver_full relop v : wf_ver v = true -> (relop =? Relop_range) = false ->
  comp_ver relop (basever_of v) (suffix_of v) (revision_of v) = enc v.
Proof.
  intros Hwf Hr. unfold comp_ver. rewrite Hr. cbn [negb andb].
  rewrite base_comparable_enc by assumption. unfold enc, enc_sufs.
  assert (Es : match suffix_of v with [] => (suffix_normal, true) | _ :: _ => (suffix_norm (suffix_of v), true) end
               = (match v_sufs v with [] => suffix_normal | _ => flat_map enc_suf (v_sufs v) end, true)).
  { destruct (v_sufs v) as [|s r] eqn:E.
    - unfold suffix_of. now rewrite E.
    - destruct (suffix_of v) eqn:E2; [apply suffix_of_nil in E2; congruence|].
      rewrite <- E2. unfold suffix_of. rewrite E. f_equal.
      apply (suffix_norm_enc (s :: r)). rewrite <- E. now apply wf_ver_sufs. }
  rewrite Es. cbn [andb].
  assert (Er : match revision_of v with [] => (default_revision, true) | _ :: _ => (make_comparable (revision_of v), true) end
               = (enc_rev (v_rev v), true)).
  { destruct (v_rev v) as [d|] eqn:E.
    - rewrite <- E. rewrite <- revision_enc by (auto; congruence). unfold revision_of. now rewrite E.
    - unfold revision_of. rewrite E. reflexivity. }
  rewrite Er. now rewrite <- !app_assoc.
Qed.
(* ================= version order ================= *)
Definition low (s : bytes) : Prop := match s with [] => True | c :: _ => bn c < 46 end.

Lemma ncmp_pad x y : digs x -> digs y -> length (pad_seg x) = length (pad_seg y) ->
  lcmp (pad_seg x) (pad_seg y) = ncmp x y.
Proof.
  intros [_ Hx] [_ Hy] HL. rewrite lex_numeric; auto using pad_dig.
  rewrite !pad_val. unfold ncmp. now rewrite (val_nval x), (val_nval y).
Qed.

Lemma padlen_len x y : Nat.eqb (padlen x) (padlen y) = true -> length (pad_seg x) = length (pad_seg y).
Proof. intros H. apply Nat.eqb_eq in H. now rewrite !pad_len. Qed.

(* Algorithm 3.3 is integer comparison when no component has a leading zero *)
Lemma nval_pos d r : is_dig d = true -> bn d <> 48 -> 0 < nval (d :: r).
Proof.
  intros Hd Hn. rewrite nval_cons. unfold is_dig in Hd. apply andb_true_iff in Hd as [H1 H2].
  apply N.leb_le in H1, H2. unfold dval.
  assert (0 < 10 ^ N.of_nat (length r)) by (apply N.neq_0_lt_0, N.pow_nonzero; lia). nia.
Qed.
Lemma drop0_last r d : bn d <> 48 -> drop0 (r ++ [d]) <> [].
Proof.
  intros Hd. induction r as [|c r IH]; cbn.
  - apply N.eqb_neq in Hd. rewrite Hd. discriminate.
  - destruct (bn c =? 48); auto. destruct r; discriminate.
Qed.
Lemma strip_tz_nonempty d r : bn d <> 48 -> strip_tz (d :: r) <> [].
Proof.
  intros Hd. unfold strip_tz. cbn [rev]. intros H. apply (f_equal (@rev _)) in H.
  rewrite rev_involutive in H. cbn in H. now apply (drop0_last (rev r) d Hd).
Qed.
Lemma single0 d : digs d -> lead0 d = false -> starts0 d = true -> d = [zero] /\ nval d = 0 /\ strip_tz d = [].
Proof.
  intros [Hn Hd] Hl Hs. unfold lead0 in Hl. rewrite Hs in Hl. cbn [andb] in Hl.
  destruct d as [|c [|c2 r]]; [congruence| |cbn in Hl; discriminate].
  cbn in Hs. apply N.eqb_eq in Hs. assert (c = zero) by (apply bn_inj; rewrite Hs; reflexivity). subst.
  repeat split; reflexivity.
Qed.
Lemma comp_cmp_ncmp x y : digs x -> digs y -> lead0 x = false -> lead0 y = false ->
  comp_cmp x y = ncmp x y.
Proof.
  intros Hx Hy Lx Ly. unfold comp_cmp.
  destruct (starts0 x) eqn:Sx; [|destruct (starts0 y) eqn:Sy]; cbn [orb]; auto.
  - destruct (single0 x Hx Lx Sx) as (-> & Vx & Tx). rewrite Tx. unfold ncmp. rewrite (val_nval [zero]), (val_nval y), Vx.
    destruct (starts0 y) eqn:Sy.
    + destruct (single0 y Hy Ly Sy) as (-> & Vy & Ty). reflexivity.
    + destruct Hy as [Hn Hd]. destruct y as [|d r]; [congruence|]. cbn in Sy. apply N.eqb_neq in Sy.
      cbn [forallb] in Hd. apply andb_true_iff in Hd as [Hd _].
      pose proof (nval_pos d r Hd Sy) as P. pose proof (strip_tz_nonempty d r Sy) as Q.
      destruct (strip_tz (d :: r)); [congruence|]. cbn [scmp]. symmetry. apply N.compare_lt_iff. exact P.
  - destruct (single0 y Hy Ly Sy) as (-> & Vy & Ty). rewrite Ty. unfold ncmp. rewrite (val_nval [zero]), (val_nval x), Vy.
    destruct Hx as [Hn Hd]. destruct x as [|d r]; [congruence|]. cbn in Sx. apply N.eqb_neq in Sx.
    cbn [forallb] in Hd. apply andb_true_iff in Hd as [Hd _].
    pose proof (nval_pos d r Hd Sx) as P. pose proof (strip_tz_nonempty d r Sx) as Q.
    destruct (strip_tz (d :: r)); [congruence|]. cbn [scmp]. symmetry. apply N.compare_gt_iff. exact P.
Qed.

Lemma lcmp_low_dot t r : low t -> lcmp t (dotc :: r) = Lt.
Proof.
  destruct t as [|c t]; cbn; auto. intros H. change (bn dotc) with 46.
  apply N.compare_lt_iff in H. now rewrite H.
Qed.
Lemma lcmp_dot_low t r : low t -> lcmp (dotc :: r) t = Gt.
Proof. intros H. rewrite lcmp_opp, lcmp_low_dot; auto. Qed.

Lemma rest_stage xs : forall ys T1 T2, Forall digs xs -> Forall digs ys ->
  aligned_ok xs ys = true -> existsb lead0 xs = false -> existsb lead0 ys = false ->
  low T1 -> low T2 ->
  lcmp (dotted (map pad_seg xs) ++ T1) (dotted (map pad_seg ys) ++ T2) = rest_cmp xs ys ;; lcmp T1 T2.
Proof.
  induction xs as [|x xs IH]; intros [|y ys] T1 T2 Fx Fy Al Lx Ly L1 L2; cbn [map dotted flat_map app rest_cmp thn].
  - reflexivity.
  - rewrite <- app_assoc. cbn [app]. now apply lcmp_low_dot.
  - rewrite <- app_assoc. cbn [app]. now apply lcmp_dot_low.
  - inversion Fx; inversion Fy; subst. cbn [aligned_ok existsb] in *.
    apply andb_true_iff in Al as [Al1 Al2]. apply orb_false_iff in Lx as [Lx1 Lx2]. apply orb_false_iff in Ly as [Ly1 Ly2].
    rewrite <- !app_assoc. cbn [app]. rewrite lcmp_cons.
    change (flat_map (fun y0 => dotc :: y0) (map pad_seg xs)) with (dotted (map pad_seg xs)).
    change (flat_map (fun y0 => dotc :: y0) (map pad_seg ys)) with (dotted (map pad_seg ys)).
    rewrite lcmp_app by now apply padlen_len. rewrite ncmp_pad by (auto using padlen_len).
    rewrite comp_cmp_ncmp by assumption. rewrite IH by assumption. now destruct (ncmp x y).
Qed.

Lemma nums_stage x xs y ys T1 T2 : Forall digs (x :: xs) -> Forall digs (y :: ys) ->
  aligned_ok (x :: xs) (y :: ys) = true -> existsb lead0 xs = false -> existsb lead0 ys = false ->
  low T1 -> low T2 ->
  lcmp (encnums (x :: xs) ++ T1) (encnums (y :: ys) ++ T2) = nums_cmp (x :: xs) (y :: ys) ;; lcmp T1 T2.
Proof.
  intros Fx Fy Al Lx Ly L1 L2. inversion Fx; inversion Fy; subst.
  cbn [aligned_ok] in Al. apply andb_true_iff in Al as [Al1 Al2].
  unfold encnums. cbn [map]. rewrite !join_dotted, <- !app_assoc.
  rewrite lcmp_app by now apply padlen_len. rewrite ncmp_pad by (auto using padlen_len).
  rewrite rest_stage by assumption. cbn [nums_cmp]. now destruct (ncmp x y).
Qed.

(* letters *)
Lemma letter_stage l1 l2 S1 S2 :
  (match l1 with Some c => is_lower c = true | None => True end) ->
  (match l2 with Some c => is_lower c = true | None => True end) ->
  (exists r, S1 = usc :: r) -> (exists r, S2 = usc :: r) ->
  lcmp (enc_letter l1 ++ sp :: S1) (enc_letter l2 ++ sp :: S2) = letter_cmp l1 l2 ;; lcmp S1 S2.
Proof.
  intros H1 H2 [r1 ->] [r2 ->].
  assert (LW : forall c, is_lower c = true -> 95 < bn c).
  { intros c H. unfold is_lower in H. apply andb_true_iff in H as [H _]. apply N.leb_le in H. lia. }
  destruct l1 as [a|], l2 as [b|]; cbn [enc_letter app letter_cmp].
  - rewrite lcmp_cons. cbn [lcmp]. destruct (bn a ?= bn b); cbn [thn]; try reflexivity; now rewrite ?lcmp_cons.
  - rewrite lcmp_cons. cbn [lcmp thn]. change (bn usc) with 95. specialize (LW a H1).
    apply N.compare_gt_iff in LW. now rewrite LW.
  - rewrite lcmp_cons. cbn [lcmp thn]. change (bn usc) with 95. specialize (LW b H2).
    apply N.compare_lt_iff in LW. now rewrite LW.
  - cbn [thn]. now rewrite lcmp_cons.
Qed.
(* suffixes (at most one on each side) *)
Lemma kletter_cmp k1 k2 : (bn (kletter k1) ?= bn (kletter k2)) = (krank k1 ?= krank k2).
Proof. destruct k1, k2; reflexivity. Qed.

Lemma pad_head_dig d : digs d -> exists c r, pad_seg d = c :: r /\ 48 <= bn c.
Proof.
  intros Hd. pose proof (pad_dig d (proj2 Hd)) as H. destruct (pad_seg d) as [|c r] eqn:E.
  - now apply pad_nonempty in E.
  - exists c, r. split; auto. cbn [forallb] in H. apply andb_true_iff in H as [H _].
    unfold is_dig in H. apply andb_true_iff in H as [H _]. now apply N.leb_le in H.
Qed.

Lemma suf_stage x y R1 R2 : numok (snd x) -> numok (snd y) ->
  sufs_aligned_ok [x] [y] = true -> kf_sufzero [x] [y] = false ->
  lcmp (enc_suf x ++ sp :: R1) (enc_suf y ++ sp :: R2) = suf_cmp x y ;; lcmp R1 R2.
Proof.
  destruct x as [k1 n1], y as [k2 n2]. cbn [fst snd]. intros N1 N2 Al Z.
  unfold enc_suf, suf_cmp. cbn [fst snd app]. rewrite lcmp_cons. cbn [lcmp].
  rewrite kletter_cmp. cbn [kf_sufzero fst snd] in Z. rewrite orb_false_r in Z.
  destruct (krank k1 ?= krank k2) eqn:EK; cbn [thn]; auto.
  cbn [is_eq andb] in Z. cbn [sufs_aligned_ok snd] in Al. rewrite andb_true_r in Al.
  destruct n1 as [p|], n2 as [q|]; cbn [optval app].
  - rewrite lcmp_app by now apply padlen_len. rewrite ncmp_pad by (auto using padlen_len).
    unfold ncmp. rewrite lcmp_cons. reflexivity.
  - destruct (pad_head_dig p N1) as (c & r & E & Hc). rewrite E. cbn [app lcmp].
    change (bn sp) with 32. assert (G : (bn c ?= 32) = Gt) by (apply N.compare_gt_iff; lia). rewrite G.
    apply N.eqb_neq in Z. assert (G2 : (val p ?= 0) = Gt) by (apply N.compare_gt_iff; lia). now rewrite G2.
  - destruct (pad_head_dig q N2) as (c & r & E & Hc). rewrite E. cbn [app lcmp].
    change (bn sp) with 32. assert (G : (32 ?= bn c) = Lt) by (apply N.compare_lt_iff; lia). rewrite G.
    apply N.eqb_neq in Z. assert (G2 : (0 ?= val q) = Lt) by (apply N.compare_lt_iff; lia). now rewrite G2.
  - now rewrite lcmp_cons.
Qed.

Lemma sufs_stage s1 s2 R1 R2 : sufs_ok s1 -> sufs_ok s2 ->
  (length s1 <= 1)%nat -> (length s2 <= 1)%nat ->
  sufs_aligned_ok s1 s2 = true -> kf_sufzero s1 s2 = false ->
  lcmp (enc_sufs s1 ++ sp :: R1) (enc_sufs s2 ++ sp :: R2) = sufs_cmp s1 s2 ;; lcmp R1 R2.
Proof.
  intros O1 O2 L1 L2 Al Z.
  destruct s1 as [|x [|? ?]], s2 as [|y [|? ?]]; cbn [length] in L1, L2; try lia; cbn [enc_sufs sufs_cmp flat_map].
  - cbn [thn]. now rewrite lcmp_app_same, lcmp_cons.
  - rewrite app_nil_r. unfold enc_suf. destruct y as [k n]. cbn [fst snd]. unfold suffix_normal.
    cbn [bs of_string app]. rewrite lcmp_cons. destruct k; reflexivity.
  - rewrite app_nil_r. unfold enc_suf. destruct x as [k n]. cbn [fst snd]. unfold suffix_normal.
    cbn [bs of_string app]. rewrite lcmp_cons. destruct k; reflexivity.
  - rewrite !app_nil_r. inversion O1; inversion O2; subst. rewrite suf_stage; auto.
    destruct (suf_cmp x y); reflexivity.
Qed.

Lemma rev_stage r1 r2 : numok r1 -> numok r2 -> Nat.eqb (optlen r1) (optlen r2) = true ->
  lcmp (enc_rev r1) (enc_rev r2) = rev_cmp r1 r2.
Proof.
  intros N1 N2 Al. unfold enc_rev. rewrite lcmp_cons.
  assert (Z : digs [zero]) by (split; [discriminate|reflexivity]).
  assert (D1 : digs (match r1 with Some d => d | None => [zero] end)) by (destruct r1; auto).
  assert (D2 : digs (match r2 with Some d => d | None => [zero] end)) by (destruct r2; auto).
  rewrite ncmp_pad; auto.
  - unfold ncmp, rev_cmp. destruct r1, r2; reflexivity.
  - apply Nat.eqb_eq in Al. rewrite !pad_len. destruct r1, r2; exact Al.
Qed.


Lemma us_enc_sufs s R : exists r, enc_sufs s ++ R = usc :: r.
Proof. destruct s as [|x s]; cbn; eexists; reflexivity. Qed.
Lemma low_letter l S : low (enc_letter l ++ sp :: S).
Proof. destruct l; cbn; change (bn sp) with 32; lia. Qed.

Lemma wf_ver_letter v : wf_ver v = true -> match v_letter v with Some c => is_lower c = true | None => True end.
Proof.
  unfold wf_ver. intros H. repeat (apply andb_true_iff in H as [H ?]). destruct (v_letter v); auto.
Qed.

Theorem version_order a v : wf_ver a = true -> wf_ver v = true -> in_domain a v = true ->
  lcmp (enc a) (enc v) = vercmp a v.
Proof.
  intros Wa Wv D. unfold in_domain in D. repeat (apply andb_true_iff in D as [D ?]).
  repeat match goal with H : negb _ = true |- _ => apply negb_true_iff in H end.
  unfold kf_long in D. apply negb_false_iff in D. repeat (apply andb_true_iff in D as [D ?]).
  destruct (wf_ver_nums a Wa) as (x & xs & Ea & Fa). destruct (wf_ver_nums v Wv) as (y & ys & Ev & Fv).
  unfold enc, vercmp. rewrite Ea, Ev in *.
  unfold kf_lead0 in *. rewrite ?Ea, ?Ev in *. cbn [tl] in *.
  rewrite nums_stage; auto using low_letter.
  destruct (nums_cmp (x :: xs) (y :: ys)); cbn [thn]; auto.
  rewrite letter_stage; auto using us_enc_sufs; try (now apply wf_ver_letter).
  destruct (letter_cmp (v_letter a) (v_letter v)); cbn [thn]; auto.
  unfold kf_multisuf in *.
  rewrite sufs_stage; auto using wf_ver_sufs.
  - destruct (sufs_cmp (v_sufs a) (v_sufs v)); cbn [thn]; auto.
    apply rev_stage; auto using wf_ver_rev.
  - match goal with H : (1 <? length (v_sufs a))%nat = false |- _ => apply Nat.ltb_ge in H; exact H end.
  - match goal with H : (1 <? length (v_sufs v))%nat = false |- _ => apply Nat.ltb_ge in H; exact H end.
Qed.
