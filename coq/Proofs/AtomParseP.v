(* Lemmas about Model/AtomParse.v: character classes (finite checks over all 256 bytes),
   the scanning primitives, what each Take* function consumes, and totality of the atom parser. *)
From LC Require Import Lib.Bytes Lib.Fields Gen.Consts Model.AtomParse.
From Coq Require Import ZifyBool ZifyNat ZifyN.
Open Scope list_scope.
Open Scope N_scope.

(* ---- every statement about single bytes is decided by running through all of them ---- *)
Definition all_bytes : list ascii := map (fun n => nb (N.of_nat n)) (seq 0 256).
Lemma in_all_bytes c : In c all_bytes.
Proof.
  unfold all_bytes. apply in_map_iff. exists (N.to_nat (bn c)). split.
  - rewrite N2Nat.id. apply nb_bn.
  - apply in_seq. pose proof (bn_lt_256 c). lia.
Qed.
Lemma byte_forall (P : ascii -> bool) : forallb P all_bytes = true -> forall c, P c = true.
Proof. intros H c. rewrite forallb_forall in H. apply H, in_all_bytes. Qed.
Ltac bytes_check := apply byte_forall; vm_compute; reflexivity.

Lemma forallb_impl {A} (p q : A -> bool) l :
  (forall x, p x = true -> q x = true) -> forallb p l = true -> forallb q l = true.
Proof. intros H. induction l as [|x l IH]; cbn; auto. intros E. apply andb_true_iff in E as [E1 E2]. rewrite H, IH; auto. Qed.
Lemma impl_bytes (p q : ascii -> bool) : (forall c, implb (p c) (q c) = true) -> forall c, p c = true -> q c = true.
Proof. intros H c E. specialize (H c). rewrite E in H. exact H. Qed.

(* no class contains byte 0, so the end of the input (Peek = 0) stops every scanning loop *)
Lemma classes_no_nul :
  is_namever (nb 0) = false /\ is_slot_start (nb 0) = false /\ is_slot_mid (nb 0) = false /\
  is_repo_char (nb 0) = false /\ is_usedep_char (nb 0) = false /\ is_useflag_char (nb 0) = false.
Proof. vm_compute. repeat split. Qed.

(* white space is below every character the parser consumes *)
Lemma namever_not_ws : forall c, is_namever c = true -> not_ws c = true.
Proof. apply impl_bytes. bytes_check. Qed.
Lemma slot_mid_not_ws : forall c, is_slot_mid c = true -> not_ws c = true.
Proof. apply impl_bytes. bytes_check. Qed.
Lemma slot_start_not_ws : forall c, is_slot_start c = true -> not_ws c = true.
Proof. apply impl_bytes. bytes_check. Qed.
Lemma repo_char_not_ws : forall c, is_repo_char c = true -> not_ws c = true.
Proof. apply impl_bytes. bytes_check. Qed.
Lemma usedep_char_not_ws : forall c, is_usedep_char c = true -> not_ws c = true.
Proof. apply impl_bytes. bytes_check. Qed.

Lemma is_eq n c : is n c = true -> c = nb n.
Proof. unfold is. intros H. apply N.eqb_eq in H. rewrite <- H. symmetry. apply nb_bn. Qed.

(* ---- peek / span ---- *)
Lemma span_app p s : forall a b, span p s = (a, b) -> s = a ++ b.
Proof.
  induction s as [|c r IH]; cbn; intros a b E.
  - injection E as <- <-. reflexivity.
  - destruct (p c).
    + destruct (span p r) as [a' b'] eqn:E'. injection E as <- <-. cbn. f_equal. now apply IH.
    + injection E as <- <-. reflexivity.
Qed.
Lemma span_all p s : forall a b, span p s = (a, b) -> forallb p a = true.
Proof.
  induction s as [|c r IH]; cbn; intros a b E.
  - injection E as <- <-. reflexivity.
  - destruct (p c) eqn:Ec.
    + destruct (span p r) as [a' b'] eqn:E'. injection E as <- <-. cbn. rewrite Ec. cbn. eapply IH. reflexivity.
    + injection E as <- <-. reflexivity.
Qed.
Lemma span_stop p s : forall a b, span p s = (a, b) -> b = [] \/ p (peek b) = false.
Proof.
  induction s as [|c r IH]; cbn; intros a b E.
  - injection E as <- <-. now left.
  - destruct (p c) eqn:Ec.
    + destruct (span p r) as [a' b'] eqn:E'. injection E as <- <-. eapply IH. reflexivity.
    + injection E as <- <-. right. exact Ec.
Qed.
(* a run of accepted bytes followed by the end or a rejected byte is taken exactly *)
Lemma span_exact p a : forallb p a = true -> forall r, (r = [] \/ p (peek r) = false) -> span p (a ++ r) = (a, r).
Proof.
  induction a as [|c a IH]; cbn; intros Ha r Hr.
  - destruct r as [|c r]; [reflexivity|]. destruct Hr as [Hr|Hr]; [discriminate|]. cbn in *. now rewrite Hr.
  - apply andb_true_iff in Ha as [Hc Ha]. rewrite Hc. now rewrite IH.
Qed.
Lemma span_length p s a b : span p s = (a, b) -> (length b <= length s)%nat.
Proof. intros E. apply span_app in E. subst. rewrite app_length. lia. Qed.

Lemma peek_app_ne a r : a <> [] -> peek (a ++ r) = peek a.
Proof. destruct a; [congruence|reflexivity]. Qed.

(* ---- consumed ---- *)
Lemma consumed_app a r : consumed (a ++ r) r = a.
Proof.
  unfold consumed. rewrite app_length. replace (length a + length r - length r)%nat with (length a) by lia.
  rewrite firstn_app. rewrite Nat.sub_diag. cbn. rewrite app_nil_r. apply firstn_all.
Qed.

(* ---- USE dependencies: every iteration consumes input, so the fuel is never exhausted ---- *)
Lemma tl_length (s : bytes) : (length (tl s) <= length s)%nat.
Proof. destruct s; cbn; lia. Qed.
Lemma use_prefix_len s p r : use_prefix s = (p, r) -> (length r <= length s)%nat.
Proof. unfold use_prefix. destruct (_ || _); intros E; injection E as <- <-; auto using tl_length. Qed.
Lemma use_suffix_len s p r : use_suffix s = (p, r) -> (length r <= length s)%nat.
Proof. unfold use_suffix. destruct (_ || _); intros E; injection E as <- <-; auto using tl_length. Qed.
Lemma use_default_len s d r : use_default s = Some (d, r) -> (length r <= length s)%nat.
Proof.
  unfold use_default. pose proof (tl_length s). pose proof (tl_length (tl s)). pose proof (tl_length (tl (tl s))).
  destruct (_ && _); [destruct (is 43 _); [|destruct (is 45 _)]|]; intros E; try discriminate; injection E as <- <-; lia.
Qed.
Lemma span_progress p s a b : p (peek s) = true -> s <> [] -> span p s = (a, b) -> (length b < length s)%nat.
Proof.
  destruct s as [|c r]; [congruence|]. cbn. intros Hc _. rewrite Hc.
  destruct (span p r) as [a' b'] eqn:E. intros E2. injection E2 as <- <-.
  apply span_length in E. lia.
Qed.
Lemma useflag_peek_ne s : is_useflag_char (peek s) = true -> s <> [].
Proof. intros H E. subst. cbn in H. destruct classes_no_nul as (_ & _ & _ & _ & _ & H0). congruence. Qed.

Lemma parse_use1_len s d r : parse_use1 s = Some (d, r) -> (length r < length s)%nat.
Proof.
  unfold parse_use1. destruct (use_prefix s) as [prefix s1] eqn:E1.
  destruct (is_useflag_char (peek s1)) eqn:Ef; cbn [negb]; [|discriminate].
  destruct (span is_useflag_char s1) as [flag s2] eqn:E2.
  destruct (use_suffix s2) as [suffix1 s3] eqn:E3.
  destruct (use_default s3) as [[dd s4]|] eqn:E4; [|discriminate].
  destruct (if suffix1 =? 0 then use_suffix s4 else (suffix1, s4)) as [suffix s5] eqn:E5.
  destruct (use_type prefix suffix); [|discriminate]. intros E. injection E as <- <-.
  apply use_prefix_len in E1. apply span_progress in E2; auto using useflag_peek_ne.
  apply use_suffix_len in E3. apply use_default_len in E4.
  assert (length s5 <= length s4)%nat.
  { destruct (suffix1 =? 0); [now apply use_suffix_len in E5|injection E5 as <- <-; lia]. }
  lia.
Qed.

Lemma parse_use_deps_total f : forall s, (length s < f)%nat -> parse_use_deps f s <> UDiverge.
Proof.
  induction f as [|f IH]; intros s Hl; [lia|]. cbn [parse_use_deps].
  destruct (parse_use1 s) as [[dep s5]|] eqn:E1; [|discriminate].
  destruct (is 0 (peek s5)); [discriminate|]. destruct (negb (is 44 (peek s5))); [discriminate|].
  apply parse_use1_len in E1. pose proof (tl_length s5).
  specialize (IH (tl s5)). destruct (parse_use_deps f (tl s5)); try discriminate. apply IH. lia.
Qed.

Lemma use_part_total asdep s : use_part asdep s <> ADiverge'.
Proof.
  unfold use_part. destruct asdep.
  - destruct (take_usedep s) as [[inner|] r]; [|discriminate].
    pose proof (parse_use_deps_total (S (length inner)) inner ltac:(lia)).
    destruct (parse_use_deps _ inner); congruence.
  - destruct (isnil s); discriminate.
Qed.

Lemma finish_total atom bl hb relop namever slot sub slotop repo uses vnr :
  finish atom bl hb relop namever slot sub slotop repo uses vnr <> APanic /\
  finish atom bl hb relop namever slot sub slotop repo uses vnr <> ADiverge.
Proof.
  unfold finish. destruct (atom_header _ _ _) as [[[catname vt] relop']|]; [|split; discriminate].
  destruct (catname_match catname) as [[cat name]|]; [|split; discriminate].
  destruct vt as [t|].
  - destruct (version_fields _ _ _ _) as [[[b sf] rv] cv]. destruct (slot_fields _ _ _) as [[[[sl sb] slrel] anys] sames].
    split; discriminate.
  - destruct (slot_fields _ _ _) as [[[[sl sb] slrel] anys] sames]. split; discriminate.
Qed.

(* the atom parser neither crashes nor loops, whatever the bytes *)
Theorem atom_total s vnr asdep :
  fst (raw_parse_at s vnr asdep) <> APanic /\ fst (raw_parse_at s vnr asdep) <> ADiverge.
Proof.
  unfold raw_parse_at. destruct (take_prefix s) as [[[bl hb] relop] s2].
  destruct (span is_namever s2) as [namever s3]. destruct (take_slot s3) as [[[slot sub] slotop] s4].
  destruct (take_repo s4) as [repo s5]. pose proof (use_part_total asdep s5).
  destruct (use_part asdep s5) as [uses s6| |]; cbn [fst]; try (split; discriminate); [|congruence].
  apply finish_total.
Qed.

(* ---- what the atom parser consumes: no white space, and exactly the text it reports ---- *)
Definition consumes (s r : bytes) : Prop := exists a, s = a ++ r /\ forallb not_ws a = true.
Lemma consumes_refl s : consumes s s.
Proof. now exists []. Qed.
Lemma consumes_trans s r t : consumes s r -> consumes r t -> consumes s t.
Proof.
  intros (a & -> & Ha) (b & -> & Hb). exists (a ++ b). split; [now rewrite app_assoc|].
  rewrite forallb_app. now rewrite Ha, Hb.
Qed.
Lemma is_not_ws n c : is n c = true -> (32 < n) -> not_ws c = true.
Proof. unfold is, not_ws, is_ws. intros H Hn. apply N.eqb_eq in H. rewrite H. apply negb_true_iff. apply N.leb_gt. exact Hn. Qed.
Lemma consumes_tl s : (s = [] \/ not_ws (peek s) = true) -> consumes s (tl s).
Proof.
  destruct s as [|c r]; intros H; [apply consumes_refl|]. destruct H as [H|H]; [discriminate|].
  exists [c]. split; [reflexivity|]. cbn in *. now rewrite H.
Qed.
Lemma consumes_tl_is n s : is n (peek s) = true -> 32 < n -> consumes s (tl s).
Proof. intros H Hn. apply consumes_tl. right. eapply is_not_ws; eauto. Qed.
Lemma consumes_span p s a b : (forall c, p c = true -> not_ws c = true) -> span p s = (a, b) -> consumes s b.
Proof.
  intros Hp E. exists a. split; [now apply span_app in E|].
  apply span_all in E. eapply forallb_impl; eauto.
Qed.
Lemma consumes_length s r : consumes s r -> (length r <= length s)%nat.
Proof. intros (a & -> & _). rewrite app_length. lia. Qed.
Lemma consumes_consumed s r : consumes s r -> s = consumed s r ++ r /\ forallb not_ws (consumed s r) = true.
Proof. intros (a & -> & Ha). now rewrite consumed_app. Qed.

Lemma take_prefix_spec s bl hb relop s2 : take_prefix s = (bl, hb, relop, s2) ->
  consumes s s2 /\ bl = is 33 (peek s) /\ hb = (is 33 (peek s) && is 33 (peek1 s)).
Proof.
  unfold take_prefix. destruct (take_block s) as [[bl' hb'] s1] eqn:E1. unfold take_block in E1.
  destruct (take_op s1) as [relop' s2'] eqn:E2. unfold take_op in E2. intros E. injection E as <- <- <- <-. revert E2.
  assert (H1 : consumes s s1 /\ bl' = is 33 (peek s) /\ hb' = (is 33 (peek s) && is 33 (peek1 s))).
  { destruct (is 33 (peek s)) eqn:Ea.
    - assert (consumes s (tl s)) by (eapply consumes_tl_is; eauto; lia).
      destruct (is 33 (peek1 s)) eqn:Eb; injection E1 as <- <- <-; repeat split; auto.
      eapply consumes_trans; eauto. apply (consumes_tl_is 33); [|lia].
      destruct s as [|x [|y r]]; cbn in *; auto.
    - injection E1 as <- <- <-. repeat split. apply consumes_refl. }
  destruct H1 as (Hc & -> & ->).
  assert (Ht : forall n, is n (peek s1) = true -> 32 < n -> consumes s (tl s1)).
  { intros n Hn Hl. eapply consumes_trans; eauto. eapply consumes_tl_is; eauto. }
  assert (Htt : forall n m, is n (peek s1) = true -> 32 < n -> is m (peek1 s1) = true -> 32 < m -> consumes s (tl (tl s1))).
  { intros n m Hn Hl Hm Hlm. eapply consumes_trans; [eapply Ht; eauto|]. apply (consumes_tl_is m); auto.
    destruct s1 as [|x [|y r]]; cbn in *; auto. }
  destruct (is 126 (peek s1)) eqn:E126.
  { intros E. injection E as <- <-. repeat split. eapply Ht; eauto. lia. }
  destruct (is 61 (peek s1)) eqn:E61.
  { intros E. injection E as <- <-. repeat split. eapply Ht; eauto. lia. }
  destruct (is 60 (peek s1)) eqn:E60.
  { destruct (is 61 (peek1 s1)) eqn:E61'; intros E; injection E as <- <-; repeat split.
    - eapply (Htt 60 61); eauto; lia. - eapply Ht; eauto; lia. }
  destruct (is 62 (peek s1)) eqn:E62.
  { destruct (is 61 (peek1 s1)) eqn:E61'; intros E; injection E as <- <-; repeat split.
    - eapply (Htt 62 61); eauto; lia. - eapply Ht; eauto; lia. }
  intros E; injection E as <- <-. repeat split. exact Hc.
Qed.

Lemma slot_op_consumes slot sub r a b c d : slot_op slot sub r = (a, b, c, d) -> consumes r d.
Proof.
  unfold slot_op. destruct (is 42 (peek r)) eqn:E1; cbn [orb].
  - intros E. injection E as <- <- <- <-. eapply consumes_tl_is; eauto. lia.
  - destruct (is 61 (peek r)) eqn:E2; intros E; injection E as <- <- <- <-.
    + eapply consumes_tl_is; eauto. lia. + apply consumes_refl.
Qed.

Lemma take_slot_consumes s slot sub op r : take_slot s = (slot, sub, op, r) -> consumes s r.
Proof.
  unfold take_slot.
  destruct (is 58 (peek s)) eqn:E0; cbn [negb orb]; [|intros E; injection E as <- <- <- <-; apply consumes_refl].
  destruct (is 58 (peek1 s)) eqn:E00; [intros E; injection E as <- <- <- <-; apply consumes_refl|].
  assert (H1 : consumes s (tl s)) by (eapply consumes_tl_is; eauto; lia).
  set (s1 := tl s) in *.
  assert (Hstep : forall x, is_slot_start (peek x) = true -> forall w y, span is_slot_mid (tl x) = (w, y) -> consumes x y).
  { intros x Hx w y E. eapply consumes_trans; [apply consumes_tl; right; now apply slot_start_not_ws|].
    eapply (consumes_span is_slot_mid); [apply slot_mid_not_ws|exact E]. }
  assert (Hsl : forall x, is 47 (peek x) = true -> consumes x (tl x)) by (intros; eapply consumes_tl_is; eauto; lia).
  destruct (is_slot_start (peek s1)) eqn:Es1; cbn [negb].
  2:{ intros E. apply slot_op_consumes in E. eapply consumes_trans; eauto. }
  destruct (span is_slot_mid (tl s1)) as [w1 r1] eqn:Ew1.
  assert (H2 : consumes s r1) by (eapply consumes_trans; eauto).
  destruct (is 47 (peek r1)) eqn:Er1; cbn [negb].
  2:{ intros E. apply slot_op_consumes in E. eapply consumes_trans; eauto. }
  assert (H3 : consumes s (tl r1)) by (eapply consumes_trans; eauto).
  destruct (is_slot_start (peek (tl r1))) eqn:Es2; cbn [negb].
  2:{ intros E. apply slot_op_consumes in E. eapply consumes_trans; eauto. }
  destruct (span is_slot_mid (tl (tl r1))) as [w2 r2] eqn:Ew2.
  assert (H4 : consumes s r2) by (eapply consumes_trans; eauto).
  destruct (is 47 (peek r2)) eqn:Er2; cbn [negb].
  2:{ intros E. apply slot_op_consumes in E. eapply consumes_trans; eauto. }
  assert (H5 : consumes s (tl r2)) by (eapply consumes_trans; eauto).
  destruct (is_slot_start (peek (tl r2))) eqn:Es3; cbn [negb].
  2:{ intros E. apply slot_op_consumes in E. eapply consumes_trans; eauto. }
  destruct (span is_slot_mid (tl (tl r2))) as [w3 r3] eqn:Ew3.
  intros E. apply slot_op_consumes in E. eapply consumes_trans; [|eauto]. eapply consumes_trans; eauto.
Qed.

Lemma take_repo_consumes s repo r : take_repo s = (repo, r) -> consumes s r.
Proof.
  unfold take_repo. destruct (is 58 (peek s)) eqn:E1; cbn [andb]; [|intros E; injection E as <- <-; apply consumes_refl].
  destruct (is 58 (peek1 s)) eqn:E2; [|intros E; injection E as <- <-; apply consumes_refl].
  assert (H : consumes s (tl (tl s))).
  { eapply consumes_trans; [eapply consumes_tl_is; eauto; lia|]. apply (consumes_tl_is 58); [|lia].
    destruct s as [|x [|y r']]; cbn in *; auto. }
  destruct (_ || _).
  - intros E; injection E as <- <-. exact H.
  - intros E. eapply consumes_trans; eauto. eapply (consumes_span is_repo_char); [apply repo_char_not_ws|exact E].
Qed.

Lemma take_usedep_consumes s o r : take_usedep s = (o, r) -> consumes s r.
Proof.
  unfold take_usedep. destruct (is 91 (peek s)) eqn:E1; [|intros E; injection E as <- <-; apply consumes_refl].
  destruct (span is_usedep_char (tl s)) as [inner r'] eqn:E2.
  destruct (is 93 (peek r')) eqn:E3; cbn [andb]; [|intros E; injection E as <- <-; apply consumes_refl].
  destruct (negb (isnil inner)); intros E; injection E as <- <-; [|apply consumes_refl].
  eapply consumes_trans; [eapply consumes_tl_is; eauto; lia|].
  eapply consumes_trans; [eapply (consumes_span is_usedep_char); [apply usedep_char_not_ws|exact E2]|].
  eapply consumes_tl_is; eauto; lia.
Qed.

Lemma use_part_consumes asdep s uses r : use_part asdep s = AOk' uses r -> consumes s r.
Proof.
  unfold use_part. destruct asdep.
  - destruct (take_usedep s) as [[inner|] r'] eqn:E.
    + destruct (parse_use_deps _ inner); try discriminate. intros E2. injection E2 as <- <-.
      eapply take_usedep_consumes; eauto.
    + intros E2. injection E2 as <- <-. eapply take_usedep_consumes; eauto.
  - destruct (isnil s); [|discriminate]. intros E; injection E as <- <-. apply consumes_refl.
Qed.

Lemma finish_ok atom bl hb relop namever slot sub slotop repo uses vnr p :
  finish atom bl hb relop namever slot sub slotop repo uses vnr = AOk p ->
  namever <> [] /\ p_atom p = atom /\ p_blocker p = bl /\ p_hardblock p = hb.
Proof.
  unfold finish. destruct (atom_header _ _ _) as [[[catname vt] relop']|] eqn:Eh; [|discriminate].
  destruct (catname_match catname) as [[cat name]|] eqn:Ec; [|discriminate].
  assert (Hn : namever <> []).
  { intros ->. unfold atom_header in Eh. cbn in Eh. destruct (relop =? R_none); [|discriminate].
    injection Eh as <- <- <-. cbn in Ec. discriminate. }
  destruct vt as [t|].
  - destruct (version_fields _ _ _ _) as [[[b sf] rv] cv]. destruct (slot_fields _ _ _) as [[[[sl sb] slrel] anys] sames].
    intros E. injection E as <-. cbn. auto.
  - destruct (slot_fields _ _ _) as [[[[sl sb] slrel] anys] sames]. intros E. injection E as <-. cbn. auto.
Qed.

(* an accepted atom is exactly the text that was consumed: non-empty, free of white space,
   with the blocker strength that was written; parsing a whole string leaves nothing over *)
Theorem raw_parse_ok s vnr asdep p r : raw_parse_at s vnr asdep = (AOk p, r) ->
  s = p_atom p ++ r /\ p_atom p <> [] /\ forallb not_ws (p_atom p) = true /\
  p_blocker p = is 33 (peek s) /\ p_hardblock p = (is 33 (peek s) && is 33 (peek1 s)) /\
  (asdep = false -> r = []).
Proof.
  unfold raw_parse_at. destruct (take_prefix s) as [[[bl hb] relop] s2] eqn:E1.
  destruct (span is_namever s2) as [namever s3] eqn:E2. destruct (take_slot s3) as [[[slot sub] slotop] s4] eqn:E3.
  destruct (take_repo s4) as [repo s5] eqn:E4.
  destruct (use_part asdep s5) as [uses s6| |] eqn:E5; try discriminate.
  intros E. injection E as E <-. apply finish_ok in E as (Hn & Ha & Hb & Hh).
  apply take_prefix_spec in E1 as (C1 & -> & ->).
  pose proof (consumes_span is_namever _ _ _ namever_not_ws E2) as C2.
  apply take_slot_consumes in E3. apply take_repo_consumes in E4.
  pose proof (use_part_consumes _ _ _ _ E5) as C5.
  assert (C : consumes s s6) by (repeat (eapply consumes_trans; eauto)).
  apply consumes_consumed in C as [Cs Cw]. rewrite Ha. repeat split; auto.
  - intros Hc. apply span_app in E2.
    assert (consumes s2 s6) by (repeat (eapply consumes_trans; eauto)).
    destruct C1 as (a1 & Hs & _). destruct H as (a2 & Hs2 & _).
    assert (length (consumed s s6) = 0)%nat by (rewrite Hc; reflexivity).
    unfold consumed in H. rewrite firstn_length in H.
    assert (length s6 < length s)%nat; [|lia].
    rewrite Hs, app_length. assert (length s6 < length s2)%nat; [|lia].
    apply consumes_length in C5, E3, E4. rewrite E2, app_length. destruct namever; [congruence|cbn; lia].
  - intros ->. unfold use_part in E5. destruct (isnil s5) eqn:Es; [|discriminate]. injection E5 as _ <-.
    destruct s5; [reflexivity|discriminate].
Qed.
