(* atom_roundtrip: the atom parser, run on the printed form of any well-formed PMS atom,
   returns exactly the denotation of that atom -- piece by piece, then assembled. *)
From LC Require Import Lib.Bytes Lib.Fields Gen.Consts Model.AtomParse Model.DepParse Model.PMSGrammar
  Proofs.AtomParseP Proofs.VersionP.
From Coq Require Import ZifyBool ZifyNat ZifyN.
Open Scope list_scope.
Open Scope N_scope.

(* ---- blocker and operator ---- *)
Definition plain (c : ascii) : bool :=
  negb (is 33 c) && negb (is 126 c) && negb (is 61 c) && negb (is 60 c) && negb (is 62 c).
Lemma plain_facts c : plain c = true ->
  is 33 c = false /\ is 126 c = false /\ is 61 c = false /\ is 60 c = false /\ is 62 c = false.
Proof. unfold plain. intros H. repeat (apply andb_true_iff in H as [H ?]). repeat split; now apply negb_true_iff. Qed.

Lemma take_block_print b rest : b <= 2 -> is 33 (peek rest) = false ->
  take_block (print_block b ++ rest) = (1 <=? b, 2 <=? b, rest).
Proof.
  intros Hb Hr. assert (Hc : b = 0 \/ b = 1 \/ b = 2) by lia. unfold take_block.
  destruct Hc as [ -> | [ -> | -> ] ]; cbn [print_block N.eqb Pos.eqb app].
  - rewrite Hr. reflexivity.
  - change (peek (nb 33 :: rest)) with (nb 33). change (peek1 (nb 33 :: rest)) with (peek rest).
    replace (is 33 (nb 33)) with true by reflexivity. rewrite Hr. reflexivity.
  - change (peek (nb 33 :: nb 33 :: rest)) with (nb 33). change (peek1 (nb 33 :: nb 33 :: rest)) with (nb 33).
    replace (is 33 (nb 33)) with true by reflexivity. reflexivity.
Qed.

Lemma take_op_print o rest : o <= 6 -> plain (peek rest) = true -> take_op (print_op o ++ rest) = (o, rest).
Proof.
  intros Ho Hr. apply plain_facts in Hr as (H33 & H126 & H61 & H60 & H62).
  assert (Hc : o = 0 \/ o = 1 \/ o = 2 \/ o = 3 \/ o = 4 \/ o = 5 \/ o = 6) by lia. unfold take_op.
  destruct Hc as [ -> | [ -> | [ -> | [ -> | [ -> | [ -> | -> ] ] ] ] ] ]; cbn [print_op N.eqb Pos.eqb app].
  - rewrite H126, H61, H60, H62. reflexivity.
  - change (peek (nb 60 :: rest)) with (nb 60). change (peek1 (nb 60 :: rest)) with (peek rest). rewrite H61. reflexivity.
  - change (peek (nb 60 :: nb 61 :: rest)) with (nb 60). reflexivity.
  - change (peek (nb 61 :: rest)) with (nb 61). reflexivity.
  - change (peek (nb 62 :: nb 61 :: rest)) with (nb 62). reflexivity.
  - change (peek (nb 62 :: rest)) with (nb 62). change (peek1 (nb 62 :: rest)) with (peek rest). rewrite H61. reflexivity.
  - change (peek (nb 126 :: rest)) with (nb 126). reflexivity.
Qed.

Lemma print_op_head o rest : o <= 6 -> is 33 (peek rest) = false -> is 33 (peek (print_op o ++ rest)) = false.
Proof.
  intros Ho Hr. assert (Hc : o = 0 \/ o = 1 \/ o = 2 \/ o = 3 \/ o = 4 \/ o = 5 \/ o = 6) by lia.
  destruct Hc as [ -> | [ -> | [ -> | [ -> | [ -> | [ -> | -> ] ] ] ] ] ]; cbn [print_op N.eqb Pos.eqb app]; auto.
Qed.

Lemma take_prefix_print b o rest : b <= 2 -> o <= 6 -> plain (peek rest) = true ->
  take_prefix (print_block b ++ print_op o ++ rest) = (1 <=? b, 2 <=? b, o, rest).
Proof.
  intros Hb Ho Hr. unfold take_prefix. rewrite take_block_print; auto.
  - now rewrite take_op_print.
  - apply print_op_head; auto. now apply plain_facts in Hr as (H & _).
Qed.

(* ---- character classes of the reference grammar against those of the scanner ---- *)
Definition name_head (c : ascii) : bool := alnum c || is 95 c.
Lemma name_head_plain : forall c, name_head c = true -> plain c = true.
Proof. apply impl_bytes. bytes_check. Qed.
Lemma pkg_char_namever : forall c, pkg_char c = true -> is_namever c = true.
Proof. apply impl_bytes. bytes_check. Qed.
Lemma cat_char_namever : forall c, (pkg_char c || is 46 c) = true -> is_namever c = true.
Proof. apply impl_bytes. bytes_check. Qed.
Lemma ver_char_namever : forall c, ver_char c = true -> is_namever c = true.
Proof. apply impl_bytes. bytes_check. Qed.

(* what may follow the name-and-version text: ":" (slot or repository), "[" (USE
   dependencies), white space or the end *)
Definition stop_char (c : ascii) : bool := is 58 c || is 91 c || is_ws c.
Definition stops (r : bytes) : Prop := r = [] \/ stop_char (peek r) = true.
Lemma stop_not_namever : forall c, stop_char c = true -> is_namever c = false.
Proof. apply impl_bytes_neg. bytes_check. Qed.
Lemma stops_span p r : (forall c, stop_char c = true -> p c = false) -> stops r -> r = [] \/ p (peek r) = false.
Proof. intros Hp [ -> | H ]; [now left|right; now apply Hp]. Qed.

(* ---- slot ---- *)
Definition slot_follow (t : bytes) : Prop :=
  t = [] \/ is 91 (peek t) = true \/ is_ws (peek t) = true \/ (is 58 (peek t) = true /\ is 58 (peek1 t) = true).
Definition slot_stop (c : ascii) : bool := is 91 c || is_ws c || is 58 c || is 0 c.
Lemma slot_follow_stop t : slot_follow t -> slot_stop (peek t) = true.
Proof.
  unfold slot_stop. intros [ -> | [ H | [ H | [ H _ ] ] ] ]; [reflexivity| | |]; rewrite H; cbn; rewrite ?orb_true_r; reflexivity.
Qed.
Lemma slot_stop_facts : forall c, slot_stop c = true ->
  is 47 c = false /\ is 42 c = false /\ is 61 c = false /\ is_slot_mid c = false /\ is_slot_start c = false /\
  is_repo_char c = false.
Proof.
  intros c H. repeat split; revert c H; apply impl_bytes_neg; bytes_check.
Qed.
Lemma slot_follow_none t : slot_follow t -> negb (is 58 (peek t)) || is 58 (peek1 t) = true.
Proof.
  assert (H91 : forall c, is 91 c = true -> is 58 c = false) by (apply impl_bytes_neg; bytes_check).
  assert (Hws : forall c, is_ws c = true -> is 58 c = false) by (apply impl_bytes_neg; bytes_check).
  intros [ -> | [ H | [ H | [ H1 H2 ] ] ] ]; [reflexivity| | |].
  - now rewrite (H91 _ H). - now rewrite (Hws _ H). - rewrite H2. apply orb_true_r.
Qed.

Lemma slotname_shape n : wf_slotname n = true ->
  exists c w, n = c :: w /\ is_slot_start c = true /\ forallb is_slot_mid w = true /\ is 58 c = false.
Proof.
  unfold wf_slotname, wf_cat. intros H. apply andb_true_iff in H as [H1 H2]. destruct n as [|c w]; [discriminate|].
  exists c, w. split; [reflexivity|]. cbn [forallb] in H2. apply andb_true_iff in H2 as [_ H2].
  assert (Ha : forall c, name_head c = true -> is_slot_start c = true) by (apply impl_bytes; bytes_check).
  assert (Hb : forall c, (pkg_char c || is 46 c) = true -> is_slot_mid c = true) by (apply impl_bytes; bytes_check).
  assert (Hc : forall c, name_head c = true -> is 58 c = false) by (apply impl_bytes_neg; bytes_check).
  repeat split; auto. eapply forallb_impl; [|exact H2]. exact Hb.
Qed.

Definition slot_txt (s : slot_ast) : bytes := match s with SSlot sl _ _ => sl | _ => [] end.
Definition sub_txt (s : slot_ast) : bytes := match s with SSlot _ (Some b) _ => b | _ => [] end.
Definition slotop_txt (s : slot_ast) : bytes :=
  match s with SAny => [nb 42] | SSame => [nb 61] | SSlot _ _ true => [nb 61] | _ => [] end.

Lemma slot_op_follow slot sub (eq : bool) t : slot_follow t ->
  slot_op slot sub ((if eq then [nb 61] else []) ++ t) = (slot, sub, if eq then [nb 61] else [], t).
Proof.
  intros Ht. destruct (slot_stop_facts _ (slot_follow_stop _ Ht)) as (_ & H42 & H61 & _).
  unfold slot_op. destruct eq; cbn [app].
  - reflexivity.
  - rewrite H42, H61. reflexivity.
Qed.

Lemma eq_follow_facts (eq : bool) t : slot_follow t ->
  let x := (if eq then [nb 61] else []) ++ t in
  (x = [] \/ is_slot_mid (peek x) = false) /\ is 47 (peek x) = false.
Proof.
  intros Ht. destruct (slot_stop_facts _ (slot_follow_stop _ Ht)) as (H47 & _ & _ & Hm & _).
  destruct eq; cbn [app]; [split; [right|]; reflexivity|]. split; [right|]; assumption.
Qed.

Lemma take_slot_print sl t : wf_slot sl = true -> slot_follow t ->
  take_slot (print_slot sl ++ t) = (slot_txt sl, sub_txt sl, slotop_txt sl, t).
Proof.
  intros Hwf Ht. destruct sl as [| | |s sub eq]; cbn [print_slot slot_txt sub_txt slotop_txt app].
  - unfold take_slot. now rewrite (slot_follow_none t Ht).
  - reflexivity.
  - reflexivity.
  - cbn [wf_slot] in Hwf. apply andb_true_iff in Hwf as [Hs Hsub].
    apply slotname_shape in Hs as (c & w & -> & Hc & Hw & Hc58).
    unfold take_slot. rewrite <- !app_assoc.
    change (peek (nb 58 :: (c :: w) ++ _)) with (nb 58). replace (is 58 (nb 58)) with true by reflexivity.
    cbn [negb orb]. cbn [app peek1 tl peek]. rewrite Hc58, Hc. cbn [negb].
    destruct (eq_follow_facts eq t Ht) as [Hx1 Hx2].
    destruct sub as [b|].
    + apply slotname_shape in Hsub as (c2 & w2 & -> & Hc2 & Hw2 & _).
      rewrite (span_exact is_slot_mid w Hw) by (right; reflexivity).
      replace (is 47 (peek (nb 47 :: (c2 :: w2) ++ (if eq then [nb 61] else []) ++ t))) with true by reflexivity.
      cbn [negb tl app peek]. rewrite Hc2. cbn [negb]. rewrite (span_exact is_slot_mid w2 Hw2) by exact Hx1.
      rewrite Hx2. cbn [negb]. rewrite slot_op_follow by assumption. destruct eq; reflexivity.
    + cbn [app]. rewrite (span_exact is_slot_mid w Hw) by exact Hx1. rewrite Hx2. cbn [negb].
      rewrite slot_op_follow by assumption. destruct eq; reflexivity.
Qed.

(* ---- repository ---- *)
Definition use_follow (u : bytes) : Prop := u = [] \/ is 91 (peek u) = true \/ is_ws (peek u) = true.
Lemma use_follow_stop u : use_follow u -> slot_stop (peek u) = true.
Proof. unfold slot_stop. intros [ -> | [ H | H ] ]; [reflexivity| |]; rewrite H; cbn; rewrite ?orb_true_r; reflexivity. Qed.
Lemma use_follow_no_colon u : use_follow u -> is 58 (peek u) = false.
Proof.
  assert (H91 : forall c, is 91 c = true -> is 58 c = false) by (apply impl_bytes_neg; bytes_check).
  assert (Hws : forall c, is_ws c = true -> is 58 c = false) by (apply impl_bytes_neg; bytes_check).
  intros [ -> | [ H | H ] ]; auto.
Qed.
Definition repo_txt (r : option bytes) : bytes := match r with Some x => x | None => [] end.

Lemma name_shape n : wf_name n = true ->
  exists c w, n = c :: w /\ name_head c = true /\ forallb pkg_char (c :: w) = true.
Proof.
  unfold wf_name. intros H. apply andb_true_iff in H as [H _]. apply andb_true_iff in H as [H1 H2].
  destruct n as [|c w]; [discriminate|]. exists c, w. auto.
Qed.

Lemma take_repo_print rp u : match rp with Some x => wf_repo x = true | None => True end -> use_follow u ->
  take_repo (print_repo rp ++ u) = (repo_txt rp, u).
Proof.
  intros Hwf Hu. unfold take_repo. destruct rp as [x|]; cbn [print_repo repo_txt app].
  - unfold wf_repo in Hwf. apply andb_true_iff in Hwf as [Hch Hn]. apply name_shape in Hn as (c & w & -> & Hc & _).
    change (peek (nb 58 :: nb 58 :: (c :: w) ++ u)) with (nb 58). change (peek1 (nb 58 :: nb 58 :: (c :: w) ++ u)) with (nb 58).
    replace (is 58 (nb 58) && is 58 (nb 58)) with true by reflexivity. cbn [tl app peek].
    assert (Ha : forall c, name_head c = true -> is_repo_char c = true /\ is 45 c = false).
    { intros c0 H0. split; revert c0 H0; [apply impl_bytes|apply impl_bytes_neg]; bytes_check. }
    destruct (Ha c Hc) as [-> ->]. cbn [negb orb]. change (c :: w ++ u) with ((c :: w) ++ u).
    rewrite span_exact; [reflexivity| |].
    + eapply forallb_impl; [|exact Hch]. apply impl_bytes. bytes_check.
    + right. now destruct (slot_stop_facts _ (use_follow_stop _ Hu)) as (_ & _ & _ & _ & _ & H).
  - now rewrite (use_follow_no_colon u Hu).
Qed.

(* ---- USE dependencies ---- *)
Definition sep_follow (r : bytes) : Prop := r = [] \/ is 44 (peek r) = true.
Definition sep_stop (c : ascii) : bool := is 44 c || is 0 c.
Lemma sep_follow_stop r : sep_follow r -> sep_stop (peek r) = true.
Proof. unfold sep_stop. intros [ -> | H ]; [reflexivity|]. now rewrite H. Qed.
Lemma sep_stop_facts : forall c, sep_stop c = true ->
  is 61 c = false /\ is 63 c = false /\ is 40 c = false /\ is_useflag_char c = false.
Proof. intros c H. repeat split; revert c H; apply impl_bytes_neg; bytes_check. Qed.

Definition ptxt (p : N) : bytes := if p =? 0 then [] else [nb p].
Definition dtxt (d : N) : bytes := if d =? 1 then bs "(+)" else if d =? 2 then bs "(-)" else [].

Lemma use_prefix_print p x : p = 0 \/ p = 33 \/ p = 45 ->
  (p = 0 -> is 33 (peek x) = false /\ is 45 (peek x) = false) -> use_prefix (ptxt p ++ x) = (p, x).
Proof.
  intros [ -> | [ -> | -> ] ] H; unfold use_prefix, ptxt; cbn [N.eqb Pos.eqb app]; try reflexivity.
  destruct (H eq_refl) as [-> ->]. reflexivity.
Qed.
Lemma use_suffix_print s x : s = 0 \/ s = 61 \/ s = 63 ->
  (s = 0 -> is 61 (peek x) = false /\ is 63 (peek x) = false) -> use_suffix (ptxt s ++ x) = (s, x).
Proof.
  intros [ -> | [ -> | -> ] ] H; unfold use_suffix, ptxt; cbn [N.eqb Pos.eqb app]; try reflexivity.
  destruct (H eq_refl) as [-> ->]. reflexivity.
Qed.
Lemma use_default_print d x : d <= 2 -> (d = 0 -> is 40 (peek x) = false) -> use_default (dtxt d ++ x) = Some (d, x).
Proof.
  intros Hd H. assert (Hc : d = 0 \/ d = 1 \/ d = 2) by lia.
  destruct Hc as [ -> | [ -> | -> ] ]; unfold use_default, dtxt; cbn [N.eqb Pos.eqb app]; try reflexivity.
  rewrite (H eq_refl). reflexivity.
Qed.

Lemma use_kind_cases u k : use_kind u = Some k ->
  (ua_prefix u = 0 \/ ua_prefix u = 33 \/ ua_prefix u = 45) /\
  (ua_suffix u = 0 \/ ua_suffix u = 61 \/ ua_suffix u = 63) /\
  use_type (ua_prefix u) (ua_suffix u) = Some k.
Proof.
  unfold use_kind. destruct u as [p fl d s]. cbn [ua_prefix ua_suffix].
  destruct ((p =? 0) && (s =? 0)) eqn:E1. { apply andb_true_iff in E1 as [A B]. apply N.eqb_eq in A, B. subst. intros E. injection E as <-. repeat split; auto. }
  destruct ((p =? 0) && (s =? 61)) eqn:E2. { apply andb_true_iff in E2 as [A B]. apply N.eqb_eq in A, B. subst. intros E. injection E as <-. repeat split; auto. }
  destruct ((p =? 33) && (s =? 61)) eqn:E3. { apply andb_true_iff in E3 as [A B]. apply N.eqb_eq in A, B. subst. intros E. injection E as <-. repeat split; auto. }
  destruct ((p =? 0) && (s =? 63)) eqn:E4. { apply andb_true_iff in E4 as [A B]. apply N.eqb_eq in A, B. subst. intros E. injection E as <-. repeat split; auto. }
  destruct ((p =? 33) && (s =? 63)) eqn:E5. { apply andb_true_iff in E5 as [A B]. apply N.eqb_eq in A, B. subst. intros E. injection E as <-. repeat split; auto. }
  destruct ((p =? 45) && (s =? 0)) eqn:E6. { apply andb_true_iff in E6 as [A B]. apply N.eqb_eq in A, B. subst. intros E. injection E as <-. repeat split; auto. }
  discriminate.
Qed.

Lemma print_use1_eq u : print_use1 u = ptxt (ua_prefix u) ++ ua_flag u ++ dtxt (ua_default u) ++ ptxt (ua_suffix u).
Proof. reflexivity. Qed.

Lemma flag_shape f : wf_flag f = true ->
  exists c w, f = c :: w /\ alnum c = true /\ forallb is_useflag_char (c :: w) = true.
Proof.
  unfold wf_flag. intros H. apply andb_true_iff in H as [H1 H2]. destruct f as [|c w]; [discriminate|].
  exists c, w. repeat split; auto. eapply forallb_impl; [|exact H2]. apply impl_bytes. bytes_check.
Qed.

Lemma n12 d : d <= 2 -> d <> 0 -> d = 1 \/ d = 2.
Proof. lia. Qed.
Lemma le02 : 0 <= 2.
Proof. lia. Qed.

Lemma dtxt_head d x : d <= 2 -> d <> 0 -> is 40 (peek (dtxt d ++ x)) = true.
Proof. intros Hd Hn. assert (Hc : d = 1 \/ d = 2) by lia. destruct Hc as [ -> | -> ]; reflexivity. Qed.

Lemma parse_use1_print u r : wf_use u = true -> sep_follow r ->
  parse_use1 (print_use1 u ++ r) = Some (denote_use u, r).
Proof.
  intros Hwf Hr. unfold wf_use in Hwf. apply andb_true_iff in Hwf as [Hwf Hk]. apply andb_true_iff in Hwf as [Hf Hd].
  destruct (use_kind u) as [k|] eqn:Ek; [|discriminate]. pose proof (use_kind_cases _ _ Ek) as (Hp & Hs & Ht).
  apply N.leb_le in Hd. apply flag_shape in Hf as (c & w & Hfl & Hc & Hfw).
  destruct (sep_stop_facts _ (sep_follow_stop _ Hr)) as (R61 & R63 & R40 & Rf).
  assert (Hal : forall c, alnum c = true -> is 33 c = false /\ is 45 c = false /\ is_useflag_char c = true).
  { intros c0 H0. repeat split; revert c0 H0; [apply impl_bytes_neg|apply impl_bytes_neg|apply impl_bytes]; bytes_check. }
  destruct (Hal c Hc) as (C33 & C45 & Cf).
  rewrite print_use1_eq. unfold denote_use. rewrite Ek. unfold parse_use1. rewrite <- !app_assoc.
  rewrite use_prefix_print; [|exact Hp|intros _; rewrite Hfl; cbn; auto].
  rewrite Hfl at 1. cbn [app peek]. rewrite Cf. cbn [negb].
  (* the text after the flag: default, suffix, rest *)
  set (d := ua_default u) in *. set (s := ua_suffix u) in *.
  assert (Hstop : let x := dtxt d ++ ptxt s ++ r in x = [] \/ is_useflag_char (peek x) = false).
  { destruct (N.eq_dec d 0) as [Hd0|Hd0].
    - rewrite Hd0. cbn [dtxt N.eqb app]. destruct Hs as [ -> | [ -> | -> ] ]; cbn [ptxt N.eqb Pos.eqb app]; [|right; reflexivity|right; reflexivity].
      destruct r; [now left|right; exact Rf].
    - right. destruct (n12 d Hd Hd0) as [ -> | -> ]; reflexivity. }
  change (c :: w ++ dtxt d ++ ptxt s ++ r) with ((c :: w) ++ dtxt d ++ ptxt s ++ r). rewrite <- Hfl in *.
  rewrite (span_exact is_useflag_char (ua_flag u)); [|exact Hfw|exact Hstop].
  destruct (N.eq_dec d 0) as [Hd0|Hd0].
  - rewrite Hd0. cbn [dtxt N.eqb app].
    rewrite use_suffix_print; [|exact Hs|intros _; auto].
    change r with (dtxt 0 ++ r) at 1. rewrite use_default_print; [|exact le02|intros _; exact R40].
    destruct (s =? 0) eqn:Es0.
    + apply N.eqb_eq in Es0. rewrite Es0 in *. change r with (ptxt 0 ++ r) at 1.
      rewrite use_suffix_print; [|auto|intros _; auto]. rewrite Ht. reflexivity.
    + rewrite Ht. reflexivity.
  - assert (E1 : use_suffix (dtxt d ++ ptxt s ++ r) = (0, dtxt d ++ ptxt s ++ r)).
    { destruct (n12 d Hd Hd0) as [ -> | -> ]; reflexivity. }
    rewrite E1. rewrite use_default_print; [|exact Hd|congruence]. cbn [N.eqb].
    rewrite use_suffix_print; [|exact Hs|intros _; auto]. rewrite Ht. reflexivity.
Qed.

Lemma join_cons2 sep (x y : bytes) r : join sep (x :: y :: r) = x ++ sep :: join sep (y :: r).
Proof. reflexivity. Qed.

Lemma parse_use_deps_print us : us <> [] -> Forall (fun u => wf_use u = true) us -> forall f, (length us <= f)%nat ->
  parse_use_deps f (join (nb 44) (map print_use1 us)) = UOk (map denote_use us).
Proof.
  induction us as [|u us IH]; [congruence|]. intros _ HF f Hf. inversion HF as [|? ? Hu HF']; subst.
  destruct f as [|f]; [cbn in Hf; lia|]. cbn [parse_use_deps]. destruct us as [|u2 us].
  - cbn [map join]. rewrite <- (app_nil_r (print_use1 u)). rewrite parse_use1_print; [|assumption|now left]. reflexivity.
  - cbn [map]. rewrite join_cons2. rewrite parse_use1_print; [|assumption|right; reflexivity].
    cbn [peek tl]. replace (is 0 (nb 44)) with false by reflexivity. replace (negb (is 44 (nb 44))) with false by reflexivity.
    change (print_use1 u2 :: map print_use1 us) with (map print_use1 (u2 :: us)).
    rewrite IH; [reflexivity|discriminate|assumption|cbn in *; lia].
Qed.

Lemma use1_chars u : wf_use u = true -> forallb is_usedep_char (print_use1 u) = true /\ print_use1 u <> [].
Proof.
  intros Hwf. unfold wf_use in Hwf. apply andb_true_iff in Hwf as [Hwf Hk]. apply andb_true_iff in Hwf as [Hf Hd].
  destruct (use_kind u) as [k|] eqn:Ek; [|discriminate]. apply use_kind_cases in Ek as (Hp & Hs & _).
  apply N.leb_le in Hd. apply flag_shape in Hf as (c & w & Hfl & _ & Hfw). rewrite print_use1_eq. split.
  - repeat apply forallb_app_intro.
    + destruct Hp as [ -> | [ -> | -> ] ]; reflexivity.
    + rewrite Hfl. eapply forallb_impl; [|exact Hfw]. apply impl_bytes. bytes_check.
    + assert (Hc : ua_default u = 0 \/ ua_default u = 1 \/ ua_default u = 2) by lia. destruct Hc as [ -> | [ -> | -> ] ]; reflexivity.
    + destruct Hs as [ -> | [ -> | -> ] ]; reflexivity.
  - rewrite Hfl. destruct (ptxt (ua_prefix u)); discriminate.
Qed.

Lemma use_inner_chars us : us <> [] -> Forall (fun u => wf_use u = true) us ->
  forallb is_usedep_char (join (nb 44) (map print_use1 us)) = true /\ join (nb 44) (map print_use1 us) <> [] /\
  (length us <= length (join (nb 44) (map print_use1 us)))%nat.
Proof.
  induction us as [|u us IH]; [congruence|]. intros _ HF. inversion HF as [|? ? Hu HF']; subst.
  destruct (use1_chars u Hu) as [Hc Hne]. destruct us as [|u2 us].
  - cbn [map join length]. repeat split; auto. destruct (print_use1 u); [congruence|cbn; lia].
  - cbn [map]. rewrite join_cons2. destruct (IH ltac:(discriminate) HF') as (I1 & I2 & I3). cbn [map] in I1, I2, I3. repeat split.
    + apply forallb_app_intro; [exact Hc|]. cbn [forallb]. now rewrite I1.
    + destruct (print_use1 u); discriminate.
    + rewrite app_length. cbn [length] in *. lia.
Qed.

Definition tail_ok (r : bytes) : Prop := r = [] \/ is_ws (peek r) = true.

Lemma use_part_print (asdep : bool) us r :
  Forall (fun u => wf_use u = true) us -> (asdep = false -> us = [] /\ r = []) -> tail_ok r ->
  use_part asdep (print_use us ++ r) = AOk' (map denote_use us) r.
Proof.
  intros HF Hno Hr. unfold use_part. destruct asdep.
  - destruct us as [|u us].
    + cbn [print_use map app]. unfold take_usedep.
      assert (E : is 91 (peek r) = false).
      { destruct Hr as [ -> | H ]; [reflexivity|]. revert H. generalize (peek r). apply impl_bytes_neg. bytes_check. }
      now rewrite E.
    + destruct (use_inner_chars (u :: us) ltac:(discriminate) HF) as (Hc & Hne & Hlen).
      set (inner := join (nb 44) (map print_use1 (u :: us))) in *.
      change (print_use (u :: us)) with (nb 91 :: inner ++ [nb 93]). unfold take_usedep.
      change (peek ((nb 91 :: inner ++ [nb 93]) ++ r)) with (nb 91). replace (is 91 (nb 91)) with true by reflexivity.
      cbn [app tl]. rewrite <- app_assoc. rewrite (span_exact is_usedep_char inner Hc) by (right; reflexivity).
      cbn [app peek tl]. replace (is 93 (nb 93)) with true by reflexivity.
      destruct inner as [|i0 inner'] eqn:Ei; [congruence|]. cbn [isnil negb andb]. rewrite <- Ei in *.
      unfold inner. rewrite parse_use_deps_print; [reflexivity|discriminate|assumption|]. fold inner. cbn [length] in *. lia.
  - destruct (Hno eq_refl) as [-> ->]. reflexivity.
Qed.

(* ---- the name/version boundary ---- *)
Lemma ver_split_app pre : forall s,
  (forall c, In c pre -> is 10 c = false) ->
  (forall x y, pre = x ++ nb 45 :: y -> ver_tail (y ++ s) = None) ->
  ver_split (pre ++ s) = match ver_split s with Some (p, t) => Some (pre ++ p, t) | None => None end.
Proof.
  induction pre as [|c pre IH]; intros s Hnl Hh.
  - cbn [app]. destruct (ver_split s) as [[p t]|]; reflexivity.
  - cbn [app ver_split]. rewrite (Hnl c (or_introl eq_refl)).
    assert (E : (if is 45 c then ver_tail (pre ++ s) else None) = None).
    { destruct (is 45 c) eqn:Ec; [|reflexivity]. apply is_eq in Ec. subst c. apply (Hh [] pre). reflexivity. }
    rewrite E. rewrite IH.
    + destruct (ver_split s) as [[p t]|]; reflexivity.
    + intros c0 H0. apply Hnl. now right.
    + intros x y Hxy. apply (Hh (c :: x) y). cbn. now f_equal.
Qed.

(* a hyphen inside category/name followed by "-<digit>..." can never start a version: inside a
   version the only hyphen is the one of "-r<digits>" *)
Lemma tail_before_version y v g : wfv v -> ver_tail (y ++ nb 45 :: print_version v ++ globtxt g) = None.
Proof.
  intros W. destruct (ver_tail _) as [t|] eqn:E; [|reflexivity]. exfalso.
  apply ver_tail_sound in E as (v' & g' & W' & Ex & _).
  pose proof (hy_r_version v' g' W') as H1. rewrite <- Ex in H1.
  pose proof (peek_join_digit (v_nums v) (opt_char (v_letter v) ++ print_sufs v ++ revtxt v ++ globtxt g)
                (wfv_ne v W) (wfv_nums v W)) as Hd.
  assert (Ev : print_version v ++ globtxt g = join (nb 46) (v_nums v) ++ opt_char (v_letter v) ++ print_sufs v ++ revtxt v ++ globtxt g).
  { rewrite print_version_eq. unfold print_ver_main. now rewrite <- !app_assoc. }
  rewrite Ev in H1. destruct (join (nb 46) (v_nums v) ++ _) as [|d rest]; [cbn in Hd; discriminate|].
  cbn [peek] in Hd. rewrite hy_r_bad in H1 by assumption. discriminate.
Qed.

Fixpoint hyphen_tails_in (n : bytes) (y : bytes) : Prop :=
  match n with [] => False | c :: r => (is 45 c = true /\ y = r) \/ hyphen_tails_in r y end.
Lemma hyphen_tails_spec n y : (exists x, n = x ++ nb 45 :: y) -> In y (hyphen_tails n).
Proof.
  intros [x ->]. induction x as [|c x IH]; cbn [app hyphen_tails].
  - replace (is 45 (nb 45)) with true by reflexivity. now left.
  - destruct (is 45 c); [right|]; exact IH.
Qed.

Lemma suffix_chars (p : ascii -> bool) (n x y : bytes) c : n = x ++ c :: y -> forallb p n = true -> forallb p y = true.
Proof. intros -> H. rewrite forallb_app in H. apply andb_true_iff in H as [_ H]. cbn in H. now apply andb_true_iff in H as [_ H]. Qed.

Lemma name_tail_none n y : wf_name n = true -> (exists x, n = x ++ nb 45 :: y) -> ver_tail y = None.
Proof.
  intros Hwf Hy. destruct (ver_tail y) as [t|] eqn:E; [|reflexivity]. exfalso.
  unfold wf_name in Hwf. apply andb_true_iff in Hwf as [Hwf Hv]. apply andb_true_iff in Hwf as [_ Hch].
  pose proof (hyphen_tails_spec n y Hy) as Hin. rewrite forallb_forall in Hv. specialize (Hv y Hin).
  apply negb_true_iff in Hv. destruct Hy as [x Hx]. pose proof (suffix_chars pkg_char n x y _ Hx Hch) as Hyc.
  apply ver_tail_sound in E as (v' & g' & W' & Ex & _). destruct g'.
  - subst y. rewrite forallb_app in Hyc. apply andb_true_iff in Hyc as [_ Hg]. cbn in Hg. discriminate.
  - cbn [globtxt] in Ex. rewrite app_nil_r in Ex. subst y. rewrite pms_version_print in Hv by assumption. discriminate.
Qed.

Lemma slash_tail_none y : In (nb 47) y -> ver_tail y = None.
Proof.
  intros Hin. destruct (ver_tail y) as [t|] eqn:E; [|reflexivity]. exfalso.
  apply ver_tail_sound in E as (v' & g' & W' & Ex & _). pose proof (ver_chars v' g' W') as Hc. rewrite <- Ex in Hc.
  rewrite forallb_forall in Hc. specialize (Hc _ Hin). discriminate.
Qed.

Lemma catname_split cat n x y : cat ++ nb 47 :: n = x ++ nb 45 :: y ->
  In (nb 47) y \/ exists x', n = x' ++ nb 45 :: y.
Proof.
  intros H. apply app_eq_app in H as [m [[H1 H2]|[H1 H2]]].
  - destruct m as [|c m]; cbn in H2; [discriminate|]. injection H2 as _ ->. left. apply in_or_app. right. now left.
  - destruct m as [|c m]; cbn in H2; [discriminate|]. injection H2 as _ ->. right. now exists m.
Qed.

Lemma cat_shape c : wf_cat c = true -> exists a w, c = a :: w /\ name_head a = true /\ forallb (fun x => pkg_char x || is 46 x) (a :: w) = true.
Proof. unfold wf_cat. intros H. apply andb_true_iff in H as [H1 H2]. destruct c as [|a w]; [discriminate|]. exists a, w. auto. Qed.

Record wfcn (a : atom_ast) : Prop := {
  wfcn_cat : match a_cat a with Some c => wf_cat c = true | None => True end;
  wfcn_name : wf_name (a_name a) = true }.

Lemma catname_no_nl a : wfcn a -> forall c, In c (print_catname a) -> is 10 c = false.
Proof.
  intros [Hc Hn] c Hin. unfold print_catname, print_cat in Hin.
  apply name_shape in Hn as (n0 & nw & Hn & _ & Hnc).
  assert (Hp : forall c, (pkg_char c || is 46 c || is 47 c) = true -> is 10 c = false) by (apply impl_bytes_neg; bytes_check).
  apply Hp. apply in_app_or in Hin as [Hin|Hin].
  - destruct (a_cat a) as [ct|]; [|destruct Hin]. apply cat_shape in Hc as (a0 & w0 & -> & _ & Hcc).
    apply in_app_or in Hin as [Hin|[<-|[]]]; [|reflexivity]. rewrite forallb_forall in Hcc. rewrite (Hcc _ Hin). reflexivity.
  - rewrite Hn in Hin. rewrite forallb_forall in Hnc. rewrite (Hnc _ Hin). reflexivity.
Qed.

Lemma catname_tail a x y : wfcn a -> print_catname a = x ++ nb 45 :: y ->
  In (nb 47) y \/ exists x', a_name a = x' ++ nb 45 :: y.
Proof.
  intros [Hc Hn] H. unfold print_catname, print_cat in H. destruct (a_cat a) as [ct|].
  - rewrite <- app_assoc in H. cbn [app] in H. now apply catname_split in H.
  - cbn [app] in H. right. now exists x.
Qed.

(* without a version: no hyphen of category/name starts a version *)
Lemma ver_split_none a : wfcn a -> ver_split (print_catname a) = None.
Proof.
  intros W. rewrite <- (app_nil_r (print_catname a)). rewrite ver_split_app; [reflexivity|now apply catname_no_nl|].
  intros x y Hxy. rewrite app_nil_r. destruct (catname_tail a x y W Hxy) as [Hs|Hn].
  - now apply slash_tail_none. - eapply name_tail_none; [apply (wfcn_name a W)|exact Hn].
Qed.

(* with a version: the split is at the hyphen before the version, wherever else hyphens are *)
Lemma ver_split_version a v g : wfcn a -> wfv v ->
  ver_split (print_catname a ++ nb 45 :: print_version v ++ globtxt g) =
  Some (print_catname a, MkVT (print_ver_main v) (print_sufs v) (print_rev v) g).
Proof.
  intros W Wv. rewrite ver_split_app; [|now apply catname_no_nl|intros x y _; now apply tail_before_version].
  cbn [ver_split]. replace (is 10 (nb 45)) with false by reflexivity. replace (is 45 (nb 45)) with true by reflexivity.
  rewrite ver_tail_print by assumption. now rewrite app_nil_r.
Qed.

(* ---- category / name ---- *)
Lemma catname_match_print a : wfcn a ->
  catname_match (print_catname a) = Some (match a_cat a with Some c => c | None => [] end, a_name a).
Proof.
  intros [Hc Hn]. unfold catname_match, print_catname, print_cat.
  pose proof Hn as Hn'. apply name_shape in Hn' as (n0 & nw & En & Hn0 & Hnc).
  assert (Hw : forall c, name_head c = true -> is_word c = true) by (apply impl_bytes; bytes_check).
  assert (Hm : forall c, pkg_char c = true -> is_name_mid c = true) by (apply impl_bytes; bytes_check).
  assert (Hcm : forall c, (pkg_char c || is 46 c) = true -> is_cat_mid c = true) by (apply impl_bytes; bytes_check).
  assert (Hns : forall c, pkg_char c = true -> negb (is 47 c) = true) by (apply impl_bytes; bytes_check).
  assert (Hcs : forall c, (pkg_char c || is 46 c) = true -> negb (is 47 c) = true) by (apply impl_bytes; bytes_check).
  assert (Hpk : is_pkgname (a_name a) = true).
  { rewrite En. cbn [is_pkgname]. rewrite (Hw _ Hn0). cbn [andb]. cbn [forallb] in Hnc. apply andb_true_iff in Hnc as [_ Hnc].
    eapply forallb_impl; [|exact Hnc]. exact Hm. }
  destruct (a_cat a) as [ct|].
  - apply cat_shape in Hc as (a0 & w0 & -> & Ha0 & Hcc). rewrite <- app_assoc. cbn [app].
    change (a0 :: w0 ++ nb 47 :: a_name a) with ((a0 :: w0) ++ nb 47 :: a_name a).
    rewrite (span_exact (fun c => negb (is 47 c)) (a0 :: w0)); [|eapply forallb_impl; [|exact Hcc]; exact Hcs|right; reflexivity].
    rewrite Hpk. cbn [is_cat]. rewrite (Hw _ Ha0). cbn [andb]. cbn [forallb] in Hcc. apply andb_true_iff in Hcc as [_ Hcc].
    rewrite (forallb_impl _ _ _ Hcm Hcc). reflexivity.
  - cbn [app]. rewrite <- (app_nil_r (a_name a)) at 1.
    rewrite (span_exact (fun c => negb (is 47 c)) (a_name a)); [|rewrite En; eapply forallb_impl; [|exact Hnc]; exact Hns|now left].
    now rewrite Hpk.
Qed.

(* ---- the fields ---- *)
Lemma isnil_sufs v : isnil (print_sufs v) = match v_sufs v with [] => true | _ => false end.
Proof. unfold print_sufs. destruct (v_sufs v) as [|s l]; reflexivity. Qed.
Lemma isnil_rev v : isnil (print_rev v) = match v_rev v with Some _ => false | None => true end.
Proof. unfold print_rev. destruct (v_rev v); reflexivity. Qed.

Lemma slot_fields_denote sl : wf_slot sl = true ->
  slot_fields (slot_txt sl) (sub_txt sl) (slotop_txt sl) =
  match sl with
  | SNone => let z := make_comparable [nb 48] in (z, z, 0, false, false)
  | SAny => ([], [], 0, true, false)
  | SSame => ([], [], 0, true, true)
  | SSlot s sub eq =>
    let z := make_comparable s in
    (z, match sub with Some b => make_comparable b | None => z end, 3, false, eq)
  end.
Proof.
  intros Hwf. destruct sl as [| | |s sub eq]; try reflexivity.
  cbn [wf_slot] in Hwf. apply andb_true_iff in Hwf as [Hs Hsub].
  apply slotname_shape in Hs as (c & w & -> & _). cbn [slot_txt sub_txt slotop_txt].
  destruct sub as [b|].
  - apply slotname_shape in Hsub as (c2 & w2 & -> & _). destruct eq; reflexivity.
  - destruct eq; reflexivity.
Qed.

Lemma catname_head_plain a : wfcn a -> forall rest, plain (peek (print_catname a ++ rest)) = true.
Proof.
  intros [Hc Hn] rest. unfold print_catname, print_cat. apply name_head_plain.
  destruct (a_cat a) as [ct|].
  - apply cat_shape in Hc as (a0 & w0 & -> & Ha0 & _). exact Ha0.
  - apply name_shape in Hn as (n0 & nw & -> & Hn0 & _). exact Hn0.
Qed.

Lemma namever_chars a : wfcn a -> match a_ver a with Some v => wfv v | None => True end ->
  forallb is_namever (print_catname a ++ print_verpart a) = true.
Proof.
  intros [Hc Hn] Hv. apply forallb_app_intro.
  - unfold print_catname, print_cat. apply forallb_app_intro.
    + destruct (a_cat a) as [ct|]; [|reflexivity]. apply cat_shape in Hc as (a0 & w0 & -> & _ & Hcc).
      apply forallb_app_intro; [|reflexivity]. eapply forallb_impl; [|exact Hcc]. exact cat_char_namever.
    + apply name_shape in Hn as (n0 & nw & -> & _ & Hnc). eapply forallb_impl; [|exact Hnc]. exact pkg_char_namever.
  - unfold print_verpart. destruct (a_ver a) as [v|]; [|reflexivity]. cbn [forallb]. replace (is_namever (nb 45)) with true by reflexivity.
    cbn [andb]. change (if a_glob a then [nb 42] else []) with (globtxt (a_glob a)).
    eapply forallb_impl; [|now apply ver_chars]. exact ver_char_namever.
Qed.

(* the text after the name and version *)
Definition t5 (a : atom_ast) (r : bytes) : bytes := print_use (a_use a) ++ r.
Definition t4 (a : atom_ast) (r : bytes) : bytes := print_repo (a_repo a) ++ t5 a r.
Definition t3 (a : atom_ast) (r : bytes) : bytes := print_slot (a_slot a) ++ t4 a r.

Lemma t5_follow a r : tail_ok r -> use_follow (t5 a r).
Proof.
  intros Hr. unfold t5, print_use. destruct (a_use a) as [|u us]; [|right; left; reflexivity].
  cbn [app]. destruct Hr as [ -> | H ]; [now left|right; right; exact H].
Qed.
Lemma t4_follow a r : tail_ok r -> slot_follow (t4 a r).
Proof.
  intros Hr. unfold t4, print_repo. destruct (a_repo a) as [x|].
  - right. right. right. split; reflexivity.
  - cbn [app]. destruct (t5_follow a r Hr) as [ H | [ H | H ] ]; [now left|right; now left|right; right; now left].
Qed.
Lemma t3_stops a r : tail_ok r -> stops (t3 a r).
Proof.
  intros Hr. unfold t3, stops, stop_char.
  destruct (a_slot a) as [| | |s sub eq]; try (right; reflexivity).
  cbn [print_slot app]. destruct (t4_follow a r Hr) as [ H | [ H | [ H | [ H _ ] ] ] ]; [now left| | |]; right; rewrite H; cbn; rewrite ?orb_true_r; reflexivity.
Qed.

Lemma print_atom_eq a r : print_atom a ++ r =
  print_block (a_block a) ++ print_op (a_op a) ++ (print_catname a ++ print_verpart a) ++ t3 a r.
Proof. unfold print_atom, t3, t4, t5. now rewrite <- !app_assoc. Qed.

(* ---- atom_roundtrip ---- *)
Theorem atom_roundtrip vnr asdep a r : wf_atom vnr asdep a = true -> (asdep = false -> r = []) -> tail_ok r ->
  raw_parse_at (print_atom a ++ r) vnr asdep = (AOk (denote a), r).
Proof.
  intros Hwf Hnd Hr. unfold wf_atom in Hwf.
  apply andb_true_iff in Hwf as [Hwf Hnouse]. apply andb_true_iff in Hwf as [Hwf Huse].
  apply andb_true_iff in Hwf as [Hwf Hrepo]. apply andb_true_iff in Hwf as [Hwf Hslot].
  apply andb_true_iff in Hwf as [Hwf Hver]. apply andb_true_iff in Hwf as [Hwf Hname].
  apply andb_true_iff in Hwf as [Hwf Hcat]. apply andb_true_iff in Hwf as [Hb Ho].
  apply N.leb_le in Hb, Ho.
  assert (W : wfcn a) by (constructor; [destruct (a_cat a); auto|exact Hname]).
  assert (Wv : match a_ver a with Some v => wfv v | None => True end).
  { destruct (a_ver a) as [v|]; [|exact I]. apply andb_true_iff in Hver as [Hver _]. apply andb_true_iff in Hver as [Hver _].
    now apply wf_version_wfv. }
  assert (HFu : Forall (fun u => wf_use u = true) (a_use a)) by (apply Forall_forall; now apply forallb_forall).
  assert (Hno : asdep = false -> a_use a = [] /\ r = []).
  { intros ->. split; [|now apply Hnd]. cbn [orb] in Hnouse. destruct (a_use a); [reflexivity|discriminate]. }
  pose proof (print_atom_eq a r) as Eq. pose proof (consumed_app (print_atom a) r) as Ec.
  remember (print_atom a ++ r) as s0 eqn:Es0. unfold raw_parse_at. rewrite Eq at 1.
  rewrite take_prefix_print; [|assumption|assumption|rewrite <- app_assoc; now apply catname_head_plain].
  rewrite (span_exact is_namever _ (namever_chars a W Wv)) by (apply stops_span; [exact stop_not_namever|now apply t3_stops]).
  unfold t3. rewrite take_slot_print; [|assumption|now apply t4_follow].
  unfold t4. rewrite take_repo_print; [|destruct (a_repo a); auto|now apply t5_follow].
  unfold t5. rewrite use_part_print by assumption.
  rewrite Ec. f_equal.
  (* the header *)
  unfold finish, atom_header, denote, print_verpart.
  destruct (a_ver a) as [v|] eqn:Ev.
  - apply andb_true_iff in Hver as [Hver Hglob]. apply andb_true_iff in Hver as [_ Hop].
    change (if a_glob a then [nb 42] else []) with (globtxt (a_glob a)).
    rewrite ver_split_version by assumption. cbn [vt_glob vt_ver vt_suf vt_rev].
    assert (E1 : (a_op a =? R_none) && vnr = false).
    { unfold R_none. destruct (a_op a =? 0) eqn:E0; [|reflexivity]. cbn [negb orb] in Hop. apply negb_true_iff in Hop. now rewrite Hop. }
    rewrite E1. rewrite catname_match_print by assumption.
    cbn [vt_glob vt_ver vt_suf vt_rev]. unfold version_fields. rewrite isnil_sufs, isnil_rev. rewrite slot_fields_denote by assumption.
    unfold R_range, R_none, R_eq in *.
    assert (Er : ((if a_glob a then 6 else a_op a) =? 6) = (a_glob a || (a_op a =? 6))) by (destruct (a_glob a); reflexivity).
    assert (Ev3 : (if (if a_glob a then 6 else a_op a) =? 0 then 3 else if a_glob a then 6 else a_op a) =
                  (if a_glob a || (a_op a =? 6) then 6 else if a_op a =? 0 then 3 else a_op a)).
    { destruct (a_glob a); [reflexivity|]. cbn [orb]. destruct (a_op a =? 6) eqn:E6.
      - apply N.eqb_eq in E6. now rewrite E6. - reflexivity. }
    rewrite Er, Ev3.
    destruct (a_slot a) as [| | |s sub eq]; destruct (v_sufs v) as [|sf0 sl]; destruct (v_rev v) as [rv|];
      destruct (a_glob a || (a_op a =? 6)); cbn [negb andb]; rewrite <- ?app_assoc; reflexivity.
  - apply andb_true_iff in Hver as [Hop Hglob]. rewrite app_nil_r. rewrite ver_split_none by assumption.
    unfold R_none in *. rewrite Hop. rewrite catname_match_print by assumption.
    rewrite slot_fields_denote by assumption. apply N.eqb_eq in Hop.
    destruct (a_slot a) as [| | |s sub eq]; reflexivity.
Qed.
