(* AtomSet (Model.Resolve.aset): insertion keeps names ascending and every slice in strictly
   descending key order; membership; the sorted listing. *)
From LC Require Import Lib.Bytes Lib.Lex Lib.Fields Model.Resolve Proofs.ResolveBasics.
From Coq Require Import Sorting.Sorted Permutation.

Definition key_desc (x y : entry) : Prop := ltb (fst y) (fst x) = true.
Definition name_asc (x y : bytes * list entry) : Prop := ltb (fst x) (fst y) = true.

(* ---- the scan of Add *)
Lemma scan_some_stays key sl : forall i p,
  ~ In key (map fst sl) -> scan_slice key sl i (Some p) = Some (Some p).
Proof.
  induction sl as [|[k v] r IH]; intros i p Hn; cbn; [reflexivity|].
  cbn in Hn. destruct (beq k key) eqn:E.
  - apply beq_true in E. subst. exfalso. apply Hn. now left.
  - apply IH. intro. apply Hn. now right.
Qed.
Lemma scan_present key sl : forall i pos, In key (map fst sl) -> scan_slice key sl i pos = None.
Proof.
  induction sl as [|[k v] r IH]; intros i pos Hin; cbn in *; [contradiction|].
  destruct (beq k key) eqn:E; [reflexivity|].
  destruct Hin as [->|Hin]; [rewrite beq_refl in E; discriminate|]. now apply IH.
Qed.

(* on a descending slice without the key: everything before the insertion point is larger,
   everything from it on is smaller *)
Lemma scan_sorted key sl : forall i,
  StronglySorted key_desc sl -> ~ In key (map fst sl) ->
  exists hi lo, sl = hi ++ lo
    /\ Forall (fun e => ltb key (fst e) = true) hi
    /\ Forall (fun e => ltb (fst e) key = true) lo
    /\ scan_slice key sl i None = Some (match lo with [] => None | _ => Some (i + length hi)%nat end).
Proof.
  induction sl as [|[k v] r IH]; intros i HS Hn.
  - exists [], []. cbn. auto.
  - inversion HS as [|? ? HS' HF]; subst. cbn in Hn.
    assert (Hk : k <> key) by (intro; apply Hn; now left).
    assert (Hr : ~ In key (map fst r)) by (intro; apply Hn; now right).
    cbn [scan_slice]. destruct (beq k key) eqn:E; [apply beq_true in E; contradiction|].
    destruct (ltb k key) eqn:L.
    + (* first smaller item: insertion point here *)
      exists [], ((k, v) :: r). cbn [app length]. repeat split; auto.
      * constructor; auto. rewrite Forall_forall in HF |- *. intros e He. specialize (HF e He).
        unfold key_desc in HF. cbn in HF. eapply ltb_trans; eauto.
      * rewrite scan_some_stays by assumption. now rewrite Nat.add_0_r.
    + destruct (IH (S i) HS' Hr) as (hi & lo & -> & Hhi & Hlo & Hs).
      exists ((k, v) :: hi), lo. cbn [app length]. repeat split; auto.
      * constructor; auto. cbn. destruct (ltb key k) eqn:L2; auto.
        exfalso. apply Hk. symmetry. now apply ltb_total.
      * rewrite Hs. destruct lo; auto. now rewrite Nat.add_succ_r.
Qed.

Lemma firstn_app_exact {A} (a b : list A) : firstn (length a) (a ++ b) = a.
Proof. induction a; cbn; [now destruct b|]. now rewrite IHa. Qed.
Lemma skipn_app_exact {A} (a b : list A) : skipn (length a) (a ++ b) = b.
Proof. induction a; cbn; auto. Qed.

Lemma slice_add_sorted key id sl :
  StronglySorted key_desc sl -> ~ In key (map fst sl) ->
  exists hi lo, sl = hi ++ lo /\ slice_add key id sl = hi ++ (key, id) :: lo
    /\ Forall (fun e => ltb key (fst e) = true) hi /\ Forall (fun e => ltb (fst e) key = true) lo.
Proof.
  intros HS Hn. destruct (scan_sorted key sl 0 HS Hn) as (hi & lo & -> & Hhi & Hlo & Hs).
  exists hi, lo. unfold slice_add. rewrite Hs. destruct lo as [|e lo'].
  - rewrite app_nil_r. repeat split; auto.
  - cbn [Nat.add]. rewrite firstn_app_exact, skipn_app_exact. repeat split; auto.
Qed.

Lemma slice_add_present key id sl : In key (map fst sl) -> slice_add key id sl = sl.
Proof. intros H. unfold slice_add. now rewrite scan_present. Qed.

Lemma sorted_app_inv {A} (R : A -> A -> Prop) (a b : list A) :
  StronglySorted R (a ++ b) -> StronglySorted R a /\ StronglySorted R b /\ (forall x y, In x a -> In y b -> R x y).
Proof.
  induction a as [|x a IH]; cbn; intros H.
  - split; [constructor|split; [assumption|intros ? ? []]].
  - inversion H as [|? ? HS HF]; subst. destruct (IH HS) as (A1 & A2 & A3).
    rewrite Forall_app in HF. destruct HF as [F1 F2]. repeat split; auto.
    + constructor; auto.
    + intros u v [->|Hu] Hv; [rewrite Forall_forall in F2; auto|auto].
Qed.
Lemma sorted_app {A} (R : A -> A -> Prop) (a b : list A) :
  StronglySorted R a -> StronglySorted R b -> (forall x y, In x a -> In y b -> R x y) ->
  StronglySorted R (a ++ b).
Proof.
  induction a as [|x a IH]; cbn; intros Ha Hb Hab; auto.
  inversion Ha; subst. constructor.
  - apply IH; auto.
  - apply Forall_app; split; auto. apply Forall_forall. intros y Hy. apply Hab; auto.
Qed.

Lemma slice_add_keeps_sorted key id sl :
  StronglySorted key_desc sl -> ~ In key (map fst sl) -> StronglySorted key_desc (slice_add key id sl).
Proof.
  intros HS Hn. destruct (slice_add_sorted key id sl HS Hn) as (hi & lo & -> & -> & Hhi & Hlo).
  apply sorted_app_inv in HS as (S1 & S2 & S3).
  apply sorted_app; auto.
  - constructor; [exact S2|]. apply Forall_forall. intros e He. rewrite Forall_forall in Hlo. apply Hlo. exact He.
  - intros x y Hx [<-|Hy]; [|auto].
    rewrite Forall_forall in Hhi. unfold key_desc. cbn. auto.
Qed.

Lemma slice_add_in key id sl e :
  StronglySorted key_desc sl -> ~ In key (map fst sl) ->
  (In e (slice_add key id sl) <-> e = (key, id) \/ In e sl).
Proof.
  intros HS Hn. destruct (slice_add_sorted key id sl HS Hn) as (hi & lo & -> & -> & _ & _).
  rewrite !in_app_iff. cbn. intuition.
Qed.

(* ---- the map level *)
Lemma get_upd_other nm f s nm' : nm' <> nm -> get_by_name (aset_upd nm f s) nm' = get_by_name s nm'.
Proof.
  intros Hne. induction s as [|[n sl] r IH]; cbn.
  - unfold get_by_name. cbn. assert (beq nm nm' = false) by (apply beq_false; congruence). now rewrite H.
  - destruct (beq n nm) eqn:E.
    + apply beq_true in E. subst. unfold get_by_name. cbn.
      assert (beq nm nm' = false) as -> by (apply beq_false; congruence). reflexivity.
    + destruct (ltb nm n).
      * unfold get_by_name at 1. cbn [find fst].
        assert (beq nm nm' = false) as -> by (apply beq_false; congruence). reflexivity.
      * unfold get_by_name in *. cbn [find fst]. destruct (beq n nm'); auto.
Qed.

Lemma get_not_in s nm : ~ In nm (map fst s) -> get_by_name s nm = [].
Proof.
  intros H. unfold get_by_name. induction s as [|[n sl] r IH]; cbn; [reflexivity|].
  cbn in H. destruct (beq n nm) eqn:E.
  - apply beq_true in E. subst. exfalso. apply H. now left.
  - apply IH. intro. apply H. now right.
Qed.

Lemma sorted_names_gt s nm :
  StronglySorted name_asc s -> (forall x, In x s -> ltb nm (fst x) = true) -> ~ In nm (map fst s).
Proof.
  intros _ H Hin. apply in_map_iff in Hin as (x & E & Hx). specialize (H x Hx). rewrite E in H.
  now rewrite ltb_irrefl in H.
Qed.

Lemma get_upd_same nm f s :
  StronglySorted name_asc s -> get_by_name (aset_upd nm f s) nm = f (get_by_name s nm).
Proof.
  induction s as [|[n sl] r IH]; intros HS; cbn.
  - unfold get_by_name. cbn. now rewrite beq_refl.
  - inversion HS as [|? ? HS' HF]; subst. destruct (beq n nm) eqn:E.
    + unfold get_by_name. cbn. now rewrite E.
    + destruct (ltb nm n) eqn:L.
      * unfold get_by_name at 1. cbn [find fst]. rewrite beq_refl.
        rewrite get_not_in; auto. cbn. intros [->|Hin]; [rewrite beq_refl in E; discriminate|].
        apply in_map_iff in Hin as (x & Ex & Hx). rewrite Forall_forall in HF. specialize (HF x Hx).
        unfold name_asc in HF. cbn in HF. rewrite Ex in HF.
        pose proof (ltb_trans _ _ _ L HF) as C. now rewrite ltb_irrefl in C.
      * unfold get_by_name in *. cbn [find fst]. rewrite E. now apply IH.
Qed.

Lemma upd_names nm f s x : In x (aset_upd nm f s) ->
  (fst x = nm) \/ In x s.
Proof.
  induction s as [|[n sl] r IH]; cbn.
  - intros [<-|[]]. now left.
  - destruct (beq n nm) eqn:E.
    + apply beq_true in E. subst. intros [<-|H]; [now left|right; now right].
    + destruct (ltb nm n).
      * intros [<-|H]; [now left|now right].
      * intros [<-|H]; [right; now left|]. destruct (IH H); [now left|right; now right].
Qed.

Lemma upd_sorted nm f s : StronglySorted name_asc s -> StronglySorted name_asc (aset_upd nm f s).
Proof.
  induction s as [|[n sl] r IH]; intros HS; cbn.
  - repeat constructor.
  - inversion HS as [|? ? HS' HF]; subst. destruct (beq n nm) eqn:E.
    + constructor; auto.
    + destruct (ltb nm n) eqn:L.
      * constructor; auto. constructor; [exact L|].
        rewrite Forall_forall in HF |- *. intros x Hx. specialize (HF x Hx). unfold name_asc in *. cbn in *.
        eapply ltb_trans; eauto.
      * constructor; auto. apply Forall_forall. intros x Hx. apply upd_names in Hx as [Hx|Hx].
        -- unfold name_asc. cbn. rewrite Hx. destruct (ltb n nm) eqn:L2; auto.
           exfalso. apply beq_false in E. apply E. now apply ltb_total.
        -- rewrite Forall_forall in HF. auto.
Qed.

(* every (name, slice) of the updated set: the new/changed one or an old one *)
Lemma upd_entries nm f s x : StronglySorted name_asc s -> In x (aset_upd nm f s) ->
  x = (nm, f (get_by_name s nm)) \/ (In x s /\ fst x <> nm).
Proof.
  induction s as [|[n sl] r IH]; intros HS; cbn.
  - intros [<-|[]]. left. reflexivity.
  - inversion HS as [|? ? HS' HF]; subst. unfold get_by_name. cbn [find fst]. destruct (beq n nm) eqn:E.
    + apply beq_true in E. subst. intros [<-|H]; [now left|]. right. split; [now right|].
      rewrite Forall_forall in HF. specialize (HF x H). unfold name_asc in HF. cbn in HF.
      intro C. rewrite C in HF. now rewrite ltb_irrefl in HF.
    + destruct (ltb nm n) eqn:L.
      * intros [<-|H].
        -- left. f_equal. f_equal. fold (get_by_name r nm). rewrite get_not_in; auto.
           intros Hin. apply in_map_iff in Hin as (y & Ey & Hy). rewrite Forall_forall in HF. specialize (HF y Hy).
           unfold name_asc in HF. cbn in HF. rewrite Ey in HF.
           pose proof (ltb_trans _ _ _ L HF) as C. now rewrite ltb_irrefl in C.
        -- right. split; auto. destruct H as [<-|H]; cbn.
           ++ apply beq_false in E. exact E.
           ++ rewrite Forall_forall in HF. specialize (HF x H). unfold name_asc in HF. cbn in HF.
              intro C. rewrite C in HF. pose proof (ltb_trans _ _ _ L HF) as C2. now rewrite ltb_irrefl in C2.
      * intros [<-|H].
        -- right. split; [now left|]. cbn. apply beq_false in E. exact E.
        -- destruct (IH HS' H) as [->|[H1 H2]]; [left; reflexivity|right; split; auto; now right].
Qed.

Lemma upd_has nm f s : In (nm, f (get_by_name s nm)) (aset_upd nm f s) \/ True.
Proof. now right. Qed.

Lemma upd_old_kept nm f s x : In x s -> fst x <> nm -> In x (aset_upd nm f s).
Proof.
  induction s as [|[n sl] r IH]; cbn; [tauto|].
  intros [<-|H] Hne.
  - cbn in Hne. assert (beq n nm = false) as -> by now apply beq_false.
    destruct (ltb nm n); [right; now left|now left].
  - destruct (beq n nm); [now right|]. destruct (ltb nm n); [right; now right|right; auto].
Qed.
Lemma upd_new_in nm f s : StronglySorted name_asc s -> In (nm, f (get_by_name s nm)) (aset_upd nm f s).
Proof.
  induction s as [|[n sl] r IH]; intros HS; cbn.
  - now left.
  - inversion HS as [|? ? HS' HF]; subst. unfold get_by_name. cbn [find fst]. destruct (beq n nm) eqn:E.
    + apply beq_true in E. subst. now left.
    + destruct (ltb nm n) eqn:L.
      * left. f_equal. f_equal. fold (get_by_name r nm). rewrite get_not_in; auto.
        intros Hin. apply in_map_iff in Hin as (y & Ey & Hy). rewrite Forall_forall in HF. specialize (HF y Hy).
        unfold name_asc in HF. cbn in HF. rewrite Ey in HF.
        pose proof (ltb_trans _ _ _ L HF) as C. now rewrite ltb_irrefl in C.
      * right. apply IH. exact HS'.
Qed.

Lemma get_in s nm sl : StronglySorted name_asc s -> In (nm, sl) s -> get_by_name s nm = sl.
Proof.
  induction s as [|[n sl0] r IH]; intros HS Hin; [contradiction|].
  inversion HS as [|? ? HS' HF]; subst. unfold get_by_name. cbn [find fst].
  destruct Hin as [E|Hin].
  - injection E as -> ->. now rewrite beq_refl.
  - destruct (beq n nm) eqn:E.
    + apply beq_true in E. subst. rewrite Forall_forall in HF. specialize (HF _ Hin).
      unfold name_asc in HF. cbn in HF. now rewrite ltb_irrefl in HF.
    + now apply IH.
Qed.
Lemma get_in_inv s nm : get_by_name s nm <> [] -> In (nm, get_by_name s nm) s.
Proof.
  unfold get_by_name. induction s as [|[n sl0] r IH]; cbn; [congruence|].
  destruct (beq n nm) eqn:E.
  - apply beq_true in E. subst. intros _. now left.
  - intros H. right. now apply IH.
Qed.
