(* A boolean switch written with a value: "-name=v" with v any spelling strconv.ParseBool accepts
   is the same assignment as the bare switch (v true) or switches it off (v false); any other v is a
   usage error.  (Model/Args.v: fparse) *)
From Coq Require Import List Bool Arith Lia.
From LC Require Import Lib.Bytes Model.Args Proofs.ArgsP.
Import ListNotations.
Open Scope N_scope.

Lemma split_eq_some n v : forall cur,
  existsb (fun x => Ascii.eqb x eqch) n = false ->
  split_eq cur (n ++ eqch :: v) = (rev cur ++ n, Some v).
Proof.
  induction n as [|c r IH]; intros cur Hn; cbn [app split_eq].
  - rewrite Ascii.eqb_refl. now rewrite app_nil_r.
  - cbn [existsb] in Hn. apply orb_false_iff in Hn as [Hc Hr].
    rewrite Hc, IH by exact Hr. cbn [rev]. now rewrite <- app_assoc.
Qed.

Lemma plain_name_noeq n : plain_name n = true -> existsb (fun x => Ascii.eqb x eqch) n = false.
Proof.
  destruct n as [|c tl]; [discriminate|]. unfold plain_name. intros H.
  apply andb_true_iff in H as [_ H]. now apply negb_true_iff in H.
Qed.

Theorem fparse_bool_value fs n v rest acc :
  plain_name n = true -> fs_lookup fs n = Some FBool ->
  fparse fs ((dashc :: n ++ eqch :: v) :: rest) acc =
  match parse_bool v with
  | Some b0 => fparse fs rest ((n, if b0 then bs "true" else bs "false") :: acc)
  | None => PErr
  end.
Proof.
  intros Hp Hl. pose proof (plain_name_noeq n Hp) as Hne.
  destruct (plain_name_inv n Hp) as (c & tl & -> & Hd & He & _).
  cbn [app fparse]. rewrite dash_refl, Hd. cbn [negb andb orb]. rewrite Hd, He. cbn [orb].
  change (c :: tl ++ eqch :: v) with ((c :: tl) ++ eqch :: v).
  rewrite (split_eq_some (c :: tl) v [] Hne). cbn [rev app]. rewrite Hl. reflexivity.
Qed.

(* every accepted spelling of "on" is the bare switch *)
Corollary fparse_bool_on fs n v rest acc :
  plain_name n = true -> fs_lookup fs n = Some FBool -> parse_bool v = Some true ->
  fparse fs ((dashc :: n ++ eqch :: v) :: rest) acc = fparse fs ((dashc :: n) :: rest) acc.
Proof.
  intros Hp Hl Hv. rewrite (fparse_bool_value _ _ _ _ _ Hp Hl), Hv.
  now rewrite (fparse_bool _ _ _ _ Hp Hl).
Qed.

Example bool_forms_pretend :
  forallb (fun v => match parse_main [bs "-basepath"; bs "/b"; bs "remove"; bs "-p=" ++ v; bs "old"] with
                    | MRun o _ _ _ => o_p o | MUsage => false end)
          [bs "1"; bs "t"; bs "T"; bs "TRUE"; bs "true"; bs "True"] = true
  /\ forallb (fun v => match parse_main [bs "-p"; bs "-basepath"; bs "/b"; bs "remove"; bs "-p=" ++ v; bs "old"] with
                       | MRun o _ _ _ => negb (o_p o) | MUsage => false end)
             [bs "0"; bs "f"; bs "F"; bs "FALSE"; bs "false"; bs "False"] = true
  /\ parse_main [bs "-basepath"; bs "/b"; bs "remove"; bs "-p=yes"; bs "old"] = MUsage.
Proof. vm_compute. repeat split. Qed.
