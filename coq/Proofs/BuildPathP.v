(* Build roots computed from a sane configuration: with LAYERS a clean absolute path and the
   build-root setting a non-empty relative path of plain components (no "", ".", ".."), the
   build root of layer n is "/" ++ join "/" (components of LAYERS ++ [n] ++ components of the
   setting).  Hence build roots are never "" or "/", and those of different layers are unrelated. *)
From LC Require Import Lib.Bytes Lib.Lex Lib.Fields Lib.PathM Gen.Consts Model.Config
  Model.MountInfo Model.FsTree Model.Kernel Model.Layers
  Proofs.PathP Proofs.KernelP Proofs.ProbeP Proofs.UmountAllP Proofs.C03P Proofs.LegalNameP Cases.LC.
Import LC LCS.
Open Scope N_scope.

Definition nonempty (c : bytes) : bool := negb (beq c []).
Definition okp (c : bytes) : Prop := c = [] \/ plain c.

Lemma fold_okp l : Forall okp l -> forall st,
  fold_left (stepc true) l st = rev (filter nonempty l) ++ st.
Proof.
  induction 1 as [|c l Hc _ IH]; intros st; cbn [fold_left filter]; [reflexivity|].
  destruct Hc as [->|Hc].
  - cbn. apply IH.
  - rewrite stepc_plain by assumption. unfold nonempty at 1.
    destruct Hc as (Hne & _). assert (E : beq c [] = false) by now apply beq_false. rewrite E. cbn [negb rev].
    rewrite IH, <- app_assoc. reflexivity.
Qed.

Lemma filter_okp l : Forall okp l -> Forall plain (filter nonempty l).
Proof.
  induction 1 as [|c l Hc _ IH]; cbn; [constructor|]. destruct Hc as [->|Hc]; [exact IH|].
  unfold nonempty. destruct Hc as (Hne & Hr). assert (E : beq c [] = false) by now apply beq_false. rewrite E. cbn.
  constructor; [split; assumption|exact IH].
Qed.

(* Clean of a rooted path whose components are empty or plain *)
Lemma clean_okp p : is_rooted p = true -> Forall okp (psplit p) ->
  clean p = sl :: pjoin (filter nonempty (psplit p)).
Proof.
  intros Hr Ho. destruct p as [|a p']; [discriminate|]. rewrite clean_unfold by discriminate.
  unfold cstack. rewrite Hr, fold_okp by assumption. rewrite app_nil_r, rev_involutive. reflexivity.
Qed.

Lemma psplit_cons_sl s : psplit (sl :: s) = [] :: psplit s.
Proof. exact (split_app_sep sl [] s). Qed.

Lemma psplit_plain n : noslash n -> psplit n = [n].
Proof. intros H. unfold psplit, split. rewrite split_acc_end by assumption. now rewrite app_nil_r, rev_involutive. Qed.

Lemma plain_noslash cs : Forall plain cs -> Forall (nosep sl) cs.
Proof. apply Forall_impl. intros a (_ & _ & _ & H). exact H. Qed.

Lemma psplit_abs cs : Forall plain cs -> cs <> [] -> psplit (sl :: pjoin cs) = [] :: cs.
Proof.
  intros H Hne. rewrite psplit_cons_sl. f_equal. apply split_join; [exact Hne|now apply plain_noslash].
Qed.

(* the components of a clean absolute path *)
Definition comps (L : bytes) : list bytes := filter nonempty (psplit L).

Lemma clean_abs_shape L : is_clean_abs L = true ->
  Forall okp (psplit L) /\ Forall plain (comps L) /\ is_rooted L = true.
Proof.
  intros H. pose proof (is_clean_abs_rooted _ H) as Hr. destruct L as [|ch r]; [discriminate|].
  cbn [is_clean_abs] in H. apply andb_true_iff in H as [Hc H]. apply Ascii.eqb_eq in Hc. subst ch.
  assert (Ho : Forall okp (psplit (sl :: r))).
  { rewrite psplit_cons_sl. constructor; [now left|]. apply orb_true_iff in H as [H|H].
    - destruct r; [|discriminate]. cbn. constructor; [now left|constructor].
    - apply Forall_forall. intros x Hx. right. apply plainb_spec. rewrite forallb_forall in H. now apply H. }
  split; [exact Ho|]. split; [now apply filter_okp|exact Hr].
Qed.

(* a non-empty relative path of plain components *)
Definition plain_rel (b0 : bytes) : bool := forallb plainb (psplit b0).
Lemma plain_rel_spec b0 : plain_rel b0 = true -> Forall plain (psplit b0) /\ psplit b0 <> [] /\ b0 <> [].
Proof.
  unfold plain_rel. rewrite forallb_forall. intros H. split; [|split].
  - apply Forall_forall. intros x Hx. apply plainb_spec. now apply H.
  - apply split_acc_nonempty.
  - intros ->. specialize (H [] (or_introl eq_refl)). discriminate.
Qed.

Definition cfg_sane (c : cfgT) : bool := is_clean_abs (c_layers c) && plain_rel (c_buildroot c).

(* legal layer names are plain components *)
Lemma legal_rest_chars s : legal_rest s = true -> Forall (fun ch => bn ch <> 46 /\ bn ch <> 47) s.
Proof.
  intros H. apply legal_rest_bytes in H. eapply Forall_impl; [|exact H]. intros ch Hc. cbv beta in Hc.
  destruct (name_byte_facts ch Hc) as (H47 & H46 & _). split; assumption.
Qed.
Lemma legal_plain n : legal_name n = true -> n <> [] -> plain n.
Proof.
  intros H Hne. destruct n as [|ch s]; [congruence|].
  assert (Hall : Forall (fun x => bn x <> 46 /\ bn x <> 47) (ch :: s)).
  { apply legal_rest_chars, legal_name_rest, H. }
  assert (Hno : forall x, In x (ch :: s) -> bn x <> 46 /\ bn x <> 47) by (now apply Forall_forall).
  split; [discriminate|]. split; [|split].
  - intros E. injection E as -> _. destruct (Hno (nb 46) (or_introl eq_refl)) as [A _]. apply A. reflexivity.
  - intros E. injection E as -> _. destruct (Hno (nb 46) (or_introl eq_refl)) as [A _]. apply A. reflexivity.
  - intros Hin. destruct (Hno sl Hin) as [_ A]. apply A. reflexivity.
Qed.

Section Sane.
Variable c : cfgT.
Hypothesis Hs : cfg_sane c = true.

Let L := c_layers c.
Let Bs := psplit (c_buildroot c).

Lemma sane_parts : Forall okp (psplit L) /\ Forall plain (comps L) /\ is_rooted L = true
  /\ Forall plain Bs /\ Bs <> [] /\ c_buildroot c <> [].
Proof.
  unfold cfg_sane in Hs. apply andb_true_iff in Hs as [H1 H2].
  destruct (clean_abs_shape _ H1) as (A & B & C). destruct (plain_rel_spec _ H2) as (D & E & F).
  split; [exact A|]. split; [exact B|]. split; [exact C|]. split; [exact D|]. split; [exact E|exact F].
Qed.

Lemma L_nonempty : L <> [].
Proof. destruct sane_parts as (_ & _ & Hr & _). destruct L; [discriminate|discriminate]. Qed.

Lemma layer_path_sane n : plain n -> layer_path c n = sl :: pjoin (comps L ++ [n]).
Proof.
  intros Hn. destruct sane_parts as (Ho & Hc & Hr & _). pose proof L_nonempty as HL.
  assert (Hnn : n <> []) by (now destruct Hn).
  unfold layer_path, pathjoin. cbn [filter]. fold L.
  assert (E1 : beq L [] = false) by now apply beq_false. assert (E2 : beq n [] = false) by now apply beq_false.
  rewrite E1, E2. cbn [negb]. change (pjoin [L; n]) with (L ++ sl :: n).
  rewrite clean_okp.
  - unfold psplit at 1. rewrite split_app_sep. fold psplit. rewrite (psplit_plain n) by (now destruct Hn as (_ & _ & _ & H)).
    unfold comps. rewrite filter_app. cbn [filter]. unfold nonempty at 2. rewrite E2. reflexivity.
  - destruct L; [congruence|exact Hr].
  - unfold psplit. rewrite split_app_sep. fold psplit. apply Forall_app. split; [exact Ho|].
    rewrite (psplit_plain n) by (now destruct Hn as (_ & _ & _ & H)). constructor; [now right|constructor].
Qed.

Lemma build_path_sane l n : plain n -> l_path l = layer_path c n ->
  build_path c l = sl :: pjoin (comps L ++ [n] ++ Bs).
Proof.
  intros Hn Hp. destruct sane_parts as (Ho & Hc & Hr & Hb & Hbn & Hbr).
  assert (HP : Forall plain (comps L ++ [n])) by (apply Forall_app; split; [exact Hc|constructor; [exact Hn|constructor]]).
  assert (HPn : comps L ++ [n] <> []) by (destruct (comps L); discriminate).
  assert (bld_plain0 : forall x : bytes, plain x -> x <> [] /\ True) by (intros x (A & _); auto).
  unfold build_path. rewrite Hp, (layer_path_sane n Hn). unfold pathjoin. cbn [filter].
  assert (E2 : beq (c_buildroot c) [] = false) by now apply beq_false.
  rewrite E2. cbn [beq negb]. set (P := sl :: pjoin (comps L ++ [n])).
  change (pjoin [P; c_buildroot c]) with (P ++ sl :: c_buildroot c).
  rewrite clean_okp.
  - unfold psplit at 1. rewrite split_app_sep. fold psplit. unfold P. rewrite psplit_abs by assumption.
    fold Bs. cbn [app filter nonempty beq negb]. f_equal. f_equal.
    rewrite filter_all; [now rewrite <- app_assoc|]. intros x Hx.
    destruct (bld_plain0 x) as (A & _); [|unfold nonempty; apply negb_true_iff; now apply beq_false].
    apply in_app_or in Hx as [Hx|Hx]; [apply in_app_or in Hx as [Hx|[<-|[]]]|].
    + rewrite Forall_forall in Hc. now apply Hc.
    + exact Hn.
    + rewrite Forall_forall in Hb. now apply Hb.
  - reflexivity.
  - unfold psplit. rewrite split_app_sep. fold psplit. unfold P. rewrite psplit_abs by assumption. fold Bs.
    apply Forall_app. split.
    + constructor; [now left|]. eapply Forall_impl; [|exact HP]. intros a Ha. now right.
    + eapply Forall_impl; [|exact Hb]. intros a Ha. now right.
Qed.

Lemma pjoin_nonempty cs : Forall plain cs -> cs <> [] -> pjoin cs <> [].
Proof.
  intros H Hne E. assert (S : psplit (pjoin cs) = cs) by (apply split_join; [exact Hne|now apply plain_noslash]).
  rewrite E in S. cbn in S. subst cs. inversion H as [|? ? (A & _) _]; subst. congruence.
Qed.

Lemma bld_plain n : plain n -> Forall plain (comps L ++ [n] ++ Bs) /\ comps L ++ [n] ++ Bs <> [].
Proof.
  intros Hn. destruct sane_parts as (Ho & Hc & Hr & Hb & Hbn & Hbr). split.
  - apply Forall_app. split; [exact Hc|]. constructor; [exact Hn|exact Hb].
  - destruct (comps L); discriminate.
Qed.

Lemma good_root_sane l n : plain n -> l_path l = layer_path c n -> good_root (build_path c l) = true.
Proof.
  intros Hn Hp. rewrite (build_path_sane l n Hn Hp). destruct (bld_plain n Hn) as [HP Hne].
  unfold good_root. apply andb_true_iff. split; [reflexivity|].
  apply negb_true_iff. apply beq_false. intros E. unfold root in E.
  injection E as E. exact (pjoin_nonempty _ HP Hne E).
Qed.

Lemma apart_sane l l' n n' : plain n -> plain n' -> l_path l = layer_path c n -> l_path l' = layer_path c n' ->
  at_or_below (build_path c l) (build_path c l') = true -> n = n'.
Proof.
  intros Hn Hn' Hp Hp' H. rewrite (build_path_sane l n Hn Hp), (build_path_sane l' n' Hn' Hp') in H.
  destruct (bld_plain n Hn) as [HP Hne]. destruct (bld_plain n' Hn') as [HP' Hne'].
  pose proof (psplit_abs _ HP Hne) as S. pose proof (psplit_abs _ HP' Hne') as S'.
  unfold at_or_below in H. apply orb_true_iff in H as [H|H].
  - apply beq_true in H. rewrite H in S'. rewrite S in S'. injection S' as S'.
    apply app_inv_head in S'. now injection S' as ->.
  - apply below_spec in H as [r E]. rewrite E in S'. unfold psplit in S'. rewrite split_app_sep in S'. fold psplit in S'.
    rewrite S in S'. apply (f_equal (@length _)) in S'. rewrite !app_length in S'. cbn [length] in S'. rewrite !app_length in S'.
    cbn [length] in S'. pose proof (split_acc_nonempty sl [] r) as Hr. fold (split sl r) in Hr.
    unfold psplit in S'. destruct (split sl r); [congruence|]. cbn [length] in S'. exfalso. lia.
Qed.

(* for the layers found on disk *)
Theorem sane_layers f : nodup_paths (map l_name (read_layer_files c f)) = true ->
  wf_layers c (read_layer_files c f) = true /\ roots_apart c (read_layer_files c f) = true.
Proof.
  intros ND. pose proof (read_layer_files_fresh c f) as Hf. rewrite Forall_forall in Hf.
  assert (Hpl : forall x, In x (read_layer_files c f) -> plain (l_name x) /\ l_path x = layer_path c (l_name x)).
  { intros x Hx. destruct (Hf x Hx) as (_ & _ & _ & _ & Hlegal & Hpath). split; [|exact Hpath].
    apply legal_plain; [exact Hlegal|]. eapply layer_name_nonempty; eauto. }
  split.
  - unfold wf_layers. rewrite ND. cbn [andb]. apply forallb_forall. intros x Hx.
    destruct (Hpl x Hx) as [A B]. eapply good_root_sane; eauto.
  - unfold roots_apart. apply forallb_forall. intros x Hx. apply forallb_forall. intros y Hy.
    destruct (Hpl x Hx) as [A B]. destruct (Hpl y Hy) as [A' B'].
    destruct (at_or_below (build_path c x) (build_path c y)) eqn:E; [|now rewrite orb_true_r].
    rewrite (apart_sane x y _ _ A A' B B' E). now rewrite beq_refl.
Qed.

End Sane.
