(* C01: closed worlds and cases showing (1) that the hypotheses of the C01 theorems are
   satisfiable by non-trivial inputs (fresh and partially mounted states), (2) that the
   behaviours which refuted the first version of the property (failed rbind, plain bind of
   /dev, import on the build root, pre-stacked import) are now accepted -- after the repairs of
   round 2 to the code/model and to the predicate --, and (3) that each remaining extra
   hypothesis is necessary: without it C01.step_spec is FALSE of the model. *)
From LC Require Import Lib.Bytes Lib.Lex Lib.Fields Lib.PathM Gen.Consts
  Model.MountInfo Model.FsTree Model.Kernel Model.Layers Cases.Verdict Cases.LC Cases.C01
  Proofs.MntTraceP Proofs.MntNeededP Proofs.MntOrderP Proofs.MntKernelP Proofs.MntPostP Proofs.C01P
  Proofs.C01HoldsP Proofs.MntClearP.
Import LC LCS.
Open Scope N_scope.

Definition ex_cfg : cfgT :=
  MkCfg (bs "/b") (bs "/b/layers") (bs "build") (bs "packages") (bs "generated")
        (bs "overlayfs/workdir") (bs "overlayfs/upperdir") (bs "/b/export") (bs "packages") (bs "generated").
Definition ex_env : env := MkEnv false NoFault false false [].
Definition dirs (l : list string) : fsT := map (fun s => (bs s, Dir)) l.
Definition nlb : bytes := [nb 10].
(* a base directory with a root layer "base0" and a derived layer "d1" (minimal build
   directories present in both); /dev and /src exist on the host *)
Definition base_fs : fsT :=
  dirs ["/"; "/b"; "/b/layers"; "/b/export"; "/dev"; "/src";
        "/b/layers/base0"; "/b/layers/base0/build";
        "/b/layers/base0/build/bin"; "/b/layers/base0/build/etc"; "/b/layers/base0/build/lib";
        "/b/layers/base0/build/opt"; "/b/layers/base0/build/root"; "/b/layers/base0/build/sbin";
        "/b/layers/base0/build/usr";
        "/b/layers/d1"; "/b/layers/d1/build"; "/b/layers/d1/overlayfs";
        "/b/layers/d1/build/bin"; "/b/layers/d1/build/etc"; "/b/layers/d1/build/lib";
        "/b/layers/d1/build/opt"; "/b/layers/d1/build/root"; "/b/layers/d1/build/sbin";
        "/b/layers/d1/build/usr";
        "/b/layers/d1/overlayfs/workdir"; "/b/layers/d1/overlayfs/upperdir"]%string
  ++ [(bs "/b/default_layerconfig.skel", File [])].
Definition root_line : kline :=
  MkK (bs "1") (bs "0") (bs "8:1") (bs "/") (bs "/") (bs "rw") [] (bs "ext4") (bs "/dev/sda1") [(bs "rw", None)].
Definition ks0 : kstate := MkKS [root_line] 2 1.
Definition world (extra : fsT) (basecfg d1cfg : bytes) (ks : kstate) : wobs :=
  MkWO (base_fs ++ extra ++ [(bs "/b/layers/base0/layerconfig", File basecfg);
                             (bs "/b/layers/d1/layerconfig", File d1cfg)]) ks.
Definition d1 : bytes := bs "d1".
Definition ks_of (r : kres) : kstate := match r with KOk k => k | KErr => ks0 end.

(* the observed step that agrees with the model, and the one-step case made of it *)
Definition step_of_model (cfg : cfgT) (w : wobs) (e : env) (cmd : command) (um : users_map) : step :=
  let r := run e cfg um cmd (world_of w) in
  let st := snd r in
  MkStep e cmd um (rclass_of (fst r)) (rev (s_log st)) (MkDelta (map fst (wo_fs w)) (w_fs (s_w st)))
         (ks_tab (w_ks (s_w st))) (ks_nextid (w_ks (s_w st))) (ks_nextdev (w_ks (s_w st)))
         (match fst r with Ret (Some ld) => Some (map lobs_of (ld_map ld)) | _ => None end) [].
Definition case_of (cfg : cfgT) (w : wobs) (e : env) (cmd : command) : LC.case :=
  MkCase cfg (wo_fs w) (wo_ks w) [step_of_model cfg w e cmd []].
Definition hyps_of (c : LC.case) : bool := along (step_hyps (c_cfg c)) (w0 c) (c_steps c).

(* ------------------------------------------------------------------ the hypotheses are satisfiable *)
Definition cfg_good : bytes :=
  bs "base base0" ++ nlb ++ bs "import rbind /dev /dev" ++ nlb ++ bs "import bind /src /mnt" ++ nlb.
Definition w_good : wobs :=
  world (dirs ["/b/layers/d1/build/dev"; "/b/layers/d1/build/mnt"]%string) [] cfg_good ks0.
Definition v_good : sview := mview ex_cfg w_good ex_env d1 [].
Definition c_good : LC.case := case_of ex_cfg w_good ex_env (CMount d1).

Example C01_hyps_nontrivial :
  plain_env ex_env = true
  /\ wf_table (ks_tab (wo_ks w_good)) = true
  /\ is_abs (c_layers ex_cfg) = true
  /\ rbind_clear ex_cfg (chain ex_cfg (wo_fs w_good) d1) = true
  /\ chain_no_kf1 (chain ex_cfg (wo_fs w_good) d1) = true
  /\ builds_apart ex_cfg (chain ex_cfg (wo_fs w_good) d1) = true
  /\ pre_right ex_cfg (wo_fs w_good) (chain ex_cfg (wo_fs w_good) d1) (ks_tab (wo_ks w_good)) = true
  /\ nodup_targets ex_cfg (chain ex_cfg (wo_fs w_good) d1) = true
  /\ nocomma_paths ex_cfg (layers_on_disk ex_cfg (wo_fs w_good)) (chain ex_cfg (wo_fs w_good) d1) = true
  /\ ids_ok (wo_ks w_good) = true
  /\ id_bound (wo_ks (v_after v_good)) = true
  /\ v_res v_good = ROk
  /\ length (chain ex_cfg (wo_fs w_good) d1) = 2%nat
  /\ length (mount_targets (syscalls (v_log v_good))) = 3%nat
  /\ length (syscalls (v_log v_good)) = 4%nat
  /\ lmap_beq (layers_on_disk ex_cfg (wo_fs (v_after v_good))) (layers_on_disk ex_cfg (wo_fs w_good)) = true
  /\ C01.step_spec ex_cfg w_good v_good = true.
Proof. vm_compute. repeat split; reflexivity. Qed.

(* the same as a case: well-formed, corresponding, no known-finding class, hypotheses, spec *)
Example C01_case_hyps_nontrivial :
  C01.wf c_good = true /\ LC.corr c_good = true /\ C01.kf c_good = 0
  /\ hyps_of c_good = true /\ C01.spec c_good = true.
Proof. vm_compute. repeat split; reflexivity. Qed.

(* a partially mounted prior state: the world after the first run with the last import
   unmounted by hand; every hypothesis holds, the second mount issues exactly one call *)
Definition w_part : wobs :=
  MkWO (wo_fs (v_after v_good)) (ks_of (kumount (wo_ks (v_after v_good)) (bs "/b/layers/d1/build/mnt") 0)).
Definition v_part : sview := mview ex_cfg w_part ex_env d1 [].
Definition c_part : LC.case := case_of ex_cfg w_part ex_env (CMount d1).
Example C01_hyps_partial_state :
  wf_table (ks_tab (wo_ks w_part)) = true
  /\ length (ks_tab (wo_ks w_part)) = 3%nat
  /\ hyps_of c_part = true
  /\ C01.wf c_part = true /\ LC.corr c_part = true /\ C01.kf c_part = 0
  /\ v_res v_part = ROk
  /\ length (syscalls (v_log v_part)) = 1%nat
  /\ C01.step_spec ex_cfg w_part v_part = true.
Proof. vm_compute. repeat split; reflexivity. Qed.

Example C01_idempotent_example :
  syscalls (v_log (mview ex_cfg (v_after v_good) ex_env d1 [])) = [].
Proof. vm_compute. reflexivity. Qed.

(* ------------------------------------------------------------------ round-1 refutations that are now accepted *)
(* the mountpoint <build>/dev does not exist: the recursive bind of /dev fails as the last call
   of a failed command; propagation_ok (failed_last = true) accepts the unpaired call *)
Definition w_b1 : wobs := world (dirs ["/b/layers/d1/build/mnt"]%string) [] cfg_good ks0.
Definition v_b1 : sview := mview ex_cfg w_b1 ex_env d1 [].
Example C01_now_failed_rbind :
  v_res v_b1 = RFail /\ length (syscalls (v_log v_b1)) = 2%nat
  /\ C01.propagation_ok true (syscalls (v_log v_b1)) = true
  /\ C01.step_spec ex_cfg w_b1 v_b1 = true.
Proof. vm_compute. repeat split; reflexivity. Qed.

(* `import bind /dev /dev`: the slave call after a non-recursive bind of /dev is accepted *)
Definition cfg_b2 : bytes := bs "base base0" ++ nlb ++ bs "import bind /dev /dev" ++ nlb.
Definition w_b2 : wobs := world (dirs ["/b/layers/d1/build/dev"]%string) [] cfg_b2 ks0.
Definition v_b2 : sview := mview ex_cfg w_b2 ex_env d1 [].
Example C01_now_plain_bind :
  v_res v_b2 = ROk /\ length (syscalls (v_log v_b2)) = 3%nat
  /\ C01.step_spec ex_cfg w_b2 v_b2 = true.
Proof. vm_compute. repeat split; reflexivity. Qed.

(* `import bind /src /` in a derived layer: the table is re-read after the overlay mount, the
   import finds the overlay on its mountpoint (not its source) and the command fails after ONE
   call; nothing is stacked *)
Definition cfg_c : bytes := bs "base base0" ++ nlb ++ bs "import bind /src /" ++ nlb.
Definition w_c : wobs := world [] [] cfg_c ks0.
Definition v_c : sview := mview ex_cfg w_c ex_env d1 [].
Example C01_now_root_import :
  v_res v_c = RFail
  /\ mount_targets (syscalls (v_log v_c)) = [bs "/b/layers/d1/build"]
  /\ C01.step_spec ex_cfg w_c v_c = true.
Proof. vm_compute. repeat split; reflexivity. Qed.

(* the root layer's import already mounted twice by hand: no call, ROk, and the count stays
   what it was (max 1 2 = 2); every hypothesis of the partial theorems holds *)
Definition cfg_dbase : bytes := bs "import bind /src /mnt" ++ nlb.
Definition fs_d : fsT := dirs ["/b/layers/base0/build/mnt"]%string.
Definition w_d0 : wobs := world fs_d cfg_dbase (bs "base base0" ++ nlb) ks0.
Definition ks_d1 : kstate :=
  ks_of (kmount (wo_fs w_d0) ks0 (bs "/src") (bs "/b/layers/base0/build/mnt") (bs "bind") MS_BIND []).
Definition ks_d2 : kstate :=
  ks_of (kmount (wo_fs w_d0) ks_d1 (bs "/src") (bs "/b/layers/base0/build/mnt") (bs "bind") MS_BIND []).
Definition w_d : wobs := world fs_d cfg_dbase (bs "base base0" ++ nlb) ks_d2.
Definition v_d : sview := mview ex_cfg w_d ex_env (bs "base0") [].
Example C01_now_prestacked :
  v_res v_d = ROk /\ syscalls (v_log v_d) = []
  /\ count_at (ks_tab (wo_ks (v_after v_d))) (bs "/b/layers/base0/build/mnt") = 2%nat
  /\ hyps_of (case_of ex_cfg w_d ex_env (CMount (bs "base0"))) = true
  /\ C01.step_spec ex_cfg w_d v_d = true.
Proof. vm_compute. repeat split; reflexivity. Qed.

(* ------------------------------------------------------------------ known finding 1 (kf = 1) *)
(* `import bind /src /mnt/sub` followed by `import rbind /host /mnt`, /host having a submount
   /host/sub: the recursive bind copies it onto <build>/mnt/sub, on top of the first import *)
Definition cfg_r : bytes :=
  bs "base base0" ++ nlb ++ bs "import bind /src /mnt/sub" ++ nlb ++ bs "import rbind /host /mnt" ++ nlb.
Definition fs_r : fsT := dirs ["/host"; "/host/sub"; "/b/layers/d1/build/mnt"; "/b/layers/d1/build/mnt/sub"]%string.
Definition ks_r : kstate :=
  ks_of (kmount (wo_fs (world fs_r [] cfg_r ks0)) ks0 (bs "/src") (bs "/host/sub") (bs "bind") MS_BIND []).
Definition w_r : wobs := world fs_r [] cfg_r ks_r.
Definition v_r : sview := mview ex_cfg w_r ex_env d1 [].
Definition c_r : LC.case := case_of ex_cfg w_r ex_env (CMount d1).
Example C01_refuted_1_witness :
  C01.wf c_r = true /\ LC.corr c_r = true /\ C01.kf c_r = 1 /\ C01.spec c_r = false
  /\ rbind_clear ex_cfg (chain ex_cfg (wo_fs w_r) d1) = false
  /\ chain_no_kf1 (chain ex_cfg (wo_fs w_r) d1) = false
  /\ v_res v_r = ROk
  /\ count_at (ks_tab (wo_ks (v_after v_r))) (bs "/b/layers/d1/build/mnt/sub") = 2%nat.
Proof. vm_compute. repeat split; reflexivity. Qed.

(* ------------------------------------------------------------------ known finding 1, an rbind ABOVE A LATER import *)
(* `import rbind /host /mnt` followed by `import bind /other /mnt/sub`; on the host /host/sub
   carries two stacked binds of /other.  The recursive bind copies both onto <build>/mnt/sub;
   the later import finds its mountpoint mounted with the expected source and is skipped; ROk
   with two mounts on a mountpoint that had none.  Since the class was widened
   (rbind_over_other: another import, earlier or later) the case is in class 1 *)
Definition cfg_q : bytes :=
  bs "base base0" ++ nlb ++ bs "import rbind /host /mnt" ++ nlb ++ bs "import bind /other /mnt/sub" ++ nlb.
Definition fs_q : fsT := fs_r ++ dirs ["/other"]%string.
Definition ks_q1 : kstate :=
  ks_of (kmount (wo_fs (world fs_q [] cfg_q ks0)) ks0 (bs "/other") (bs "/host/sub") (bs "bind") MS_BIND []).
Definition ks_q : kstate :=
  ks_of (kmount (wo_fs (world fs_q [] cfg_q ks0)) ks_q1 (bs "/other") (bs "/host/sub") (bs "bind") MS_BIND []).
Definition w_q : wobs := world fs_q [] cfg_q ks_q.
Definition v_q : sview := mview ex_cfg w_q ex_env d1 [].
Definition c_q : LC.case := case_of ex_cfg w_q ex_env (CMount d1).
Example C01_refuted_1_later_import_witness :
  C01.wf c_q = true /\ LC.corr c_q = true /\ C01.kf c_q = 1 /\ C01.spec c_q = false
  /\ chain_no_kf1 (chain ex_cfg (wo_fs w_q) d1) = false
  /\ rbind_clear ex_cfg (chain ex_cfg (wo_fs w_q) d1) = false
  /\ v_res v_q = ROk
  /\ count_at (ks_tab (wo_ks w_q)) (bs "/b/layers/d1/build/mnt/sub") = 0%nat
  /\ count_at (ks_tab (wo_ks (v_after v_q))) (bs "/b/layers/d1/build/mnt/sub") = 2%nat.
Proof. vm_compute. repeat split; reflexivity. Qed.

(* ------------------------------------------------------------------ mount_post refuted without pre_right *)
(* a pre-existing import that layercake accepts (MountSourceIsExpected compares device and root
   against the table as it is NOW) but whose source path showed another file system WHEN the
   bind was made: a tmpfs on /old, bind /old -> <build>/mnt, later bind /old -> /s; the layer
   says `import bind /s /mnt`.  One mount on the mountpoint, no call, result ROk; the
   specification's shows_source (covering mount of the source at attachment time) says no.
   Also a witness against `wf c -> kf c = 0 -> corr c -> spec c` *)
Definition cfg_s : bytes := bs "import bind /s /mnt" ++ nlb.
Definition fs_s : fsT := dirs ["/old"; "/s"; "/b/layers/base0/build/mnt"]%string.
Definition w_s0 : wobs := world fs_s cfg_s (bs "base base0" ++ nlb) ks0.
Definition ks_s1 : kstate := ks_of (kmount (wo_fs w_s0) ks0 (bs "none") (bs "/old") (bs "tmpfs") 0 []).
Definition ks_s2 : kstate :=
  ks_of (kmount (wo_fs w_s0) ks_s1 (bs "/old") (bs "/b/layers/base0/build/mnt") (bs "bind") MS_BIND []).
Definition ks_s3 : kstate := ks_of (kmount (wo_fs w_s0) ks_s2 (bs "/old") (bs "/s") (bs "bind") MS_BIND []).
Definition w_s : wobs := world fs_s cfg_s (bs "base base0" ++ nlb) ks_s3.
Definition v_s : sview := mview ex_cfg w_s ex_env (bs "base0") [].
Definition c_s : LC.case := case_of ex_cfg w_s ex_env (CMount (bs "base0")).
Example C01_post_refuted_later_source :
  C01.wf c_s = true /\ LC.corr c_s = true /\ C01.kf c_s = 0 /\ C01.spec c_s = false
  /\ pre_right ex_cfg (wo_fs w_s) (chain ex_cfg (wo_fs w_s) (bs "base0")) (ks_tab (wo_ks w_s)) = false
  /\ v_res v_s = ROk
  /\ syscalls (v_log v_s) = []
  /\ count_at (ks_tab (wo_ks (v_after v_s))) (bs "/b/layers/base0/build/mnt") = 1%nat
  /\ C01.step_spec ex_cfg w_s v_s = false.
Proof. vm_compute. repeat split; reflexivity. Qed.

(* ------------------------------------------------------------------ (e) refuted without "layer definitions unchanged" *)
(* the exports directory IS the layers directory, the package-export subdirectory is called
   "d1" and the root layer is called "layerconfig": its automated package-export link is
   /b/layers/d1/layerconfig -- the configuration file of layer d1, here a symbolic link to
   /cfgA.  The first `mount d1` (one call, the overlay; ROk) ends with makeExportSymlinks, which
   repoints that link to /b/layers/layerconfig/packages, a file that reads like a layer
   configuration with one more import.  The second `mount d1` therefore has a new import to
   mount and issues a call.  Every path is clean and absolute, the file tree is a tree. *)
Definition cfg_e : cfgT :=
  MkCfg (bs "/b") (bs "/b/layers") (bs "build") (bs "packages") (bs "generated")
        (bs "overlayfs/workdir") (bs "overlayfs/upperdir") (bs "/b/layers") (bs "d1") (bs "generated").
Definition fs_e : fsT :=
  dirs ["/"; "/b"; "/b/layers"; "/src";
        "/b/layers/layerconfig"; "/b/layers/layerconfig/build";
        "/b/layers/layerconfig/build/bin"; "/b/layers/layerconfig/build/etc"; "/b/layers/layerconfig/build/lib";
        "/b/layers/layerconfig/build/opt"; "/b/layers/layerconfig/build/root"; "/b/layers/layerconfig/build/sbin";
        "/b/layers/layerconfig/build/usr";
        "/b/layers/d1"; "/b/layers/d1/build"; "/b/layers/d1/overlayfs";
        "/b/layers/d1/overlayfs/workdir"; "/b/layers/d1/overlayfs/upperdir";
        "/b/layers/d1/build/bin"; "/b/layers/d1/build/etc"; "/b/layers/d1/build/lib";
        "/b/layers/d1/build/opt"; "/b/layers/d1/build/root"; "/b/layers/d1/build/sbin";
        "/b/layers/d1/build/usr"; "/b/layers/d1/build/mnt"]%string
  ++ [(bs "/b/default_layerconfig.skel", File []);
      (bs "/b/layers/layerconfig/layerconfig", File []);
      (bs "/cfgA", File (bs "base layerconfig" ++ nlb));
      (bs "/b/layers/d1/layerconfig", Link (bs "/cfgA"));
      (bs "/b/layers/layerconfig/packages",
       File (bs "base layerconfig" ++ nlb ++ bs "import bind /src /mnt" ++ nlb))].
Definition w_e : wobs := MkWO fs_e ks0.
Definition v_e : sview := mview cfg_e w_e ex_env d1 [].
Definition v_e2 : sview := mview cfg_e (v_after v_e) ex_env d1 [].
Example C01_idempotent_refuted_config_rewritten :
  plain_env ex_env = true
  /\ wf_cfg cfg_e = true
  /\ nodup_paths (map fst fs_e) = true
  /\ wf_table (ks_tab (wo_ks w_e)) = true
  /\ v_res v_e = ROk
  /\ length (syscalls (v_log v_e)) = 1%nat
  /\ lmap_beq (layers_on_disk cfg_e (wo_fs (v_after v_e))) (layers_on_disk cfg_e (wo_fs w_e)) = false
  /\ v_res v_e2 = ROk
  /\ mount_targets (syscalls (v_log v_e2)) = [bs "/b/layers/d1/build/mnt"].
Proof. vm_compute. repeat split; reflexivity. Qed.
