(* C01: closed worlds showing (1) that the hypotheses of the C01 theorems are satisfiable by a
   non-trivial world (a derived layer with an rbind of /dev and a bind import, four mount
   calls, result ROk, the whole of C01.step_spec true), and (2) that each extra hypothesis of a
   `_partial` theorem is necessary: without it the corresponding conjunct of C01.step_spec is
   FALSE of the model (and, the model being the observed behaviour, of layercake). *)
From LC Require Import Lib.Bytes Lib.Lex Lib.Fields Lib.PathM Gen.Consts
  Model.MountInfo Model.FsTree Model.Kernel Model.Layers Cases.Verdict Cases.LC Cases.C01
  Proofs.MntTraceP Proofs.MntNeededP Proofs.MntOrderP Proofs.MntKernelP Proofs.MntPostP Proofs.C01P.
Import LC LCS.
Open Scope N_scope.

Definition ex_cfg : cfgT :=
  MkCfg (bs "/b") (bs "/b/layers") (bs "build") (bs "packages") (bs "generated")
        (bs "overlayfs/workdir") (bs "overlayfs/upperdir") (bs "/b/export") (bs "packages") (bs "generated").
Definition ex_env : env := MkEnv false NoFault false false [].
Definition dirs (l : list string) : fsT := map (fun s => (bs s, Dir)) l.
Definition nlb : bytes := [nb 10].
(* a base directory with a root layer "base0" (minimal build directories present) and a
   derived layer "d1"; /dev and /src exist on the host *)
Definition base_fs : fsT :=
  dirs ["/"; "/b"; "/b/layers"; "/b/export"; "/dev"; "/src";
        "/b/layers/base0"; "/b/layers/base0/build";
        "/b/layers/base0/build/bin"; "/b/layers/base0/build/etc"; "/b/layers/base0/build/lib";
        "/b/layers/base0/build/opt"; "/b/layers/base0/build/root"; "/b/layers/base0/build/sbin";
        "/b/layers/base0/build/usr";
        "/b/layers/d1"; "/b/layers/d1/build"; "/b/layers/d1/overlayfs";
        "/b/layers/d1/build/bin"; "/b/layers/d1/build/etc"; "/b/layers/d1/build/lib";
        "/b/layers/d1/build/opt"; "/b/layers/d1/build/root"; "/b/layers/d1/build/sbin";
        "/b/layers/d1/build/usr";
        "/b/layers/d1/overlayfs/workdir"; "/b/layers/d1/overlayfs/upperdir"]%string
  ++ [(bs "/b/default_layerconfig.skel", File [])].
Definition root_line : kline :=
  MkK (bs "1") (bs "0") (bs "8:1") (bs "/") (bs "/") (bs "rw") [] (bs "ext4") (bs "/dev/sda1") [(bs "rw", None)].
Definition ks0 : kstate := MkKS [root_line] 2 1.
Definition world (extra : fsT) (basecfg d1cfg : bytes) (ks : kstate) : wobs :=
  MkWO (base_fs ++ extra ++ [(bs "/b/layers/base0/layerconfig", File basecfg);
                             (bs "/b/layers/d1/layerconfig", File d1cfg)]) ks.
Definition d1 : bytes := bs "d1".

(* ------------------------------------------------------------------ the hypotheses are satisfiable *)
Definition cfg_good : bytes :=
  bs "base base0" ++ nlb ++ bs "import rbind /dev /dev" ++ nlb ++ bs "import bind /src /mnt" ++ nlb.
Definition w_good : wobs :=
  world (dirs ["/b/layers/d1/build/dev"; "/b/layers/d1/build/mnt"]%string) [] cfg_good ks0.
Definition v_good : sview := mview ex_cfg w_good ex_env d1 [].

Example C01_hyps_nontrivial :
  plain_env ex_env = true
  /\ wf_table (ks_tab (wo_ks w_good)) = true
  /\ is_abs (c_layers ex_cfg) = true
  /\ no_root_import ex_cfg (chain ex_cfg (wo_fs w_good) d1) = true
  /\ psources_rbind ex_cfg (chain ex_cfg (wo_fs w_good) d1) = true
  /\ rclass_beq (v_res v_good) RFail = false
  /\ v_res v_good = ROk
  /\ length (chain ex_cfg (wo_fs w_good) d1) = 2%nat
  /\ length (mount_targets (syscalls (v_log v_good))) = 3%nat
  /\ length (syscalls (v_log v_good)) = 4%nat
  /\ lmap_beq (layers_on_disk ex_cfg (wo_fs (v_after v_good))) (layers_on_disk ex_cfg (wo_fs w_good)) = true
  /\ C01.mount_post ex_cfg (wo_fs w_good) (layers_on_disk ex_cfg (wo_fs w_good))
       (chain ex_cfg (wo_fs w_good) d1) (ks_tab (wo_ks (v_after v_good))) = true
  /\ C01.step_spec ex_cfg w_good v_good = true.
Proof. vm_compute. repeat split; reflexivity. Qed.

(* the additional hypotheses of C01_post_count_partial / C01_post_partial / C01_model_partial *)
Example C01_post_hyps_nontrivial :
  rbind_clear ex_cfg (chain ex_cfg (wo_fs w_good) d1) = true
  /\ nostack0 ex_cfg (chain ex_cfg (wo_fs w_good) d1) (ks_tab (wo_ks w_good)) = true
  /\ pre_right ex_cfg (wo_fs w_good) (chain ex_cfg (wo_fs w_good) d1) (ks_tab (wo_ks w_good)) = true
  /\ nodup_targets ex_cfg (chain ex_cfg (wo_fs w_good) d1) = true
  /\ nocomma_paths ex_cfg (layers_on_disk ex_cfg (wo_fs w_good)) (chain ex_cfg (wo_fs w_good) d1) = true
  /\ ids_ok (wo_ks w_good) = true
  /\ id_bound (wo_ks (v_after v_good)) = true.
Proof. vm_compute. repeat split; reflexivity. Qed.

(* the same hypotheses hold in a partially mounted prior state: the world after the first run
   with the last import unmounted by hand; the second mount issues exactly one call *)
Definition ks_of (r : kres) : kstate := match r with KOk k => k | KErr => ks0 end.
Definition w_part : wobs :=
  MkWO (wo_fs (v_after v_good)) (ks_of (kumount (wo_ks (v_after v_good)) (bs "/b/layers/d1/build/mnt") 0)).
Definition v_part : sview := mview ex_cfg w_part ex_env d1 [].
Example C01_hyps_partial_state :
  wf_table (ks_tab (wo_ks w_part)) = true
  /\ length (ks_tab (wo_ks w_part)) = 3%nat
  /\ no_root_import ex_cfg (chain ex_cfg (wo_fs w_part) d1) = true
  /\ psources_rbind ex_cfg (chain ex_cfg (wo_fs w_part) d1) = true
  /\ rbind_clear ex_cfg (chain ex_cfg (wo_fs w_part) d1) = true
  /\ nostack0 ex_cfg (chain ex_cfg (wo_fs w_part) d1) (ks_tab (wo_ks w_part)) = true
  /\ pre_right ex_cfg (wo_fs w_part) (chain ex_cfg (wo_fs w_part) d1) (ks_tab (wo_ks w_part)) = true
  /\ nodup_targets ex_cfg (chain ex_cfg (wo_fs w_part) d1) = true
  /\ nocomma_paths ex_cfg (layers_on_disk ex_cfg (wo_fs w_part)) (chain ex_cfg (wo_fs w_part) d1) = true
  /\ ids_ok (wo_ks w_part) = true
  /\ id_bound (wo_ks (v_after v_part)) = true
  /\ v_res v_part = ROk
  /\ length (syscalls (v_log v_part)) = 1%nat
  /\ C01.step_spec ex_cfg w_part v_part = true.
Proof. vm_compute. repeat split; reflexivity. Qed.

(* ------------------------------------------------------------------ (b) refuted without "not RFail" *)
(* the mountpoint <build>/dev does not exist: the recursive bind of /dev fails, fs.Mount
   returns before the MS_SLAVE|MS_REC call, the log ends with an unpaired rbind *)
Definition w_b1 : wobs := world (dirs ["/b/layers/d1/build/mnt"]%string) [] cfg_good ks0.
Definition v_b1 : sview := mview ex_cfg w_b1 ex_env d1 [].
Example C01_propagation_refuted_failed_rbind :
  plain_env ex_env = true
  /\ psources_rbind ex_cfg (chain ex_cfg (wo_fs w_b1) d1) = true
  /\ v_res v_b1 = RFail
  /\ C01.propagation_ok (syscalls (v_log v_b1)) = false
  /\ C01.step_spec ex_cfg w_b1 v_b1 = false.
Proof. vm_compute. repeat split; reflexivity. Qed.

(* ------------------------------------------------------------------ (b) refuted without "psources are rbind" *)
(* `import bind /dev /dev`: fs.Mount issues the propagation call for every mount whose source
   is /dev, /sys or /run, whatever the type; the property allows it after recursive binds only *)
Definition cfg_b2 : bytes := bs "base base0" ++ nlb ++ bs "import bind /dev /dev" ++ nlb.
Definition w_b2 : wobs := world (dirs ["/b/layers/d1/build/dev"]%string) [] cfg_b2 ks0.
Definition v_b2 : sview := mview ex_cfg w_b2 ex_env d1 [].
Example C01_propagation_refuted_plain_bind :
  plain_env ex_env = true
  /\ psources_rbind ex_cfg (chain ex_cfg (wo_fs w_b2) d1) = false
  /\ v_res v_b2 = ROk
  /\ length (syscalls (v_log v_b2)) = 3%nat
  /\ C01.propagation_ok (syscalls (v_log v_b2)) = false
  /\ C01.step_spec ex_cfg w_b2 v_b2 = false.
Proof. vm_compute. repeat split; reflexivity. Qed.

(* ------------------------------------------------------------------ (c) refuted without no_root_import *)
(* a derived layer importing onto "/" of its build root: the overlay is mounted on <build>,
   the mount table cached at the start of mountOne still says "<build> not mounted", so the
   bind is stacked on the fresh overlay *)
Definition cfg_c : bytes := bs "base base0" ++ nlb ++ bs "import bind /src /" ++ nlb.
Definition w_c : wobs := world [] [] cfg_c ks0.
Definition v_c : sview := mview ex_cfg w_c ex_env d1 [].
Example C01_only_needed_refuted_root_import :
  plain_env ex_env = true
  /\ wf_table (ks_tab (wo_ks w_c)) = true
  /\ is_abs (c_layers ex_cfg) = true
  /\ no_root_import ex_cfg (chain ex_cfg (wo_fs w_c) d1) = false
  /\ mount_targets (syscalls (v_log v_c)) = [bs "/b/layers/d1/build"; bs "/b/layers/d1/build"]
  /\ replay_calls (wo_fs (v_after v_c)) (wo_ks w_c) (syscalls (v_log v_c))
       (Pc ex_cfg (chain ex_cfg (wo_fs w_c) d1)) = false
  /\ C01.step_spec ex_cfg w_c v_c = false.
Proof. vm_compute. repeat split; reflexivity. Qed.

(* ------------------------------------------------------------------ (d) mount_post refuted for pre-existing mounts *)
(* the import of the base layer is already mounted -- twice, by hand.  mount finds it mounted
   with the expected source, issues no call and succeeds; "exactly one mount" does not hold *)
Definition cfg_dbase : bytes := bs "import bind /src /mnt" ++ nlb.
Definition fs_d : fsT := dirs ["/b/layers/base0/build/mnt"]%string.
Definition w_d0 : wobs := world fs_d cfg_dbase (bs "base base0" ++ nlb) ks0.
Definition ks_d1 : kstate :=
  ks_of (kmount (wo_fs w_d0) ks0 (bs "/src") (bs "/b/layers/base0/build/mnt") (bs "bind") MS_BIND []).
Definition ks_d2 : kstate :=
  ks_of (kmount (wo_fs w_d0) ks_d1 (bs "/src") (bs "/b/layers/base0/build/mnt") (bs "bind") MS_BIND []).
Definition w_d : wobs := world fs_d cfg_dbase (bs "base base0" ++ nlb) ks_d2.
Definition v_d : sview := mview ex_cfg w_d ex_env (bs "base0") [].
Example C01_post_refuted_prestacked :
  plain_env ex_env = true
  /\ wf_table (ks_tab (wo_ks w_d)) = true
  /\ v_res v_d = ROk
  /\ syscalls (v_log v_d) = []
  /\ count_at (ks_tab (wo_ks (v_after v_d))) (bs "/b/layers/base0/build/mnt") = 2%nat
  /\ all_mounted ex_cfg (chain ex_cfg (wo_fs w_d) (bs "base0")) (ks_tab (wo_ks (v_after v_d))) = true
  /\ C01.mount_post ex_cfg (wo_fs w_d) (layers_on_disk ex_cfg (wo_fs w_d))
       (chain ex_cfg (wo_fs w_d) (bs "base0")) (ks_tab (wo_ks (v_after v_d))) = false
  /\ C01.step_spec ex_cfg w_d v_d = false.
Proof. vm_compute. repeat split; reflexivity. Qed.

(* ------------------------------------------------------------------ (d) mount_post refuted without rbind_clear *)
(* from a state where nothing of the layer is mounted: `import bind /src /mnt/sub` followed
   by `import rbind /host /mnt`, /host having a submount /host/sub (itself a bind of /src).  The
   recursive bind copies /host/sub onto <build>/mnt/sub, on top of the first import; the
   stacked copy has the identity the first import expects, so the run succeeds *)
Definition cfg_r : bytes :=
  bs "base base0" ++ nlb ++ bs "import bind /src /mnt/sub" ++ nlb ++ bs "import rbind /host /mnt" ++ nlb.
Definition fs_r : fsT := dirs ["/host"; "/host/sub"; "/b/layers/d1/build/mnt"; "/b/layers/d1/build/mnt/sub"]%string.
Definition ks_r : kstate :=
  ks_of (kmount (wo_fs (world fs_r [] cfg_r ks0)) ks0 (bs "/src") (bs "/host/sub") (bs "bind") MS_BIND []).
Definition w_r : wobs := world fs_r [] cfg_r ks_r.
Definition v_r : sview := mview ex_cfg w_r ex_env d1 [].
Example C01_post_refuted_rbind_copy :
  plain_env ex_env = true
  /\ wf_table (ks_tab (wo_ks w_r)) = true
  /\ no_root_import ex_cfg (chain ex_cfg (wo_fs w_r) d1) = true
  /\ nostack0 ex_cfg (chain ex_cfg (wo_fs w_r) d1) (ks_tab (wo_ks w_r)) = true
  /\ all_mounted ex_cfg (chain ex_cfg (wo_fs w_r) d1) (ks_tab (wo_ks w_r)) = false
  /\ rbind_clear ex_cfg (chain ex_cfg (wo_fs w_r) d1) = false
  /\ v_res v_r = ROk
  /\ count_at (ks_tab (wo_ks (v_after v_r))) (bs "/b/layers/d1/build/mnt/sub") = 2%nat
  /\ C01.step_spec ex_cfg w_r v_r = false.
Proof. vm_compute. repeat split; reflexivity. Qed.

(* ------------------------------------------------------------------ (d) mount_post refuted without pre_right *)
(* a pre-existing import that layercake accepts (MountSourceIsExpected compares device and root
   against the table as it is NOW) but whose source path showed another file system WHEN the
   bind was made: a tmpfs on /old, bind /old -> <build>/mnt, later bind /old -> /s; the layer
   says `import bind /s /mnt`.  One mount on the mountpoint, no call, result ROk; the
   specification's shows_source (covering mount of the source at attachment time) says no *)
Definition cfg_s : bytes := bs "import bind /s /mnt" ++ nlb.
Definition fs_s : fsT := dirs ["/old"; "/s"; "/b/layers/base0/build/mnt"]%string.
Definition w_s0 : wobs := world fs_s cfg_s (bs "base base0" ++ nlb) ks0.
Definition ks_s1 : kstate := ks_of (kmount (wo_fs w_s0) ks0 (bs "none") (bs "/old") (bs "tmpfs") 0 []).
Definition ks_s2 : kstate :=
  ks_of (kmount (wo_fs w_s0) ks_s1 (bs "/old") (bs "/b/layers/base0/build/mnt") (bs "bind") MS_BIND []).
Definition ks_s3 : kstate := ks_of (kmount (wo_fs w_s0) ks_s2 (bs "/old") (bs "/s") (bs "bind") MS_BIND []).
Definition w_s : wobs := world fs_s cfg_s (bs "base base0" ++ nlb) ks_s3.
Definition v_s : sview := mview ex_cfg w_s ex_env (bs "base0") [].
Example C01_post_refuted_later_source :
  plain_env ex_env = true
  /\ wf_table (ks_tab (wo_ks w_s)) = true
  /\ nostack0 ex_cfg (chain ex_cfg (wo_fs w_s) (bs "base0")) (ks_tab (wo_ks w_s)) = true
  /\ pre_right ex_cfg (wo_fs w_s) (chain ex_cfg (wo_fs w_s) (bs "base0")) (ks_tab (wo_ks w_s)) = false
  /\ v_res v_s = ROk
  /\ syscalls (v_log v_s) = []
  /\ count_at (ks_tab (wo_ks (v_after v_s))) (bs "/b/layers/base0/build/mnt") = 1%nat
  /\ C01.mount_post ex_cfg (wo_fs w_s) (layers_on_disk ex_cfg (wo_fs w_s))
       (chain ex_cfg (wo_fs w_s) (bs "base0")) (ks_tab (wo_ks (v_after v_s))) = false
  /\ C01.step_spec ex_cfg w_s v_s = false.
Proof. vm_compute. repeat split; reflexivity. Qed.

(* ------------------------------------------------------------------ idempotence on the good world *)
Example C01_idempotent_example :
  syscalls (v_log (mview ex_cfg (v_after v_good) ex_env d1 [])) = [].
Proof. vm_compute. reflexivity. Qed.

(* ------------------------------------------------------------------ (e) refuted without "layer definitions unchanged" *)
(* the exports directory IS the layers directory, the package-export subdirectory is called
   "d1" and the root layer is called "layerconfig": its automated package-export link is
   /b/layers/d1/layerconfig -- the configuration file of layer d1, here a symbolic link to
   /cfgA.  The first `mount d1` (one call, the overlay; ROk) ends with makeExportSymlinks, which
   repoints that link to /b/layers/layerconfig/packages, a file that reads like a layer
   configuration with one more import.  The second `mount d1` therefore has a new import to
   mount and issues a call.  Every path is clean and absolute, the file tree is a tree. *)
Definition cfg_e : cfgT :=
  MkCfg (bs "/b") (bs "/b/layers") (bs "build") (bs "packages") (bs "generated")
        (bs "overlayfs/workdir") (bs "overlayfs/upperdir") (bs "/b/layers") (bs "d1") (bs "generated").
Definition fs_e : fsT :=
  dirs ["/"; "/b"; "/b/layers"; "/src";
        "/b/layers/layerconfig"; "/b/layers/layerconfig/build";
        "/b/layers/layerconfig/build/bin"; "/b/layers/layerconfig/build/etc"; "/b/layers/layerconfig/build/lib";
        "/b/layers/layerconfig/build/opt"; "/b/layers/layerconfig/build/root"; "/b/layers/layerconfig/build/sbin";
        "/b/layers/layerconfig/build/usr";
        "/b/layers/d1"; "/b/layers/d1/build"; "/b/layers/d1/overlayfs";
        "/b/layers/d1/overlayfs/workdir"; "/b/layers/d1/overlayfs/upperdir";
        "/b/layers/d1/build/bin"; "/b/layers/d1/build/etc"; "/b/layers/d1/build/lib";
        "/b/layers/d1/build/opt"; "/b/layers/d1/build/root"; "/b/layers/d1/build/sbin";
        "/b/layers/d1/build/usr"; "/b/layers/d1/build/mnt"]%string
  ++ [(bs "/b/default_layerconfig.skel", File []);
      (bs "/b/layers/layerconfig/layerconfig", File []);
      (bs "/cfgA", File (bs "base layerconfig" ++ nlb));
      (bs "/b/layers/d1/layerconfig", Link (bs "/cfgA"));
      (bs "/b/layers/layerconfig/packages",
       File (bs "base layerconfig" ++ nlb ++ bs "import bind /src /mnt" ++ nlb))].
Definition w_e : wobs := MkWO fs_e ks0.
Definition v_e : sview := mview cfg_e w_e ex_env d1 [].
Definition v_e2 : sview := mview cfg_e (v_after v_e) ex_env d1 [].
Example C01_idempotent_refuted_config_rewritten :
  plain_env ex_env = true
  /\ wf_cfg cfg_e = true
  /\ nodup_paths (map fst fs_e) = true
  /\ wf_table (ks_tab (wo_ks w_e)) = true
  /\ v_res v_e = ROk
  /\ length (syscalls (v_log v_e)) = 1%nat
  /\ lmap_beq (layers_on_disk cfg_e (wo_fs (v_after v_e))) (layers_on_disk cfg_e (wo_fs w_e)) = false
  /\ v_res v_e2 = ROk
  /\ mount_targets (syscalls (v_log v_e2)) = [bs "/b/layers/d1/build/mnt"].
Proof. vm_compute. repeat split; reflexivity. Qed.
