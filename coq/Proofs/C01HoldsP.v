(* C01 per case: from the theorems about the model's own step (Proofs/C01P.v) to the
   property predicate on the OBSERVED steps of a case whose every step corresponds to the model
   (LC.corr).  The comparisons of LC.step_corr on result class, operation log and kernel state
   are equalities; the file tree is only compared up to [fs_beq], and the only place where
   C01.step_spec looks at the file tree after the step is the replay of the calls, for which
   the model theorem holds over ANY file tree. *)
From LC Require Import Lib.Bytes Lib.Lex Lib.Fields Lib.PathM Gen.Consts
  Model.MountInfo Model.FsTree Model.Kernel Model.Layers Cases.Verdict Cases.LC Cases.C01
  Proofs.MntTraceP Proofs.MntOrderP Proofs.MntKernelP Proofs.MntNeededP Proofs.MntPostP Proofs.C01P.
Import LC LCS.
Open Scope N_scope.

(* ------------------------------------------------------------------ the comparisons are equalities *)
Lemma rclass_beq_eq a b : rclass_beq a b = true -> a = b.
Proof. destruct a, b; cbn; intros H; try discriminate H; reflexivity. Qed.

Lemma op_beq_eq x y : op_beq x y = true -> x = y.
Proof.
  destruct x, y; cbn [op_beq]; intros H; try discriminate H;
    repeat (apply andb_true_iff in H; destruct H as [H ?]);
    repeat match goal with
           | E : beq _ _ = true |- _ => apply beq_true in E
           | E : (_ =? _) = true |- _ => apply N.eqb_eq in E
           end; subst; reflexivity.
Qed.

Lemma list_beq_eq {A} (eq : A -> A -> bool) : (forall x y, eq x y = true -> x = y) ->
  forall a b, list_beq eq a b = true -> a = b.
Proof.
  intros Heq. induction a as [|x a IH]; intros [|y b]; cbn [list_beq]; intros H; try discriminate H; [reflexivity|].
  apply andb_true_iff in H as [H1 H2]. apply Heq in H1. apply IH in H2. congruence.
Qed.

Lemma sopt_beq_eq (x y : bytes * option bytes) :
  beq (fst x) (fst y) && opt_beq beq (snd x) (snd y) = true -> x = y.
Proof.
  destruct x as [a [b|]], y as [a' [b'|]]; cbn [fst snd opt_beq]; intros H;
    apply andb_true_iff in H as [H1 H2]; try discriminate H2; apply beq_true in H1; subst.
  - apply beq_true in H2. now subst.
  - reflexivity.
Qed.

Lemma kline_beq_eq a b : kline_beq a b = true -> a = b.
Proof.
  destruct a as [a1 a2 a3 a4 a5 a6 a7 a8 a9 a10], b as [b1 b2 b3 b4 b5 b6 b7 b8 b9 b10].
  unfold kline_beq. cbn [k_id k_parent k_dev k_root k_mp k_opts k_optional k_fstype k_source k_sopts].
  rewrite !andb_true_iff. intros [[[[[[[[[H1 H2] H3] H4] H5] H6] H7] H8] H9] H10].
  apply beq_true in H1, H2, H3, H4, H5, H6, H8, H9.
  apply (list_beq_eq beq (fun x y => proj1 (beq_true x y))) in H7.
  apply (list_beq_eq _ sopt_beq_eq) in H10. now subst.
Qed.

Lemma kstate_beq_eq a b : kstate_beq a b = true -> a = b.
Proof.
  destruct a as [t1 i1 d1], b as [t2 i2 d2]. unfold kstate_beq, ktab_beq. cbn [ks_tab ks_nextid ks_nextdev].
  rewrite !andb_true_iff. intros [[H1 H2] H3].
  apply (list_beq_eq _ kline_beq_eq) in H1. apply N.eqb_eq in H2, H3. now subst.
Qed.

(* ------------------------------------------------------------------ one observed step *)
(* what correspondence gives about an observed `mount n` step *)
Lemma corr_mount cfg w s n : s_cmd s = CMount n -> step_corr cfg w s = true ->
  s_res s = v_res (mview cfg w (s_env s) n (s_users s))
  /\ s_oplog s = v_log (mview cfg w (s_env s) n (s_users s))
  /\ wo_ks (after w s) = wo_ks (v_after (mview cfg w (s_env s) n (s_users s))).
Proof.
  intros Hc H. unfold step_corr, model_step, mview, view_of_model in *. rewrite Hc in H.
  destruct (run (s_env s) cfg (s_users s) (CMount n) (world_of w)) as [o st].
  cbn [r_class r_log r_fs r_ks r_layers v_res v_log v_after wo_ks] in *.
  apply andb_true_iff in H as [_ H].
  apply andb_true_iff in H as [H _]. apply andb_true_iff in H as [H Hk].
  apply andb_true_iff in H as [H _]. apply andb_true_iff in H as [Hr Hl].
  apply rclass_beq_eq in Hr. apply (list_beq_eq _ op_beq_eq) in Hl. apply kstate_beq_eq in Hk.
  repeat split; congruence.
Qed.

(* the hypotheses of C01_post_partial, collected as one decidable predicate on an observed step *)
Definition post_hyps (cfg : cfgT) (w : wobs) (n : bytes) (ks' : kstate) : bool :=
  let ch := chain cfg (wo_fs w) n in
  rbind_clear cfg ch && pre_right cfg (wo_fs w) ch (ks_tab (wo_ks w)) && nodup_targets cfg ch
  && nocomma_paths cfg (layers_on_disk cfg (wo_fs w)) ch && ids_ok (wo_ks w) && id_bound ks'.

Definition step_hyps (cfg : cfgT) (w : wobs) (s : step) : bool :=
  match s_cmd s with
  | CMount n =>
    negb (plain_env (s_env s))
    || (wf_table (ks_tab (wo_ks w))
        && (negb (rclass_beq (s_res s) ROk) || post_hyps cfg w n (wo_ks (after w s))))
  | _ => true
  end.

Theorem step_holds cfg w s : is_abs (c_layers cfg) = true ->
  step_corr cfg w s = true -> step_hyps cfg w s = true ->
  C01.step_spec cfg w (view_of_obs w s) = true.
Proof.
  intros Habs Hcorr Hh. unfold C01.step_spec, view_of_obs. cbn [v_cmd v_env v_res v_log v_after].
  unfold step_hyps in Hh. destruct (s_cmd s) eqn:Ecmd; try reflexivity.
  destruct (plain_env (s_env s)) eqn:He; [|reflexivity]. cbn [negb orb] in Hh |- *. cbv zeta.
  apply andb_true_iff in Hh as [Hw Hp].
  destruct (corr_mount cfg w s a Ecmd Hcorr) as (Hr & Hl & Hk).
  rewrite Hl, Hr.
  rewrite (C01_order_proof cfg w (s_env s) a (s_users s) He).
  rewrite (C01_propagation_proof cfg w (s_env s) a (s_users s) He).
  rewrite (C01_only_needed_proof cfg w (s_env s) a (s_users s) He Hw Habs (wo_fs (after w s))).
  cbn [andb].
  destruct (v_res (mview cfg w (s_env s) a (s_users s))) eqn:Eres; try reflexivity.
  rewrite Hr in Hp. cbn [rclass_beq negb orb] in Hp. unfold post_hyps in Hp.
  rewrite Hk in Hp. rewrite Hk.
  repeat (apply andb_true_iff in Hp; destruct Hp as [Hp ?]).
  apply C01_post_partial_proof; assumption.
Qed.

(* ------------------------------------------------------------------ the whole case *)
Lemma along_imp2 (A B C : wobs -> step -> bool) :
  (forall w s, A w s = true -> B w s = true -> C w s = true) ->
  forall ss w, along A w ss = true -> along B w ss = true -> along C w ss = true.
Proof.
  intros H. induction ss as [|s r IH]; intros w HA HB; cbn [along] in *; [reflexivity|].
  apply andb_true_iff in HA as [HA1 HA2]. apply andb_true_iff in HB as [HB1 HB2].
  rewrite (H _ _ HA1 HB1). now apply IH.
Qed.

Theorem C01_holds_partial_proof c :
  C01.wf c = true -> LC.corr c = true ->
  along (step_hyps (c_cfg c)) (w0 c) (c_steps c) = true ->
  C01.spec c = true.
Proof.
  intros Hwf Hcorr Hh. unfold C01.spec, along_views.
  assert (Habs : is_abs (c_layers (c_cfg c)) = true).
  { unfold C01.wf, LC.wf, wf_cfg in Hwf. repeat (apply andb_true_iff in Hwf; destruct Hwf as [Hwf ?]).
    assumption. }
  eapply (along_imp2 (step_corr (c_cfg c)) (step_hyps (c_cfg c))); [|exact Hcorr|exact Hh].
  intros w s. now apply step_holds.
Qed.
