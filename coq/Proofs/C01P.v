(* C01: the model's `mount` step against the property predicate C01.step_spec, conjunct by
   conjunct.  The monadic work is in Proofs/MntTraceP.v (run_mount_trace); here the trace is
   connected to the view the predicate looks at and the hypotheses are put in the vocabulary of
   the specification (Cases/LC.v, module LCS). *)
From LC Require Import Lib.Bytes Lib.Lex Lib.Fields Lib.PathM Gen.Consts
  Model.MountInfo Model.FsTree Model.Kernel Model.Layers Cases.Verdict Cases.LC Cases.C01
  Proofs.MountInfoP Proofs.MntSimP Proofs.MntWpP Proofs.MntTraceP Proofs.MntDiskP
  Proofs.MntOrderP Proofs.MntKernelP Proofs.MntPathP Proofs.MntNeededP Proofs.MntCountP Proofs.MntPostP.
From Coq Require Import ZifyBool ZifyNat ZifyN.
Import LC LCS.
Open Scope N_scope.

(* the view of the model's `mount n` step *)
Definition mview (cfg : cfgT) (w : wobs) (e : env) (n : bytes) (um : users_map) : sview :=
  view_of_model cfg w e (CMount n) um.

(* the trace behind a view *)
Lemma mview_trace cfg w e n um : plain_env e = true ->
  exists stat,
    ltrace (wo_ks w) (chain_items cfg (wo_fs w) n) (syscalls (v_log (mview cfg w e n um)))
           (wo_ks (v_after (mview cfg w e n um))) stat
    /\ (v_res (mview cfg w e n um) = ROk ->
        stat = TDone
        /\ Forall (fun x => expand_config_mounts cfg (layers_on_disk cfg (wo_fs w)) x <> None)
                  (chain cfg (wo_fs w) n))
    /\ (stat = TFailed -> v_res (mview cfg w e n um) = RFail).
Proof.
  intros He. apply plain_env_plain in He.
  pose proof (run_mount_trace e He cfg um n w) as H.
  unfold mview, view_of_model. destruct (run e cfg um (CMount n) (world_of w)) as [o st].
  cbn [v_log v_after v_res wo_ks]. exact H.
Qed.

(* ------------------------------------------------------------------ (a) order *)
Theorem C01_order_proof cfg w e n um : plain_env e = true ->
  subseq (mount_targets (syscalls (v_log (mview cfg w e n um))))
         (map em_target (expected_chain_mounts cfg (chain cfg (wo_fs w) n))) = true.
Proof.
  intros He. destruct (mview_trace cfg w e n um He) as (stat & Ht & _).
  eapply order_of_trace. exact Ht.
Qed.

(* ------------------------------------------------------------------ (b) propagation *)
Theorem C01_propagation_proof cfg w e n um : plain_env e = true ->
  C01.propagation_ok (rclass_beq (v_res (mview cfg w e n um)) RFail)
                     (syscalls (v_log (mview cfg w e n um))) = true.
Proof.
  intros He. destruct (mview_trace cfg w e n um He) as (stat & Ht & _ & Hf).
  eapply propagation_of_trace; [exact Ht|]. intros Hs. now rewrite (Hf Hs).
Qed.

(* ------------------------------------------------------------------ (c) only as needed *)
Lemma imp_items_refresh c m x it : In it (imp_items c m x) -> it_imp it = true.
Proof.
  unfold imp_items. destruct (expand_config_mounts c m x); [|intros []].
  intros H. apply in_map_iff in H as (y & <- & _). reflexivity.
Qed.

Lemma chain_layer_clean cfg f n : is_abs (c_layers cfg) = true ->
  Forall (layer_clean cfg (chain cfg f n)) (chain_items cfg f n).
Proof.
  intros Habs. unfold chain_items. apply Forall_forall. intros its Hits.
  apply in_map_iff in Hits as (x & <- & Hx).
  exists x. split; [exact Hx|]. now apply (chain_items_ok cfg f n).
Qed.

Theorem C01_only_needed_proof cfg w e n um : plain_env e = true ->
  wf_table (ks_tab (wo_ks w)) = true ->
  is_abs (c_layers cfg) = true ->
  forall f,
  replay_calls f (wo_ks w)
    (syscalls (v_log (mview cfg w e n um)))
    (fun ks o =>
       match o with
       | OMount _ t _ fl _ =>
         if has_flag fl MS_SLAVE then true
         else negb (mounted_at (ks_tab ks) t)
              && existsb (fun x => at_or_under (build_path cfg x) t) (chain cfg (wo_fs w) n)
       | OUmount _ _ => false
       | _ => true
       end) = true.
Proof.
  intros He Hw Habs f. destruct (mview_trace cfg w e n um He) as (stat & Ht & _).
  change (replay_calls f (wo_ks w)
            (syscalls (v_log (mview cfg w e n um))) (Pc cfg (chain cfg (wo_fs w) n)) = true).
  eapply ltrace_needed; [exact Ht|exact Hw| |apply incl_refl].
  now apply chain_layer_clean.
Qed.

(* ------------------------------------------------------------------ (d) first half: everything expected is mounted *)
Lemma layer_items_tys c f x : In x (layers_on_disk c f) -> tys_ok (layer_items c (layers_on_disk c f) x).
Proof.
  intros Hin. pose proof (read_layer_files_ok c f) as H. rewrite Forall_forall in H.
  destruct (H x Hin) as [_ Hmo].
  unfold layer_items, ovl_items, imp_items, tys_ok. apply Forall_app. split.
  - destruct (l_base x); constructor; [reflexivity|constructor].
  - unfold expand_config_mounts. destruct (map_opt _ (l_mounts x)) as [xs|] eqn:Em; [|constructor].
    apply Forall_forall. intros it Hit. apply in_map_iff in Hit as (y & <- & Hy).
    destruct (map_opt_in _ _ _ _ Em Hy) as (nm & Hnm & Enm).
    destruct (adjust_prefixed (nm_source nm) _) as [src|]; [|discriminate]. injection Enm as <-.
    rewrite Forall_forall in Hmo. destruct (Hmo _ Hnm) as [_ Hty]. exact Hty.
Qed.

Lemma chain_items_tys c f n : Forall tys_ok (chain_items c f n).
Proof.
  unfold chain_items. apply Forall_forall. intros its Hits.
  apply in_map_iff in Hits as (x & <- & Hx). apply layer_items_tys. now apply (chain_in_disk c f n).
Qed.

Definition all_mounted (c : cfgT) (ch : list layer) (tab : list kline) : bool :=
  forallb (fun x => forallb (fun em => mounted_at tab (em_target em)) (expected_mounts c ch x)) ch.

Theorem C01_post_mounted_proof cfg w e n um : plain_env e = true ->
  wf_table (ks_tab (wo_ks w)) = true ->
  v_res (mview cfg w e n um) = ROk ->
  all_mounted cfg (chain cfg (wo_fs w) n) (ks_tab (wo_ks (v_after (mview cfg w e n um)))) = true.
Proof.
  intros He Hw Hr. destruct (mview_trace cfg w e n um He) as (stat & Ht & Hok & _).
  destruct (Hok Hr) as [-> Hex].
  destruct (ltrace_mounted _ _ _ _ _ Ht eq_refl Hw (chain_items_tys cfg (wo_fs w) n)) as [_ Hall].
  unfold all_mounted. apply forallb_forall. intros x Hx. apply forallb_forall. intros em Hem.
  destruct (items_expected cfg (wo_fs w) n x Hx) as (rest & E & Hrest).
  rewrite Forall_forall in Hex. rewrite (Hrest (Hex x Hx)), app_nil_r in E. rewrite E in Hem.
  apply in_map_iff in Hem as (it & <- & Hit). cbn [item_em em_target].
  apply mounted_at_in. rewrite Forall_forall in Hall.
  assert (Hits : In (layer_items cfg (layers_on_disk cfg (wo_fs w)) x) (chain_items cfg (wo_fs w) n))
    by (unfold chain_items; now apply in_map).
  specialize (Hall _ Hits). rewrite Forall_forall in Hall. now apply Hall.
Qed.

(* the kernel table stays well-formed *)
Theorem mount_keeps_wf cfg w e n um : plain_env e = true ->
  wf_table (ks_tab (wo_ks w)) = true ->
  wf_table (ks_tab (wo_ks (v_after (mview cfg w e n um)))) = true.
Proof.
  intros He Hw. destruct (mview_trace cfg w e n um He) as (stat & Ht & _).
  eapply ltrace_wf; [exact Ht|exact Hw|apply chain_items_tys].
Qed.

(* ------------------------------------------------------------------ (d) second part: the count per mountpoint *)
(* no expected mountpoint lies strictly below the mountpoint of an rbind import (the copies of
   the source's submounts would land on it) *)
Definition rbind_clear (c : cfgT) (ch : list layer) : bool :=
  forallb (fun em1 => negb (beq (em_fstype em1) (bs "rbind")) ||
             forallb (fun em2 => negb (prefixb (em_target em1 ++ [sl]) (em_target em2)))
                     (expected_chain_mounts c ch))
          (expected_chain_mounts c ch).
(* one mount, or as many as were stacked there before *)
Definition count_post (c : cfgT) (ch : list layer) (tab0 tab : list kline) : bool :=
  forallb (fun em => (count_at tab (em_target em) =? Nat.max 1 (count_at tab0 (em_target em)))%nat)
          (expected_chain_mounts c ch).

Lemma expected_is_items c f n : forall ch', incl ch' (chain c f n) ->
  Forall (fun x => expand_config_mounts c (layers_on_disk c f) x <> None) ch' ->
  flat_map (expected_mounts c (chain c f n)) ch'
  = map item_em (concat (map (layer_items c (layers_on_disk c f)) ch')).
Proof.
  induction ch' as [|x r IH]; intros Hin Hex; cbn [flat_map map concat]; [reflexivity|].
  inversion Hex as [|? ? Hx1 Hx2]; subst.
  destruct (items_expected c f n x (Hin x (or_introl eq_refl))) as (rest & E & Hrest).
  rewrite (Hrest Hx1), app_nil_r in E. rewrite E, map_app. f_equal.
  apply IH; [|exact Hx2]. intros y Hy. apply Hin. now right.
Qed.

Lemma mount_flags_rbind ty : mount_flags ty = MS_BIND + MS_REC -> beq ty (bs "rbind") = true.
Proof.
  unfold mount_flags. destruct (beq ty (bs "bind")); [discriminate|].
  destruct (beq ty (bs "rbind")); [reflexivity|]. destruct (beq ty (bs "remount")); discriminate.
Qed.

Theorem C01_post_count_partial_proof cfg w e n um : plain_env e = true ->
  wf_table (ks_tab (wo_ks w)) = true ->
  rbind_clear cfg (chain cfg (wo_fs w) n) = true ->
  v_res (mview cfg w e n um) = ROk ->
  count_post cfg (chain cfg (wo_fs w) n) (ks_tab (wo_ks w))
             (ks_tab (wo_ks (v_after (mview cfg w e n um)))) = true.
Proof.
  intros He Hw Hrc Hr.
  pose proof (C01_post_mounted_proof cfg w e n um He Hw Hr) as Hm.
  destruct (mview_trace cfg w e n um He) as (stat & Ht & Hok & _).
  destruct (Hok Hr) as [-> Hex]. clear Hok.
  pose proof (ltrace_g _ _ _ _ _ Ht Hw (chain_items_tys cfg (wo_fs w) n)) as Hg.
  set (ch := chain cfg (wo_fs w) n) in *.
  assert (Eexp : expected_chain_mounts cfg ch = map item_em (concat (chain_items cfg (wo_fs w) n))).
  { unfold expected_chain_mounts, chain_items. apply expected_is_items; [apply incl_refl|exact Hex]. }
  set (T := map em_target (expected_chain_mounts cfg ch)).
  assert (Hinv : cinv T (mps (wo_ks w)) (wo_ks (v_after (mview cfg w e n um)))).
  { eapply gtrace_count; [exact Hg| |].
    - intros it t Hit Ht0 Hfl. unfold rbind_clear in Hrc. rewrite forallb_forall in Hrc.
      assert (Hem : In (item_em it) (expected_chain_mounts cfg ch)) by (rewrite Eexp; now apply in_map).
      specialize (Hrc _ Hem). cbn [item_em em_fstype em_target] in Hrc.
      rewrite (mount_flags_rbind _ Hfl) in Hrc. cbn [negb orb] in Hrc.
      rewrite forallb_forall in Hrc. unfold T in Ht0. apply in_map_iff in Ht0 as (em2 & <- & Hem2).
      specialize (Hrc _ Hem2). now apply negb_true_iff in Hrc.
    - intros t Ht0. now left. }
  unfold count_post. apply forallb_forall. intros em Hem.
  assert (Ht0 : In (em_target em) T) by (unfold T; now apply in_map).
  specialize (Hinv _ Ht0). unfold mps in Hinv. rewrite <- !count_at_cntl in Hinv.
  assert (Hge : (1 <= count_at (ks_tab (wo_ks (v_after (mview cfg w e n um)))) (em_target em))%nat).
  { rewrite count_at_cntl. apply cntl_in. apply mounted_at_in.
    unfold all_mounted in Hm. rewrite forallb_forall in Hm.
    unfold expected_chain_mounts in Hem. apply in_flat_map in Hem as (x & Hx & Hemx).
    specialize (Hm x Hx). rewrite forallb_forall in Hm. now apply Hm. }
  apply Nat.eqb_eq. clear - Hinv Hge. lia.
Qed.

(* ------------------------------------------------------------------ (d) third part: kind and source; mount_post *)
(* whatever is already mounted on an expected mountpoint is of the right kind/source *)
Definition pre_right (c : cfgT) (f : fsT) (ch : list layer) (tab : list kline) : bool :=
  forallb (fun x => forallb (fun em =>
    match top_at tab (em_target em) with
    | Some k => if em_overlay em then is_right_overlay c (layers_on_disk c f) x k
                else shows_source tab k (em_source em) (em_fstype em)
    | None => true
    end) (expected_mounts c ch x)) ch.
(* the expected mountpoints of the chain are pairwise different *)
Definition nodup_targets (c : cfgT) (ch : list layer) : bool :=
  nodup_paths (map em_target (expected_chain_mounts c ch)).
(* the three directories named in an overlay's option string contain no comma *)
Definition nocomma_paths (c : cfgT) (m : lmap) (ch : list layer) : bool :=
  forallb (fun x => match l_base x with
                    | [] => true
                    | b0 => match lm_get m b0 with
                            | Some p => nosepb comma (build_path c p)
                            | None => true
                            end
                            && nosepb comma (upper_path c x) && nosepb comma (work_path c x)
                    end) ch.
(* the ids of the table are decimal numbers below the next id; fewer than 10^24 ids are used *)
Definition ids_ok (ks : kstate) : bool :=
  forallb (fun k => (dv (k_id k) 0 <? ks_nextid ks) && beq (dec (dv (k_id k) 0)) (k_id k)) (ks_tab ks).
Definition id_bound (ks : kstate) : bool := ks_nextid ks <? id_limit.

Lemma ids_ok_idsok ks : ids_ok ks = true -> idsok ks.
Proof.
  unfold ids_ok, idsok. rewrite forallb_forall. intros H k Hk. specialize (H k Hk).
  apply andb_true_iff in H as [H1 H2]. apply beq_true in H2.
  exists (dv (k_id k) 0). split; [lia|now symmetry].
Qed.

Lemma nodup_paths_NoDup l : nodup_paths l = true -> NoDup l.
Proof.
  induction l as [|x r IH]; cbn [nodup_paths]; intros H; constructor.
  - apply andb_true_iff in H as [H _]. apply negb_true_iff in H. intros Hin.
    assert (E : memb x r = true) by (apply existsb_exists; exists x; split; [exact Hin|apply beq_refl]).
    congruence.
  - apply andb_true_iff in H as [_ H]. now apply IH.
Qed.

Lemma chain_base_get c f n x : In x (chain c f n) -> l_base x <> [] ->
  exists p, lm_get (layers_on_disk c f) (l_base x) = Some p.
Proof.
  unfold chain. set (m := layers_on_disk c f).
  destruct (ancestors_and_self (S (length m)) m n []) as [ch|] eqn:Ea; [|intros []].
  intros Hin Hb. destruct (anc_linked _ _ _ _ _ Ea) as (pre & E & _ & Hl).
  rewrite app_nil_r in E. subst pre.
  apply in_split in Hin as (q1 & q2 & ->).
  change (q1 ++ x :: q2) with (q1 ++ [x] ++ q2) in Hl. rewrite app_assoc in Hl.
  destruct (linked_prefix _ _ _ _ _ Hl) as (n' & Hl').
  apply linked_snoc_inv in Hl' as (_ & _ & Hl').
  pose proof (linked_nonempty _ _ _ Hl' Hb) as Hne.
  destruct q1 as [|p q1' _] using rev_ind; [congruence|].
  apply linked_snoc_inv in Hl' as (_ & Hg & _). now exists p.
Qed.

Lemma layer_items_shape c m x : Forall item_shape (layer_items c m x).
Proof.
  unfold layer_items, ovl_items, imp_items. apply Forall_app. split.
  - destruct (l_base x); constructor; [|constructor]. intros _. reflexivity.
  - destruct (expand_config_mounts c m x); [|constructor].
    apply Forall_forall. intros it Hit. apply in_map_iff in Hit as (y & <- & _). intros H. discriminate H.
Qed.

Lemma right_link c f n x it tab k :
  In x (chain c f n) -> In it (layer_items c (layers_on_disk c f) x) ->
  nocomma_paths c (layers_on_disk c f) (chain c f n) = true ->
  right_it it tab k
  = (if em_overlay (item_em it) then is_right_overlay c (layers_on_disk c f) x k
     else shows_source tab k (em_source (item_em it)) (em_fstype (item_em it))).
Proof.
  intros Hx Hit Hnc. set (m := layers_on_disk c f) in *.
  unfold right_it, item_em. cbn [em_overlay em_source em_fstype].
  destruct (it_imp it) eqn:Erf; [reflexivity|]. cbn [negb].
  unfold layer_items in Hit. apply in_app_or in Hit as [Hit|Hit].
  2:{ apply imp_items_refresh in Hit. congruence. }
  unfold nocomma_paths in Hnc. rewrite forallb_forall in Hnc. specialize (Hnc x Hx).
  unfold ovl_items in Hit. destruct (l_base x) as [|b0 br] eqn:Eb; [destruct Hit|].
  destruct Hit as [<-|[]].
  destruct (chain_base_get c f n x Hx) as (p & Ep); [rewrite Eb; discriminate|].
  fold m in Ep. rewrite Eb in Ep. rewrite Ep in Hnc.
  apply andb_true_iff in Hnc as [Hnc H3]. apply andb_true_iff in Hnc as [H1 H2].
  unfold is_right_overlay, dget. cbn [it_data]. fold m. rewrite Eb, Ep.
  rewrite (parse_ovl_data c p x H1 H2 H3). unfold data_get. cbn [last_opt].
  change (beq (bs "lowerdir") (bs "lowerdir")) with true.
  change (beq (bs "upperdir") (bs "lowerdir")) with false.
  change (beq (bs "workdir") (bs "lowerdir")) with false.
  change (beq (bs "lowerdir") (bs "upperdir")) with false.
  change (beq (bs "upperdir") (bs "upperdir")) with true.
  change (beq (bs "workdir") (bs "upperdir")) with false.
  change (beq (bs "lowerdir") (bs "workdir")) with false.
  change (beq (bs "upperdir") (bs "workdir")) with false.
  change (beq (bs "workdir") (bs "workdir")) with true.
  cbv iota. reflexivity.
Qed.

Lemma in_chain_items c f n it : In it (concat (chain_items c f n)) ->
  exists x, In x (chain c f n) /\ In it (layer_items c (layers_on_disk c f) x).
Proof.
  intros H. apply in_concat in H as (its & Hits & Hit). unfold chain_items in Hits.
  apply in_map_iff in Hits as (x & <- & Hx). now exists x.
Qed.

Theorem C01_post_partial_proof cfg w e n um : plain_env e = true ->
  wf_table (ks_tab (wo_ks w)) = true ->
  rbind_clear cfg (chain cfg (wo_fs w) n) = true ->
  pre_right cfg (wo_fs w) (chain cfg (wo_fs w) n) (ks_tab (wo_ks w)) = true ->
  nodup_targets cfg (chain cfg (wo_fs w) n) = true ->
  nocomma_paths cfg (layers_on_disk cfg (wo_fs w)) (chain cfg (wo_fs w) n) = true ->
  ids_ok (wo_ks w) = true ->
  id_bound (wo_ks (v_after (mview cfg w e n um))) = true ->
  v_res (mview cfg w e n um) = ROk ->
  C01.mount_post cfg (wo_fs w) (layers_on_disk cfg (wo_fs w)) (chain cfg (wo_fs w) n)
    (ks_tab (wo_ks w)) (ks_tab (wo_ks (v_after (mview cfg w e n um)))) = true.
Proof.
  intros He Hw Hrc Hpr Hnd Hnc Hids Hbound Hr.
  pose proof (C01_post_count_partial_proof cfg w e n um He Hw Hrc Hr) as Hcount.
  destruct (mview_trace cfg w e n um He) as (stat & Ht & Hok & _).
  destruct (Hok Hr) as [-> Hex]. clear Hok.
  pose proof (ltrace_g _ _ _ _ _ Ht Hw (chain_items_tys cfg (wo_fs w) n)) as Hg.
  set (ch := chain cfg (wo_fs w) n) in *. set (m := layers_on_disk cfg (wo_fs w)) in *.
  set (w1 := v_after (mview cfg w e n um)) in *.
  assert (Eexp : expected_chain_mounts cfg ch = map item_em (concat (chain_items cfg (wo_fs w) n))).
  { unfold expected_chain_mounts, chain_items. apply expected_is_items; [apply incl_refl|exact Hex]. }
  set (its := concat (chain_items cfg (wo_fs w) n)) in *.
  set (T := map em_target (expected_chain_mounts cfg ch)).
  assert (Hem_of : forall x it, In x ch -> In it (layer_items cfg m x) -> In (item_em it) (expected_mounts cfg ch x)).
  { intros x it Hx Hit. destruct (items_expected cfg (wo_fs w) n x Hx) as (rest & E & _).
    fold ch m in E. rewrite E. apply in_or_app. left. now apply in_map. }
  destruct (gtrace_right T _ _ _ _ _ Hg eq_refl (ids_ok_idsok _ Hids)) as (_ & _ & Hall).
  - unfold id_bound in Hbound. apply N.ltb_lt in Hbound. exact Hbound.
  - (* what is mounted beforehand is right *)
    intros it Hit Hin. destruct (in_chain_items _ _ _ _ Hit) as (x & Hx & Hitx). fold ch m in Hx, Hitx.
    apply mounted_at_in in Hin. unfold mounted_at in Hin.
    destruct (top_at (ks_tab (wo_ks w)) (it_tgt it)) as [k|] eqn:Etop; [|discriminate].
    exists k. split; [reflexivity|].
    rewrite (right_link cfg (wo_fs w) n x it _ k Hx Hitx Hnc).
    unfold pre_right in Hpr. rewrite forallb_forall in Hpr. specialize (Hpr x Hx).
    rewrite forallb_forall in Hpr. specialize (Hpr _ (Hem_of x it Hx Hitx)).
    cbn [item_em em_target] in Hpr. rewrite Etop in Hpr. exact Hpr.
  - intros it t Hit Ht0 Hfl. unfold rbind_clear in Hrc. rewrite forallb_forall in Hrc.
    assert (Hem : In (item_em it) (expected_chain_mounts cfg ch)) by (rewrite Eexp; now apply in_map).
    specialize (Hrc _ Hem). cbn [item_em em_fstype em_target] in Hrc.
    rewrite (mount_flags_rbind _ Hfl) in Hrc. cbn [negb orb] in Hrc.
    rewrite forallb_forall in Hrc. unfold T in Ht0. apply in_map_iff in Ht0 as (em2 & <- & Hem2).
    specialize (Hrc _ Hem2). now apply negb_true_iff in Hrc.
  - intros it Hit. unfold T. rewrite Eexp, map_map. cbn [item_em em_target].
    now apply (in_map it_tgt).
  - unfold nodup_targets in Hnd. apply nodup_paths_NoDup in Hnd.
    rewrite Eexp, map_map in Hnd. exact Hnd.
  - apply Forall_forall. intros it Hit. destruct (in_chain_items _ _ _ _ Hit) as (x & _ & Hitx).
    pose proof (layer_items_shape cfg (layers_on_disk cfg (wo_fs w)) x) as Hs.
    rewrite Forall_forall in Hs. now apply Hs.
  - (* assemble mount_post *)
    unfold C01.mount_post. apply forallb_forall. intros x Hx. apply forallb_forall. intros em Hem.
    assert (Hemc : In em (expected_chain_mounts cfg ch)).
    { unfold expected_chain_mounts. apply in_flat_map. now exists x. }
    unfold count_post in Hcount. rewrite forallb_forall in Hcount. rewrite (Hcount _ Hemc). cbn [andb].
    destruct (items_expected cfg (wo_fs w) n x Hx) as (rest & E & Hrest).
    rewrite Forall_forall in Hex. rewrite (Hrest (Hex x Hx)), app_nil_r in E. fold ch m in E.
    rewrite E in Hem. apply in_map_iff in Hem as (it & <- & Hitx).
    assert (Hit : In it its).
    { unfold its, chain_items. apply in_concat. exists (layer_items cfg m x). split; [|exact Hitx].
      now apply in_map. }
    destruct (Hall it Hit) as (k & Hk1 & Hk3). fold w1 in Hk1, Hk3.
    cbn [item_em em_target]. rewrite Hk1.
    rewrite (right_link cfg (wo_fs w) n x it _ k Hx Hitx Hnc) in Hk3. exact Hk3.
Qed.

(* ------------------------------------------------------------------ (e) idempotence *)
Definition nmlist_beq := list_beq nmount_beq.
Definition layer_beq (a b : layer) : bool :=
  beq (l_name a) (l_name b) && beq (l_base a) (l_base b) && nmlist_beq (l_mounts a) (l_mounts b)
  && nmlist_beq (l_exports a) (l_exports b) && beq (l_path a) (l_path b)
  && (l_state a =? l_state b) && Bool.eqb (l_mbusy a) (l_mbusy b) && Bool.eqb (l_nmbusy a) (l_nmbusy b)
  && Bool.eqb (l_overlain a) (l_overlain b) && Bool.eqb (l_chroot a) (l_chroot b)
  && list_beq beq (l_kmounts a) (l_kmounts b).
Definition lmap_beq : lmap -> lmap -> bool := list_beq layer_beq.

Lemma nmount_beq_true a b : nmount_beq a b = true <-> a = b.
Proof.
  destruct a as [a1 a2 a3], b as [b1 b2 b3]. unfold nmount_beq. cbn.
  rewrite !andb_true_iff, !beq_true. split; [intros [[-> ->] ->]; reflexivity|intros H; now injection H].
Qed.

Lemma layer_beq_true a b : layer_beq a b = true <-> a = b.
Proof.
  destruct a as [a1 a2 a3 a4 a5 a6 a7 a8 a9 a10 a11], b as [b1 b2 b3 b4 b5 b6 b7 b8 b9 b10 b11].
  unfold layer_beq, nmlist_beq. cbn.
  rewrite !andb_true_iff, !beq_true, !(list_beq_true _ nmount_beq_true), (list_beq_true _ beq_true),
    N.eqb_eq, !Bool.eqb_true_iff.
  split.
  - intros [[[[[[[[[[-> ->] ->] ->] ->] ->] ->] ->] ->] ->] ->]. reflexivity.
  - intros H. injection H. intros. subst. repeat split.
Qed.

Lemma lmap_beq_true a b : lmap_beq a b = true <-> a = b.
Proof. apply list_beq_true. apply layer_beq_true. Qed.

Theorem C01_idempotent_partial_proof cfg w e n um e2 um2 :
  plain_env e = true -> plain_env e2 = true ->
  wf_table (ks_tab (wo_ks w)) = true ->
  v_res (mview cfg w e n um) = ROk ->
  lmap_beq (layers_on_disk cfg (wo_fs (v_after (mview cfg w e n um))))
           (layers_on_disk cfg (wo_fs w)) = true ->
  syscalls (v_log (mview cfg (v_after (mview cfg w e n um)) e2 n um2)) = []
  /\ wo_ks (v_after (mview cfg (v_after (mview cfg w e n um)) e2 n um2))
     = wo_ks (v_after (mview cfg w e n um)).
Proof.
  intros He He2 Hw Hr Hl. apply lmap_beq_true in Hl.
  set (w1 := v_after (mview cfg w e n um)) in *.
  pose proof (mount_keeps_wf cfg w e n um He Hw) as Hw1. fold w1 in Hw1.
  pose proof (C01_post_mounted_proof cfg w e n um He Hw Hr) as Hm. fold w1 in Hm.
  destruct (mview_trace cfg w e n um He) as (stat & _ & Hok & _).
  destruct (Hok Hr) as [_ Hex]. clear Hok stat.
  destruct (mview_trace cfg w1 e2 n um2 He2) as (stat2 & Ht2 & _).
  assert (Hch : chain cfg (wo_fs w1) n = chain cfg (wo_fs w) n).
  { unfold chain. now rewrite Hl. }
  assert (Hci : chain_items cfg (wo_fs w1) n = chain_items cfg (wo_fs w) n).
  { unfold chain_items. now rewrite Hl, Hch. }
  rewrite Hci in Ht2.
  eapply ltrace_idle; [exact Ht2|exact Hw1|].
  unfold chain_items. apply Forall_forall. intros its Hits.
  apply in_map_iff in Hits as (x & <- & Hx). apply Forall_forall. intros it Hit.
  apply mounted_at_in.
  unfold all_mounted in Hm. rewrite forallb_forall in Hm. specialize (Hm x Hx).
  rewrite forallb_forall in Hm. apply (Hm (item_em it)).
  destruct (items_expected cfg (wo_fs w) n x Hx) as (rest & E & _). rewrite E.
  apply in_or_app. left. now apply in_map.
Qed.

(* ------------------------------------------------------------------ the conjunction *)
(* step_spec assembled from the parts; mount_post as a premise *)
Theorem C01_model_given_post_proof cfg w e n um : plain_env e = true ->
  wf_table (ks_tab (wo_ks w)) = true ->
  is_abs (c_layers cfg) = true ->
  (v_res (mview cfg w e n um) = ROk ->
   C01.mount_post cfg (wo_fs w) (layers_on_disk cfg (wo_fs w)) (chain cfg (wo_fs w) n)
     (ks_tab (wo_ks w)) (ks_tab (wo_ks (v_after (mview cfg w e n um)))) = true) ->
  C01.step_spec cfg w (mview cfg w e n um) = true.
Proof.
  intros He Hw Habs Hpost.
  pose proof (C01_order_proof cfg w e n um He) as Ha.
  pose proof (C01_propagation_proof cfg w e n um He) as Hb.
  pose proof (C01_only_needed_proof cfg w e n um He Hw Habs (wo_fs (v_after (mview cfg w e n um)))) as Hc.
  unfold C01.step_spec.
  assert (Hcmd : v_cmd (mview cfg w e n um) = CMount n).
  { unfold mview, view_of_model. destruct (run e cfg um (CMount n) (world_of w)). reflexivity. }
  assert (Henv : v_env (mview cfg w e n um) = e).
  { unfold mview, view_of_model. destruct (run e cfg um (CMount n) (world_of w)). reflexivity. }
  rewrite Hcmd, Henv, He. cbn [negb]. cbv zeta.
  rewrite Ha, Hb, Hc. cbn [andb].
  destruct (v_res (mview cfg w e n um)) eqn:Er; try reflexivity. now apply Hpost.
Qed.

(* whenever the command does not succeed, the whole predicate holds outright *)
Theorem C01_model_not_ok_proof cfg w e n um : plain_env e = true ->
  wf_table (ks_tab (wo_ks w)) = true ->
  is_abs (c_layers cfg) = true ->
  rclass_beq (v_res (mview cfg w e n um)) ROk = false ->
  C01.step_spec cfg w (mview cfg w e n um) = true.
Proof.
  intros He Hw Habs Hr. apply C01_model_given_post_proof; try assumption.
  intros E. rewrite E in Hr. discriminate.
Qed.

(* everything together *)
Theorem C01_model_partial_proof cfg w e n um : plain_env e = true ->
  wf_table (ks_tab (wo_ks w)) = true ->
  is_abs (c_layers cfg) = true ->
  rbind_clear cfg (chain cfg (wo_fs w) n) = true ->
  pre_right cfg (wo_fs w) (chain cfg (wo_fs w) n) (ks_tab (wo_ks w)) = true ->
  nodup_targets cfg (chain cfg (wo_fs w) n) = true ->
  nocomma_paths cfg (layers_on_disk cfg (wo_fs w)) (chain cfg (wo_fs w) n) = true ->
  ids_ok (wo_ks w) = true ->
  id_bound (wo_ks (v_after (mview cfg w e n um))) = true ->
  C01.step_spec cfg w (mview cfg w e n um) = true.
Proof.
  intros He Hw Habs Hrc Hpr Hnd Hnc Hids Hb.
  apply C01_model_given_post_proof; try assumption.
  intros Hr. now apply C01_post_partial_proof.
Qed.
