(* C01 -- constants of Gen/Consts.v (rewritten from the source of /repo by tools/genconsts on
   every run) compared with literals.  Used by: the predicate C01.spec / C01.kf read layers from disk through Model/Layers.v (layerconfig_path).
   A changed constant makes this file fail to build; the check then reports
   "proof obligation no longer checks" for Properties/C01.v (C01_constants_pinned) instead of
   letting model, predicate and code move together unnoticed. *)
From LC Require Import Lib.Bytes Gen.Consts.
Local Open Scope string_scope.

Lemma c01_constants_pinned :
  (* doc/layercake_directories.adoc, manual page LAYER DIRECTORY: "layerconfig" *)
  D_LayerconfigFile = bs "layerconfig".
Proof. repeat split; vm_compute; reflexivity. Qed.
