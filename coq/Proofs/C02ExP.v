(* C02: concrete worlds.  (1) The hypotheses of the theorems are satisfiable by a non-trivial world.
   (2) Witnesses for the statements that are false of the model, and for the need of each hypothesis.
   Everything here is a closed computation. *)
From LC Require Import Lib.Bytes Lib.Lex Lib.Fields Lib.PathM Model.Config Gen.Consts
  Model.MountInfo Model.FsTree Model.Kernel Model.Layers Cases.Verdict Cases.LC Cases.C02
  Proofs.C02cP Proofs.C02dP Proofs.C02eP Proofs.C02P.
Import LC LCS.

Definition cfg0 : cfgT :=
  MkCfg (bs "/lc") (bs "/lc/layers") (bs "build") (bs "packages") (bs "files")
        (bs "overlayfs/workdir") (bs "overlayfs/upperdir") (bs "/lc/exports") (bs "packages") (bs "files").
Definition nlb : bytes := [nb 10].
Definition fs0 : fsT :=
  [(bs "/", Dir); (bs "/lc", Dir); (bs "/lc/layers", Dir); (bs "/lc/exports", Dir);
   (bs "/lc/default_layerconfig.skel", File (bs "import proc proc /proc"));
   (bs "/lc/layers/a", Dir); (bs "/lc/layers/a/layerconfig", File (bs "import proc proc /proc"));
   (bs "/lc/layers/a/build", Dir);
   (bs "/lc/layers/b", Dir);
   (bs "/lc/layers/b/layerconfig", File (bs "base a" ++ nlb ++ nlb ++ bs "import proc proc /proc" ++ nlb));
   (bs "/lc/layers/b/build", Dir)].
Definition ks0 : kstate := MkKS [] 100 50.
Definition wld0 : wobs := MkWO fs0 ks0.
Definition env_plain : env := MkEnv false NoFault false false [].
Definition env_fail1 : env := MkEnv false (FailAt 1) false false [].
Definition env_crash1 : env := MkEnv false (CrashAt 1) false false [].
Definition na : bytes := bs "a".
Definition nb_ : bytes := bs "b".
Definition nc : bytes := bs "c".

(* ---- the hypotheses hold of a world with two layers, b on top of a *)
Example hyps_satisfiable :
  (cfg_ok cfg0 && fs_ok cfg0 fs0 && kernel_wf wld0 && names_distinct cfg0 wld0 && paths_distinct wld0
   && C02.forest_ok cfg0 fs0 && base_set_up cfg0 fs0
   && (2 <=? length (read_layer_files cfg0 fs0))%nat) = true.
Proof. vm_compute. reflexivity. Qed.
Example breaking_satisfiable :
  (C02.breaking cfg0 fs0 (CRebase na nb_) && C02.breaking cfg0 fs0 (CRemove na false)
   && C02.breaking cfg0 fs0 (CAdd nb_ [] []) && C02.breaking cfg0 fs0 (CRename na nb_)) = true.
Proof. vm_compute. reflexivity. Qed.
Example in_scope_examples :
  (in_scope env_plain (CAdd nc nb_ []) ROk && in_scope env_fail1 (CRebase nb_ []) RFail
   && in_scope env_crash1 (CRemove nb_ false) RCrash && in_scope env_plain (CRename na nc) ROk) = true.
Proof. vm_compute. reflexivity. Qed.
(* the theorems are not vacuous on this world: the steps below run and succeed *)
Example steps_succeed :
  map (fun cmd => v_res (view_of_model cfg0 wld0 env_plain cmd []))
      [CAdd nc nb_ []; CRebase nb_ []; CRemove nb_ false; CRename na nc; CMkdirs nb_]
  = [ROk; ROk; ROk; ROk; ROk].
Proof. vm_compute. reflexivity. Qed.

(* ---- refuted: the forest conjunct of step_spec does not survive a rename that stops half way *)
(* (i) injected fault right after the directory has been renamed: child b still names parent "a" *)
Example forest_refuted_fault :
  let v := view_of_model cfg0 wld0 env_fail1 (CRename na nc) [] in
  (v_res v, C02.forest_ok cfg0 (wo_fs wld0), C02.forest_ok cfg0 (wo_fs (v_after v)), C02.step_spec cfg0 wld0 v)
  = (RFail, true, false, false).
Proof. vm_compute. reflexivity. Qed.
Example forest_refuted_crash :
  let v := view_of_model cfg0 wld0 env_crash1 (CRename na nc) [] in
  (v_res v, C02.forest_ok cfg0 (wo_fs (v_after v)), C02.step_spec cfg0 wld0 v) = (RCrash, false, false).
Proof. vm_compute. reflexivity. Qed.
(* (ii) no fault injected at all: rewriting the child's layerconfig fails by itself because its
   temporary name is taken by a directory; every hypothesis of the theorems holds of this world *)
Definition fs_blocked : fsT := fs0 ++ [(bs "/lc/layers/b/layerconfig.tmp", Dir)].
Definition w_blocked : wobs := MkWO fs_blocked ks0.
Example forest_refuted_plain :
  let v := view_of_model cfg0 w_blocked env_plain (CRename na nc) [] in
  (cfg_ok cfg0 && fs_ok cfg0 fs_blocked && kernel_wf w_blocked && names_distinct cfg0 w_blocked
   && paths_distinct w_blocked && C02.forest_ok cfg0 fs_blocked,
   v_res v, C02.forest_ok cfg0 (wo_fs (v_after v)), C02.step_spec cfg0 w_blocked v)
  = (true, RFail, false, false).
Proof. vm_compute. reflexivity. Qed.

(* ---- each hypothesis is needed *)
(* the same name twice under the layers directory: the model's rename never ends *)
Definition fs_dup : fsT := fs0 ++ [(bs "/lc/layers/b", Dir)].
Example names_distinct_needed :
  let w := MkWO fs_dup ks0 in
  (names_distinct cfg0 w, C02.forest_ok cfg0 fs_dup, v_res (view_of_model cfg0 w env_plain (CRename na nc) []))
  = (false, true, RDiverge).
Proof. vm_compute. reflexivity. Qed.
(* a layerconfig that is a symbolic link to another layer's: rebasing a onto b makes b its own parent *)
Definition fs_link : fsT :=
  [(bs "/", Dir); (bs "/lc", Dir); (bs "/lc/layers", Dir); (bs "/lc/exports", Dir);
   (bs "/lc/default_layerconfig.skel", File (bs "import proc proc /proc"));
   (bs "/lc/layers/r", Dir); (bs "/lc/layers/r/layerconfig", File []);
   (bs "/lc/layers/a", Dir); (bs "/lc/layers/a/layerconfig", File (bs "base r" ++ nlb));
   (bs "/lc/layers/b", Dir); (bs "/lc/layers/b/layerconfig", Link (bs "/lc/layers/a/layerconfig"))].
Example no_link_needed :
  let w := MkWO fs_link ks0 in
  let v := view_of_model cfg0 w env_plain (CRebase na nb_) [] in
  (fs_ok cfg0 fs_link, C02.forest_ok cfg0 fs_link, v_res v, C02.forest_ok cfg0 (wo_fs (v_after v)))
  = (false, true, ROk, false).
Proof. vm_compute. reflexivity. Qed.
(* a layerconfig without its directory entry: a crash during add exposes it as a layer *)
Definition fs_orphan : fsT := fs0 ++ [(bs "/lc/layers/x/layerconfig", File (bs "base zzz" ++ nlb))].
Example closed_needed :
  let w := MkWO fs_orphan ks0 in
  let v := view_of_model cfg0 w env_crash1 (CAdd (bs "x") [] []) [] in
  (fs_ok cfg0 fs_orphan, C02.forest_ok cfg0 fs_orphan, v_res v, C02.forest_ok cfg0 (wo_fs (v_after v)))
  = (false, true, RCrash, false).
Proof. vm_compute. reflexivity. Qed.
(* a stale temporary file is consumed by a successful rebase; since round 2 rebase_exact ignores
   <layerconfig>.tmp, so this is the correct behaviour now (it was the witness of
   C02_rebase_exact_refuted before) *)
Definition fs_stale : fsT := fs0 ++ [(bs "/lc/layers/b/layerconfig.tmp", File (bs "old"))].
Example rebase_consumes_stale_tmp :
  let w := MkWO fs_stale ks0 in
  let v := view_of_model cfg0 w env_plain (CRebase nb_ []) [] in
  (fs_ok cfg0 fs_stale, v_res v, exists_ (wo_fs (v_after v)) (bs "/lc/layers/b/layerconfig.tmp"),
   C02.rebase_exact cfg0 fs_stale (wo_fs (v_after v)) nb_ [], C02.step_spec cfg0 w v)
  = (true, ROk, false, true, true).
Proof. vm_compute. reflexivity. Qed.
(* the same for rename (rename_exact exempts left-over layerconfig.tmp files since the follow-up
   of round 2): the child's stale temporary file is consumed, rename_exact and step_spec hold *)
Example rename_consumes_stale_tmp :
  let w := MkWO fs_stale ks0 in
  let v := view_of_model cfg0 w env_plain (CRename na nc) [] in
  (fs_ok cfg0 fs_stale, v_res v, exists_ (wo_fs (v_after v)) (bs "/lc/layers/b/layerconfig.tmp"),
   C02.forest_ok cfg0 (wo_fs (v_after v)),
   C02.rename_exact cfg0 fs_stale (wo_fs (v_after v)) na nc, C02.step_spec cfg0 w v)
  = (true, ROk, false, true, true, true).
Proof. vm_compute. reflexivity. Qed.
(* also when the stale file sits in the renamed layer itself *)
Definition fs_stale_a : fsT := fs0 ++ [(bs "/lc/layers/a/layerconfig.tmp", File (bs "old"))].
Example rename_consumes_own_stale_tmp :
  let w := MkWO fs_stale_a ks0 in
  let v := view_of_model cfg0 w env_plain (CRename na nc) [] in
  (fs_ok cfg0 fs_stale_a, v_res v, C02.rename_exact cfg0 fs_stale_a (wo_fs (v_after v)) na nc, C02.step_spec cfg0 w v)
  = (true, ROk, true, true).
Proof. vm_compute. reflexivity. Qed.

(* a name longer than NAME_MAX is a legal layer name; mkdir refuses it, nothing changes *)
Definition long_name : bytes := repeat (nb 97) 300.
Example long_name_refused :
  let v := view_of_model cfg0 wld0 env_plain (CAdd long_name nb_ []) [] in
  (legal_name long_name, v_res v, unchanged wld0 v, C02.step_spec cfg0 wld0 v) = (true, RFail, true, true).
Proof. vm_compute. reflexivity. Qed.
Example long_name_rename_refused :
  let v := view_of_model cfg0 wld0 env_plain (CRename na long_name) [] in
  (v_res v, unchanged wld0 v, C02.step_spec cfg0 wld0 v) = (RFail, true, true).
Proof. vm_compute. reflexivity. Qed.

(* somebody editing a layerconfig by hand (CEdit, not layercake) can of course break the forest:
   manual edits are outside in_scope, also in pretend mode, which they ignore *)
Example manual_edit_breaks :
  let v := view_of_model cfg0 wld0 (MkEnv true NoFault false false []) (CEdit (bs "/lc/layers/b/layerconfig") (bs "base zzz" ++ nlb)) [] in
  (v_res v, C02.forest_ok cfg0 (wo_fs (v_after v)), in_scope (MkEnv true NoFault false false []) (CEdit [] []) ROk)
  = (ROk, false, false).
Proof. vm_compute. reflexivity. Qed.

(* ---- packaged for Properties/C02.v *)
Lemma forest_preserved_refuted : exists cfg w e cmd um,
  (cfg_ok cfg && fs_ok cfg (wo_fs w) && kernel_wf w && names_distinct cfg w && paths_distinct w
   && C02.forest_ok cfg (wo_fs w)) = true /\
  e_pretend e = false /\ e_fault e = NoFault /\
  C02.forest_ok cfg (wo_fs (v_after (view_of_model cfg w e cmd um))) = false /\
  C02.step_spec cfg w (view_of_model cfg w e cmd um) = false.
Proof.
  exists cfg0, w_blocked, env_plain, (CRename na nc), [].
  split; [vm_compute; reflexivity|]. split; [reflexivity|]. split; [reflexivity|].
  split; vm_compute; reflexivity.
Qed.




(* the whole of step_spec evaluates to true on the example world for successful structural steps *)
Example step_spec_examples :
  map (fun cmd => C02.step_spec cfg0 wld0 (view_of_model cfg0 wld0 env_plain cmd []))
      [CAdd nc nb_ []; CRebase nb_ []; CRemove nb_ false; CRename na nc; CMkdirs nb_; CRebase na nb_; CInit]
  = [true; true; true; true; true; true; true].
Proof. vm_compute. reflexivity. Qed.

(* ---- mount is out of scope for a reason: an export line may name any absolute target, also
   <layers>/z/layerconfig; mounting then creates a new "layer" z whose base does not exist *)
Definition bdir (s : string) : bytes * node := (bs "/lc/layers/a/build/" ++ bs s, Dir).
Definition fs_mnt : fsT :=
  [(bs "/", Dir); (bs "/lc", Dir); (bs "/lc/layers", Dir); (bs "/lc/exports", Dir);
   (bs "/lc/default_layerconfig.skel", File (bs "import proc proc /proc"));
   (bs "/lc/layers/a", Dir);
   (bs "/lc/layers/a/layerconfig", File (bs "export symlink etc/evil /lc/layers/z/layerconfig" ++ nlb));
   (bs "/lc/layers/a/build", Dir); bdir "bin"; bdir "etc"; bdir "lib"; bdir "opt"; bdir "root"; bdir "sbin"; bdir "usr";
   (bs "/lc/layers/a/build/etc/evil", File (bs "base nonexist" ++ nlb))].
Definition w_mnt : wobs := MkWO fs_mnt ks0.
Example forest_refuted_mount :
  let v := view_of_model cfg0 w_mnt env_plain (CMount na) [] in
  (cfg_ok cfg0 && fs_ok cfg0 fs_mnt && kernel_wf w_mnt && names_distinct cfg0 w_mnt && paths_distinct w_mnt
   && C02.forest_ok cfg0 fs_mnt,
   v_res v, C02.forest_ok cfg0 (wo_fs (v_after v)), C02.step_spec cfg0 w_mnt v)
  = (true, ROk, false, false).
Proof. vm_compute. reflexivity. Qed.
Lemma forest_mount_refuted : exists cfg w e cmd um,
  (cfg_ok cfg && fs_ok cfg (wo_fs w) && kernel_wf w && names_distinct cfg w && paths_distinct w
   && C02.forest_ok cfg (wo_fs w)) = true /\
  e_pretend e = false /\ e_fault e = NoFault /\
  v_res (view_of_model cfg w e cmd um) = ROk /\
  C02.forest_ok cfg (wo_fs (v_after (view_of_model cfg w e cmd um))) = false.
Proof.
  exists cfg0, w_mnt, env_plain, (CMount na), [].
  split; [vm_compute; reflexivity|]. split; [reflexivity|]. split; [reflexivity|].
  split; vm_compute; reflexivity.
Qed.

(* ---- the listing conjunct: it speaks about the two-layer world (listing succeeds there), and each
   of its two preconditions is needed: after the rename that stopped half way (child b names a
   parent that is gone) the listing is refused; so it is without the skeleton file *)
Definition fs_noskel : fsT := filter (fun e => negb (beq (fst e) (pathjoin [c_base cfg0; D_SkeletonLayerconfigFile]))) fs0.
Example listing_examples :
  let after_fault := v_after (view_of_model cfg0 wld0 env_fail1 (CRename na nc) []) in
  let w_noskel := MkWO fs_noskel ks0 in
  ((C02.forest_ok cfg0 fs0, base_set_up cfg0 fs0, v_res (view_of_model cfg0 wld0 env_plain CProbe [])),
   (C02.forest_ok cfg0 (wo_fs after_fault), base_set_up cfg0 (wo_fs after_fault),
    v_res (view_of_model cfg0 after_fault env_plain CProbe [])),
   (C02.forest_ok cfg0 fs_noskel, base_set_up cfg0 fs_noskel,
    v_res (view_of_model cfg0 w_noskel env_plain CProbe [])))
  = ((true, true, ROk), (false, true, RFail), (true, false, RFail)).
Proof. vm_compute. reflexivity. Qed.
