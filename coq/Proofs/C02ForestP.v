(* The layer map as a forest: walks along [base] end, within fuel [length m].
   Everything is phrased through the lookup function [g_of m : name -> option base], so that
   it transfers between maps with the same (name, base) skeleton and to maps described pointwise. *)
From LC Require Import Lib.Bytes Lib.Lex Lib.Fields Lib.PathM Gen.Consts
  Model.MountInfo Model.FsTree Model.Kernel Model.Layers.
Local Open Scope nat_scope.

Lemma memb_In x l : memb x l = true <-> In x l.
Proof.
  unfold memb. rewrite existsb_exists. split.
  - intros (y & Hy & E). apply beq_true in E. now subst.
  - intros H. exists x. split; [exact H|apply beq_refl].
Qed.
Lemma memb_notIn x l : memb x l = false <-> ~ In x l.
Proof.
  split.
  - intros H Hin. apply memb_In in Hin. congruence.
  - intros H. destruct (memb x l) eqn:E; auto. apply memb_In in E. contradiction.
Qed.

(* ------------------------------------------------------------------ association lists of layers *)
Lemma lm_get_name m n l : lm_get m n = Some l -> l_name l = n.
Proof.
  induction m as [|x r IH]; cbn; [discriminate|]. destruct (beq (l_name x) n) eqn:E; [|exact IH].
  intros H. injection H as <-. now apply beq_true.
Qed.
Lemma lm_get_in m n l : lm_get m n = Some l -> In l m.
Proof.
  induction m as [|x r IH]; cbn; [discriminate|]. destruct (beq (l_name x) n); [|now right; apply IH].
  intros H. injection H as <-. now left.
Qed.
Lemma lm_get_of_in m l : In l m -> exists l', lm_get m (l_name l) = Some l'.
Proof.
  induction m as [|x r IH]; cbn; [tauto|]. intros [->|H].
  - rewrite beq_refl. eauto.
  - destruct (beq (l_name x) (l_name l)); eauto.
Qed.
Lemma lm_get_none_notin m n : lm_get m n = None -> forall l, In l m -> l_name l <> n.
Proof.
  intros H l Hl E. destruct (lm_get_of_in m l Hl) as (l' & E'). rewrite E in E'. congruence.
Qed.
Lemma lm_get_set m l n : lm_get (lm_set m l) n = if beq (l_name l) n then Some l else lm_get m n.
Proof.
  induction m as [|x r IH]; cbn [lm_set lm_get].
  - reflexivity.
  - destruct (beq (l_name x) (l_name l)) eqn:E.
    + cbn [lm_get]. destruct (beq (l_name l) n) eqn:E2; [reflexivity|].
      apply beq_true in E. rewrite E, E2. reflexivity.
    + cbn [lm_get]. destruct (beq (l_name x) n) eqn:E2.
      * apply beq_true in E2. subst n. rewrite beq_sym, E. reflexivity.
      * exact IH.
Qed.
Lemma lm_set_in m l x : In x (lm_set m l) -> x = l \/ In x m.
Proof.
  induction m as [|y r IH]; cbn [lm_set].
  - intros [<-|[]]. now left.
  - destruct (beq (l_name y) (l_name l)).
    + intros [<-|H]; [now left|right; now right].
    + intros [<-|H]; [right; now left|]. destruct (IH H); [now left|right; now right].
Qed.
Lemma lm_set_has m l : In l (lm_set m l).
Proof.
  induction m as [|y r IH]; cbn [lm_set]; [now left|].
  destruct (beq (l_name y) (l_name l)); [now left|now right].
Qed.
Lemma lm_get_del m n x : lm_get (lm_del m n) x = if beq n x then None else lm_get m x.
Proof.
  unfold lm_del. induction m as [|y r IH]; cbn [filter lm_get].
  - now destruct (beq n x).
  - destruct (beq (l_name y) n) eqn:E; cbn [negb].
    + rewrite IH. destruct (beq n x) eqn:E2; [reflexivity|].
      apply beq_true in E. rewrite E, E2. reflexivity.
    + cbn [lm_get]. destruct (beq (l_name y) x) eqn:E3.
      * apply beq_true in E3. subst x. rewrite beq_sym, E. reflexivity.
      * exact IH.
Qed.
Lemma lm_del_in m n x : In x (lm_del m n) -> In x m /\ l_name x <> n.
Proof.
  unfold lm_del. rewrite filter_In. intros [H1 H2]. split; [exact H1|].
  apply negb_true_iff in H2. now apply beq_false.
Qed.
Lemma filter_len_le {A} (f : A -> bool) l : length (filter f l) <= length l.
Proof. induction l as [|x r IH]; cbn; [lia|]. destruct (f x); cbn; lia. Qed.
Lemma lm_del_length_lt m n l : lm_get m n = Some l -> length (lm_del m n) < length m.
Proof.
  unfold lm_del. induction m as [|y r IH]; cbn [lm_get filter]; [discriminate|].
  destruct (beq (l_name y) n) eqn:E; cbn [negb length].
  - intros _. pose proof (filter_len_le (fun l0 => negb (beq (l_name l0) n)) r). lia.
  - intros H. specialize (IH H). lia.
Qed.

(* ------------------------------------------------------------------ skeleton *)
Definition skel (m : lmap) : list (bytes * bytes) := map (fun l => (l_name l, l_base l)) m.
Definition gmap := bytes -> option bytes.
Definition g_of (m : lmap) : gmap := fun n => option_map l_base (lm_get m n).

Lemma g_of_some m n b : g_of m n = Some b <-> exists l, lm_get m n = Some l /\ l_base l = b.
Proof.
  unfold g_of. destruct (lm_get m n) as [l|]; cbn; split.
  - intros H. injection H as <-. eauto.
  - intros (l' & E & <-). injection E as ->. reflexivity.
  - discriminate.
  - intros (l' & E & _). discriminate.
Qed.
Lemma g_of_none m n : g_of m n = None <-> lm_get m n = None.
Proof. unfold g_of. destruct (lm_get m n); cbn; split; congruence. Qed.

Lemma skel_g m : forall m', skel m = skel m' -> forall n, g_of m n = g_of m' n.
Proof.
  unfold g_of. induction m as [|x r IH]; intros [|y r'] H n; cbn in H; try discriminate; [reflexivity|].
  injection H as H1 H2 H3. cbn [lm_get]. rewrite H1.
  destruct (beq (l_name y) n); [cbn; now rewrite H2|now apply IH].
Qed.
Lemma skel_in m m' l : skel m = skel m' -> In l m -> exists l', In l' m' /\ l_name l' = l_name l /\ l_base l' = l_base l.
Proof.
  intros H Hl. assert (In (l_name l, l_base l) (skel m')).
  { rewrite <- H. unfold skel. apply in_map_iff. eauto. }
  unfold skel in H0. apply in_map_iff in H0 as (l' & E & Hin). injection E as E1 E2. eauto.
Qed.
Lemma skel_length m m' : skel m = skel m' -> length m = length m'.
Proof. intros H. apply (f_equal (@length _)) in H. unfold skel in H. now rewrite !map_length in H. Qed.

(* ------------------------------------------------------------------ walks *)
Inductive greach (g : gmap) : bytes -> nat -> Prop :=
| gr_nil : greach g [] 0
| gr_step n b k : n <> [] -> g n = Some b -> greach g b k -> greach g n (S k).

Lemma greach_det g n k : greach g n k -> forall k', greach g n k' -> k = k'.
Proof.
  induction 1 as [|n b k Hn Hg Hr IH]; intros k' H'; inversion H'; subst; try congruence.
  f_equal. apply IH. congruence.
Qed.
Lemma greach_ext g g' n k : (forall x, g x = g' x) -> greach g n k -> greach g' n k.
Proof.
  intros E. induction 1 as [|n b k Hn Hg Hr IH]; [constructor|].
  econstructor; [exact Hn| |exact IH]. now rewrite <- E.
Qed.
Lemma greach_nil_inv g k : greach g [] k -> k = 0.
Proof. inversion 1; subst; [reflexivity|congruence]. Qed.
Lemma greach_zero_inv g n : greach g n 0 -> n = [].
Proof. inversion 1; reflexivity. Qed.

Inductive onpath (g : gmap) : bytes -> bytes -> Prop :=
| op_here b x : b <> [] -> g b = Some x -> onpath g b b
| op_next b x v : b <> [] -> g b = Some x -> onpath g x v -> onpath g b v.

Lemma onpath_reach g b v : onpath g b v -> forall k, greach g b k -> exists j, 1 <= j /\ j <= k /\ greach g v j.
Proof.
  induction 1 as [b x Hb Hg|b x v Hb Hg Hp IH]; intros k Hk.
  - exists k. inversion Hk; subst; [congruence|]. repeat split; try lia. exact Hk.
  - inversion Hk; subst; [congruence|]. rewrite Hg in H0. injection H0 as <-.
    destruct (IH _ H1) as (j & J1 & J2 & J3). exists j. repeat split; try lia. exact J3.
Qed.

Lemma g_of_del m n x : g_of (lm_del m n) x = if beq n x then None else g_of m x.
Proof. unfold g_of. rewrite lm_get_del. now destruct (beq n x). Qed.
Lemma g_of_set m l x : g_of (lm_set m l) x = if beq (l_name l) x then Some (l_base l) else g_of m x.
Proof. unfold g_of. rewrite lm_get_set. now destruct (beq (l_name l) x). Qed.

Lemma greach_del m n : forall b k, greach (g_of m) b k ->
  (forall j, greach (g_of m) n j -> k < j) -> greach (g_of (lm_del m n)) b k.
Proof.
  induction 1 as [|b x k Hb Hg Hr IH]; intros Hn; [constructor|].
  assert (Hbn : beq n b = false).
  { apply beq_false. intros <-. specialize (Hn (S k)). assert (S k < S k); [|lia].
    apply Hn. econstructor; eauto. }
  econstructor; [exact Hb| |].
  - rewrite g_of_del, Hbn. exact Hg.
  - apply IH. intros j Hj. specialize (Hn j Hj). lia.
Qed.

(* pigeonhole: a walk that ends is no longer than the map *)
Lemma greach_bound : forall k m n, greach (g_of m) n k -> k <= length m.
Proof.
  induction k as [|k IH]; intros m n H; [lia|].
  inversion H as [|n' b k' Hn Hg Hr]; subst.
  apply g_of_some in Hg as (l & El & Eb). subst b.
  assert (D : greach (g_of (lm_del m n)) (l_base l) k).
  { apply greach_del; [exact Hr|]. intros j Hj. rewrite <- (greach_det _ _ _ H _ Hj). lia. }
  apply IH in D. pose proof (lm_del_length_lt _ _ _ El). lia.
Qed.

(* ------------------------------------------------------------------ checkInheritance *)
Definition allreach (m : lmap) : Prop := forall l, In l m -> exists k, greach (g_of m) (l_base l) k.
Definition gforest (g : gmap) : Prop := forall n b, g n = Some b -> exists k, greach g b k.
Definition bres (m : lmap) : Prop := forall l, In l m -> l_base l <> [] -> g_of m (l_base l) <> None.
Definition bcons (m : lmap) : Prop := forall l, In l m -> g_of m (l_name l) = Some (l_base l).

Lemma chain_ok_reach m : forall F vis b, chain_ok F m vis b = true -> exists k, greach (g_of m) b k.
Proof.
  induction F as [|F IH]; intros vis b H.
  - destruct b; [exists 0; constructor|discriminate].
  - destruct b as [|c b']; [exists 0; constructor|]. cbn [chain_ok] in H.
    destruct (lm_get m (c :: b')) as [l|] eqn:El; [|discriminate].
    destruct (memb (l_name l) vis); [discriminate|].
    apply IH in H as (k & Hk). exists (S k). econstructor; [discriminate| |exact Hk].
    apply g_of_some. eauto.
Qed.

Lemma reach_chain_ok m : forall b k, greach (g_of m) b k -> forall F vis, k <= F ->
  (forall v, In v vis -> ~ onpath (g_of m) b v) -> chain_ok F m vis b = true.
Proof.
  induction 1 as [|n b k Hn Hg Hr IH]; intros F vis HF Hvis.
  - destruct F; reflexivity.
  - destruct F as [|F]; [lia|]. destruct n as [|c n']; [congruence|]. cbn [chain_ok].
    pose proof Hg as Hg'. apply g_of_some in Hg' as (l & El & Eb). rewrite El.
    pose proof (lm_get_name _ _ _ El) as En. rewrite En.
    destruct (memb (c :: n') vis) eqn:EM.
    { apply memb_In in EM. exfalso. apply (Hvis _ EM). eapply op_here; eauto. }
    rewrite Eb. apply IH; [lia|]. intros v [<-|Hv] Hop.
    + destruct (onpath_reach _ _ _ Hop _ Hr) as (j & J1 & J2 & J3).
      assert (S k = j); [|lia]. eapply greach_det; [|exact J3]. econstructor; eauto.
    + apply (Hvis _ Hv). eapply op_next; eauto.
Qed.

Lemma check_inh_allreach m : check_inheritance m = true -> allreach m.
Proof.
  unfold check_inheritance. rewrite forallb_forall. intros H l Hl.
  eapply chain_ok_reach. apply H. exact Hl.
Qed.

Lemma allreach_check_inh m : allreach m -> bcons m -> check_inheritance m = true.
Proof.
  intros HA HC. unfold check_inheritance. apply forallb_forall. intros l Hl.
  destruct (HA l Hl) as (k & Hk). eapply reach_chain_ok; [exact Hk| |].
  - pose proof (greach_bound _ _ _ Hk). lia.
  - intros v [<-|[]] Hop. destruct (onpath_reach _ _ _ Hop _ Hk) as (j & J1 & J2 & J3).
    inversion J3 as [|n' b k' Hn Hg Hr]; subst; [lia|]. rewrite (HC l Hl) in Hg. injection Hg as <-.
    pose proof (greach_det _ _ _ Hk _ Hr). lia.
Qed.

Lemma allreach_gforest m : allreach m -> gforest (g_of m).
Proof.
  intros HA n b Hg. apply g_of_some in Hg as (l & El & <-). apply HA. eapply lm_get_in; eauto.
Qed.
Lemma allreach_bres m : allreach m -> bres m.
Proof.
  intros HA l Hl Hb. destruct (HA l Hl) as (k & Hk). inversion Hk; subst; congruence.
Qed.
Lemma gforest_allreach m : gforest (g_of m) -> bres m -> allreach m.
Proof.
  intros HG HB l Hl. destruct (l_base l) as [|c b'] eqn:Eb; [exists 0; constructor|].
  specialize (HB l Hl). rewrite Eb in HB.
  destruct (g_of m (c :: b')) as [x|] eqn:Eg; [|exfalso; apply HB; [discriminate|reflexivity]].
  destruct (HG _ _ Eg) as (k & Hk). exists (S k). econstructor; [discriminate|exact Eg|exact Hk].
Qed.

(* skeleton-equal maps *)
Lemma allreach_skel m m' : skel m = skel m' -> allreach m -> allreach m'.
Proof.
  intros HS HA l' Hl'. destruct (skel_in m' m l' (eq_sym HS) Hl') as (l & Hl & _ & Eb).
  destruct (HA l Hl) as (k & Hk). exists k. rewrite <- Eb.
  eapply greach_ext; [|exact Hk]. apply skel_g. exact HS.
Qed.
Lemma bcons_skel m m' : skel m = skel m' -> bcons m -> bcons m'.
Proof.
  intros HS HC l' Hl'. destruct (skel_in m' m l' (eq_sym HS) Hl') as (l & Hl & En & Eb).
  rewrite <- (skel_g _ _ HS), <- En, <- Eb. now apply HC.
Qed.

(* ------------------------------------------------------------------ normalizeOrder *)
Lemma sort_key_some m : forall k l s F, greach (g_of m) (l_base l) k -> k < F -> sort_key F m l s <> None.
Proof.
  induction k as [|k IH]; intros l s F H HF; (destruct F as [|F]; [lia|]); cbn [sort_key];
    destruct (l_base l) as [|c b'] eqn:Eb.
  - discriminate.
  - apply greach_zero_inv in H. discriminate.
  - discriminate.
  - inversion H as [|n' b k' Hn Hg Hr]; subst. apply g_of_some in Hg as (p & Ep & <-). rewrite Ep.
    apply IH; [exact Hr|lia].
Qed.

Lemma normalize_some m : allreach m -> normalize_order m <> None.
Proof.
  intros HA. unfold normalize_order.
  set (keyed := map _ m).
  assert (E : forallb (fun x : option (bytes * bytes) => match x with Some _ => true | None => false end) keyed = true).
  { apply forallb_forall. intros x Hx. unfold keyed in Hx. apply in_map_iff in Hx as (l & <- & Hl).
    destruct (HA l Hl) as (k & Hk). pose proof (greach_bound _ _ _ Hk) as B.
    destruct (sort_key (S (length m)) m l (l_name l)) eqn:Es; [reflexivity|].
    exfalso. eapply (sort_key_some m k l (l_name l) (S (length m))); [exact Hk|lia|exact Es]. }
  rewrite E. discriminate.
Qed.

Lemma keyed_insert_in x l z : In z (keyed_insert x l) <-> z = x \/ In z l.
Proof.
  induction l as [|y r IH]; cbn; [intuition congruence|].
  destruct (ltb (fst y) (fst x)); cbn; rewrite ?IH; intuition congruence.
Qed.
Lemma normalize_names m o : normalize_order m = Some o -> forall n, In n o -> exists l, In l m /\ l_name l = n.
Proof.
  unfold normalize_order. set (keyed := map _ m). destruct (forallb _ keyed); [|discriminate].
  intros H. injection H as <-. intros n Hn. apply in_map_iff in Hn as ([k n'] & E & Hin). cbn in E. subst n'.
  assert (G : forall L, In (k, n) (fold_right keyed_insert [] L) -> In (k, n) L).
  { induction L as [|y L IH]; cbn; [tauto|]. rewrite keyed_insert_in. intros [->|H]; [now left|right; now apply IH]. }
  apply G in Hin. apply in_flat_map in Hin as (x & Hx & Hkv). unfold keyed in Hx.
  apply in_map_iff in Hx as (l & <- & Hl).
  destruct (sort_key (S (length m)) m l (l_name l)); [|destruct Hkv].
  destruct Hkv as [E|[]]. injection E as _ <-. eauto.
Qed.

(* ------------------------------------------------------------------ getAncestorsAndSelf *)
Lemma ancestors_some m : forall n k, greach (g_of m) n k -> forall F acc, k <= F ->
  exists ch, ancestors_and_self F m n acc = Some ch /\ forall x, In x ch -> In x acc \/ In x m.
Proof.
  induction 1 as [|n b k Hn Hg Hr IH]; intros F acc HF.
  - exists acc. split; [destruct F; reflexivity|auto].
  - destruct F as [|F]; [lia|]. destruct n as [|c n']; [congruence|]. cbn [ancestors_and_self].
    apply g_of_some in Hg as (l & El & <-). rewrite El.
    destruct (IH F (l :: acc)) as (ch & E & Hin); [lia|]. exists ch. split; [exact E|].
    intros x Hx. destruct (Hin x Hx) as [[<-|H]|H]; auto. right. eapply lm_get_in; eauto.
Qed.

Lemma forest_ok_parts m :
  (check_inheritance m && match normalize_order m with Some _ => true | None => false end) = true ->
  check_inheritance m = true /\ exists o, normalize_order m = Some o.
Proof.
  intros H. apply andb_true_iff in H as [H1 H2]. split; [exact H1|].
  destruct (normalize_order m); [eauto|discriminate].
Qed.

(* ------------------------------------------------------------------ updates of a forest *)
Lemma gforest_ext g g' : (forall x, g x = g' x) -> gforest g -> gforest g'.
Proof.
  intros E H n b Hg. rewrite <- E in Hg. destruct (H n b Hg) as (k & Hk). exists k.
  eapply greach_ext; eauto.
Qed.

Definition g_add (g : gmap) (name base : bytes) : gmap := fun x => if beq name x then Some base else g x.
Lemma greach_add g name base : g name = None -> forall n k, greach g n k -> greach (g_add g name base) n k.
Proof.
  intros Hf. induction 1 as [|n b k Hn Hg Hr IH]; [constructor|].
  econstructor; [exact Hn| |exact IH]. unfold g_add.
  destruct (beq name n) eqn:E; [apply beq_true in E; congruence|exact Hg].
Qed.
Lemma gforest_add g name base : gforest g -> g name = None -> (base = [] \/ g base <> None) ->
  gforest (g_add g name base).
Proof.
  intros HF Hf Hb n b Hg. unfold g_add in Hg. destruct (beq name n) eqn:E.
  - injection Hg as <-. destruct base as [|c0 b']; [exists 0; constructor|].
    destruct Hb as [Hb|Hb]; [discriminate|].
    destruct (g (c0 :: b')) as [b2|] eqn:Eb; [|congruence]. destruct (HF _ _ Eb) as (k & Hk).
    exists (S k). apply greach_add; [exact Hf|]. econstructor; [discriminate|exact Eb|exact Hk].
  - destruct (HF _ _ Hg) as (k & Hk). exists k. now apply greach_add.
Qed.
(* the case base = [] of a walk starting at [] with g [] defined cannot arise: walks stop at [] *)

Definition g_del (g : gmap) (name : bytes) : gmap := fun x => if beq name x then None else g x.
Lemma greach_gdel g name : (forall x y, g x = Some y -> y <> name) ->
  forall n k, greach g n k -> n <> name -> greach (g_del g name) n k.
Proof.
  intros Hc. induction 1 as [|n b k Hn Hg Hr IH]; intros Hne; [constructor|].
  econstructor; [exact Hn| |apply IH; eapply Hc; eauto]. unfold g_del.
  destruct (beq name n) eqn:E; [apply beq_true in E; congruence|exact Hg].
Qed.
Lemma gforest_del g name : gforest g -> (forall x y, g x = Some y -> y <> name) -> gforest (g_del g name).
Proof.
  intros HF Hc n b Hg. unfold g_del in Hg. destruct (beq name n); [discriminate|].
  destruct (HF _ _ Hg) as (k & Hk). exists k. apply greach_gdel; eauto.
Qed.

(* renaming node [old] to the fresh name [new] *)
Definition ren (old new x : bytes) : bytes := if beq x old then new else x.
Definition g_ren (g : gmap) (old new : bytes) : gmap := fun x =>
  if beq x new then g old
  else if beq x old then None
  else match g x with Some b => Some (ren old new b) | None => None end.
Lemma greach_ren g old new : g new = None -> new <> [] -> old <> [] -> g old <> Some old ->
  forall n k, greach g n k -> greach (g_ren g old new) (ren old new n) k.
Proof.
  intros Hf Hn0 Ho0 Hloop. induction 1 as [|n b k Hn Hg Hr IH].
  - unfold ren. destruct (beq [] old) eqn:E; [|constructor].
    apply beq_true in E. congruence.
  - assert (Hnn : n <> new) by (intros ->; congruence).
    unfold ren at 1. destruct (beq n old) eqn:E.
    + apply beq_true in E. subst n. econstructor; [exact Hn0| |exact IH].
      unfold g_ren. rewrite beq_refl. rewrite Hg. f_equal. unfold ren.
      destruct (beq b old) eqn:E2; [apply beq_true in E2; congruence|reflexivity].
    + econstructor; [exact Hn| |exact IH]. unfold g_ren.
      destruct (beq n new) eqn:E3; [apply beq_true in E3; congruence|]. rewrite E, Hg. reflexivity.
Qed.
Lemma gforest_ren g old new : gforest g -> g new = None -> new <> [] -> old <> [] -> old <> new ->
  gforest (g_ren g old new).
Proof.
  intros HF Hf Hn0 Ho0 Hon.
  assert (Hloop : g old <> Some old).
  { intros E. destruct (HF _ _ E) as (k & Hk). assert (greach g old (S k)) by (econstructor; eauto).
    pose proof (greach_det _ _ _ Hk _ H). lia. }
  intros n b Hg. unfold g_ren in Hg. destruct (beq n new) eqn:E1.
  - destruct (HF _ _ Hg) as (k & Hk). exists k.
    assert (ren old new b = b) as <-.
    { unfold ren. destruct (beq b old) eqn:E; [apply beq_true in E; congruence|reflexivity]. }
    now apply greach_ren.
  - destruct (beq n old); [discriminate|]. destruct (g n) as [b0|] eqn:Eg; [|discriminate].
    injection Hg as <-. destruct (HF _ _ Eg) as (k & Hk). exists k. now apply greach_ren.
Qed.

(* test_name *)
Lemma test_name_need m n : test_name m n NNeed = true ->
  n <> [] /\ legal_name n = true /\ exists l, lm_get m n = Some l.
Proof.
  unfold test_name. destruct n as [|c n']; [discriminate|]. intros H. apply andb_true_iff in H as [H1 H2].
  split; [discriminate|]. split; [exact H1|]. destruct (lm_get m (c :: n')); [eauto|discriminate].
Qed.
Lemma test_name_free m n : test_name m n NFree = true ->
  n <> [] /\ legal_name n = true /\ lm_get m n = None.
Proof.
  unfold test_name. destruct n as [|c n']; [discriminate|]. intros H. apply andb_true_iff in H as [H1 H2].
  split; [discriminate|]. split; [exact H1|]. destruct (lm_get m (c :: n')); [discriminate|reflexivity].
Qed.
Lemma test_name_opt m n : test_name m n NOptNeed = true ->
  n = [] \/ (legal_name n = true /\ exists l, lm_get m n = Some l).
Proof.
  unfold test_name. destruct n as [|c n']; [now left|]. intros H. apply andb_true_iff in H as [H1 H2].
  right. split; [exact H1|]. destruct (lm_get m (c :: n')); [eauto|discriminate].
Qed.

(* ------------------------------------------------------------------ the maps the commands build *)
Lemma allreach_add m l : allreach m -> lm_get m (l_name l) = None ->
  (l_base l = [] \/ lm_get m (l_base l) <> None) -> allreach (lm_set m l).
Proof.
  intros HA Hf Hb. apply gforest_allreach.
  - apply (gforest_ext (g_add (g_of m) (l_name l) (l_base l))).
    + intros x. unfold g_add. now rewrite g_of_set.
    + apply gforest_add; [now apply allreach_gforest|now apply g_of_none|].
      destruct Hb as [Hb|Hb]; [now left|right]. now rewrite g_of_none.
  - intros x Hx Hbx. rewrite g_of_set. destruct (beq (l_name l) (l_base x)); [discriminate|].
    apply lm_set_in in Hx as [->|Hx].
    + destruct Hb as [Hb|Hb]; [congruence|]. now rewrite g_of_none.
    + now apply (allreach_bres m HA).
Qed.

Lemma has_child_false m n : has_child m n = false -> forall l, In l m -> l_base l <> n.
Proof.
  unfold has_child. intros H l Hl E. assert (existsb (fun l0 => beq (l_base l0) n) m = true); [|congruence].
  apply existsb_exists. exists l. split; [exact Hl|]. now apply beq_true.
Qed.
Lemma allreach_del m n : allreach m -> has_child m n = false -> allreach (lm_del m n).
Proof.
  intros HA Hc. pose proof (has_child_false _ _ Hc) as Hc'. apply gforest_allreach.
  - apply (gforest_ext (g_del (g_of m) n)).
    + intros x. unfold g_del. now rewrite g_of_del.
    + apply gforest_del; [now apply allreach_gforest|].
      intros x y Hg. apply g_of_some in Hg as (l & El & <-). apply Hc'. eapply lm_get_in; eauto.
  - intros x Hx Hbx. apply lm_del_in in Hx as [Hx _]. rewrite g_of_del.
    destruct (beq n (l_base x)) eqn:E; [apply beq_true in E; symmetry in E; now apply Hc' in E|].
    now apply (allreach_bres m HA).
Qed.

Lemma nodup_get m l : NoDup (map l_name m) -> In l m -> lm_get m (l_name l) = Some l.
Proof.
  induction m as [|y r IH]; cbn [map lm_get]; [intros _ []|]. intros ND [->|Hl].
  - now rewrite beq_refl.
  - inversion ND as [|? ? Hy Hr]; subst. destruct (beq (l_name y) (l_name l)) eqn:E.
    + apply beq_true in E. exfalso. apply Hy. rewrite E. now apply in_map.
    + now apply IH.
Qed.
Lemma lm_set_in_nodup m l x : NoDup (map l_name m) -> In x (lm_set m l) ->
  x = l \/ (In x m /\ l_name x <> l_name l).
Proof.
  induction m as [|y r IH]; cbn [map lm_set]; intros ND Hx.
  - destruct Hx as [<-|[]]. now left.
  - inversion ND as [|? ? Hy Hr]; subst. destruct (beq (l_name y) (l_name l)) eqn:E.
    + destruct Hx as [<-|Hx]; [now left|]. right. split; [now right|].
      apply beq_true in E. intros E2. apply Hy. rewrite E, <- E2. now apply in_map.
    + destruct Hx as [<-|Hx].
      * right. split; [now left|]. now apply beq_false.
      * destruct (IH Hr Hx) as [->|[H1 H2]]; [now left|]. right. split; [now right|exact H2].
Qed.
Lemma lm_set_names_nodup m l : NoDup (map l_name m) -> NoDup (map l_name (lm_set m l)).
Proof.
  induction m as [|y r IH]; cbn [map lm_set]; intros ND.
  - constructor; [intros []|constructor].
  - inversion ND as [|? ? Hy Hr]; subst. destruct (beq (l_name y) (l_name l)) eqn:E.
    + apply beq_true in E. cbn [map]. rewrite <- E. exact ND.
    + cbn [map]. constructor; [|now apply IH]. intros Hin. apply in_map_iff in Hin as (x & Ex & Hx).
      apply lm_set_in in Hx as [->|Hx].
      * apply beq_false in E. congruence.
      * apply Hy. rewrite <- Ex. now apply in_map.
Qed.
Lemma NoDup_map_filter {A B} (f : A -> B) (p : A -> bool) l : NoDup (map f l) -> NoDup (map f (filter p l)).
Proof.
  induction l as [|x r IH]; cbn; [auto|]. intros ND. inversion ND as [|? ? Hx Hr]; subst.
  destruct (p x); [|now apply IH]. cbn. constructor; [|now apply IH].
  intros Hin. apply Hx. apply in_map_iff in Hin as (y & E & Hy). apply filter_In in Hy as [Hy _].
  rewrite <- E. now apply in_map.
Qed.

Definition set_kids (nb : bytes) (K : list layer) (m0 : lmap) : lmap :=
  fold_left (fun m k => lm_set m (set_base k nb)) K m0.
Lemma set_kids_in nb x : forall K m0, NoDup (map l_name m0) -> In x (set_kids nb K m0) ->
  (exists k, In k K /\ x = set_base k nb) \/ (In x m0 /\ ~ In (l_name x) (map l_name K)).
Proof.
  induction K as [|k K IH]; intros m0 ND Hx; cbn [set_kids fold_left] in Hx.
  - right. split; [exact Hx|intros []].
  - fold (set_kids nb K (lm_set m0 (set_base k nb))) in Hx.
    destruct (IH _ (lm_set_names_nodup _ _ ND) Hx) as [(k2 & H1 & H2)|[H1 H2]].
    + left. exists k2. split; [now right|exact H2].
    + apply (lm_set_in_nodup _ _ _ ND) in H1 as [->|[H1 H3]].
      * left. exists k. split; [now left|reflexivity].
      * right. split; [exact H1|]. cbn [map]. intros [E|Hin]; [|contradiction].
        apply H3. cbn. now rewrite E.
Qed.
Lemma g_of_set_kids nb x : forall K m0,
  g_of (set_kids nb K m0) x = if memb x (map l_name K) then Some nb else g_of m0 x.
Proof.
  induction K as [|k K IH]; intros m0; cbn [set_kids fold_left map]; [reflexivity|].
  fold (set_kids nb K (lm_set m0 (set_base k nb))). rewrite IH, g_of_set.
  unfold memb. cbn [existsb l_name set_base l_base]. rewrite (beq_sym x (l_name k)).
  destruct (existsb (beq x) (map l_name K)); [now rewrite orb_true_r|].
  rewrite orb_false_r. reflexivity.
Qed.

Lemma kids_sound e m old k : In k (children_in_order e m old) -> In k m /\ l_base k = old.
Proof.
  unfold children_in_order. intros H. apply in_app_or in H as [H|H].
  - apply in_flat_map in H as (n & _ & H). destruct (lm_get _ n) as [l|] eqn:E; [|destruct H].
    destruct H as [<-|[]]. apply lm_get_in in E. apply filter_In in E as [E1 E2]. split; [exact E1|now apply beq_true].
  - apply filter_In in H as [H _]. apply filter_In in H as [E1 E2]. split; [exact E1|now apply beq_true].
Qed.
Lemma kids_complete e m old k : In k m -> l_base k = old -> In (l_name k) (map l_name (children_in_order e m old)).
Proof.
  intros Hk Hb. unfold children_in_order. set (kids := filter (fun l => beq (l_base l) old) m).
  assert (Hkk : In k kids) by (apply filter_In; split; [exact Hk|now apply beq_true]).
  rewrite map_app. apply in_or_app. destruct (memb (l_name k) (e_order e)) eqn:E.
  - left. apply memb_In in E. destruct (lm_get_of_in _ _ Hkk) as (k' & Ek').
    rewrite <- (lm_get_name _ _ _ Ek'). apply in_map. apply in_flat_map. exists (l_name k).
    split; [exact E|]. rewrite Ek'. now left.
  - right. apply in_map. apply filter_In. split; [exact Hkk|]. now rewrite E.
Qed.

Lemma lm_get_app a b x : lm_get (a ++ b) x = match lm_get a x with Some y => Some y | None => lm_get b x end.
Proof. induction a as [|y r IH]; cbn; [reflexivity|]. destruct (beq (l_name y) x); [reflexivity|exact IH]. Qed.

Definition renamed_map e (m : lmap) (l : layer) (old new p : bytes) : lmap :=
  set_kids new (children_in_order e m old) (lm_del m old) ++ [set_name_path l new p].

Lemma g_of_renamed e m l old new p : allreach m -> NoDup (map l_name m) ->
  lm_get m old = Some l -> old <> [] -> old <> new -> lm_get m new = None ->
  forall x, g_of (renamed_map e m l old new p) x = g_ren (g_of m) old new x.
Proof.
  intros HA ND El Ho Hon Hf x.
  assert (Hloop : g_of m old <> Some old).
  { intros E. destruct (allreach_gforest _ HA _ _ E) as (k & Hk).
    assert (greach (g_of m) old (S k)) by (econstructor; eauto).
    pose proof (greach_det _ _ _ Hk _ H). lia. }
  assert (Hkid : forall y, memb y (map l_name (children_in_order e m old)) = true <-> g_of m y = Some old).
  { intros y. rewrite memb_In. split.
    - intros H. apply in_map_iff in H as (k & <- & Hk). apply kids_sound in Hk as [H1 H2].
      apply g_of_some. exists k. split; [now apply nodup_get|exact H2].
    - intros H. apply g_of_some in H as (k & Ek & Eb). rewrite <- (lm_get_name _ _ _ Ek).
      apply kids_complete; [eapply lm_get_in; eauto|exact Eb]. }
  unfold renamed_map, g_of at 1. rewrite lm_get_app.
  pose proof (g_of_set_kids new x (children_in_order e m old) (lm_del m old)) as G.
  unfold g_of at 1 in G. unfold g_ren.
  destruct (beq x new) eqn:E1.
  - apply beq_true in E1. subst x.
    destruct (memb new (map l_name (children_in_order e m old))) eqn:EK.
    { apply Hkid in EK. apply g_of_some in EK as (k & Ek & _). congruence. }
    rewrite g_of_del in G. assert (beq old new = false) as E2 by now apply beq_false. rewrite E2 in G.
    assert (g_of m new = None) as E3 by now apply g_of_none. rewrite E3 in G.
    destruct (lm_get (set_kids new _ _) new); [discriminate|].
    cbn [lm_get set_name_path l_name l_base option_map]. rewrite beq_refl. cbn.
    symmetry. apply g_of_some. eauto.
  - destruct (memb x (map l_name (children_in_order e m old))) eqn:EK.
    + pose proof (proj1 (Hkid x) EK) as Eg. destruct (lm_get (set_kids new _ _) x) as [y|]; [|discriminate].
      cbn in G |- *. rewrite G.
      destruct (beq x old) eqn:E2; [apply beq_true in E2; subst x; contradiction|].
      rewrite Eg. unfold ren. now rewrite beq_refl.
    + rewrite g_of_del in G. rewrite (beq_sym old x) in G. destruct (beq x old) eqn:E2.
      * destruct (lm_get (set_kids new _ _) x); [discriminate|].
        cbn [lm_get set_name_path l_name]. rewrite (beq_sym new x), E1. reflexivity.
      * destruct (lm_get (set_kids new _ _) x) as [y|].
        -- cbn in G |- *. rewrite G. destruct (g_of m x) as [b|] eqn:Eg; [|discriminate].
           injection G as <-. unfold ren. destruct (beq (l_base y) old) eqn:E3; [|reflexivity].
           apply beq_true in E3. exfalso. rewrite E3 in Eg. apply Hkid in Eg. congruence.
        -- cbn [lm_get set_name_path l_name]. rewrite (beq_sym new x), E1. cbn in G |- *. now rewrite <- G.
Qed.

Lemma allreach_renamed e m l old new p : allreach m -> NoDup (map l_name m) ->
  lm_get m old = Some l -> old <> [] -> new <> [] -> lm_get m new = None ->
  allreach (renamed_map e m l old new p).
Proof.
  intros HA ND El Ho Hn Hf.
  assert (Hon : old <> new) by (intros <-; congruence).
  pose proof (g_of_renamed e m l old new p HA ND El Ho Hon Hf) as G.
  assert (Hloop : g_of m old <> Some old).
  { intros E. destruct (allreach_gforest _ HA _ _ E) as (k & Hk).
    assert (greach (g_of m) old (S k)) by (econstructor; eauto).
    pose proof (greach_det _ _ _ Hk _ H). lia. }
  assert (Hgo : g_of m old = Some (l_base l)) by (apply g_of_some; eauto).
  assert (Hgn : g_of m new = None) by now apply g_of_none.
  assert (Hres : forall b, b <> [] -> g_of m b <> None -> b <> old -> g_ren (g_of m) old new b <> None).
  { intros b Hb Hg Hbo. unfold g_ren. destruct (beq b new) eqn:E1; [apply beq_true in E1; congruence|].
    destruct (beq b old) eqn:E2; [apply beq_true in E2; congruence|]. destruct (g_of m b); [discriminate|congruence]. }
  apply gforest_allreach.
  - apply (gforest_ext (g_ren (g_of m) old new)); [intros x; now rewrite G|].
    apply gforest_ren; auto. now apply allreach_gforest.
  - intros x Hx Hbx. rewrite G. unfold renamed_map in Hx. apply in_app_or in Hx as [Hx|[<-|[]]].
    + apply set_kids_in in Hx; [|apply NoDup_map_filter; exact ND].
      destruct Hx as [(k & Hk & ->)|[Hx Hnk]].
      * cbn [set_base l_base]. unfold g_ren. rewrite beq_refl. congruence.
      * apply lm_del_in in Hx as [Hx Hxo]. apply Hres; [exact Hbx|now apply (allreach_bres m HA)|].
        intros E. apply Hnk. now apply kids_complete.
    + cbn [set_name_path l_base] in *. apply Hres; [exact Hbx| |].
      * apply (allreach_bres m HA); [eapply lm_get_in; eauto|exact Hbx].
      * intros E. apply Hloop. now rewrite Hgo, E.
Qed.
