(* The file-tree model: what each operation does to lookups and to the part of the tree
   below the layers directory that lies outside a set of "dirty" layer directories. *)
From LC Require Import Lib.Bytes Lib.Lex Lib.Fields Lib.PathM Model.Config Gen.Consts Model.MountInfo Model.FsTree
  Proofs.PathP Proofs.PathCP.
Local Open Scope nat_scope.

Definition fs_clean (f : fsT) : Prop := forall p n, In (p, n) f -> is_clean_abs p = true.

(* ------------------------------------------------------------------ lookups *)
Lemma fs_get_In f p n : fs_get f p = Some n -> In (p, n) f.
Proof.
  induction f as [|[q m] r IH]; cbn; [discriminate|]. destruct (beq q p) eqn:E.
  - intros H. injection H as <-. apply beq_true in E. subst. now left.
  - intros H. right. now apply IH.
Qed.
Lemma fs_get_None f p : fs_get f p = None <-> forall n, ~ In (p, n) f.
Proof.
  induction f as [|[q m] r IH]; cbn.
  - split; [intros _ n []|reflexivity].
  - destruct (beq q p) eqn:E.
    + apply beq_true in E. subst. split; [discriminate|]. intros H. exfalso. apply (H m). now left.
    + apply beq_false in E. rewrite IH. split.
      * intros H n [H1|H1]; [congruence|]. now apply (H n).
      * intros H n H1. apply (H n). now right.
Qed.
Lemma fs_get_app f g p : fs_get (f ++ g) p = match fs_get f p with Some n => Some n | None => fs_get g p end.
Proof. induction f as [|[q m] r IH]; cbn; [reflexivity|]. destruct (beq q p); [reflexivity|exact IH]. Qed.
Lemma fs_get_set f p n q : fs_get (fs_set f p n) q = if beq p q then Some n else fs_get f q.
Proof.
  induction f as [|[a m] r IH]; cbn [fs_set fs_get].
  - reflexivity.
  - destruct (beq a p) eqn:E; cbn [fs_get].
    + apply beq_true in E. subst a. destruct (beq p q); reflexivity.
    + destruct (beq a q) eqn:E2.
      * apply beq_true in E2. subst a. now rewrite beq_sym, E.
      * exact IH.
Qed.
Lemma fs_set_In f p n q m : In (q, m) (fs_set f p n) -> (q = p /\ m = n) \/ In (q, m) f.
Proof.
  induction f as [|[a x] r IH]; cbn [fs_set].
  - intros [H|[]]. injection H as <- <-. now left.
  - destruct (beq a p) eqn:E.
    + apply beq_true in E. subst a. intros [H|H]; [injection H as <- <-; now left|right; now right].
    + intros [H|H]; [right; now left|]. destruct (IH H); [now left|right; now right].
Qed.
Lemma fs_set_In_other f p n q m : q <> p -> In (q, m) f -> In (q, m) (fs_set f p n).
Proof.
  intros Hq. induction f as [|[a x] r IH]; cbn [fs_set]; [intros []|].
  destruct (beq a p) eqn:E.
  - apply beq_true in E. subst a. intros [H|H]; [injection H as <- <-; congruence|now right].
  - intros [H|H]; [now left|right; now apply IH].
Qed.
Lemma fs_get_filter P f p : (forall n, P (p, n) = true) -> fs_get (filter P f) p = fs_get f p.
Proof.
  intros H. induction f as [|[q m] r IH]; cbn [filter fs_get]; [reflexivity|].
  destruct (beq q p) eqn:E.
  - apply beq_true in E. subst q. rewrite H. cbn [fs_get]. now rewrite beq_refl.
  - destruct (P (q, m)); [cbn [fs_get]; now rewrite E|exact IH].
Qed.
Lemma fs_get_filter_none P f p : (forall n, P (p, n) = false) -> fs_get (filter P f) p = None.
Proof.
  intros H. apply fs_get_None. intros n Hin. apply filter_In in Hin as [_ Hin]. now rewrite H in Hin.
Qed.
Lemma filter_fs_set P f p n : (forall m, P (p, m) = false) -> filter P (fs_set f p n) = filter P f.
Proof.
  intros H. induction f as [|[q m] r IH]; cbn [fs_set filter].
  - now rewrite H.
  - destruct (beq q p) eqn:E.
    + apply beq_true in E. subst q. cbn [filter]. now rewrite !H.
    + cbn [filter]. now rewrite IH.
Qed.
Lemma filter_all_false {A} (P : A -> bool) l : (forall x, In x l -> P x = false) -> filter P l = [].
Proof.
  induction l as [|x r IH]; cbn; [reflexivity|]. intros H. rewrite (H x) by now left. apply IH. intros y Hy. apply H. now right.
Qed.
Lemma filter_filter_sub {A} (P Q : A -> bool) l :
  (forall x, In x l -> P x = true -> Q x = true) -> filter P (filter Q l) = filter P l.
Proof.
  induction l as [|x r IH]; cbn; [reflexivity|]. intros H.
  assert (IH' : filter P (filter Q r) = filter P r) by (apply IH; intros y Hy; apply H; now right).
  destruct (Q x) eqn:EQ; cbn [filter].
  - now rewrite IH'.
  - destruct (P x) eqn:EP; [|exact IH']. rewrite (H x) in EQ; [discriminate|now left|exact EP].
Qed.
Lemma filter_id {A} (P : A -> bool) l : (forall x, In x l -> P x = true) -> filter P l = l.
Proof.
  induction l as [|x r IH]; cbn; [reflexivity|]. intros H. rewrite (H x) by now left. f_equal. apply IH.
  intros y Hy. apply H. now right.
Qed.
Lemma filter_map_filter {A} (P Q : A -> bool) (g : A -> A) l :
  (forall x, In x l -> P x = true -> Q x = true /\ g x = x) ->
  (forall x, In x l -> P x = false -> Q x = true -> P (g x) = false) ->
  filter P (map g (filter Q l)) = filter P l.
Proof.
  induction l as [|x r IH]; cbn [filter map]; [reflexivity|]. intros H1 H2.
  assert (IH' : filter P (map g (filter Q r)) = filter P r).
  { apply IH; intros y Hy; [apply H1|apply H2]; now right. }
  destruct (P x) eqn:EP.
  - destruct (H1 x (or_introl eq_refl) EP) as [EQ Eg]. rewrite EQ. cbn [map filter]. rewrite Eg, EP. now rewrite IH'.
  - destruct (Q x) eqn:EQ; [|exact IH']. cbn [map filter].
    rewrite (H2 x (or_introl eq_refl) EP EQ). exact IH'.
Qed.

(* ------------------------------------------------------------------ shapes of the operations *)
Definition dirs (qs : list bytes) : fsT := map (fun q => (q, Dir)) qs.

Lemma mkdir_prefixes_shape : forall ps f f', mkdir_prefixes f ps = FOk f' ->
  exists new, f' = f ++ dirs new /\ forall q, In q new -> In q ps /\ fs_get f q = None.
Proof.
  induction ps as [|q ps IH]; intros f f' H; cbn [mkdir_prefixes] in H.
  - injection H as <-. exists []. split; [now rewrite app_nil_r|intros ? []].
  - destruct (stat f q) as [[| |]|] eqn:Es; try discriminate.
    + destruct (IH _ _ H) as (new & E & Hn). exists new. split; [exact E|].
      intros q' Hq'. destruct (Hn q' Hq'). split; [now right|assumption].
    + unfold lstat in H. destruct (fs_get f q) eqn:El; [discriminate|].
      destruct (IH _ _ H) as (new & E & Hn). exists (q :: new). split.
      * rewrite E. cbn [dirs map]. now rewrite <- app_assoc.
      * intros q' [<-|Hq']; [split; [now left|exact El]|].
        destruct (Hn q' Hq') as [H1 H2]. split; [now right|].
        rewrite fs_get_app in H2. destruct (fs_get f q'); [discriminate|reflexivity].
Qed.
Lemma mkdir_all_shape f p f' : mkdir_all f p = FOk f' ->
  exists new, f' = f ++ dirs new /\ forall q, In q new -> In q (prefixes p) /\ fs_get f q = None.
Proof.
  unfold mkdir_all. destruct (is_dir f p).
  - intros H. injection H as <-. exists []. split; [now rewrite app_nil_r|intros ? []].
  - destruct (names_fit p); [apply mkdir_prefixes_shape|discriminate].
Qed.

Lemma open_trunc_shape f p f' : open_trunc f p = FOk f' ->
  (fs_get f p = None /\ f' = f ++ [(p, File [])]) \/
  (exists o, fs_get f p = Some (File o) /\ f' = fs_set f p (File [])).
Proof.
  unfold open_trunc, lstat. destruct (fs_get f p) as [[|o|t]|] eqn:E; try discriminate.
  - intros H. injection H as <-. right. eauto.
  - destruct (is_dir f (pathdir p) && names_fit p); [|discriminate]. intros H. injection H as <-. now left.
Qed.
Lemma write_text_shape f p x f' : write_text f p x = FOk f' ->
  (fs_get f p = None /\ f' = f ++ [(p, File x)]) \/
  (exists o, fs_get f p = Some (File o) /\ f' = fs_set f p (File (x ++ skipn (length x) o))).
Proof.
  unfold write_text, lstat. destruct (fs_get f p) as [[|o|t]|] eqn:E; try discriminate.
  - intros H. injection H as <-. right. eauto.
  - destruct (is_dir f (pathdir p) && names_fit p); [|discriminate]. intros H. injection H as <-. now left.
Qed.
Lemma remove_all_shape f p f' : remove_all f p = FOk f' ->
  f' = filter (fun e => negb (at_or_under p (fst e))) f.
Proof. unfold remove_all. destruct (beq p root); [discriminate|]. intros H. now injection H as <-. Qed.

Definition not_at (b : bytes) (e : bytes * node) : bool := negb (beq (fst e) b).
Lemma rename_shape f a b f' : rename f a b = FOk f' ->
  (a = b /\ f' = f) \/
  (exists na, fs_get f a = Some na /\ at_or_under a b = false /\
     f' = map (move_entry a b) (filter (not_at b) f) /\
     match fs_get f b with
     | None => True
     | Some Dir => na = Dir /\ has_children f b = false
     | Some _ => na <> Dir
     end).
Proof.
  unfold rename, lstat. destruct (fs_get f a) as [na|] eqn:Ea; [|discriminate].
  destruct (negb (is_dir f (pathdir b)) || negb (names_fit b)); [discriminate|].
  destruct (at_or_under a b) eqn:Eu.
  { destruct (beq a b) eqn:E; [|discriminate]. intros H. injection H as <-. left. split; [now apply beq_true|reflexivity]. }
  intros H. right. exists na. split; [reflexivity|]. split; [reflexivity|].
  destruct (fs_get f b) as [[|o|t]|] eqn:Eb.
  - destruct na; try discriminate. destruct (has_children f b) eqn:Eh; [discriminate|].
    injection H as <-. split; [reflexivity|split; reflexivity].
  - destruct na; try discriminate; injection H as <-; (split; [reflexivity|discriminate]).
  - destruct na; try discriminate; injection H as <-; (split; [reflexivity|discriminate]).
  - injection H as <-. split; [|exact I]. f_equal. symmetry. apply filter_id.
    intros [q m] Hin. unfold not_at. cbn. apply negb_true_iff, beq_false. intros ->.
    apply (proj1 (fs_get_None f b) Eb m Hin).
Qed.

(* ------------------------------------------------------------------ the layers directory *)
Section Layers.
Variable Lc : list bytes.
Hypothesis HLc : plains Lc.

Definition lp (n : bytes) : bytes := pa (Lc ++ [n]).
Definition inS (S : list bytes) (p : bytes) : bool := existsb (fun n => at_or_under (lp n) p) S.
Definition Lpred (S : list bytes) (e : bytes * node) : bool := under (pa Lc) (fst e) && negb (inS S (fst e)).
Definition Lpart (S : list bytes) (f : fsT) : fsT := filter (Lpred S) f.

Lemma Lpred_path S p n m : Lpred S (p, n) = Lpred S (p, m).
Proof. reflexivity. Qed.

Lemma Lpart_app S f new : (forall e, In e new -> Lpred S e = false) -> Lpart S (f ++ new) = Lpart S f.
Proof. intros H. unfold Lpart. rewrite filter_app, (filter_all_false _ new H). apply app_nil_r. Qed.
Lemma Lpart_set S f p n : Lpred S (p, n) = false -> Lpart S (fs_set f p n) = Lpart S f.
Proof. intros H. apply filter_fs_set. intros m. now rewrite (Lpred_path S p m n). Qed.
Lemma Lpart_filter S Q f : (forall e, In e f -> Lpred S e = true -> Q e = true) -> Lpart S (filter Q f) = Lpart S f.
Proof. apply filter_filter_sub. Qed.

Lemma plains_prefix (i r qs : list bytes) : plains qs -> qs = i ++ r -> plains i /\ plains r.
Proof. intros H ->. now apply plains_app. Qed.

(* a path below the dirty directory of n *)
Lemma inS_intro S n r : In n S -> plain n -> plains r -> inS S (pa (Lc ++ n :: r)) = true.
Proof.
  intros Hn Pn Pr. unfold inS. apply existsb_exists. exists n. split; [exact Hn|].
  unfold lp. apply at_or_under_pa.
  - apply plains_app. split; [exact HLc|constructor; [exact Pn|constructor]].
  - apply plains_app. split; [exact HLc|constructor; assumption].
  - exists r. now rewrite <- app_assoc.
Qed.
Lemma Lpred_dirty S n r x : In n S -> plain n -> plains r -> Lpred S (pa (Lc ++ n :: r), x) = false.
Proof. intros. unfold Lpred. cbn [fst]. rewrite inS_intro by assumption. apply andb_false_r. Qed.
Lemma under_L_not qs : plains qs -> (forall r, r <> [] -> qs <> Lc ++ r) -> under (pa Lc) (pa qs) = false.
Proof.
  intros Hq H. destruct (under (pa Lc) (pa qs)) eqn:E; [|reflexivity].
  apply under_pa in E as (r & Hr & ->); auto. exfalso. now apply (H r).
Qed.

(* prefixes of a path below a layer directory are either above the layers directory or dirty *)
Lemma prefix_cases (i t r : list bytes) n : i ++ t = Lc ++ n :: r ->
  (exists u, Lc = i ++ u) \/ (exists r', i = Lc ++ n :: r').
Proof.
  intros E. destruct (list_prefix_comparable _ _ _ _ E) as [(u & ->)|(u & ->)]; [left; eauto|].
  destruct u as [|x u']; [left; exists []; now rewrite !app_nil_r|].
  rewrite <- app_assoc in E. apply app_inv_head in E. cbn in E. injection E as -> _. right. eauto.
Qed.
Lemma mkdir_new_Lpred S n r q : In n S -> plain n -> plains r -> In q (prefixes (pa (Lc ++ n :: r))) ->
  Lpred S (q, Dir) = false /\ is_clean_abs q = true.
Proof.
  intros Hn Pn Pr Hq.
  assert (Pall : plains (Lc ++ n :: r)) by (apply plains_app; split; [exact HLc|constructor; assumption]).
  apply prefixes_pa_in in Hq as (i & t & Hi & E & ->); [|exact Pall].
  destruct (plains_prefix i t _ Pall E) as [Pi Pt]. split; [|apply clean_abs_repr; eauto].
  destruct (prefix_cases i t r n (eq_sym E)) as [(u & Eu)|(r' & ->)].
  - unfold Lpred. cbn [fst]. rewrite under_L_not; [reflexivity|exact Pi|].
    intros r0 Hr0 E0. rewrite E0, <- app_assoc in Eu. rewrite <- (app_nil_r Lc) in Eu at 1.
    apply app_inv_head in Eu. destruct r0; [congruence|discriminate].
  - apply Lpred_dirty; auto. apply plains_app in Pi as [_ Pi]. now inversion Pi.
Qed.

Lemma mkdir_Lpart S f n r f' : In n S -> plain n -> plains r -> fs_clean f ->
  mkdir_all f (pa (Lc ++ n :: r)) = FOk f' ->
  Lpart S f' = Lpart S f /\ fs_clean f' /\
  (forall q, fs_get f' q = fs_get f q \/ (fs_get f q = None /\ fs_get f' q = Some Dir)) /\
  (forall q m, In (q, m) f -> In (q, m) f') /\
  (forall q m, In (q, m) f' -> In (q, m) f \/ m = Dir).
Proof.
  intros Hn Pn Pr Hc H. apply mkdir_all_shape in H as (new & -> & Hnew).
  assert (Hd : forall e, In e (dirs new) -> Lpred S e = false /\ is_clean_abs (fst e) = true).
  { intros e He. unfold dirs in He. apply in_map_iff in He as (q & <- & Hq). cbn [fst].
    apply (mkdir_new_Lpred S n r q); auto. now apply Hnew. }
  split; [apply Lpart_app; intros e He; now apply Hd|]. split.
  - intros p m Hin. apply in_app_or in Hin as [Hin|Hin]; [eapply Hc; eauto|]. now apply (Hd (p, m)).
  - split; [|split].
    + intros q. rewrite fs_get_app. destruct (fs_get f q) eqn:E; [now left|].
      destruct (fs_get (dirs new) q) eqn:E2; [|now left]. right. split; [reflexivity|].
      apply fs_get_In in E2. unfold dirs in E2. apply in_map_iff in E2 as (q' & E3 & _). now injection E3 as _ <-.
    + intros q m Hin. apply in_or_app. now left.
    + intros q m Hin. apply in_app_or in Hin as [Hin|Hin]; [now left|right].
      unfold dirs in Hin. apply in_map_iff in Hin as (q' & E3 & _). now injection E3 as _ <-.
Qed.

(* children of the layers directory *)
Lemma memb_children f d x : memb x (children f d) =
  existsb (fun e => under d (fst e) && beq (pathdir (fst e)) d && beq (pathbase (fst e)) x) f.
Proof.
  unfold children, memb. induction f as [|[p n] r IH]; cbn [filter map existsb fst]; [reflexivity|].
  destruct (under d p && beq (pathdir p) d) eqn:E; cbn [map existsb andb].
  - rewrite IH. now rewrite (beq_sym x).
  - exact IH.
Qed.
Lemma child_entry p : is_clean_abs p = true -> under (pa Lc) p = true -> pathdir p = pa Lc ->
  exists x, plain x /\ p = lp x /\ pathbase p = x.
Proof.
  intros Hc Hu Hd. apply clean_abs_repr in Hc as (qs & Pq & ->).
  apply under_pa in Hu as (r & Hr & ->); auto.
  destruct (plains_snoc_inv _ (proj2 (proj1 (plains_app _ _) Pq)) Hr) as (ds & x & -> & Pd & Px).
  rewrite app_assoc in Hd |- *. rewrite pathdir_pa in Hd; [|apply plains_app; split; assumption|exact Px].
  apply pa_inj in Hd; [|apply plains_app; split; assumption|exact HLc].
  rewrite <- (app_nil_r Lc) in Hd at 2. apply app_inv_head in Hd. subst ds. rewrite app_nil_r.
  exists x. split; [exact Px|]. split; [reflexivity|]. now apply pathbase_pa.
Qed.
Lemma lp_inS S x : plain x -> (forall n, In n S -> plain n) -> ~ In x S -> forall r, plains r ->
  inS S (pa (Lc ++ x :: r)) = false.
Proof.
  intros Px PS Hx r Pr. unfold inS. destruct (existsb _ S) eqn:E; [|reflexivity]. exfalso.
  apply existsb_exists in E as (n & Hn & Hau). unfold lp in Hau.
  apply at_or_under_pa in Hau as (t & E).
  - rewrite <- app_assoc in E. apply app_inv_head in E. cbn in E. injection E as ->. contradiction.
  - apply plains_app. split; [exact HLc|constructor; [now apply PS|constructor]].
  - apply plains_app. split; [exact HLc|constructor; assumption].
Qed.
Lemma Lpred_clean_path S x r m : plain x -> (forall n, In n S -> plain n) -> ~ In x S -> plains r ->
  Lpred S (pa (Lc ++ x :: r), m) = true.
Proof.
  intros Px PS Hx Pr. unfold Lpred. cbn [fst]. rewrite lp_inS by assumption.
  cbn [negb]. rewrite andb_true_r. apply under_pa; [exact HLc|apply plains_app; split; [exact HLc|constructor; assumption]|].
  exists (x :: r). split; [discriminate|reflexivity].
Qed.

Lemma existsb_filter_sub {A} (Q R : A -> bool) l : (forall x, In x l -> Q x = true -> R x = true) ->
  existsb Q (filter R l) = existsb Q l.
Proof.
  induction l as [|x r IH]; cbn; [reflexivity|]. intros H.
  assert (IH' : existsb Q (filter R r) = existsb Q r) by (apply IH; intros y Hy; apply H; now right).
  destruct (R x) eqn:ER; cbn [existsb]; [now rewrite IH'|].
  destruct (Q x) eqn:EQ; [rewrite (H x) in ER; [discriminate|now left|exact EQ]|exact IH'].
Qed.

Lemma children_Lpart S f x : fs_clean f -> plain x -> (forall n, In n S -> plain n) -> ~ In x S ->
  memb x (children f (pa Lc)) = memb x (children (Lpart S f) (pa Lc)).
Proof.
  intros Hc Px PS Hx. rewrite !memb_children. symmetry. apply existsb_filter_sub.
  intros [p m] Hin H. cbn [fst] in H. apply andb_true_iff in H as [H H3]. apply andb_true_iff in H as [H1 H2].
  apply beq_true in H2, H3.
  destruct (child_entry p (Hc _ _ Hin) H1 H2) as (y & Py & -> & Eb). rewrite Eb in H3. subst y.
  unfold lp. apply (Lpred_clean_path S x [] m); auto. constructor.
Qed.
Lemma fs_get_Lpart S f x r : plain x -> (forall n, In n S -> plain n) -> ~ In x S -> plains r ->
  fs_get f (pa (Lc ++ x :: r)) = fs_get (Lpart S f) (pa (Lc ++ x :: r)).
Proof. intros Px PS Hx Pr. symmetry. apply fs_get_filter. intros m. now apply Lpred_clean_path. Qed.

Lemma children_local S f f' x : fs_clean f -> fs_clean f' -> Lpart S f = Lpart S f' ->
  plain x -> (forall n, In n S -> plain n) -> ~ In x S ->
  memb x (children f (pa Lc)) = memb x (children f' (pa Lc)).
Proof. intros H1 H2 E Px PS Hx. rewrite (children_Lpart S f x), (children_Lpart S f' x), E; auto. Qed.
Lemma fs_get_local S f f' x r : Lpart S f = Lpart S f' -> plain x -> (forall n, In n S -> plain n) ->
  ~ In x S -> plains r -> fs_get f (pa (Lc ++ x :: r)) = fs_get f' (pa (Lc ++ x :: r)).
Proof. intros E Px PS Hx Pr. rewrite (fs_get_Lpart S f x r), (fs_get_Lpart S f' x r), E; auto. Qed.

(* the entry of a layer directory makes its name a child *)
Lemma lp_child f x m : plain x -> In (lp x, m) f -> memb x (children f (pa Lc)) = true.
Proof.
  intros Px Hin. rewrite memb_children. apply existsb_exists. exists (lp x, m). split; [exact Hin|]. cbn [fst].
  unfold lp. rewrite pathdir_pa, pathbase_pa, !beq_refl by assumption. rewrite !andb_true_r.
  apply under_pa; [exact HLc|apply plains_app; split; [exact HLc|constructor; [exact Px|constructor]]|].
  exists [x]. split; [discriminate|reflexivity].
Qed.
Lemma child_lp f x : fs_clean f -> memb x (children f (pa Lc)) = true -> exists m, In (lp x, m) f /\ plain x.
Proof.
  intros Hc H. rewrite memb_children in H. apply existsb_exists in H as ([p m] & Hin & H). cbn [fst] in H.
  apply andb_true_iff in H as [H H3]. apply andb_true_iff in H as [H1 H2]. apply beq_true in H2, H3.
  destruct (child_entry p (Hc _ _ Hin) H1 H2) as (y & Py & -> & Eb). rewrite Eb in H3. subst y. eauto.
Qed.
End Layers.

(* ------------------------------------------------------------------ lookups after a rename *)
Lemma fs_get_move_out F a b q :
  (forall e, In e F -> at_or_under a (fst e) = true -> b ++ rel_suffix a (fst e) <> q) ->
  at_or_under a q = false -> fs_get (map (move_entry a b) F) q = fs_get F q.
Proof.
  induction F as [|[p m] r IH]; cbn [map fs_get]; intros H Hq; [reflexivity|].
  assert (IH' : fs_get (map (move_entry a b) r) q = fs_get r q).
  { apply IH; [intros e He; apply H; now right|exact Hq]. }
  unfold move_entry at 1. cbn [fst snd]. destruct (at_or_under a p) eqn:E; cbn [fs_get].
  - assert (beq (b ++ rel_suffix a p) q = false) as ->.
    { apply beq_false. apply (H (p, m)); [now left|exact E]. }
    assert (beq p q = false) as -> by (apply beq_false; intros ->; congruence).
    exact IH'.
  - destruct (beq p q); [reflexivity|exact IH'].
Qed.
Lemma fs_get_move_in F a b p : at_or_under a p = true ->
  (forall e, In e F -> at_or_under a (fst e) = true ->
     b ++ rel_suffix a (fst e) = b ++ rel_suffix a p -> fst e = p) ->
  (forall e, In e F -> at_or_under a (fst e) = false -> fst e <> b ++ rel_suffix a p) ->
  fs_get (map (move_entry a b) F) (b ++ rel_suffix a p) = fs_get F p.
Proof.
  intros Hp. induction F as [|[p' m] r IH]; cbn [map fs_get]; intros H1 H2; [reflexivity|].
  assert (IH' : fs_get (map (move_entry a b) r) (b ++ rel_suffix a p) = fs_get r p).
  { apply IH; [intros e He; apply H1; now right|intros e He; apply H2; now right]. }
  unfold move_entry at 1. cbn [fst snd]. destruct (at_or_under a p') eqn:E; cbn [fs_get].
  - destruct (beq (b ++ rel_suffix a p') (b ++ rel_suffix a p)) eqn:E2.
    + apply beq_true in E2. assert (p' = p) as -> by (apply (H1 (p', m)); [now left|exact E|exact E2]).
      now rewrite beq_refl.
    + assert (beq p' p = false) as ->; [|exact IH']. apply beq_false. intros ->. now rewrite beq_refl in E2.
  - assert (beq p' (b ++ rel_suffix a p) = false) as ->.
    { apply beq_false. apply (H2 (p', m)); [now left|exact E]. }
    assert (beq p' p = false) as -> by (apply beq_false; intros ->; congruence).
    exact IH'.
Qed.
Lemma fs_get_move_src F a b q : at_or_under a q = true ->
  (forall e, In e F -> at_or_under a (fst e) = true -> b ++ rel_suffix a (fst e) <> q) ->
  fs_get (map (move_entry a b) F) q = None.
Proof.
  intros Hq H. apply fs_get_None. intros n Hin. apply in_map_iff in Hin as ([p m] & E & Hin).
  unfold move_entry in E. cbn [fst snd] in E. destruct (at_or_under a p) eqn:Ea.
  - injection E as E _. apply (H (p, m) Hin Ea E).
  - injection E as -> _. congruence.
Qed.

Lemma move_target cs bs r : plains cs -> plains r -> bs <> [] ->
  pa bs ++ rel_suffix (pa cs) (pa (cs ++ r)) = pa (bs ++ r).
Proof.
  intros Hc Hr Hb. rewrite rel_suffix_pa by assumption. rewrite (pa_rel bs Hb).
  destruct r as [|x r']; [cbn [rel]; now rewrite !app_nil_r, pa_rel|].
  now rewrite pa_app_ne by discriminate.
Qed.

Section Rename.
Variables (cs bs : list bytes).
Hypothesis Hcs : plains cs.
Hypothesis Hbs : plains bs.
Hypothesis Hbne : bs <> [].

Lemma move_clean F : fs_clean F -> fs_clean (map (move_entry (pa cs) (pa bs)) F).
Proof.
  intros HF p n Hin. apply in_map_iff in Hin as ([q m] & E & Hin). unfold move_entry in E. cbn [fst snd] in E.
  pose proof (HF _ _ Hin) as Hq. destruct (at_or_under (pa cs) q) eqn:Ea.
  - injection E as <- _. apply clean_abs_repr in Hq as (qs & Pq & ->).
    apply at_or_under_pa in Ea as (r & ->); auto. apply plains_app in Pq as [_ Pr].
    rewrite move_target by assumption. apply clean_abs_repr. exists (bs ++ r). split; [|reflexivity].
    apply plains_app. now split.
  - injection E as <- _. exact Hq.
Qed.

(* the entry at the source shows up at the target *)
Lemma rename_get_target F r : fs_clean F -> plains r ->
  (forall e, In e F -> fst e <> pa (bs ++ r)) ->
  fs_get (map (move_entry (pa cs) (pa bs)) F) (pa (bs ++ r)) = fs_get F (pa (cs ++ r)).
Proof.
  intros HF Pr Hno. rewrite <- (move_target cs bs r) by assumption.
  apply fs_get_move_in.
  - apply at_or_under_pa; auto. { apply plains_app. now split. } now exists r.
  - intros [q m] Hin Ea E. cbn [fst] in *. pose proof (HF _ _ Hin) as Hq.
    apply clean_abs_repr in Hq as (qs & Pq & ->). apply at_or_under_pa in Ea as (r' & ->); auto.
    apply plains_app in Pq as [_ Pr']. rewrite !move_target in E by assumption.
    apply pa_inj in E; [|apply plains_app; now split|apply plains_app; now split].
    apply app_inv_head in E. now subst.
  - intros e Hin _. rewrite move_target by assumption. now apply Hno.
Qed.
(* nothing is left at or below the source (the target is not below the source) *)
Lemma rename_get_source F q : fs_clean F -> at_or_under (pa cs) q = true ->
  (forall r, plains r -> at_or_under (pa cs) (pa (bs ++ r)) = false) ->
  fs_get (map (move_entry (pa cs) (pa bs)) F) q = None.
Proof.
  intros HF Hq Hdis. apply fs_get_move_src; [exact Hq|].
  intros [p m] Hin Ea E. cbn [fst] in *. pose proof (HF _ _ Hin) as Hp.
  apply clean_abs_repr in Hp as (ps & Pp & ->). apply at_or_under_pa in Ea as (r & ->); auto.
  apply plains_app in Pp as [_ Pr]. rewrite move_target in E by assumption. subst q.
  rewrite Hdis in Hq by exact Pr. discriminate.
Qed.
(* elsewhere nothing changes *)
Lemma rename_get_other F q : fs_clean F -> at_or_under (pa cs) q = false -> at_or_under (pa bs) q = false ->
  fs_get (map (move_entry (pa cs) (pa bs)) F) q = fs_get F q.
Proof.
  intros HF Hq1 Hq2. apply fs_get_move_out; [|exact Hq1].
  intros [p m] Hin Ea E. cbn [fst] in *. pose proof (HF _ _ Hin) as Hp.
  apply clean_abs_repr in Hp as (ps & Pp & ->). apply at_or_under_pa in Ea as (r & ->); auto.
  apply plains_app in Pp as [_ Pr]. rewrite move_target in E by assumption. subst q.
  assert (at_or_under (pa bs) (pa (bs ++ r)) = true); [|congruence].
  apply at_or_under_pa; auto. { apply plains_app. now split. } now exists r.
Qed.
End Rename.

Definition closed (f : fsT) : Prop :=
  forall p n, In (p, n) f -> p <> root -> fs_get f (pathdir p) = Some Dir.
Lemma closed_none f ds : closed f -> plains ds -> fs_get f (pa ds) = None ->
  forall r, plains r -> fs_get f (pa (ds ++ r)) = None.
Proof.
  intros HC Pd Hn r. induction r as [|x r IH] using rev_ind; intros Pr; [now rewrite app_nil_r|].
  apply plains_app in Pr as [Pr Px]. inversion Px as [|? ? Px' _]; subst.
  destruct (fs_get f (pa (ds ++ r ++ [x]))) as [m|] eqn:E; [|reflexivity]. exfalso.
  apply fs_get_In in E.
  assert (Hnr : pa (ds ++ r ++ [x]) <> root).
  { intros E2. apply (pa_root_iff (ds ++ r ++ [x])) in E2.
    - destruct ds; [destruct r|]; discriminate.
    - apply plains_app. split; [exact Pd|]. apply plains_app. split; [exact Pr|exact Px]. }
  pose proof (HC _ _ E Hnr) as E3.
  rewrite app_assoc, pathdir_pa in E3; [|apply plains_app; now split|exact Px'].
  rewrite IH in E3 by exact Pr. discriminate.
Qed.
