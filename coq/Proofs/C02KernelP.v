(* The kernel table stays well-formed (wf_table) under the model's mount / umount, hence
   ProbeMounts never panics on it (C12 probe_render). *)
From LC Require Import Lib.Bytes Lib.Lex Lib.Fields Lib.PathM Gen.Consts
  Model.MountInfo Model.FsTree Model.Kernel Model.Layers Proofs.MountInfoP Proofs.C02MonadP.
Local Open Scope nat_scope.

Lemma nospace_iff s : nospace s = true <-> ~ In sp s.
Proof. apply nosepb_spec. Qed.
Lemma nospace_app a b : nospace a = true -> nospace b = true -> nospace (a ++ b) = true.
Proof.
  rewrite !nospace_iff. intros Ha Hb Hin. apply in_app_or in Hin as [H|H]; auto.
Qed.
Lemma nospace_cons c a : c <> sp -> nospace a = true -> nospace (c :: a) = true.
Proof. rewrite !nospace_iff. intros Hc Ha [H|H]; auto. Qed.

Lemma digit_nosp d : (d < 10)%N -> nb (48 + d) <> sp.
Proof.
  intros H E. apply (f_equal bn) in E. rewrite bn_nb in E by lia.
  change (bn sp) with 32%N in E. lia.
Qed.
Lemma dec_fuel_nospace f : forall n acc, nospace acc = true -> nospace (dec_fuel f n acc) = true.
Proof.
  induction f as [|f IH]; intros n acc H; cbn [dec_fuel]; [exact H|].
  assert (H' : nospace (nb (48 + n mod 10) :: acc) = true).
  { apply nospace_cons; [|exact H]. apply digit_nosp. apply N.mod_lt. lia. }
  destruct (n / 10 =? 0)%N; [exact H'|now apply IH].
Qed.
Lemma dec_nospace n : nospace (dec n) = true.
Proof. apply dec_fuel_nospace. reflexivity. Qed.

Lemma covering_in tab p k : covering tab p = Some k -> In k tab.
Proof.
  unfold covering.
  assert (G : forall t best, fold_left (fun best k0 =>
      if at_or_under (k_mp k0) p then
        match best with
        | Some b0 => if length (k_mp b0) <=? length (k_mp k0) then Some k0 else best
        | None => Some k0
        end
      else best) t best = Some k -> In k t \/ best = Some k).
  { induction t as [|a t IH]; intros best H; cbn [fold_left] in H; [now right|].
    apply IH in H as [H|H]; [left; now right|].
    destruct (at_or_under (k_mp a) p); [|now right].
    destruct best as [b0|].
    - destruct (length (k_mp b0) <=? length (k_mp a)); [injection H as <-; left; now left|now right].
    - injection H as <-. left; now left. }
  intros H. apply G in H as [H|H]; [exact H|discriminate].
Qed.

Lemma wf_kline_intro k :
  nospace (k_id k) = true -> nospace (k_parent k) = true -> nospace (k_dev k) = true ->
  nospace (k_opts k) = true ->
  forallb (fun f => nospace f && negb (beq f dash)) (k_optional k) = true ->
  nospace (k_fstype k) = true ->
  forallb (fun kv => plainopt (fst kv)) (k_sopts k) = true ->
  negb (beq (k_fstype k) overlay && match k_sopts k with [] => true | _ => false end) = true ->
  wf_kline k = true.
Proof. intros. unfold wf_kline. repeat (apply andb_true_iff; split); assumption. Qed.
Lemma wf_kline_elim k : wf_kline k = true ->
  nospace (k_id k) = true /\ nospace (k_parent k) = true /\ nospace (k_dev k) = true /\
  nospace (k_opts k) = true /\
  forallb (fun f => nospace f && negb (beq f dash)) (k_optional k) = true /\
  nospace (k_fstype k) = true /\
  forallb (fun kv => plainopt (fst kv)) (k_sopts k) = true /\
  negb (beq (k_fstype k) overlay && match k_sopts k with [] => true | _ => false end) = true.
Proof. unfold wf_kline. rewrite !andb_true_iff. tauto. Qed.

Lemma wf_table_in tab k : wf_table tab = true -> In k tab -> wf_kline k = true.
Proof. unfold wf_table. rewrite forallb_forall. auto. Qed.
Lemma wf_table_snoc tab k : wf_table tab = true -> wf_kline k = true -> wf_table (tab ++ [k]) = true.
Proof. unfold wf_table. intros H1 H2. rewrite forallb_app, H1. cbn. now rewrite H2. Qed.

Lemma parent_id_nospace tab p : wf_table tab = true -> nospace (parent_id tab p) = true.
Proof.
  intros W. unfold parent_id. destruct (covering tab p) as [k|] eqn:E; [|reflexivity].
  apply covering_in in E. pose proof (wf_kline_elim _ (wf_table_in _ _ W E)). tauto.
Qed.

Lemma bind_line_wf id tab c src tgt : wf_table tab = true -> In c tab -> wf_kline (bind_line id tab c src tgt) = true.
Proof.
  intros W Hc. destruct (wf_kline_elim _ (wf_table_in _ _ W Hc)) as (_ & _ & H3 & _ & _ & H6 & H7 & H8).
  apply wf_kline_intro; cbn [bind_line k_id k_parent k_dev k_opts k_optional k_fstype k_sopts]; auto.
  - apply dec_nospace.
  - now apply parent_id_nospace.
Qed.

Lemma rbind_copies_wf src tgt : forall subs id tab, wf_table tab = true ->
  (forall m, In m subs -> wf_kline m = true) ->
  wf_table (fst (rbind_copies id tab subs src tgt)) = true.
Proof.
  induction subs as [|m r IH]; intros id tab W Hs; cbn [rbind_copies]; [exact W|].
  apply IH; [|intros x Hx; apply Hs; now right].
  apply wf_table_snoc; [exact W|].
  destruct (wf_kline_elim _ (Hs m (or_introl eq_refl))) as (_ & _ & H3 & H4 & _ & H6 & H7 & H8).
  apply wf_kline_intro; cbn [k_id k_parent k_dev k_opts k_optional k_fstype k_sopts]; auto.
  - apply dec_nospace.
  - now apply parent_id_nospace.
Qed.

Lemma kmount_wf f ks s t ty fl d ks' :
  kmount f ks s t ty fl d = KOk ks' -> wf_table (ks_tab ks) = true -> nospace ty = true ->
  wf_table (ks_tab ks') = true.
Proof.
  unfold kmount. intros H W T.
  destruct (has_flag fl MS_REMOUNT).
  { destruct (top_at _ _); [injection H as <-; exact W|discriminate]. }
  destruct (has_flag fl MS_SLAVE).
  { destruct (top_at _ _); [injection H as <-; exact W|discriminate]. }
  destruct (negb (exists_ f t)); [discriminate|].
  destruct (has_flag fl MS_BIND).
  { destruct (negb (exists_ f s)); [discriminate|].
    destruct (covering (ks_tab ks) s) as [c|] eqn:Ec; [|discriminate].
    pose proof (covering_in _ _ _ Ec) as Hc.
    assert (W1 : wf_table (ks_tab ks ++ [bind_line (ks_nextid ks) (ks_tab ks) c s t]) = true).
    { apply wf_table_snoc; [exact W|now apply bind_line_wf]. }
    destruct (has_flag fl MS_REC).
    - destruct (rbind_copies _ _ _ s t) as [tab2 id2] eqn:Er. injection H as <-. cbn [ks_tab].
      change tab2 with (fst (tab2, id2)). rewrite <- Er. apply rbind_copies_wf; [exact W1|].
      intros m Hm. apply filter_In in Hm as [Hm _]. exact (wf_table_in _ _ W Hm).
    - injection H as <-. exact W1. }
  destruct (beq ty overlay) eqn:Eo.
  { destruct (_ && _ && _ && _); [|discriminate]. injection H as <-. cbn [ks_tab].
    apply wf_table_snoc; [exact W|].
    apply wf_kline_intro; cbn [k_id k_parent k_dev k_opts k_optional k_fstype k_sopts]; try reflexivity.
    - apply dec_nospace.
    - now apply parent_id_nospace.
    - change (nospace (bs "0:" ++ dec (ks_nextdev ks)) = true). apply nospace_app; [reflexivity|apply dec_nospace]. }
  destruct ty as [|a ty']; [discriminate|]. injection H as <-. cbn [ks_tab].
  apply wf_table_snoc; [exact W|].
  apply wf_kline_intro; cbn [k_id k_parent k_dev k_opts k_optional k_fstype k_sopts]; try reflexivity.
  - apply dec_nospace.
  - now apply parent_id_nospace.
  - change (nospace (bs "0:" ++ dec (ks_nextdev ks)) = true). apply nospace_app; [reflexivity|apply dec_nospace].
  - exact T.
  - rewrite Eo. reflexivity.
Qed.

Lemma forallb_filter {A} (p q : A -> bool) l : forallb p l = true -> forallb p (filter q l) = true.
Proof.
  rewrite !forallb_forall. intros H x Hx. apply filter_In in Hx as [Hx _]. auto.
Qed.
Lemma kumount_wf ks t fl ks' : kumount ks t fl = KOk ks' -> wf_table (ks_tab ks) = true -> wf_table (ks_tab ks') = true.
Proof.
  unfold kumount. intros H W. destruct (top_at _ _) as [k|]; [|discriminate].
  destruct (hidden_at _ _); [discriminate|].
  destruct (existsb _ _); [discriminate|]. injection H as <-. cbn [ks_tab]. unfold remove_id.
  now apply forallb_filter.
Qed.

Lemma probe_of_ok k : wf_table (ks_tab k) = true -> exists ms ds, probe_of k = POk ms ds.
Proof. intros W. unfold probe_of. rewrite probe_render by exact W. unfold view. eauto. Qed.

(* ------------------------------------------------------------------ as a state invariant *)
Definition KW : wpred := fun w => wf_table (ks_tab (w_ks w)) = true.
Definition op_ok (o : op) : bool := match o with OMount _ _ ty _ _ => nospace ty | _ => true end.

Lemma KW_set_fs w f : KW w -> KW (set_fs w f).
Proof. exact (fun H => H). Qed.
Lemma KW_on_fres w r w' : KW w -> on_fres w r = Some w' -> KW w'.
Proof. intros H E. destruct r; [|discriminate]. injection E as <-. exact H. Qed.

Lemma op_result_KW o w w' : op_ok o = true -> KW w -> op_result o w = Some w' -> KW w'.
Proof.
  intros Hok HK E. destruct o; cbn [op_result] in E;
    try (eapply KW_on_fres; eassumption); try (injection E as <-; exact HK).
  - destruct (kmount _ _ _ _ _ _ _) as [k'|] eqn:Ek; [|discriminate]. injection E as <-.
    unfold KW. cbn. eapply kmount_wf; eauto.
  - destruct (kumount _ _ _) as [k'|] eqn:Ek; [|discriminate]. injection E as <-.
    unfold KW. cbn. eapply kumount_wf; eauto.
Qed.

Lemma KW_do_op bad e o : op_ok o = true -> hoare KW bad ptrue (do_op e o) (fun _ => ptrue).
Proof. intros H. apply hoare_do_op. intros w w' HK _ E. eapply op_result_KW; eauto. Qed.
Lemma KW_write_text bad e p c : hoare KW bad ptrue (fs_write_text e p c) (fun _ => ptrue).
Proof. apply hoare_write_text. intros w w' HK _ E. eapply KW_on_fres; eauto. Qed.
Lemma KW_write_atomically bad e p chunks : hoare KW bad ptrue (write_file_atomically e p chunks) (fun _ => ptrue).
Proof.
  apply hoare_write_atomically.
  - intros w w' HK E. eapply op_result_KW; eauto. reflexivity.
  - intros c w HK. exact HK.
  - intros w HK. exact HK.
  - intros w w' HK E. eapply op_result_KW; eauto. reflexivity.
Qed.

(* ------------------------------------------------------------------ ProbeMounts cannot panic on a rendered table *)
(* Whatever the table contains (well-formed or not), every rendered line has at least three fields
   after its first "-" separator, so the parser's panic branches are out of reach. *)
Lemma split_nonempty sep s : split sep s <> [].
Proof. apply split_acc_nonempty. Qed.
Lemma split_acc_app_sep' sep a : forall cur b,
  split_acc sep cur (a ++ sep :: b) = split_acc sep cur a ++ split sep b.
Proof.
  induction a as [|ch a IH]; intros cur b; cbn.
  - now rewrite Ascii.eqb_refl.
  - destruct (Ascii.eqb ch sep); [cbn; f_equal; apply IH|apply IH].
Qed.
Lemma split_join_flat sep L : L <> [] -> split sep (join sep L) = flat_map (split sep) L.
Proof.
  induction L as [|x r IH]; [congruence|]. intros _. destruct r as [|y r'].
  - cbn [join flat_map]. now rewrite app_nil_r.
  - change (join sep (x :: y :: r')) with (x ++ sep :: join sep (y :: r')).
    unfold split at 1. rewrite split_acc_app_sep'. fold (split sep x). rewrite IH by discriminate. reflexivity.
Qed.
Lemma after_dash_suffix Q : forall P, exists R, after_dash (P ++ dash :: Q) = Some R /\ length Q <= length R.
Proof.
  induction P as [|x P IH]; cbn [app after_dash].
  - rewrite beq_refl. exists Q. split; [reflexivity|lia].
  - destruct (beq x dash).
    + exists (P ++ dash :: Q). split; [reflexivity|]. rewrite app_length. cbn. lia.
    + exact IH.
Qed.
Lemma flat_split_length sep L : length L <= length (flat_map (split sep) L).
Proof.
  induction L as [|x r IH]; cbn [flat_map length]; [lia|]. rewrite app_length.
  pose proof (split_nonempty sep x). destruct (split sep x); [congruence|cbn; lia].
Qed.
Lemma parse_render_nopanic k : parse_line (render_line k) <> LPanic.
Proof.
  unfold parse_line, render_line.
  set (FL := [k_id k; k_parent k; k_dev k; mangle esc_path (k_root k); mangle esc_path (k_mp k); k_opts k]
             ++ k_optional k ++ [dash; k_fstype k; mangle esc_path (k_source k); join comma (map render_sopt (k_sopts k))]).
  rewrite (split_join_flat sp FL) by discriminate.
  destruct (length (flat_map (split sp) FL) <? 10)%nat; [discriminate|].
  (* the six leading fields give at least six segments; what follows ends with "-" and three fields *)
  set (S6 := flat_map (split sp) [k_id k; k_parent k; k_dev k; mangle esc_path (k_root k); mangle esc_path (k_mp k); k_opts k]).
  set (So := flat_map (split sp) (k_optional k)).
  set (Q := flat_map (split sp) [k_fstype k; mangle esc_path (k_source k); join comma (map render_sopt (k_sopts k))]).
  assert (E : flat_map (split sp) FL = S6 ++ So ++ dash :: Q).
  { unfold FL. rewrite !flat_map_app. reflexivity. }
  rewrite E.
  assert (L6 : 6 <= length S6) by (apply (flat_split_length sp [_; _; _; _; _; _])).
  assert (LQ : 3 <= length Q) by (apply (flat_split_length sp [_; _; _])).
  destruct S6 as [|a [|b0 [|c0 [|d [|e0 [|f0 rest6]]]]]]; cbn [length] in L6; try lia.
  cbn [app]. rewrite app_assoc.
  destruct (after_dash_suffix Q (rest6 ++ So)) as (R & -> & LR).
  destruct R as [|x [|y tl]]; cbn [length] in LR; try lia.
  destruct (beq x overlay); [|discriminate].
  destruct tl; [cbn [length] in LR; lia|]. destruct (ovl_parse l) as [[lo up] wk]. discriminate.
Qed.
Lemma probe_lines_render_nopanic T : forall st, probe_lines st (render T) <> PPanic.
Proof.
  induction T as [|k T IH]; intros st; cbn [render map probe_lines]; [discriminate|].
  pose proof (parse_render_nopanic k). destruct (parse_line (render_line k)); [apply IH|congruence|apply IH].
Qed.
Theorem probe_of_total k : exists ms ds, probe_of k = POk ms ds.
Proof.
  unfold probe_of, probe. pose proof (probe_lines_render_nopanic (ks_tab k) (MkP [] [] [])) as H.
  destruct (probe_lines _ _); [congruence|eauto].
Qed.
