(* Facts about FindLayers / ProbeAllLayerstate of Model/Layers.v: what a loaded layer looks like,
   what probing keeps, and the specification of get_layers as a pure step. *)
From LC Require Import Lib.Bytes Lib.Lex Lib.Fields Lib.PathM Gen.Consts
  Model.MountInfo Model.FsTree Model.Kernel Model.Layers
  Cases.Verdict Cases.LC Proofs.MountInfoP Proofs.C02MonadP Proofs.C02ForestP Proofs.C02KernelP Proofs.RoundtripP.
Local Open Scope nat_scope.

(* ------------------------------------------------------------------ loaded definitions are canonical *)
Lemma nsp_nospace t : nsp t -> nospace t = true.
Proof.
  intros H. apply nospace_iff. intros Hin. pose proof (nsp_in _ _ H Hin). discriminate.
Qed.

Definition mounts_ok (l : layer) : Prop :=
  (l_base l = [] \/ tok_ok (l_base l)) /\ Forall canon_m (l_mounts l) /\ Forall canon_e (l_exports l).
Lemma mounts_ok_nospace l nm : mounts_ok l -> In nm (l_mounts l) -> nospace (nm_fstype nm) = true.
Proof.
  intros (_ & H & _) Hin. rewrite Forall_forall in H. destruct (H _ Hin) as ((_ & H1) & _). now apply nsp_nospace.
Qed.
Definition LW (m : lmap) : Prop := forall l, In l m -> mounts_ok l.

Lemma load_layer_props c f n l : load_layer c f n = Some l ->
  l_name l = n /\ mounts_ok l /\ l_path l = layer_path c n.
Proof.
  unfold load_layer. destruct (if is_file f _ then read_file f _ else None) as [content|]; [|discriminate].
  intros H. injection H as <-. split; [reflexivity|]. split; [|reflexivity]. exact (read_layerfile_canon content).
Qed.

(* ------------------------------------------------------------------ readLayerFiles *)
Definition rlf_of (c : cfgT) (f : fsT) (L : list bytes) : lmap :=
  fold_right (fun n acc => if legal_name n then
                             match load_layer c f n with Some l => l :: acc | None => acc end
                           else acc) [] L.
Lemma rlf_unfold c f : read_layer_files c f = rlf_of c f (Lex.sort (children f (c_layers c))).
Proof. reflexivity. Qed.

Lemma rlf_of_in c f L l : In l (rlf_of c f L) <->
  exists n, In n L /\ legal_name n = true /\ load_layer c f n = Some l.
Proof.
  induction L as [|x r IH]; cbn [rlf_of fold_right].
  - split; [intros []|intros (n & [] & _)].
  - fold (rlf_of c f r). destruct (legal_name x) eqn:E1; [destruct (load_layer c f x) as [lx|] eqn:E2|].
    + cbn [In]. rewrite IH. split.
      * intros [<-|(n & H1 & H2 & H3)]; [exists x; auto|exists n; auto].
      * intros (n & [<-|H1] & H2 & H3); [left; congruence|right; eauto 10].
    + rewrite IH. split.
      * intros (n & H1 & H2 & H3). exists n. split; [now right|auto].
      * intros (n & [<-|H1] & H2 & H3); [congruence|eauto 10].
    + rewrite IH. split.
      * intros (n & H1 & H2 & H3). exists n. split; [now right|auto].
      * intros (n & [<-|H1] & H2 & H3); [congruence|eauto 10].
Qed.
Lemma rlf_in c f l : In l (read_layer_files c f) <->
  exists n, In n (children f (c_layers c)) /\ legal_name n = true /\ load_layer c f n = Some l.
Proof.
  rewrite rlf_unfold, rlf_of_in. split; intros (n & H1 & H2); exists n; (split; [|exact H2]).
  - exact (proj1 (sort_in _ _) H1).
  - exact (proj2 (sort_in _ _) H1).
Qed.

Definition is_layer (c : cfgT) (f : fsT) (n : bytes) : bool :=
  legal_name n && match load_layer c f n with Some _ => true | None => false end.
Lemma rlf_of_names c f L : map l_name (rlf_of c f L) = filter (is_layer c f) L.
Proof.
  unfold is_layer. induction L as [|x r IH]; cbn [rlf_of fold_right filter]; [reflexivity|].
  fold (rlf_of c f r). destruct (legal_name x); cbn [andb]; [|exact IH].
  destruct (load_layer c f x) as [lx|] eqn:E; [|exact IH].
  cbn [map]. rewrite IH. f_equal. now apply load_layer_props in E.
Qed.

Lemma nodup_paths_NoDup l : LC.nodup_paths l = true -> NoDup l.
Proof.
  induction l as [|x r IH]; cbn; [constructor|]. intros H. apply andb_true_iff in H as [H1 H2].
  constructor; [|now apply IH]. apply negb_true_iff in H1. now apply memb_notIn.
Qed.
Lemma NoDup_filter' {A} (p : A -> bool) l : NoDup l -> NoDup (filter p l).
Proof.
  induction 1 as [|x r Hx Hr IH]; cbn; [constructor|]. destruct (p x); [|exact IH].
  constructor; [|exact IH]. intros H. apply filter_In in H as [H _]. contradiction.
Qed.
Lemma rlf_nodup c f : NoDup (children f (c_layers c)) -> NoDup (map l_name (read_layer_files c f)).
Proof.
  intros H. rewrite rlf_unfold, rlf_of_names. apply NoDup_filter'. now apply sort_nodup.
Qed.

Lemma memb_sort n L : memb n (Lex.sort L) = memb n L.
Proof.
  destruct (memb n L) eqn:E.
  - apply memb_In. apply sort_in. now apply memb_In.
  - apply memb_notIn. rewrite sort_in. now apply memb_notIn.
Qed.
Lemma rlf_of_get c f L n : lm_get (rlf_of c f L) n = if memb n L && legal_name n then load_layer c f n else None.
Proof.
  induction L as [|x r IH]; cbn [rlf_of fold_right]; [reflexivity|]. fold (rlf_of c f r).
  unfold memb in *. cbn [existsb]. destruct (beq n x) eqn:En.
  - apply beq_true in En. subst x. cbn [orb]. destruct (legal_name n) eqn:E1.
    + destruct (load_layer c f n) as [l|] eqn:E2.
      * cbn [lm_get]. apply load_layer_props in E2 as (E2 & _). rewrite E2, beq_refl. reflexivity.
      * rewrite IH. now destruct (existsb (beq n) r).
    + rewrite IH. now rewrite andb_false_r.
  - cbn [orb]. destruct (legal_name x) eqn:E1; [|exact IH].
    destruct (load_layer c f x) as [l|] eqn:E2; [|exact IH].
    cbn [lm_get]. apply load_layer_props in E2 as (E2 & _). rewrite E2, beq_sym, En. exact IH.
Qed.
Lemma rlf_get c f n : lm_get (read_layer_files c f) n =
  if memb n (children f (c_layers c)) && legal_name n then load_layer c f n else None.
Proof. rewrite rlf_unfold, rlf_of_get, memb_sort. reflexivity. Qed.

Lemma rlf_LW c f : LW (read_layer_files c f).
Proof. intros l Hl. apply rlf_in in Hl as (n & _ & _ & H). now apply load_layer_props in H. Qed.

(* ------------------------------------------------------------------ probing keeps the definition *)
Definition core (l : layer) := (l_name l, l_base l, l_mounts l, l_exports l, l_path l).

Lemma find_layerstate_core c f ld l : core (find_layerstate c f ld l) = core l.
Proof.
  unfold find_layerstate. cbv zeta.
  repeat match goal with
  | |- context [match fold_left ?a ?b ?d with _ => _ end] => destruct (fold_left a b d)
  | |- context [match ?x with _ => _ end] =>
      lazymatch x with
      | context [match _ with _ => _ end] => fail
      | _ => destruct x
      end
  end; reflexivity.
Qed.

Lemma skel_set m l l0 : lm_get m (l_name l) = Some l0 -> l_base l0 = l_base l -> skel (lm_set m l) = skel m.
Proof.
  induction m as [|x r IH]; cbn [lm_get lm_set]; [discriminate|].
  destruct (beq (l_name x) (l_name l)) eqn:E; intros H Hb.
  - injection H as ->. apply beq_true in E. cbn [skel map]. now rewrite E, Hb.
  - cbn [skel map]. f_equal. now apply IH.
Qed.
Lemma LW_set m l : LW m -> mounts_ok l -> LW (lm_set m l).
Proof. intros H Hl x Hx. apply lm_set_in in Hx as [->|Hx]; auto. Qed.

Definition LDI (sk : list (bytes * bytes)) (ld : ldefs) : Prop := skel (ld_map ld) = sk /\ LW (ld_map ld).

Lemma LDI_set_layer sk ld l l0 : LDI sk ld -> lm_get (ld_map ld) (l_name l0) = Some l0 -> core l = core l0 ->
  LDI sk (set_layer ld l).
Proof.
  intros [H1 H2] Hg Hc. unfold core in Hc. injection Hc as C1 C2 C3 C4 C5.
  split; cbn [set_layer ld_map].
  - rewrite <- H1. eapply skel_set; [rewrite C1; exact Hg|congruence].
  - apply LW_set; [exact H2|]. unfold mounts_ok. rewrite C2, C3, C4. apply H2. eapply lm_get_in; eauto.
Qed.

Lemma probe_layer_LDI c f um sk ld n : LDI sk ld ->
  LDI sk (probe_layer c f um ld n) /\ ld_order (probe_layer c f um ld n) = ld_order ld.
Proof.
  intros H. unfold probe_layer. destruct (lm_get (ld_map ld) n) as [l|] eqn:El; [|now split].
  cbv zeta. split; [|reflexivity].
  pose proof (lm_get_name _ _ _ El) as En. subst n.
  apply (LDI_set_layer sk ld _ l H El).
  repeat match goal with |- context [if ?b then _ else _] => destruct b end;
    rewrite ?find_layerstate_core; reflexivity.
Qed.
Lemma fold_probe_LDI c f um sk names : forall ld, LDI sk ld ->
  LDI sk (fold_left (probe_layer c f um) names ld) /\
  ld_order (fold_left (probe_layer c f um) names ld) = ld_order ld.
Proof.
  induction names as [|n r IH]; intros ld H; cbn [fold_left]; [now split|].
  destruct (probe_layer_LDI c f um sk ld n H) as [H1 H2]. destruct (IH _ H1) as [H3 H4].
  split; [exact H3|congruence].
Qed.

Definition overlain_map (c : cfgT) (ms : list mount) (m : lmap) : lmap :=
  map (fun l => set_overlain l (memb (build_path c l)
         (map m_source (filter (fun m0 => beq (m_fstype m0) overlay) ms)))) m.
Lemma refresh_eq c ld s : refresh_mounts c ld s =
  match probe_of (w_ks (s_w s)) with
  | PPanic => (Panicked, s)
  | POk ms ds => (Ret (MkLD (overlain_map c ms (ld_map ld)) (ld_order ld) (POk ms ds)), s)
  end.
Proof. unfold refresh_mounts, bind, get_ks. cbv beta iota zeta. destruct (probe_of _); reflexivity. Qed.
Lemma overlain_skel c ms m : skel (overlain_map c ms m) = skel m.
Proof. unfold overlain_map, skel. rewrite map_map. apply map_ext. reflexivity. Qed.
Lemma overlain_LW c ms m : LW m -> LW (overlain_map c ms m).
Proof.
  intros H l Hl. unfold overlain_map in Hl. apply in_map_iff in Hl as (l0 & <- & Hl0). exact (H _ Hl0).
Qed.
Lemma refresh_LDI c sk ld ms ds : LDI sk ld -> LDI sk (MkLD (overlain_map c ms (ld_map ld)) (ld_order ld) (POk ms ds)).
Proof. intros [H1 H2]. split; cbn [ld_map]; [now rewrite overlain_skel|now apply overlain_LW]. Qed.

Lemma refresh_hs bad c sk ld : LDI sk ld ->
  hs KW bad (refresh_mounts c ld) (fun ld' => LDI sk ld' /\ ld_order ld' = ld_order ld).
Proof.
  intros H s HK _. rewrite refresh_eq. destruct (probe_of_ok _ HK) as (ms & ds & ->).
  split; [exact HK|]. split; [now apply refresh_LDI|reflexivity].
Qed.

(* get_layers is a pure step *)
Lemma get_layers_spec c um s :
  exists o, get_layers c um s = (o, s) /\
    match o with
    | Ret ld => LDI (skel (read_layer_files c (w_fs (s_w s)))) ld
                /\ check_inheritance (read_layer_files c (w_fs (s_w s))) = true
                /\ normalize_order (read_layer_files c (w_fs (s_w s))) = Some (ld_order ld)
    | Fail => True
    | Diverged => check_inheritance (read_layer_files c (w_fs (s_w s))) = true
                  /\ normalize_order (read_layer_files c (w_fs (s_w s))) = None
    | Panicked => False
    | Crashed => False
    end.
Proof.
  unfold get_layers, find_layers, bind, get_fs. cbv beta iota.
  destruct (negb (is_dir (w_fs (s_w s)) (c_layers c))); [exists Fail; now split|].
  destruct (check_inheritance (read_layer_files c (w_fs (s_w s)))) eqn:Ec; cbn [negb]; [|exists Fail; now split].
  destruct (normalize_order (read_layer_files c (w_fs (s_w s)))) as [o|] eqn:En.
  2:{ exists Diverged. now split. }
  unfold ret at 1. cbv beta iota. unfold probe_all, bind. rewrite refresh_eq.
  destruct (probe_of (w_ks (s_w s))) as [|ms ds] eqn:Ep.
  - exfalso. destruct (probe_of_total (w_ks (s_w s))) as (? & ? & E). congruence.
  - unfold get_fs, ret. cbv beta iota. eexists (Ret _). split; [reflexivity|].
    set (ld0 := MkLD (overlain_map c ms (read_layer_files c (w_fs (s_w s)))) o (POk ms ds)).
    assert (H0 : LDI (skel (read_layer_files c (w_fs (s_w s)))) ld0).
    { apply (refresh_LDI c _ (MkLD (read_layer_files c (w_fs (s_w s))) o (POk [] [])) ms ds).
      split; [reflexivity|apply rlf_LW]. }
    destruct (fold_probe_LDI c (w_fs (s_w s)) um _ (ld_order ld0) ld0 H0) as [H1 H2].
    split; [exact H1|]. split; [reflexivity|]. f_equal. symmetry. exact H2.
Qed.

(* ------------------------------------------------------------------ layer directories *)
Definition paths_ok (c : cfgT) (m : lmap) : Prop := forall l, In l m -> l_path l = layer_path c (l_name l).
Lemma paths_ok_set c m l l0 : paths_ok c m -> lm_get m (l_name l0) = Some l0 -> core l = core l0 ->
  paths_ok c (lm_set m l).
Proof.
  intros H Hg Hc x Hx. apply lm_set_in in Hx as [->|Hx]; [|now apply H].
  unfold core in Hc. injection Hc as C1 C2 C3 C4 C5. rewrite C5, C1. apply H. eapply lm_get_in; eauto.
Qed.
Lemma paths_ok_overlain c ms m : paths_ok c m -> paths_ok c (overlain_map c ms m).
Proof.
  intros H l Hl. unfold overlain_map in Hl. apply in_map_iff in Hl as (l0 & <- & Hl0). exact (H _ Hl0).
Qed.
Lemma probe_layer_paths c f um ld n : paths_ok c (ld_map ld) -> paths_ok c (ld_map (probe_layer c f um ld n)).
Proof.
  intros H. unfold probe_layer. destruct (lm_get (ld_map ld) n) as [l|] eqn:El; [|exact H].
  cbv zeta. cbn [ld_map].
  pose proof (lm_get_name _ _ _ El) as En. subst n.
  apply (paths_ok_set c _ _ l H El).
  repeat match goal with |- context [if ?b then _ else _] => destruct b end;
    rewrite ?find_layerstate_core; reflexivity.
Qed.
Lemma fold_probe_paths c f um names : forall ld, paths_ok c (ld_map ld) ->
  paths_ok c (ld_map (fold_left (probe_layer c f um) names ld)).
Proof.
  induction names as [|n r IH]; intros ld H; cbn [fold_left]; [exact H|]. apply IH. now apply probe_layer_paths.
Qed.
Lemma rlf_paths c f : paths_ok c (read_layer_files c f).
Proof.
  intros l Hl. apply rlf_in in Hl as (n & _ & _ & H). apply load_layer_props in H as (<- & _ & H). exact H.
Qed.
Lemma get_layers_paths c um s ld s' : get_layers c um s = (Ret ld, s') -> paths_ok c (ld_map ld).
Proof.
  unfold get_layers, find_layers, bind, get_fs. cbv beta iota.
  destruct (negb (is_dir (w_fs (s_w s)) (c_layers c))); [discriminate|].
  destruct (negb (check_inheritance (read_layer_files c (w_fs (s_w s))))); [discriminate|].
  destruct (normalize_order (read_layer_files c (w_fs (s_w s)))) as [o|]; [|discriminate].
  unfold ret at 1. cbv beta iota. unfold probe_all, bind. rewrite refresh_eq.
  destruct (probe_of (w_ks (s_w s))) as [|ms ds]; [discriminate|].
  unfold get_fs, ret. cbv beta iota. intros H. injection H as <- _.
  apply fold_probe_paths. cbn [ld_map]. apply paths_ok_overlain. apply rlf_paths.
Qed.

(* ------------------------------------------------------------------ probed layers keep the definition that was loaded *)
Definition cores_ok (c : cfgT) (f : fsT) (m : lmap) : Prop :=
  forall l, In l m -> exists l0, load_layer c f (l_name l) = Some l0 /\ core l = core l0.
Lemma cores_ok_set c f m l l0 : cores_ok c f m -> lm_get m (l_name l0) = Some l0 -> core l = core l0 ->
  cores_ok c f (lm_set m l).
Proof.
  intros H Hg Hc x Hx. apply lm_set_in in Hx as [->|Hx]; [|now apply H].
  destruct (H l0 (lm_get_in _ _ _ Hg)) as (l1 & E1 & E2). exists l1.
  assert (l_name l = l_name l0) as -> by (unfold core in Hc; now injection Hc). split; [exact E1|congruence].
Qed.
Lemma cores_ok_overlain c f ms m : cores_ok c f m -> cores_ok c f (overlain_map c ms m).
Proof.
  intros H l Hl. unfold overlain_map in Hl. apply in_map_iff in Hl as (l0 & <- & Hl0). exact (H _ Hl0).
Qed.
Lemma probe_layer_cores c f g um ld n : cores_ok c g (ld_map ld) -> cores_ok c g (ld_map (probe_layer c f um ld n)).
Proof.
  intros H. unfold probe_layer. destruct (lm_get (ld_map ld) n) as [l|] eqn:El; [|exact H].
  cbv zeta. cbn [ld_map].
  pose proof (lm_get_name _ _ _ El) as En. subst n.
  apply (cores_ok_set c g _ _ l H El).
  repeat match goal with |- context [if ?b then _ else _] => destruct b end;
    rewrite ?find_layerstate_core; reflexivity.
Qed.
Lemma fold_probe_cores c f g um names : forall ld, cores_ok c g (ld_map ld) ->
  cores_ok c g (ld_map (fold_left (probe_layer c f um) names ld)).
Proof.
  induction names as [|n r IH]; intros ld H; cbn [fold_left]; [exact H|]. apply IH. now apply probe_layer_cores.
Qed.
Lemma rlf_cores c f : cores_ok c f (read_layer_files c f).
Proof.
  intros l Hl. apply rlf_in in Hl as (n & _ & _ & H). exists l.
  pose proof (load_layer_props _ _ _ _ H) as (<- & _). split; [exact H|reflexivity].
Qed.
Lemma get_layers_cores c um s ld s' : get_layers c um s = (Ret ld, s') -> cores_ok c (w_fs (s_w s)) (ld_map ld).
Proof.
  unfold get_layers, find_layers, bind, get_fs. cbv beta iota.
  destruct (negb (is_dir (w_fs (s_w s)) (c_layers c))); [discriminate|].
  destruct (negb (check_inheritance (read_layer_files c (w_fs (s_w s))))); [discriminate|].
  destruct (normalize_order (read_layer_files c (w_fs (s_w s)))) as [o|]; [|discriminate].
  unfold ret at 1. cbv beta iota. unfold probe_all, bind. rewrite refresh_eq.
  destruct (probe_of (w_ks (s_w s))) as [|ms ds]; [discriminate|].
  unfold get_fs, ret. cbv beta iota. intros H. injection H as <- _.
  apply fold_probe_cores. cbn [ld_map]. apply cores_ok_overlain. apply rlf_cores.
Qed.
