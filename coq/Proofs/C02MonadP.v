(* Reasoning rules for the state monad of Model/Layers.v.
   [hoare I bad P m Q]: started in a state whose world satisfies the invariant I and the
   precondition P, program m ends in a state whose world satisfies I at EVERY exit (return,
   refusal, crash, ...), satisfies Q on return and -- when [bad] is set -- never ends in
   Diverged or Panicked.  Invariants and conditions speak about the world only: the operation
   counter and the log never influence them. *)
From LC Require Import Lib.Bytes Lib.Lex Lib.Fields Lib.PathM Gen.Consts
  Model.MountInfo Model.FsTree Model.Kernel Model.Layers.

Definition wpred := world -> Prop.

Definition hoare {A} (Iv : wpred) (bad : bool) (P : wpred) (m : M A) (Q : A -> wpred) : Prop :=
  forall s, Iv (s_w s) -> P (s_w s) ->
    match m s with
    | (Ret a, s') => Iv (s_w s') /\ Q a (s_w s')
    | (Fail, s') | (Crashed, s') => Iv (s_w s')
    | (Diverged, s') | (Panicked, s') => if bad then False else Iv (s_w s')
    end.

Definition ptrue : wpred := fun _ => True.

Lemma hoare_conseq {A} (Iv : wpred) (bad : bool) (P P' : wpred) (m : M A) (Q Q' : A -> wpred) :
  hoare Iv bad P m Q -> (forall w, Iv w -> P' w -> P w) -> (forall a w, Iv w -> Q a w -> Q' a w) ->
  hoare Iv bad P' m Q'.
Proof.
  intros H HP HQ s HI HP'. specialize (H s HI (HP _ HI HP')).
  destruct (m s) as [[a| | | |] s']; auto. destruct H as [H1 H2]. split; auto.
Qed.

Lemma hoare_pre {A} (Iv : wpred) (bad : bool) (P : wpred) (m : M A) Q :
  (forall w, Iv w -> P w -> hoare Iv bad (fun w' => w' = w) m Q) -> hoare Iv bad P m Q.
Proof. intros H s HI HP. exact (H (s_w s) HI HP s HI eq_refl). Qed.

Lemma hoare_ret {A} (Iv : wpred) (bad : bool) (P : wpred) (a : A) (Q : A -> wpred) :
  (forall w, Iv w -> P w -> Q a w) -> hoare Iv bad P (ret a) Q.
Proof. intros H s HI HP. cbn. auto. Qed.

Lemma hoare_fail {A} (Iv : wpred) (bad : bool) (P : wpred) (Q : A -> wpred) : hoare Iv bad P (@fail A) Q.
Proof. intros s HI HP. cbn. auto. Qed.

Lemma hoare_diverge {A} (Iv : wpred) (P : wpred) (Q : A -> wpred) : hoare Iv false P (@diverge A) Q.
Proof. intros s HI HP. cbn. auto. Qed.

Lemma hoare_panic {A} (Iv : wpred) (P : wpred) (Q : A -> wpred) : hoare Iv false P (@panic A) Q.
Proof. intros s HI HP. cbn. auto. Qed.

Lemma hoare_false {A} (Iv : wpred) (bad : bool) (P : wpred) (m : M A) Q : (forall w, Iv w -> P w -> False) -> hoare Iv bad P m Q.
Proof. intros H s HI HP. destruct (H _ HI HP). Qed.

Lemma hoare_bind {A B} (Iv : wpred) (bad : bool) (P : wpred) (m : M A) (f : A -> M B) Q R :
  hoare Iv bad P m Q -> (forall a, hoare Iv bad (Q a) (f a) R) -> hoare Iv bad P (bind m f) R.
Proof.
  intros Hm Hf s HI HP. unfold bind. specialize (Hm s HI HP).
  destruct (m s) as [[a| | | |] s']; auto.
  destruct Hm as [HI' HQ]. exact (Hf a s' HI' HQ).
Qed.

Lemma hoare_guard (Iv : wpred) (bad : bool) (P : wpred) (b : bool) : hoare Iv bad P (guard b) (fun _ w => P w /\ b = true).
Proof. intros s HI HP. unfold guard. destruct b; cbn; auto. Qed.

Lemma hoare_get_fs (Iv : wpred) (bad : bool) (P : wpred) : hoare Iv bad P get_fs (fun f w => P w /\ f = w_fs w).
Proof. intros s HI HP. cbn. auto. Qed.

Lemma hoare_get_ks (Iv : wpred) (bad : bool) (P : wpred) : hoare Iv bad P get_ks (fun k w => P w /\ k = w_ks w).
Proof. intros s HI HP. cbn. auto. Qed.

(* a pure program: returns without touching the state *)
Lemma hoare_pure {A} (Iv : wpred) (bad : bool) (P : wpred) (m : M A) (Q : A -> wpred) :
  (forall s, Iv (s_w s) -> P (s_w s) ->
     (exists a, m s = (Ret a, s) /\ Q a (s_w s)) \/ m s = (Fail, s)) ->
  hoare Iv bad P m Q.
Proof.
  intros H s HI HP. destruct (H s HI HP) as [(a & E & HQ)|E]; rewrite E; auto.
Qed.

Lemma hoare_mapM_ {A} (Iv : wpred) (bad : bool) (f : A -> M unit) (l : list A) :
  (forall x, In x l -> hoare Iv bad ptrue (f x) (fun _ => ptrue)) ->
  hoare Iv bad ptrue (mapM_ f l) (fun _ => ptrue).
Proof.
  induction l as [|x r IH]; intros H; cbn [mapM_].
  - apply hoare_ret. intros; exact Logic.I.
  - eapply hoare_bind; [apply H; now left|]. intros u. cbv beta. apply IH. intros y Hy. apply H. now right.
Qed.

Lemma hoare_foldM {A} (Iv : wpred) (bad : bool) (J : ldefs -> Prop) (f : ldefs -> A -> M ldefs) (l : list A) :
  (forall ld x, In x l -> J ld -> hoare Iv bad ptrue (f ld x) (fun ld' _ => J ld')) ->
  forall ld, J ld -> hoare Iv bad ptrue (foldM f l ld) (fun ld' _ => J ld').
Proof.
  induction l as [|x r IH]; intros H ld HJ; cbn [foldM].
  - apply hoare_ret. auto.
  - eapply hoare_bind; [apply H; [now left|exact HJ]|]. intros ld'.
    apply hoare_pre. intros w _ HJ'. eapply hoare_conseq; [apply (IH (fun ld0 x0 Hx => H ld0 x0 (or_intror Hx)) ld' HJ')| |]; cbn; auto.
    intros; exact Logic.I.
Qed.

(* ------------------------------------------------------------------ mutating primitives *)
Definition bump (s : mst) (o : op) : mst := MkSt (s_w s) (S (s_n s)) (o :: s_log s).
Lemma bump_w s o : s_w (bump s o) = s_w s.
Proof. reflexivity. Qed.

Lemma hoare_mutate (Iv : wpred) (bad : bool) (P : wpred) e o (act : M unit) :
  hoare Iv bad P act (fun _ => ptrue) -> hoare Iv bad P (mutate e o act) (fun _ => ptrue).
Proof.
  intros H s HI HP. unfold mutate. destruct (e_pretend e); [cbn; auto; split; [exact HI|exact Logic.I]|].
  fold (bump s o).
  pose proof (H (bump s o) HI HP) as H'.
  destruct (e_fault e) as [|k|k].
  - exact H'.
  - destruct (Nat.eqb (s_n s) k); [exact HI|exact H'].
  - destruct (Nat.eqb (s_n s) k); [exact HI|exact H'].
Qed.

(* in a plain environment a mutation is just its action on the bumped state *)
Definition plain_env (e : env) : Prop := e_pretend e = false /\ e_fault e = NoFault.
Lemma mutate_plain e o act s : plain_env e -> mutate e o act s = act (bump s o).
Proof. intros [H1 H2]. unfold mutate. now rewrite H1, H2. Qed.
Lemma mutate_pretend e o act s : e_pretend e = true -> mutate e o act s = (Ret tt, s).
Proof. intros H. unfold mutate. now rewrite H. Qed.

(* the shape of every result of a mutation *)
Lemma mutate_cases e o act s :
  mutate e o act s = (Ret tt, s) \/ mutate e o act s = (Crashed, s)
  \/ mutate e o act s = (Fail, bump s o) \/ mutate e o act s = act (bump s o).
Proof.
  unfold mutate. destruct (e_pretend e); [now left|]. fold (bump s o).
  destruct (e_fault e) as [|k|k]; [now right; right; right| |];
  destruct (Nat.eqb (s_n s) k); auto.
Qed.

(* ------------------------------------------------------------------ primitives as world transformers *)
Definition set_fs (w : world) (f : fsT) : world := MkW f (w_ks w).
Definition set_ks (w : world) (k : kstate) : world := MkW (w_fs w) k.
Definition with_w (s : mst) (w : world) : mst := MkSt w (s_n s) (s_log s).
Definition on_fres (w : world) (r : fres) : option world :=
  match r with FOk f' => Some (set_fs w f') | FErr => None end.
Definition op_result (o : op) (w : world) : option world :=
  match o with
  | OMkdir p => on_fres w (mkdir_all (w_fs w) p)
  | OWriteText _ => Some w
  | OOpen p => on_fres w (open_trunc (w_fs w) p)
  | OAppend _ => Some w
  | ORename a b0 => on_fres w (rename (w_fs w) a b0)
  | ORemove p => on_fres w (remove_all (w_fs w) p)
  | OSymlink l t => on_fres w (symlink (w_fs w) l t)
  | OMount s t ty fl d =>
      match kmount (w_fs w) (w_ks w) s t ty fl d with KOk k' => Some (set_ks w k') | KErr => None end
  | OUmount t fl => match kumount (w_ks w) t fl with KOk k' => Some (set_ks w k') | KErr => None end
  end.
Definition wact (r : world -> option world) : M unit := fun s =>
  match r (s_w s) with Some w' => (Ret tt, with_w s w') | None => (Fail, s) end.

Lemma apply_op_eq o s : apply_op o s = wact (op_result o) s.
Proof.
  destruct s as [[f k] n lg]. unfold apply_op, wact, bind, get_fs, get_ks, op_result, on_fres, put_fs, put_ks, fail, ret, with_w, set_fs, set_ks.
  cbn [s_w w_fs w_ks s_n s_log].
  destruct o; try reflexivity.
  - destruct (mkdir_all f p); reflexivity.
  - destruct (open_trunc f p); reflexivity.
  - destruct (rename f a b0); reflexivity.
  - destruct (remove_all f p); reflexivity.
  - destruct (symlink f link target); reflexivity.
  - destruct (kmount f k src tgt fstype flags data); reflexivity.
  - destruct (kumount k tgt flags); reflexivity.
Qed.

Definition write_result (p c : bytes) (w : world) : option world := on_fres w (write_text (w_fs w) p c).
Definition append_result (p c : bytes) (w : world) : option world := Some (set_fs w (append_file (w_fs w) p c)).
Definition drop_result (tmp : bytes) (w : world) : world :=
  set_fs w (filter (fun x => negb (beq (fst x) tmp)) (w_fs w)).

Lemma write_act_eq p c s :
  (f <- get_fs ;; match write_text f p c with FOk f' => put_fs f' | FErr => fail end) s = wact (write_result p c) s.
Proof.
  destruct s as [[f k] n lg]. unfold wact, write_result, on_fres, bind, get_fs, put_fs, fail, with_w, set_fs. cbn [s_w w_fs w_ks s_n s_log].
  destruct (write_text f p c); reflexivity.
Qed.
Lemma append_act_eq p c s :
  (f <- get_fs ;; put_fs (append_file f p c)) s = wact (append_result p c) s.
Proof. destruct s as [[f k] n lg]. reflexivity. Qed.
Lemma drop_tmp_eq tmp s : drop_tmp tmp s = (Ret tt, with_w s (drop_result tmp (s_w s))).
Proof. destruct s as [[f k] n lg]. reflexivity. Qed.

Lemma hoare_wact (Iv : wpred) (bad : bool) (P : wpred) (act : M unit) r :
  (forall s, act s = wact r s) ->
  (forall w w', Iv w -> P w -> r w = Some w' -> Iv w') ->
  hoare Iv bad P act (fun _ => ptrue).
Proof.
  intros E H s HI HP. rewrite E. unfold wact. destruct (r (s_w s)) as [w'|] eqn:Er; cbn.
  - split; [eapply H; eauto|exact I].
  - exact HI.
Qed.

Lemma hoare_mutate_w (Iv : wpred) (bad : bool) (P : wpred) e o (act : M unit) r :
  (forall s, act s = wact r s) ->
  (forall w w', Iv w -> P w -> r w = Some w' -> Iv w') ->
  hoare Iv bad P (mutate e o act) (fun _ => ptrue).
Proof. intros E H. apply hoare_mutate. eapply hoare_wact; eauto. Qed.

Lemma hoare_do_op (Iv : wpred) (bad : bool) (P : wpred) e o :
  (forall w w', Iv w -> P w -> op_result o w = Some w' -> Iv w') ->
  hoare Iv bad P (do_op e o) (fun _ => ptrue).
Proof. intros H. unfold do_op. eapply hoare_mutate_w; [apply apply_op_eq|exact H]. Qed.

Lemma hoare_write_text (Iv : wpred) (bad : bool) (P : wpred) e p c :
  (forall w w', Iv w -> P w -> write_result p c w = Some w' -> Iv w') ->
  hoare Iv bad P (fs_write_text e p c) (fun _ => ptrue).
Proof. intros H. unfold fs_write_text. eapply hoare_mutate_w; [apply write_act_eq|exact H]. Qed.

Lemma hoare_cursor_writes (Iv : wpred) (bad : bool) e tmp chunks :
  (forall c w, Iv w -> Iv (set_fs w (append_file (w_fs w) tmp c))) ->
  hoare Iv bad ptrue (cursor_writes e tmp chunks) (fun _ => ptrue).
Proof.
  intros H. induction chunks as [|c r IH]; cbn [cursor_writes].
  - apply hoare_ret. intros; exact I.
  - eapply hoare_bind.
    + eapply hoare_mutate_w; [apply append_act_eq|]. intros w w' HI _ E. unfold append_result in E. injection E as <-. now apply H.
    + intros u. exact IH.
Qed.

(* the temporary-file protocol: the invariant has to survive opening, appending to and
   dropping the temporary file, and the final rename *)
Lemma hoare_write_atomically (Iv : wpred) (bad : bool) e p chunks :
  (forall w w', Iv w -> op_result (OOpen (p ++ tmp_suffix)) w = Some w' -> Iv w') ->
  (forall c w, Iv w -> Iv (set_fs w (append_file (w_fs w) (p ++ tmp_suffix) c))) ->
  (forall w, Iv w -> Iv (drop_result (p ++ tmp_suffix) w)) ->
  (forall w w', Iv w -> op_result (ORename (p ++ tmp_suffix) p) w = Some w' -> Iv w') ->
  hoare Iv bad ptrue (write_file_atomically e p chunks) (fun _ => ptrue).
Proof.
  intros Hopen Happ Hdrop Hren s HI _. unfold write_file_atomically.
  pose proof (hoare_do_op Iv bad ptrue e (OOpen (p ++ tmp_suffix)) (fun w w' H1 _ H2 => Hopen w w' H1 H2) s HI I) as H1.
  destruct (do_op e (OOpen (p ++ tmp_suffix)) s) as [[u1| | | |] s1]; try exact H1.
  destruct H1 as [HI1 _].
  pose proof (hoare_cursor_writes Iv bad e (p ++ tmp_suffix) chunks Happ s1 HI1 I) as H2.
  destruct (cursor_writes e (p ++ tmp_suffix) chunks s1) as [[u2| | | |] s2]; try exact H2.
  - destruct H2 as [HI2 _].
    pose proof (hoare_do_op Iv bad ptrue e (ORename (p ++ tmp_suffix) p) (fun w w' H1 _ H2 => Hren w w' H1 H2) s2 HI2 I) as H3.
    destruct (do_op e (ORename (p ++ tmp_suffix) p) s2) as [[u3| | | |] s3]; try exact H3.
    rewrite drop_tmp_eq. cbn. now apply Hdrop.
  - rewrite drop_tmp_eq. cbn. now apply Hdrop.
Qed.

(* ------------------------------------------------------------------ state-independent postconditions *)
Definition hs {A} (Iv : wpred) (bad : bool) (m : M A) (Q : A -> Prop) : Prop :=
  hoare Iv bad ptrue m (fun a _ => Q a).

Lemma hs_ret {A} (Iv : wpred) (bad : bool) (a : A) (Q : A -> Prop) : Q a -> hs Iv bad (ret a) Q.
Proof. intros H. apply hoare_ret. auto. Qed.
Lemma hs_fail {A} (Iv : wpred) (bad : bool) (Q : A -> Prop) : hs Iv bad (@fail A) Q.
Proof. apply hoare_fail. Qed.
Lemma hs_weaken {A} (Iv : wpred) (bad : bool) (m : M A) (Q Q' : A -> Prop) :
  hs Iv bad m Q -> (forall a, Q a -> Q' a) -> hs Iv bad m Q'.
Proof. intros H HQ. eapply hoare_conseq; [exact H|auto|]. cbn. auto. Qed.
Lemma hs_bind {A B} (Iv : wpred) (bad : bool) (m : M A) (f : A -> M B) (Q : A -> Prop) (R : B -> Prop) :
  hs Iv bad m Q -> (forall a, Q a -> hs Iv bad (f a) R) -> hs Iv bad (bind m f) R.
Proof.
  intros Hm Hf s HI HP. unfold bind. specialize (Hm s HI HP).
  destruct (m s) as [[a| | | |] s']; auto.
  destruct Hm as [HI' HQ]. exact (Hf a HQ s' HI' I).
Qed.
Lemma hs_seq {A B} (Iv : wpred) (bad : bool) (m : M A) (k : M B) (R : B -> Prop) :
  hs Iv bad m (fun _ => True) -> hs Iv bad k R -> hs Iv bad (bind m (fun _ => k)) R.
Proof. intros Hm Hk. eapply hs_bind; [exact Hm|]. intros _ _. exact Hk. Qed.
Lemma hs_guard_k {B} (Iv : wpred) (bad : bool) (b : bool) (k : M B) (R : B -> Prop) :
  (b = true -> hs Iv bad k R) -> hs Iv bad (bind (guard b) (fun _ => k)) R.
Proof.
  intros H. destruct b.
  - intros s HI HP. exact (H eq_refl s HI HP).
  - intros s HI HP. cbn. exact HI.
Qed.
Lemma hs_get_fs_k {B} (Iv : wpred) (bad : bool) (k : fsT -> M B) (R : B -> Prop) :
  (forall f, hs Iv bad (k f) R) -> hs Iv bad (bind get_fs k) R.
Proof. intros H s HI HP. exact (H _ s HI HP). Qed.
Lemma hs_true {A} (Iv : wpred) (bad : bool) (m : M A) :
  hoare Iv bad ptrue m (fun _ => ptrue) -> hs Iv bad m (fun _ => True).
Proof. exact (fun H => H). Qed.
Lemma hs_mapM_ {A} (Iv : wpred) (bad : bool) (f : A -> M unit) (l : list A) :
  (forall x, In x l -> hs Iv bad (f x) (fun _ => True)) -> hs Iv bad (mapM_ f l) (fun _ => True).
Proof. intros H. apply hoare_mapM_. exact H. Qed.
Lemma hs_foldM {A} (Iv : wpred) (bad : bool) (J : ldefs -> Prop) (f : ldefs -> A -> M ldefs) (l : list A) :
  (forall ld x, In x l -> J ld -> hs Iv bad (f ld x) J) ->
  forall ld, J ld -> hs Iv bad (foldM f l ld) J.
Proof. intros H ld HJ. apply (hoare_foldM Iv bad J f l); assumption. Qed.
Lemma hs_panic_free {A} (Iv : wpred) (m : M A) (Q : A -> Prop) s :
  hs Iv true m Q -> Iv (s_w s) ->
  match fst (m s) with Diverged | Panicked => False | _ => True end.
Proof. intros H HI. specialize (H s HI I). destruct (m s) as [[a| | | |] s']; cbn; auto. Qed.

(* ------------------------------------------------------------------ the temporary-file protocol, precisely *)
Lemma mutate_np e o act s : e_pretend e = false ->
  mutate e o act s = (Crashed, s) \/ mutate e o act s = (Fail, bump s o) \/ mutate e o act s = act (bump s o).
Proof.
  intros Hp. unfold mutate. rewrite Hp. fold (bump s o).
  destruct (e_fault e) as [|k|k]; [now right; right| |]; destruct (Nat.eqb (s_n s) k); auto.
Qed.
Lemma cursor_writes_pretend e tmp chunks s : e_pretend e = true -> cursor_writes e tmp chunks s = (Ret tt, s).
Proof.
  intros Hp. induction chunks as [|c r IH]; cbn [cursor_writes]; [reflexivity|].
  unfold bind. rewrite mutate_pretend by exact Hp. exact IH.
Qed.
Lemma write_atomically_pretend e p chunks s : e_pretend e = true -> write_file_atomically e p chunks s = (Ret tt, s).
Proof.
  intros Hp. unfold write_file_atomically, do_op. rewrite mutate_pretend by exact Hp.
  rewrite cursor_writes_pretend by exact Hp. now rewrite mutate_pretend by exact Hp.
Qed.

Lemma cursor_writes_rule (Tv : bytes -> wpred) e tmp :
  e_pretend e = false ->
  (forall x c w, Tv x w -> Tv (x ++ c) (set_fs w (append_file (w_fs w) tmp c))) ->
  forall chunks x s, Tv x (s_w s) ->
    match cursor_writes e tmp chunks s with
    | (Ret _, s') => Tv (x ++ concat chunks) (s_w s')
    | (Fail, s') | (Crashed, s') => exists y, Tv y (s_w s')
    | _ => False
    end.
Proof.
  intros Hp Happ. induction chunks as [|c r IH]; intros x s HT; cbn [cursor_writes concat].
  - cbn. now rewrite app_nil_r.
  - unfold bind at 1.
    destruct (mutate_np e (OAppend tmp) (f <- get_fs ;; put_fs (append_file f tmp c)) s Hp) as [E|[E|E]]; rewrite E.
    + eauto.
    + exists x. exact HT.
    + rewrite append_act_eq. unfold wact, append_result. cbn [s_w bump with_w].
      specialize (IH (x ++ c) (with_w (bump s (OAppend tmp)) (set_fs (s_w s) (append_file (w_fs (s_w s)) tmp c)))).
      rewrite <- app_assoc in IH. apply IH. cbn [with_w s_w]. now apply Happ.
Qed.

Lemma write_atomically_rule (Iv : wpred) (Tv : bytes -> wpred) (bad : bool) e p chunks :
  (forall w w', Iv w -> op_result (OOpen (p ++ tmp_suffix)) w = Some w' -> Tv [] w') ->
  (forall x c w, Tv x w -> Tv (x ++ c) (set_fs w (append_file (w_fs w) (p ++ tmp_suffix) c))) ->
  (forall x w, Tv x w -> Iv (drop_result (p ++ tmp_suffix) w)) ->
  (forall w w', Tv (concat chunks) w -> op_result (ORename (p ++ tmp_suffix) p) w = Some w' -> Iv w') ->
  (forall x w, Tv x w -> Iv w) ->
  hoare Iv bad ptrue (write_file_atomically e p chunks) (fun _ => ptrue).
Proof.
  intros Hopen Happ Hdrop Hren Hweak s HI _.
  destruct (e_pretend e) eqn:Hp.
  { rewrite write_atomically_pretend by exact Hp. split; [exact HI|exact I]. }
  unfold write_file_atomically, do_op.
  destruct (mutate_np e (OOpen (p ++ tmp_suffix)) (apply_op (OOpen (p ++ tmp_suffix))) s Hp) as [E|[E|E]]; rewrite E.
  - exact HI.
  - exact HI.
  - rewrite apply_op_eq. unfold wact. cbn [s_w bump].
    destruct (op_result (OOpen (p ++ tmp_suffix)) (s_w s)) as [w1|] eqn:Eo; [|exact HI].
    pose proof (Hopen _ _ HI Eo) as HT.
    pose proof (cursor_writes_rule Tv e (p ++ tmp_suffix) Hp Happ chunks [] (with_w (bump s (OOpen (p ++ tmp_suffix))) w1) HT) as HC.
    destruct (cursor_writes e (p ++ tmp_suffix) chunks _) as [[u| | | |] s2]; try contradiction.
    + cbn [app] in HC.
      destruct (mutate_np e (ORename (p ++ tmp_suffix) p) (apply_op (ORename (p ++ tmp_suffix) p)) s2 Hp) as [E2|[E2|E2]]; rewrite E2.
      * eapply Hweak; eauto.
      * rewrite drop_tmp_eq. cbn [s_w bump with_w]. eapply Hdrop; eauto.
      * rewrite apply_op_eq. unfold wact. cbn [s_w bump].
        destruct (op_result (ORename (p ++ tmp_suffix) p) (s_w s2)) as [w3|] eqn:Er.
        -- split; [eapply Hren; eauto|exact I].
        -- rewrite drop_tmp_eq. cbn [s_w bump with_w]. eapply Hdrop; eauto.
    + destruct HC as (y & HC). rewrite drop_tmp_eq. cbn [s_w with_w]. eapply Hdrop; eauto.
    + destruct HC as (y & HC). eapply Hweak; eauto.
Qed.

(* ------------------------------------------------------------------ postconditions on return (no invariant) *)
Definition post {A} (P : wpred) (m : M A) (Q : A -> wpred) : Prop := hoare ptrue false P m Q.

Lemma post_of_hs {A} (Iv : wpred) (m : M A) : hs Iv false m (fun _ => True) -> post Iv m (fun _ => Iv).
Proof.
  intros H s _ HI. specialize (H s HI I). destruct (m s) as [[a| | | |] s']; try exact I.
  destruct H as [H _]. split; [exact I|exact H].
Qed.
Lemma post_do_op e o (P Q : wpred) : e_pretend e = false ->
  (forall w w', P w -> op_result o w = Some w' -> Q w') -> post P (do_op e o) (fun _ => Q).
Proof.
  intros Hp H s _ HP. unfold do_op. destruct (mutate_np e o (apply_op o) s Hp) as [E|[E|E]]; rewrite E; try exact I.
  rewrite apply_op_eq. unfold wact. cbn [s_w bump]. destruct (op_result o (s_w s)) as [w'|] eqn:Eo; [|exact I].
  split; [exact I|]. eapply H; eauto.
Qed.
Lemma post_write_atomically (P Q : wpred) (Tv : bytes -> wpred) e p chunks : e_pretend e = false ->
  (forall w w', P w -> op_result (OOpen (p ++ tmp_suffix)) w = Some w' -> Tv [] w') ->
  (forall x c w, Tv x w -> Tv (x ++ c) (set_fs w (append_file (w_fs w) (p ++ tmp_suffix) c))) ->
  (forall w w', Tv (concat chunks) w -> op_result (ORename (p ++ tmp_suffix) p) w = Some w' -> Q w') ->
  post P (write_file_atomically e p chunks) (fun _ => Q).
Proof.
  intros Hp Hopen Happ Hren s _ HP. unfold write_file_atomically, do_op.
  destruct (mutate_np e (OOpen (p ++ tmp_suffix)) (apply_op (OOpen (p ++ tmp_suffix))) s Hp) as [E|[E|E]]; rewrite E; try exact I.
  rewrite apply_op_eq. unfold wact. cbn [s_w bump].
  destruct (op_result (OOpen (p ++ tmp_suffix)) (s_w s)) as [w1|] eqn:Eo; [|exact I].
  pose proof (Hopen _ _ HP Eo) as HT.
  pose proof (cursor_writes_rule Tv e (p ++ tmp_suffix) Hp Happ chunks [] (with_w (bump s (OOpen (p ++ tmp_suffix))) w1) HT) as HC.
  destruct (cursor_writes e (p ++ tmp_suffix) chunks _) as [[u| | | |] s2]; try contradiction.
  - cbn [app] in HC.
    destruct (mutate_np e (ORename (p ++ tmp_suffix) p) (apply_op (ORename (p ++ tmp_suffix) p)) s2 Hp) as [E2|[E2|E2]]; rewrite E2.
    + exact I.
    + rewrite drop_tmp_eq. exact I.
    + rewrite apply_op_eq. unfold wact. cbn [s_w bump].
      destruct (op_result (ORename (p ++ tmp_suffix) p) (s_w s2)) as [w3|] eqn:Er.
      * split; [exact I|]. eapply Hren; eauto.
      * rewrite drop_tmp_eq. exact I.
  - rewrite drop_tmp_eq. exact I.
  - exact I.
Qed.
Lemma post_mapM_ {A} (Pk : list A -> wpred) (f : A -> M unit) (l : list A) :
  (forall done x rest, l = done ++ x :: rest -> post (Pk done) (f x) (fun _ => Pk (done ++ [x]))) ->
  post (Pk []) (mapM_ f l) (fun _ => Pk l).
Proof.
  assert (G : forall rest done, l = done ++ rest ->
            (forall done0 x rest0, l = done0 ++ x :: rest0 -> post (Pk done0) (f x) (fun _ => Pk (done0 ++ [x]))) ->
            post (Pk done) (mapM_ f rest) (fun _ => Pk l)).
  { induction rest as [|x rest IH]; intros done E H; cbn [mapM_].
    - rewrite app_nil_r in E. subst done. apply hoare_ret. auto.
    - eapply hoare_bind; [apply (H done x rest E)|]. intros u. cbv beta.
      apply IH; [|exact H]. rewrite E, <- app_assoc. reflexivity. }
  intros H. apply (G l []); [reflexivity|exact H].
Qed.
Lemma post_bind {A B} (P : wpred) (m : M A) (f : A -> M B) Q R :
  post P m Q -> (forall a, post (Q a) (f a) R) -> post P (bind m f) R.
Proof. apply hoare_bind. Qed.
Lemma post_conseq {A} (P P' : wpred) (m : M A) (Q Q' : A -> wpred) :
  post P m Q -> (forall w, P' w -> P w) -> (forall a w, Q a w -> Q' a w) -> post P' m Q'.
Proof. intros H H1 H2. eapply hoare_conseq; [exact H|intros w _; apply H1|intros a w _; apply H2]. Qed.
Lemma post_guard_k {B} (P : wpred) (b : bool) (k : M B) R :
  (b = true -> post P k R) -> post P (bind (guard b) (fun _ => k)) R.
Proof.
  intros H. destruct b.
  - intros s HI HP. exact (H eq_refl s HI HP).
  - intros s HI HP. cbn. exact I.
Qed.
Lemma post_get_fs_k {B} (P : wpred) (k : fsT -> M B) R :
  (forall f, post (fun w => P w /\ f = w_fs w) (k f) R) -> post P (bind get_fs k) R.
Proof. intros H s HI HP. exact (H _ s HI (conj HP eq_refl)). Qed.
Lemma post_fix_world {A} (P : wpred) (m : M A) Q :
  (forall w0, P w0 -> post (fun w => w = w0) m Q) -> post P m Q.
Proof. intros H s HI HP. exact (H (s_w s) HP s HI eq_refl). Qed.
Lemma post_false {A} (P : wpred) (m : M A) Q : (forall w, P w -> False) -> post P m Q.
Proof. intros H s _ HP. destruct (H _ HP). Qed.
Lemma post_ret {A} (P : wpred) (a : A) (Q : A -> wpred) : (forall w, P w -> Q a w) -> post P (ret a) Q.
Proof. intros H. apply hoare_ret. intros w _. apply H. Qed.
Lemma post_fail {A} (P : wpred) (Q : A -> wpred) : post P (@fail A) Q.
Proof. apply hoare_fail. Qed.
