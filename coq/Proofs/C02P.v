(* C02: the property conjuncts of Cases/C02.v hold of the model's own step. *)
From LC Require Import Lib.Bytes Lib.Lex Lib.Fields Lib.PathM Gen.Consts
  Model.MountInfo Model.FsTree Model.Kernel Model.Layers
  Cases.Verdict Cases.LC Cases.C02
  Proofs.MountInfoP Proofs.C02MonadP Proofs.C02ForestP Proofs.C02KernelP Proofs.C02LayersP Proofs.C02aP Proofs.C02bP.
Import LC LCS.
Local Open Scope nat_scope.

Definition start (w : wobs) : mst := MkSt (world_of w) 0 [].

Lemma view_model_eq cfg w e cmd um :
  view_of_model cfg w e cmd um =
  let r := run_command e cfg um cmd (start w) in
  MkV e cmd um (rclass_of (fst r)) (rev (s_log (snd r)))
      (MkWO (w_fs (s_w (snd r))) (w_ks (s_w (snd r))))
      (match fst r with Ret (Some ld) => Some (sort_lobs (map lobs_of (ld_map ld))) | _ => None end).
Proof. unfold view_of_model, run, start. destruct (run_command _ _ _ _ _) as [o st]. reflexivity. Qed.

(* the decidable hypotheses on the world before the step *)
Definition kernel_wf (w : wobs) : bool := wf_table (ks_tab (wo_ks w)).
Definition names_distinct (cfg : cfgT) (w : wobs) : bool := nodup_paths (children (wo_fs w) (c_layers cfg)).

Theorem no_diverge cfg w e cmd um :
  C02.forest_ok cfg (wo_fs w) = true -> names_distinct cfg w = true ->
  match v_res (view_of_model cfg w e cmd um) with RDiverge | RPanic => false | _ => true end = true.
Proof.
  intros HF HN. rewrite view_model_eq. cbv zeta. cbn [v_res].
  unfold C02.forest_ok in HF. apply forest_ok_parts in HF as [HC _].
  pose proof (run_command_no_bad e cfg um cmd (start w) HC (nodup_paths_NoDup _ HN)) as H.
  destruct (fst (run_command e cfg um cmd (start w))); cbn in *; auto; contradiction.
Qed.

Theorem breaking_refused_view cfg w e cmd um :
  let v := view_of_model cfg w e cmd um in
  (negb (C02.forest_ok cfg (wo_fs w) && base_set_up cfg (wo_fs w) && C02.breaking cfg (wo_fs w) (v_cmd v))
   || (rclass_beq (v_res v) RFail && unchanged w v)) = true.
Proof.
  intros v. subst v. rewrite view_model_eq. cbv zeta. cbn [v_cmd v_res].
  destruct (C02.forest_ok cfg (wo_fs w)) eqn:HF; [|reflexivity].
  destruct (base_set_up cfg (wo_fs w)); [|reflexivity].
  destruct (C02.breaking cfg (wo_fs w) cmd) eqn:HB; [|reflexivity]. cbn [andb negb orb].
  rewrite (breaking_refused e cfg um cmd (start w) HF HB). cbn [fst snd rclass_of rclass_beq andb].
  unfold unchanged. destruct w as [f k]. cbn [start world_of s_w w_fs w_ks wo_fs wo_ks v_after].
  now rewrite fs_beq_refl, ktab_beq_refl.
Qed.

(* ------------------------------------------------------------------ (c) and (d) on the view *)
From LC Require Import Proofs.C02cP Proofs.C02dP Proofs.C02eP.

Definition paths_distinct (w : wobs) : bool := nodup_paths (map fst (wo_fs w)).

Theorem forest_preserved_view cfg w e cmd um :
  cfg_ok cfg = true -> fs_ok cfg (wo_fs w) = true -> names_distinct cfg w = true ->
  let v := view_of_model cfg w e cmd um in
  in_scope e cmd (v_res v) = true ->
  (negb (C02.forest_ok cfg (wo_fs w)) || C02.forest_ok cfg (wo_fs (v_after v))) = true.
Proof.
  intros Hcfg Hfs Hnd v. subst v. rewrite view_model_eq. cbv zeta. cbn [v_res v_after wo_fs]. intros Hsc.
  destruct (C02.forest_ok cfg (wo_fs w)) eqn:HF; [|reflexivity]. cbn [negb orb].
  apply (forest_preserved_run e cfg um cmd (start w)); auto.
Qed.

Theorem rebase_exact_view cfg w e cmd um :
  cfg_ok cfg = true -> fs_ok cfg (wo_fs w) = true -> paths_distinct w = true ->
  e_pretend e = false ->
  let v := view_of_model cfg w e cmd um in
  match v_cmd v, v_res v with
  | CRebase a b0, ROk => C02.rebase_exact cfg (wo_fs w) (wo_fs (v_after v)) a b0
  | _, _ => true
  end = true.
Proof.
  intros Hcfg Hfs Hnd Hnp v. subst v. rewrite view_model_eq. cbv zeta. cbn [v_cmd v_res v_after wo_fs].
  destruct cmd; try reflexivity.
  pose proof (rebase_exact_run e cfg um a b0 (start w) Hcfg Hfs Hnd Hnp) as H.
  destruct (run_command e cfg um (CRebase a b0) (start w)) as [[r| | | |] s']; try reflexivity. exact H.
Qed.

Theorem rename_exact_view cfg w e cmd um :
  cfg_ok cfg = true -> fs_ok cfg (wo_fs w) = true -> paths_distinct w = true ->
  e_pretend e = false ->
  let v := view_of_model cfg w e cmd um in
  match v_cmd v, v_res v with
  | CRename a n, ROk => C02.rename_exact cfg (wo_fs w) (wo_fs (v_after v)) a n
  | _, _ => true
  end = true.
Proof.
  intros Hcfg Hfs Hnd Hnp v. subst v. rewrite view_model_eq. cbv zeta. cbn [v_cmd v_res v_after wo_fs].
  destruct cmd; try reflexivity.
  pose proof (rename_exact_run e cfg um a b0 (start w) Hcfg Hfs Hnd Hnp) as H.
  destruct (run_command e cfg um (CRename a b0) (start w)) as [[r| | | |] s']; try reflexivity. exact H.
Qed.

(* the installation can be listed: on a forest with the base set up the listing command returns
   (in every environment: it performs no operation, so pretend mode and the fault plan do not matter) *)
Lemma probe_returns e c um s :
  C02.forest_ok c (w_fs (s_w s)) = true -> base_set_up c (w_fs (s_w s)) = true ->
  exists ld, fst (run_command e c um CProbe s) = Ret (Some ld).
Proof.
  intros HF HB. unfold C02.forest_ok in HF. apply forest_ok_parts in HF as [HC [o HO]].
  assert (HD : is_dir (w_fs (s_w s)) (c_layers c) = true).
  { unfold base_set_up in HB. apply andb_true_iff in HB as [HB _]. apply andb_true_iff in HB as [HB _].
    apply andb_true_iff in HB as [_ HB]. exact HB. }
  destruct (C02KernelP.probe_of_total (w_ks (s_w s))) as (ms & ds & EP).
  unfold run_command, bind, get_fs, guard. rewrite HB. unfold ret at 1.
  unfold get_layers, find_layers, bind, get_fs. rewrite HD, HC, HO. cbn [negb]. unfold ret at 1.
  unfold probe_all, refresh_mounts, bind, get_ks. rewrite EP. unfold ret, get_fs. cbn [fst].
  eexists. reflexivity.
Qed.

Theorem listable cfg w e um :
  C02.forest_ok cfg (wo_fs w) = true -> base_set_up cfg (wo_fs w) = true ->
  v_res (view_of_model cfg w e CProbe um) = ROk.
Proof.
  intros HF HB. rewrite view_model_eq. cbv zeta. cbn [v_res].
  destruct (probe_returns e cfg um (start w)) as (ld & E); [destruct w; exact HF|destruct w; exact HB|].
  rewrite E. reflexivity.
Qed.

(* all five conjuncts of step_spec together *)
Theorem step_spec_view cfg w e cmd um :
  cfg_ok cfg = true -> fs_ok cfg (wo_fs w) = true -> names_distinct cfg w = true ->
  paths_distinct w = true ->
  C02.forest_ok cfg (wo_fs w) = true ->
  in_scope e cmd (v_res (view_of_model cfg w e cmd um)) = true ->
  C02.step_spec cfg w (view_of_model cfg w e cmd um) = true.
Proof.
  intros Hcfg Hfs Hnd Hpd HF Hsc. unfold C02.step_spec.
  pose proof (no_diverge cfg w e cmd um HF Hnd) as H1.
  pose proof (forest_preserved_view cfg w e cmd um Hcfg Hfs Hnd Hsc) as H2.
  pose proof (breaking_refused_view cfg w e cmd um) as H3. cbv zeta in H2, H3.
  rewrite H1, H2, H3. cbn [andb].
  assert (Ee : v_env (view_of_model cfg w e cmd um) = e) by (rewrite view_model_eq; reflexivity).
  rewrite Ee. destruct (e_pretend e) eqn:Hp; [reflexivity|]. cbn [negb andb].
  destruct (e_fault e); [|reflexivity|reflexivity]. cbn [negb orb].
  pose proof (rebase_exact_view cfg w e cmd um Hcfg Hfs Hpd Hp) as H4. cbv zeta in H4.
  pose proof (rename_exact_view cfg w e cmd um Hcfg Hfs Hpd Hp) as H5. cbv zeta in H5.
  assert (Ec : v_cmd (view_of_model cfg w e cmd um) = cmd) by (rewrite view_model_eq; reflexivity).
  rewrite Ec in *. rewrite HF. cbn [andb].
  assert (H6 : (negb (base_set_up cfg (wo_fs w))
                || match cmd with CProbe => rclass_beq (v_res (view_of_model cfg w e cmd um)) ROk | _ => true end) = true).
  { destruct (base_set_up cfg (wo_fs w)) eqn:HB; [|reflexivity]. cbn [andb negb orb].
    destruct cmd; try reflexivity. now rewrite (listable cfg w e um HF HB). }
  rewrite H6, andb_true_r. destruct cmd; try reflexivity; [exact H5|exact H4].
Qed.

Lemma frame_both : forall c f f',
  (forall n, memb n (children f (c_layers c)) = memb n (children f' (c_layers c))) ->
  (forall n, legal_name n = true -> cfg_file c f n = cfg_file c f' n) ->
  (forall n, lm_get (read_layer_files c f) n = lm_get (read_layer_files c f') n)
  /\ C02.forest_ok c f = C02.forest_ok c f'.
Proof. intros c f f' H1 H2. split; [now apply frame_lookup|now apply frame_forest_ok]. Qed.

Lemma pretend_fs_unchanged_view : forall cfg w e cmd um,
  names_distinct cfg w = true -> e_pretend e = true -> is_edit cmd = false ->
  wo_fs (v_after (view_of_model cfg w e cmd um)) = wo_fs w.
Proof.
  intros cfg w e cmd um Hnd Hp Hne. rewrite view_model_eq. cbv zeta. cbn [v_after wo_fs].
  exact (pretend_same cfg e um (start w) (C02LayersP.nodup_paths_NoDup _ Hnd) cmd Hp Hne).
Qed.

