(* C02: the property conjuncts of Cases/C02.v hold of the model's own step. *)
From LC Require Import Lib.Bytes Lib.Lex Lib.Fields Lib.PathM Gen.Consts
  Model.MountInfo Model.FsTree Model.Kernel Model.Layers
  Cases.Verdict Cases.LC Cases.C02
  Proofs.MountInfoP Proofs.MonadP Proofs.ForestP Proofs.KernelP Proofs.LayersP Proofs.C02aP Proofs.C02bP.
Import LC LCS.
Local Open Scope nat_scope.

Definition start (w : wobs) : mst := MkSt (world_of w) 0 [].

Lemma view_model_eq cfg w e cmd um :
  view_of_model cfg w e cmd um =
  let r := run_command e cfg um cmd (start w) in
  MkV e cmd um (rclass_of (fst r)) (rev (s_log (snd r)))
      (MkWO (w_fs (s_w (snd r))) (w_ks (s_w (snd r))))
      (match fst r with Ret (Some ld) => Some (sort_lobs (map lobs_of (ld_map ld))) | _ => None end).
Proof. unfold view_of_model, run, start. destruct (run_command _ _ _ _ _) as [o st]. reflexivity. Qed.

(* the decidable hypotheses on the world before the step *)
Definition kernel_wf (w : wobs) : bool := wf_table (ks_tab (wo_ks w)).
Definition names_distinct (cfg : cfgT) (w : wobs) : bool := nodup_paths (children (wo_fs w) (c_layers cfg)).

Theorem no_diverge cfg w e cmd um :
  C02.forest_ok cfg (wo_fs w) = true -> kernel_wf w = true -> names_distinct cfg w = true ->
  match v_res (view_of_model cfg w e cmd um) with RDiverge | RPanic => false | _ => true end = true.
Proof.
  intros HF HK HN. rewrite view_model_eq. cbv zeta. cbn [v_res].
  unfold C02.forest_ok in HF. apply forest_ok_parts in HF as [HC _].
  pose proof (run_command_no_bad e cfg um cmd (start w) HK HC (nodup_paths_NoDup _ HN)) as H.
  destruct (fst (run_command e cfg um cmd (start w))); cbn in *; auto; contradiction.
Qed.

Theorem breaking_refused_view cfg w e cmd um :
  kernel_wf w = true ->
  let v := view_of_model cfg w e cmd um in
  (negb (C02.forest_ok cfg (wo_fs w) && base_set_up cfg (wo_fs w) && C02.breaking cfg (wo_fs w) (v_cmd v))
   || (rclass_beq (v_res v) RFail && unchanged w v)) = true.
Proof.
  intros HK v. subst v. rewrite view_model_eq. cbv zeta. cbn [v_cmd v_res].
  destruct (C02.forest_ok cfg (wo_fs w)) eqn:HF; [|reflexivity].
  destruct (base_set_up cfg (wo_fs w)); [|reflexivity].
  destruct (C02.breaking cfg (wo_fs w) cmd) eqn:HB; [|reflexivity]. cbn [andb negb orb].
  rewrite (breaking_refused e cfg um cmd (start w) HK HF HB). cbn [fst snd rclass_of rclass_beq andb].
  unfold unchanged. destruct w as [f k]. cbn [start world_of s_w w_fs w_ks wo_fs wo_ks v_after].
  now rewrite fs_beq_refl, ktab_beq_refl.
Qed.
