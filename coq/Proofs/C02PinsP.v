(* C02 -- constants of Gen/Consts.v (rewritten from the source of /repo by tools/genconsts on
   every run) compared with literals.  Used by: the predicate C02.spec (layerconfig, skeleton file) and the init/add/remove/state parts of Model/Layers.v whose values the manual fixes.
   A changed constant makes this file fail to build; the check then reports
   "proof obligation no longer checks" for Properties/C02.v (C02_constants_pinned) instead of
   letting model, predicate and code move together unnoticed. *)
From LC Require Import Lib.Bytes Gen.Consts.
Local Open Scope string_scope.

Lemma c02_constants_pinned :
  (* doc/layercake_directories.adoc, manual page LAYER DIRECTORY: "layerconfig" *)
  D_LayerconfigFile = bs "layerconfig" /\
  (* manual page / doc/layercake_layerconfig.adoc: "default_layerconfig.skel" in the base directory *)
  D_SkeletonLayerconfigFile = bs "default_layerconfig.skel" /\
  (* frozen from the reviewed tree (the extension of the documented skeleton name; `add` appends it to a skeleton name without a dot) *)
  D_SkeletonLayerconfigFileExt = bs ".skel" /\
  (* doc/layercake_layerconfig.adoc prints these six lines (with {pkgdir} already replaced by the default "packages") *)
  D_SkeletonLayerconfig = bs "import rbind /dev /dev
import proc /proc /proc
import rbind /sys /sys
import rbind /var/db/repos /var/db/repos
import rbind /var/cache/distfiles /var/cache/distfiles
import rbind $$base/{pkgdir} /var/cache/binpkgs" /\
  (* property C09 text "<name>~removed"; manual page, remove: "append ~removed to the layer name" *)
  D_RemovedLayerSuffix = bs "~removed" /\
  (* manual page, status, "not yet populated": bin, etc, lib, opt, root, sbin, usr *)
  D_MinimalBuildDirs = bs "bin etc lib opt root sbin usr" /\
  (* manual page EXPORT DIRECTORY / doc/layercake_directories.adoc: "index.html" *)
  D_ExportIndexHtmlName = bs "index.html" /\
  (* frozen from the reviewed tree (the stub page `init` writes; the manual only says "dummy index file") *)
  D_ExportIndexHtml = bs "<!DOCTYPE html>
<html>
   <head>
      <title>binpackager</title>
   </head>
   <body>
      <h1>binpackager</h1>
      <div>Serves prebuilt Gentoo packages</div>
   </body>
</html>

" /\
  (* frozen from the reviewed tree (what `add` writes to build/root/.bashrc of a base layer; not documented) *)
  D_BaseLayerRootBashrc = bs "#!/bin/bash

source /etc/profile
msg=chroot
if [ -n ""$LAYERCAKE_LAYER"" ]; then
        msg=""chroot $LAYERCAKE_LAYER""
fi
export PS1=""($msg) \[\033]0;\u@\h:\w\007\]\[\033[01;31m\]\h\[\033[01;34m\] \w \$\[\033[00m\] ""

".
Proof. repeat split; vm_compute; reflexivity. Qed.
