(* C02 -- constants of Gen/Consts.v (rewritten from the source of /repo by tools/genconsts on
   every run) compared with literals, one lemma per constant so that the failing line names it.
   Used by: the predicate C02.spec (layerconfig, skeleton file) and the init/add/remove/state parts of Model/Layers.v whose values the manual fixes.
   A changed constant makes this file fail to build; the check then reports
   "proof obligation no longer checks" for Properties/C02.v (C02_constants_pinned) instead of
   letting model, predicate and code move together unnoticed.  The literals are repeated, with
   their sources, in the statement of C02_constants_pinned. *)
From LC Require Import Lib.Bytes Gen.Consts.
Local Open Scope string_scope.

Lemma pin_D_LayerconfigFile :
  D_LayerconfigFile = bs "layerconfig".
Proof. (vm_compute; reflexivity) || fail "D_LayerconfigFile of the source tree differs from the reviewed literal (C02_constants_pinned)". Qed.

Lemma pin_D_SkeletonLayerconfigFile :
  D_SkeletonLayerconfigFile = bs "default_layerconfig.skel".
Proof. (vm_compute; reflexivity) || fail "D_SkeletonLayerconfigFile of the source tree differs from the reviewed literal (C02_constants_pinned)". Qed.

Lemma pin_D_SkeletonLayerconfigFileExt :
  D_SkeletonLayerconfigFileExt = bs ".skel".
Proof. (vm_compute; reflexivity) || fail "D_SkeletonLayerconfigFileExt of the source tree differs from the reviewed literal (C02_constants_pinned)". Qed.

Lemma pin_D_SkeletonLayerconfig :
  D_SkeletonLayerconfig = bs "import rbind /dev /dev
import proc /proc /proc
import rbind /sys /sys
import rbind /var/db/repos /var/db/repos
import rbind /var/cache/distfiles /var/cache/distfiles
import rbind $$base/{pkgdir} /var/cache/binpkgs".
Proof. (vm_compute; reflexivity) || fail "D_SkeletonLayerconfig of the source tree differs from the reviewed literal (C02_constants_pinned)". Qed.

Lemma pin_D_RemovedLayerSuffix :
  D_RemovedLayerSuffix = bs "~removed".
Proof. (vm_compute; reflexivity) || fail "D_RemovedLayerSuffix of the source tree differs from the reviewed literal (C02_constants_pinned)". Qed.

Lemma pin_D_MinimalBuildDirs :
  D_MinimalBuildDirs = bs "bin etc lib opt root sbin usr".
Proof. (vm_compute; reflexivity) || fail "D_MinimalBuildDirs of the source tree differs from the reviewed literal (C02_constants_pinned)". Qed.

Lemma pin_D_ExportIndexHtmlName :
  D_ExportIndexHtmlName = bs "index.html".
Proof. (vm_compute; reflexivity) || fail "D_ExportIndexHtmlName of the source tree differs from the reviewed literal (C02_constants_pinned)". Qed.

Lemma pin_D_ExportIndexHtml :
  D_ExportIndexHtml = bs "<!DOCTYPE html>
<html>
   <head>
      <title>binpackager</title>
   </head>
   <body>
      <h1>binpackager</h1>
      <div>Serves prebuilt Gentoo packages</div>
   </body>
</html>

".
Proof. (vm_compute; reflexivity) || fail "D_ExportIndexHtml of the source tree differs from the reviewed literal (C02_constants_pinned)". Qed.

Lemma pin_D_BaseLayerRootBashrc :
  D_BaseLayerRootBashrc = bs "#!/bin/bash

source /etc/profile
msg=chroot
if [ -n ""$LAYERCAKE_LAYER"" ]; then
        msg=""chroot $LAYERCAKE_LAYER""
fi
export PS1=""($msg) \[\033]0;\u@\h:\w\007\]\[\033[01;31m\]\h\[\033[01;34m\] \w \$\[\033[00m\] ""

".
Proof. (vm_compute; reflexivity) || fail "D_BaseLayerRootBashrc of the source tree differs from the reviewed literal (C02_constants_pinned)". Qed.

Definition c02_constants_pinned := conj pin_D_LayerconfigFile (conj pin_D_SkeletonLayerconfigFile (conj pin_D_SkeletonLayerconfigFileExt (conj pin_D_SkeletonLayerconfig (conj pin_D_RemovedLayerSuffix (conj pin_D_MinimalBuildDirs (conj pin_D_ExportIndexHtmlName (conj pin_D_ExportIndexHtml pin_D_BaseLayerRootBashrc))))))).
